"""C04 — debugging information entries are decoded into exactly the encoded tree.  Streams:

  ast : abstract forests (1-4 units in .debug_info of mixed version 2-5 / DWARF32-64 / address size / v5 unit type,
        0-3 type units in .debug_types (sometimes carrying the same signature: the last one wins), 1-3 abbreviation
        tables shared or per unit, each placed anywhere in .debug_abbrev (stray bytes in front of a table) with arbitrary
        codes and unknown tag/attribute numbers, trees to depth 5 (quick) / 6, every attribute form with boundary operands, padded
        LEB128 everywhere, DW_FORM_indirect chains, implicit_const, DW_AT_sibling in every reference form,
        unit-relative / section-relative / signature references, index forms with their base attributes and tables)
        -> Lean SPEC ENCODER -> DWARFInfo built from DebugSectionDescriptors -> iter_CUs / iter_TUs, iter_DIEs,
        then iter_children / get_parent / get_DIE_from_attribute on every entry; compared with `flatten` (property)
        and with the model (correspondence).  References are patched in a second pass from the layout the encoder
        reports (all operand widths are fixed by the abstract object, so the layout does not move).
  raw : byte mutations / truncations of those sections -> model vs code, every error class
"""
import io, itertools, sys
from common import run_impl, canon, hx, rnd_uint, rnd_bytes, classify_exception, uleb

sys.setrecursionlimit(50000)

RULE = ('ast: units/tables/trees/operands drawn from boundary pools (see module docstring); every form code of DWARF 5 '
        'table 7.6 plus the GNU alt forms and the legacy DW_FORM_ref (0x02) in every version; LEB128 lengths = minimal + 0..3; raw: 1-3 byte substitutions, '
        'truncations and extensions of the encoded sections. Non-trivial = distinct request; every ast case decodes '
        'at least one unit header, one abbreviation table and one entry.')
ASSUMPTIONS = ['io.BytesIO read/seek/tell semantics', 'dict insertion order, bisect.bisect_right, list.insert',
               'the DIE / abbreviation / unit caches hold values of pure functions of (unit, offset): observed in one canonical '
               'order (iter_DIEs to the end, then children / parent / reference queries); order independence is C10',
               'tag / attribute / form NAMES are the regenerated enum tables (registry correctness is C17)',
               'no supplementary DWARF file (supplementary_dwarfinfo is None)',
               'get_top_DIE returns _dielist[0]: a DIE fetched BELOW cu_die_offset (sibling / type_offset pointing into the unit '
               'header; never in a well-formed unit) takes the top DIE\'s slot and later answers depend on the cache history — '
               'the model marks such a fetch (low_fetch) and the case is set aside (C10), like state after a failed get_top_DIE']

OFFS = lambda fmt: fmt // 8


def form_cls(form, fmt, asz, ver):
    off = OFFS(fmt)
    fixed = {0x01: asz, 0x02: 4, 0x05: 2, 0x06: 4, 0x07: 8, 0x0b: 1, 0x0c: 1, 0x0e: off, 0x10: asz if ver == 2 else off, 0x11: 1,
             0x12: 2, 0x13: 4, 0x14: 8, 0x17: off, 0x1c: 4, 0x1d: off, 0x1f: off, 0x20: 8, 0x24: 8, 0x25: 1, 0x26: 2,
             0x27: 3, 0x28: 4, 0x29: 1, 0x2a: 2, 0x2b: 3, 0x2c: 4, 0x1f20: off, 0x1f21: off}
    if form in fixed: return ('fixed', fixed[form])
    if form in (0x0f, 0x15, 0x1a, 0x1b, 0x22, 0x23): return ('uleb', None)
    if form == 0x0d: return ('sleb', None)
    if form == 0x08: return ('cstr', None)
    if form in (0x03, 0x04, 0x0a): return ('blockn', {0x03: 2, 0x04: 4, 0x0a: 1}[form])
    if form in (0x09, 0x18): return ('blocku', None)
    if form == 0x1e: return ('b16', None)
    if form == 0x19: return ('present', None)
    if form == 0x21: return ('implicit', None)
    if form == 0x16: return ('indirect', None)
    return None


ALL_FORMS = [0x01, 0x02, 0x03, 0x04, 0x05, 0x06, 0x07, 0x08, 0x09, 0x0a, 0x0b, 0x0c, 0x0d, 0x0e, 0x0f, 0x10, 0x11, 0x12, 0x13, 0x14,
             0x15, 0x16, 0x17, 0x18, 0x19, 0x1a, 0x1b, 0x1c, 0x1d, 0x1e, 0x1f, 0x20, 0x21, 0x22, 0x23, 0x24, 0x25, 0x26, 0x27,
             0x28, 0x29, 0x2a, 0x2b, 0x2c, 0x1f20, 0x1f21]
UNIT_REFS = [0x11, 0x12, 0x13, 0x14, 0x15, 0x02]        # 0x02: the legacy DW_FORM_ref (4 bytes, unit-relative)
STRX = [0x1a, 0x25, 0x26, 0x27, 0x28]
ADDRX = [0x1b, 0x29, 0x2a, 0x2b, 0x2c]
AT_SIBLING, AT_TYPE, AT_IMPORT, AT_SPEC, AT_SIGNATURE = 0x01, 0x49, 0x18, 0x47, 0x69
AT_STR_OFFSETS_BASE, AT_ADDR_BASE, AT_RNGLISTS_BASE, AT_LOCLISTS_BASE = 0x72, 0x73, 0x74, 0x8c
BASE_AT = {AT_STR_OFFSETS_BASE: 'str_offsets', AT_ADDR_BASE: 'addr', AT_RNGLISTS_BASE: 'rnglists', AT_LOCLISTS_BASE: 'loclists'}
KNOWN_AT = [0x03, 0x0b, 0x10, 0x11, 0x12, 0x1b, 0x25, 0x3a, 0x3b, 0x3f, 0x02, 0x1c, 0x55, 0x8b, 0x2137]
UNKNOWN_AT = [0x2300, 0x3fff, 0x4000, 0x1ffff, 0x7d, 0x1234567]
KNOWN_TAG = [0x11, 0x2e, 0x34, 0x24, 0x13, 0x0d, 0x0f, 0x41, 0x3c, 0x4a, 0x05, 0x0b, 0x3d]
UNKNOWN_TAG = [0x5000, 0xffff, 0x4b0, 0x10000, 0x3fffffff]


def uleb_len(v):
    return len(uleb(v))


def pad_len(rng, v):
    return uleb_len(v) + rng.choice([0, 0, 0, 0, 1, 2, 3])


def sleb_min_len(v):
    from common import sleb
    return len(sleb(v))


class World:
    """sections shared by the units of one case, grown as units are generated"""

    def __init__(self, rng, le):
        self.rng, self.le = rng, le
        strs = [b'', b'a', b'main', b'x' * 63, b'y' * 64, b'z' * 65, b'int', bytes(range(1, 40))]
        rng.shuffle(strs)
        self.str = b'\0'.join(strs[:rng.randrange(2, len(strs) + 1)]) + (b'\0' if rng.random() < 0.8 else b'tail')
        self.line_str = b'dir\0file.c\0' + (b'' if rng.random() < 0.5 else b'unterminated')
        self.addr = b''
        self.str_offsets = b''
        self.loclists = b''
        self.rnglists = b''

    def enc(self, n, v):
        return v.to_bytes(n, 'little' if self.le else 'big')

    def str_off(self):
        r = self.rng.random()
        n = len(self.str)
        if r < 0.55:   # a string start
            starts = [0] + [i + 1 for i, b in enumerate(self.str) if b == 0 and i + 1 < n]
            return self.rng.choice(starts)
        if r < 0.98:
            return self.rng.choice([self.rng.randrange(0, n), n - 1])
        return self.rng.choice([n, n + 1, n + 100])

    def contribute(self, fmt, asz):
        """append this unit's tables; returns {section: (base, count)}"""
        rng = self.rng
        off = OFFS(fmt)
        hdr = lambda: rnd_bytes(rng, 8 if fmt == 32 else 16)
        res = {}
        n = rng.choice([1, 2, 5, 300])
        self.str_offsets += hdr()
        res['str_offsets'] = (len(self.str_offsets), n)
        for _ in range(n):
            self.str_offsets += self.enc(off, self.str_off())
        n = rng.choice([1, 3, 260])
        self.addr += hdr()
        res['addr'] = (len(self.addr), n)
        for _ in range(n):
            self.addr += self.enc(asz, rnd_uint(rng, 8 * asz))
        for nm in ('loclists', 'rnglists'):
            n = rng.choice([1, 2, 4])
            setattr(self, nm, getattr(self, nm) + hdr())
            res[nm] = (len(getattr(self, nm)), n)
            for _ in range(n):
                setattr(self, nm, getattr(self, nm) + self.enc(off, rnd_uint(rng, 16)))
        return res

    def secs(self):
        return {'str': hx(self.str), 'line_str': hx(self.line_str), 'addr': hx(self.addr), 'str_offsets': hx(self.str_offsets),
                'loclists': hx(self.loclists), 'rnglists': hx(self.rnglists)}


def gen_table(rng, quick):
    ndecl = rng.choice([2, 3, 4, 6, 9])
    codes = set()
    while len(codes) < ndecl:
        codes.add(rng.choice([rng.randrange(1, 12), rng.randrange(1, 12), 127, 128, 129, 16383, 16384, 0xffffffff, 1 << 40]))
    decls = []
    have_kids = False
    for i, code in enumerate(sorted(codes, key=lambda _: rng.random())):
        children = rng.random() < 0.5
        if i == ndecl - 1 and not have_kids:
            children = True
        have_kids |= children
        tag = rng.choice(KNOWN_TAG + KNOWN_TAG + UNKNOWN_TAG)
        nspec = rng.choice([0, 1, 2, 3, 5, 8])
        names = set()
        specs = []
        if children and rng.random() < 0.45:
            f = rng.choice([0x11, 0x12, 0x12, 0x13, 0x13, 0x14, 0x15, 0x15, 0x10, 0x10, 0x16, 0x16, 0x02])
            specs.append({'name': AT_SIBLING, 'form': f})
            names.add(AT_SIBLING)
        for _ in range(nspec):
            name = rng.choice(KNOWN_AT * 3 + UNKNOWN_AT + [AT_TYPE, AT_IMPORT, AT_SPEC, AT_SIGNATURE])
            if name in names:
                continue
            names.add(name)
            if name in (AT_TYPE, AT_IMPORT, AT_SPEC):
                form = rng.choice(UNIT_REFS + [0x10, 0x10, 0x20, 0x16, 0x1c, 0x24, 0x1f20])
            elif name == AT_SIGNATURE:
                form = 0x20
            else:
                form = rng.choice(ALL_FORMS)
            specs.append({'name': name, 'form': form})
        rng.shuffle(specs)
        for s in specs:
            s['nl'] = pad_len(rng, s['name'])
            s['fl'] = pad_len(rng, s['form'])
            if s['form'] == 0x21:
                c = rng.choice([0, 1, -1, 63, 64, -64, -65, 1 << 31, -(1 << 63), (1 << 63) - 1, rng.randrange(-5000, 5000)])
                s['const'] = c
                s['cl'] = sleb_min_len(c) + rng.choice([0, 0, 1, 2])
        decls.append({'code': code, 'tag': tag, 'children': children, 'specs': specs, 'cl': pad_len(rng, code),
                      'tl': pad_len(rng, tag)})
    t = {'decls': decls, 'end_len': rng.choice([1, 1, 1, 2, 3])}
    # "placed anywhere": bytes no unit refers to in front of the table (alignment padding, a table of a discarded unit,
    # garbage); the units' debug_abbrev_offset is the offset behind them
    r = rng.random()
    if r < 0.35:
        t['gap'] = hx(rng.choice([b'\0', b'\0' * 3, b'\xff' * 2, rnd_bytes(rng, rng.choice([1, 4, 7, 130])),
                                  bytes([1, 0x11, 1, 3, 8, 0, 0, 0])]))
    return t


def top_decl(rng, table, code):
    """a top-entry declaration carrying the base attributes (sometimes after the index forms that need them)"""
    specs = []
    complete = rng.random() < 0.97
    for at in BASE_AT:
        if complete or rng.random() < 0.5:
            specs.append({'name': at, 'form': rng.choice([0x17] * 60 + [0x16] * 8 + [0x06])})
    extra = [{'name': 0x03, 'form': rng.choice(STRX + [0x0e, 0x08])}, {'name': 0x11, 'form': rng.choice(ADDRX + [0x01])},
             {'name': 0x55, 'form': rng.choice([0x23, 0x17])}, {'name': 0x02, 'form': rng.choice([0x22, 0x18])},
             {'name': 0x25, 'form': rng.choice(STRX + [0x1f])}]
    specs += rng.sample(extra, rng.randrange(0, len(extra) + 1))
    rng.shuffle(specs)
    for s in specs:
        s['nl'] = pad_len(rng, s['name'])
        s['fl'] = pad_len(rng, s['form'])
    return {'code': code, 'tag': rng.choice([0x11, 0x3c, 0x41, 0x4a]), 'children': rng.random() < 0.9, 'specs': specs,
            'cl': pad_len(rng, code), 'tl': 1}


def gen_operand(rng, w, form, fmt, asz, ver, tabs, role=None):
    """(final form, ind chain, op) for a declared form"""
    ind = []
    if form == 0x16:
        k = rng.choice([1, 1, 1, 2, 3, 6])
        pool = [f for f in ALL_FORMS if f not in (0x16, 0x21)]
        if role == 'sibling':
            pool = UNIT_REFS + [0x10]
        elif role == 'ref':
            pool = UNIT_REFS + [0x10, 0x20]
        elif role == 'base':
            pool = [0x17] * 30 + [0x06]
        form = rng.choice(pool)
        ind = [pad_len(rng, 0x16) for _ in range(k - 1)] + [pad_len(rng, form)]
    kind, n = form_cls(form, fmt, asz, ver)
    if kind == 'fixed':
        bits = 8 * n
        if form == 0x0e:
            v = w.str_off()
        elif form == 0x1f:
            v = rng.choice([0, 4, 5, len(w.line_str) - 1, 10, rng.randrange(0, len(w.line_str))] * 8 + [len(w.line_str), len(w.line_str) + 7])
        elif form in STRX:
            v = idx_for(rng, tabs['str_offsets'][1])
        elif form in ADDRX:
            v = idx_for(rng, tabs['addr'][1])
        else:
            v = rnd_uint(rng, bits)
        return form, ind, ['nat', v % (1 << bits)]
    if kind == 'uleb':
        if form == 0x1a:
            v = idx_for(rng, tabs['str_offsets'][1])
        elif form == 0x1b:
            v = idx_for(rng, tabs['addr'][1])
        elif form == 0x22:
            v = idx_for(rng, tabs['loclists'][1])
        elif form == 0x23:
            v = idx_for(rng, tabs['rnglists'][1])
        elif form == 0x15:
            v = 0
            return form, ind, ['uleb', 5, v]      # patched later; fixed width keeps the layout
        else:
            v = rnd_uint(rng, rng.choice([7, 14, 32, 64, 70]))
        return form, ind, ['uleb', pad_len(rng, v), v]
    if kind == 'sleb':
        v = rng.choice([0, 1, -1, 63, 64, -64, -65, 8191, 8192, -8192, -8193, (1 << 63) - 1, -(1 << 63), 1 << 70,
                        rng.randrange(-100000, 100000)])
        return form, ind, ['sleb', sleb_min_len(v) + rng.choice([0, 0, 1, 3]), v]
    if kind == 'cstr':
        ln = rng.choice([0, 1, 5, 63, 64, 65])
        return form, ind, ['str', hx(bytes(rng.randrange(1, 256) for _ in range(ln)))]
    if kind == 'blockn':
        ln = rng.choice([0, 1, 2, 17, 255, 256] if n > 1 else [0, 1, 2, 17, 255])
        return form, ind, ['block', hx(rnd_bytes(rng, ln))]
    if kind == 'blocku':
        ln = rng.choice([0, 1, 2, 17, 127, 128, 300])
        return form, ind, ['blocku', pad_len(rng, ln), hx(rnd_bytes(rng, ln))]
    if kind == 'b16':
        return form, ind, ['b16', hx(rnd_bytes(rng, 16))]
    if kind == 'present':
        return form, ind, ['present']
    return form, ind, ['implicit']


def idx_for(rng, count):
    r = rng.random()
    if r < 0.85:
        return rng.randrange(0, count)
    if r < 0.985:
        return count - 1
    return count + rng.choice([0, 1, 1000])


def gen_tree(rng, w, table, fmt, asz, ver, tabs, depth, maxdepth, fan, budget, top=None):
    decl = top if top is not None else rng.choice(table['decls'])
    if depth >= maxdepth or budget[0] <= 0:
        leafs = [d for d in table['decls'] if not d['children']]
        if top is None and leafs:
            decl = rng.choice(leafs)
    budget[0] -= 1
    attrs = []
    for s in decl['specs']:
        role = 'sibling' if s['name'] == AT_SIBLING else 'ref' if s['name'] in (AT_TYPE, AT_IMPORT, AT_SPEC) else \
            'base' if s['name'] in BASE_AT else None
        form, ind, op = gen_operand(rng, w, s['form'], fmt, asz, ver, tabs, role)
        a = {'form': form, 'op': op, 'name': s['name']}
        if ind:
            a['ind'] = ind
        if s['name'] in BASE_AT and op[0] == 'nat':
            op[1] = tabs[BASE_AT[s['name']]][0] % (1 << (8 * form_cls(form, fmt, asz, ver)[1]))
        attrs.append(a)
    node = {'code': decl['code'], 'cl': pad_len(rng, decl['code']), 'attrs': attrs, 'kids': [], 'nl': rng.choice([1, 1, 1, 2, 4]),
            '_children': decl['children']}
    if decl['children'] and depth < maxdepth and budget[0] > 0:
        for _ in range(rng.choice([0, 1, 1, 2, 3, fan])):
            if budget[0] <= 0:
                break
            node['kids'].append(gen_tree(rng, w, table, fmt, asz, ver, tabs, depth + 1, maxdepth, fan, budget))
    return node


def preorder(node, out):
    """flatten order: the node, its kids, the closing null (None)"""
    out.append(node)
    if node['_children']:
        for k in node['kids']:
            preorder(k, out)
        out.append(None)
    return out


def subtree_len(node):
    return 1 + ((sum(subtree_len(k) for k in node['kids']) + 1) if node['_children'] else 0)


def strip(node):
    return {'code': node['code'], 'cl': node['cl'], 'nl': node['nl'],
            'attrs': [{k: v for k, v in a.items() if k != 'name'} for a in node['attrs']], 'kids': [strip(k) for k in node['kids']]}


def gen_case(rng, quick):
    le = rng.random() < 0.5
    w = World(rng, le)
    ntab = rng.choice([1, 1, 2, 3])
    tables = [gen_table(rng, quick) for _ in range(ntab)]
    nunits = rng.choice([1, 1, 2, 2, 3, 4])
    ntus = rng.choice([0, 0, 0, 1, 2, 2, 3])
    maxdepth = rng.choice([1, 2, 3, 4, 5] if quick else [1, 2, 3, 4, 5, 6])
    fan = 3 if quick else 5
    units, tus = [], []
    for which, lst, n in (('info', units, nunits), ('types', tus, ntus)):
        for _ in range(n):
            ti = rng.randrange(ntab)
            fmt = rng.choice([32, 32, 64])
            asz = rng.choice([4, 8])
            ver = rng.choice([2, 3, 4, 5, 5]) if which == 'info' else rng.choice([4, 4, 4, 2, 3, 5])
            tabs = w.contribute(fmt, asz)
            used = {d['code'] for d in tables[ti]['decls']}
            tcode = next(c for c in [1, 2, 3, 5, 77, 200, 1000, 99999, 123456789] + list(range(300, 400)) if c not in used)
            top = None
            if rng.random() < 0.98:
                top = top_decl(rng, tables[ti], tcode)
                tables[ti]['decls'].insert(rng.randrange(0, len(tables[ti]['decls']) + 1), top)
            tree = gen_tree(rng, w, tables[ti], fmt, asz, ver, tabs, 0, maxdepth, fan, [rng.choice([3, 8, 20, 40])], top)
            u = {'fmt64': fmt == 64, 'version': ver, 'asz': asz, 'table': ti, 'tree': tree, 'id8': rnd_uint(rng, 64),
                 'type_off': 0, '_fmt': fmt}
            if which == 'info' and ver == 5:
                u['utype'] = rng.choice([1, 1, 2, 3, 4, 5, 6])
            if which == 'types' and lst and rng.random() < 0.25:
                u['id8'] = rng.choice(lst)['id8']       # a signature carried by several type units: the dict keeps the last
            lst.append(u)
    return le, rng.choice([4, 8]), tables, units, tus, w


def request(le, dasz, tables, units, tus, w):
    def U(u):
        d = {k: v for k, v in u.items() if not k.startswith('_') and k != 'tree'}
        d['tree'] = strip(u['tree'])
        return d
    return {'p': 'C04', 'k': 'ast', 'le': le, 'dasz': dasz, 'abbrevs': tables, 'units': [U(u) for u in units],
            'tus': [U(u) for u in tus], 'secs': w.secs()}


def set_ref(attr, value, fmt, asz, ver):
    """write a reference value into an operand, truncating to its width (a truncated value makes the case not well formed)"""
    kind, n = form_cls(attr['form'], fmt, asz, ver)
    if kind == 'fixed':
        attr['op'][1] = value % (1 << (8 * n))
    elif kind == 'uleb':
        attr['op'][2] = value % (1 << (7 * attr['op'][1]))


def patch(rng, layout, units, tus):
    """second pass: sibling attributes, references, type offsets from the layout"""
    info_entries = []    # (unit off, entry off)
    for (uoff, offs), u in zip(layout['info'], units):
        info_entries += [(uoff, o) for o in offs]
    sigs = [u['id8'] for u in tus]
    sigs5 = sorted(v5_type_sigs(units))          # DWARF 5: type units live in .debug_info
    for sec, lst in (('info', units), ('types', tus)):
        for (uoff, offs), u in zip(layout[sec], lst):
            order = preorder(u['tree'], [])
            assert len(order) == len(offs), (len(order), len(offs))
            fmt, asz, ver = u['_fmt'], u['asz'], u['version']
            if sec == 'types' or u.get('utype') in (2, 6):
                cand = [o for o, nd in zip(offs, order) if nd is not None]
                u['type_off'] = rng.choice(cand) - uoff if rng.random() < 0.9 else rnd_uint(rng, 8)
            for i, nd in enumerate(order):
                if nd is None:
                    continue
                for a in nd['attrs']:
                    f = a['form']
                    if a['name'] == AT_SIBLING and (f in UNIT_REFS or f == 0x10):
                        j = i + subtree_len(nd)
                        nxt = offs[j] if j < len(offs) else 0
                        if rng.random() < 0.01:
                            nxt += rng.choice([1, -1])
                        set_ref(a, nxt - uoff if f in UNIT_REFS else nxt, fmt, asz, ver)
                    elif f in UNIT_REFS:
                        r = rng.random()
                        tgt = rng.choice(offs) if r < 0.9 else rng.choice(offs) + 1 if r < 0.95 else uoff
                        set_ref(a, tgt - uoff, fmt, asz, ver)
                    elif f == 0x10 and a['name'] != AT_SIBLING:
                        r = rng.random()
                        if info_entries and r < 0.9:
                            tgt = rng.choice(info_entries)[1]
                        else:
                            tgt = rnd_uint(rng, 16)
                        set_ref(a, tgt, fmt, asz, ver)
                    elif f == 0x20:
                        if sigs5 and rng.random() < 0.5:       # DWARF 5 type units of .debug_info (ref_sig8_debug_info_v5)
                            a['op'][1] = rng.choice(sigs5)
                        elif sigs and rng.random() < 0.85:
                            a['op'][1] = rng.choice(sigs)


# ------------------------------------------------------------------------- known finding: sig8 -> v5 type unit
REF_CODES = (0x11, 0x12, 0x13, 0x14, 0x15, 0x02, 0x10, 0x20)     # the final forms get_DIE_from_attribute is asked about


def v5_type_sigs(units):
    """signatures of the DWARF 5 type units (DW_UT_type = 2, DW_UT_split_type = 6) placed in .debug_info"""
    return {u['id8'] for u in units if u['version'] == 5 and u.get('utype') in (2, 6)}


def sig8_v5_slots(case):
    """{(section, unit index): [bool per reference slot]} — True where the slot is a DW_FORM_ref_sig8 attribute whose
    signature belongs to a DWARF 5 type unit of .debug_info.  Slots are in the order the references are queried and
    expected: entries in pre-order, attributes in declaration order, reference forms only.  Decided on the generated
    case alone (never on what the library answered)."""
    sigs5 = v5_type_sigs(case.get('units', []))
    res = {}
    for sec, key in (('info', 'units'), ('types', 'tus')):
        for k, u in enumerate(case.get(key, [])):
            slots = []

            def walk(t):
                for a in t['attrs']:
                    if a['form'] in REF_CODES:
                        slots.append(a['form'] == 0x20 and a['op'][0] == 'nat' and a['op'][1] in sigs5)
                for c in t['kids']:
                    walk(c)
            walk(u['tree'])
            res[(sec, k)] = slots
    return res


def is_sig8_v5(v):
    """FINDINGS predicate for 'sig8-v5-type-unit': the violation is about exactly one reference slot and the generated
    case says that slot is a ref_sig8 attribute designating a v5 type unit in .debug_info"""
    at = v.get('sig8_v5_slot')
    if v.get('kind') != 'property' or not at:
        return False
    sec, k, j = at
    slots = sig8_v5_slots(v['case']).get((sec, k), [])
    return j < len(slots) and slots[j] is True


# ----------------------------------------------------------------------------------------------- the real library
def mk_dwarfinfo(le, dasz, info, abbrev, types, secs):
    from elftools.dwarf.dwarfinfo import DWARFInfo, DwarfConfig, DebugSectionDescriptor

    def d(name, b):
        if b is None:
            return None
        return DebugSectionDescriptor(stream=io.BytesIO(b), name=name, global_offset=0, size=len(b), address=0)

    def s(k):
        v = secs.get(k)
        return None if v is None else bytes.fromhex(v)
    return DWARFInfo(
        config=DwarfConfig(little_endian=le, machine_arch='x64', default_address_size=dasz),
        debug_info_sec=d('.debug_info', info), debug_aranges_sec=None, debug_abbrev_sec=d('.debug_abbrev', abbrev),
        debug_frame_sec=None, eh_frame_sec=None, debug_str_sec=d('.debug_str', s('str')), debug_loc_sec=None,
        debug_ranges_sec=None, debug_line_sec=None, debug_pubtypes_sec=None, debug_pubnames_sec=None,
        debug_addr_sec=d('.debug_addr', s('addr')), debug_str_offsets_sec=d('.debug_str_offsets', s('str_offsets')),
        debug_line_str_sec=d('.debug_line_str', s('line_str')), debug_loclists_sec=d('.debug_loclists', s('loclists')),
        debug_rnglists_sec=d('.debug_rnglists', s('rnglists')), debug_sup_sec=None, gnu_debugaltlink_sec=None,
        debug_types_sec=d('.debug_types', types))


REF_FORMS = ('DW_FORM_ref1', 'DW_FORM_ref2', 'DW_FORM_ref4', 'DW_FORM_ref8', 'DW_FORM_ref', 'DW_FORM_ref_udata',
             'DW_FORM_ref_addr', 'DW_FORM_ref_sig8')


class Diverged(Exception):
    pass


def capped(it, cap):
    out = []
    for x in it:
        out.append(x)
        if len(out) > cap:
            raise Diverged()
    return out


def die_canon(d):
    p = d.get_parent()
    return [d.offset, d.size, d.abbrev_code, canon(d.tag), d.has_children,
            [[canon(a.name), canon(a.form), canon(a.value), canon(a.raw_value), a.offset] for a in d.attributes.values()],
            None if p is None else p.offset]


def impl_unit(cu, is_tu, cap, sig_hist=None):
    hdr = [cu.cu_offset, cu.cu_die_offset, cu.size, cu.dwarf_format(), canon(cu.header)]
    dies, canons = [], []
    try:
        for d in cu.iter_DIEs():
            dies.append(d)
            canons.append(die_canon(d))     # get_parent() as recorded when the entry is yielded
            if len(dies) > cap:
                raise Diverged()
    except Diverged:
        return {'hdr': hdr, 'dies': {'err': 'outOfFuel'}}
    except Exception as e:      # noqa: BLE001
        return {'hdr': hdr, 'dies': {'err': classify_exception(e)}}
    res = {'hdr': hdr, 'dies': {'ok': canons}}

    def kids(d):
        try:
            return {'ok': [c.offset for c in capped(d.iter_children(), cap)]}
        except Diverged:
            return {'err': 'outOfFuel'}
        except Exception as e:      # noqa: BLE001
            return {'err': classify_exception(e)}
    res['children'] = [kids(d) for d in dies]
    refs = []
    for d in dies:
        for name, a in list(d.attributes.items()):
            if a.form in REF_FORMS:
                def f():
                    r = d.get_DIE_from_attribute(name)
                    return [r.cu.cu_offset, r.offset, r.abbrev_code]
                refs.append(run_impl(f))
                if a.form == 'DW_FORM_ref_sig8' and sig_hist is not None:
                    sig_hist.append(refs[-1])       # the history the signature-map cache of this object sees
    res['refs'] = refs
    return res


def probe_random_access_parents(le, dasz, info, abbrev, types, secs, out):
    """On a FRESH object, without any sequential walk: for entries X that own children (a content-derived handful per
    unit), drain X's children reached by random access, then reach X's NEXT SIBLING Y by random access and ask for its
    parent.  It must be the parent the sequential walk reported (which is compared with the description).  A seeded
    shortcut in the ancestor search took the entry laid out before Y — X's closing null, whose parent is X — and answered
    X.  Mismatch -> AssertionError (reported through the unit's outcome); failures of the probe itself are ignored."""
    di = mk_dwarfinfo(le, dasz, info, abbrev, types, secs)
    for key, it in (('info', di.iter_CUs), ('types', di.iter_TUs)):
        walked = out[key]
        if walked['end'] is not None:
            continue
        try:
            units = list(it())
        except Exception:       # noqa: BLE001
            continue
        for cu, w in zip(units, walked['units']):
            if 'ok' not in w['dies']:
                continue
            canons = w['dies']['ok']
            parent = {c[0]: c[6] for c in canons}
            owners = [c for c in canons if c[4] and c[2] != 0]
            for X in owners[:5]:
                sibs = [c[0] for c in canons if c[6] == X[6] and c[2] != 0]
                later = [o for o in sibs if o > X[0]]
                if not later:
                    continue
                yoff = later[0]
                try:
                    x = cu.get_DIE_from_refaddr(X[0])
                    capped(x.iter_children(), 2 * len(canons) + 8)
                    y = cu.get_DIE_from_refaddr(yoff)
                    p = y.get_parent()
                    got = None if p is None else p.offset
                except Exception:       # noqa: BLE001
                    continue
                if got != parent[yoff]:
                    raise AssertionError('random access: parent of entry %d is reported as %r after draining the children of its '
                                         'previous sibling %d; the sequential walk reports %r' % (yoff, got, X[0], parent[yoff]))


def probe_gapped_unit_cache(le, dasz, info, abbrev, types, secs, walked):
    """On a FRESH object: enter the first and the last unit of .debug_info into the unit cache by exact offset
    (get_CU_at: what a client following aranges / pubnames entries does), leaving the units between them unparsed, then
    resolve section-relative references (DW_FORM_ref_addr: dwarfinfo.get_DIE_from_refaddr) to entries of the units IN THE
    GAP.  Each must be the entry the sequential walk reported at that offset, in its own unit (the walk is compared with
    the description).  A seeded fast path in get_CU_containing that assumed a contiguous cache was missed by this check
    while units were only ever entered in order.  Mismatch -> AssertionError; failures of the probe itself are ignored."""
    units = walked['info']['units']
    if walked['info']['end'] is not None or len(units) < 3:
        return
    di = mk_dwarfinfo(le, dasz, info, abbrev, types, secs)
    offs = [u['hdr'][0] for u in units]
    try:
        di.get_CU_at(offs[-1])
        di.get_CU_at(offs[0])
    except Exception:       # noqa: BLE001
        return
    for u in units[1:-1]:
        if 'ok' not in u['dies']:
            continue
        for c in [c for c in u['dies']['ok'] if c[2] != 0][:4]:
            try:
                d = di.get_DIE_from_refaddr(c[0])
                got = [d.cu.cu_offset, d.offset, d.abbrev_code]
            except Exception as e:      # noqa: BLE001
                got = classify_exception(e)
            if got != [u['hdr'][0], c[0], c[2]]:
                raise AssertionError('gapped unit cache: the reference to offset %d resolves to %r; the sequential walk has the entry '
                                     '(unit %d, code %d) there' % (c[0], got, u['hdr'][0], c[2]))


def impl_world(le, dasz, info, abbrev, types, secs):
    di = mk_dwarfinfo(le, dasz, info, abbrev, types, secs)
    out = {}
    sig_hist = []
    for key, it, data, is_tu in (('info', di.iter_CUs, info, False), ('types', di.iter_TUs, types, True)):
        units, end = [], None
        cap = 2 * len(data or b'') + 8
        try:
            for cu in it():
                units.append(impl_unit(cu, is_tu, cap, sig_hist))
        except Exception as e:      # noqa: BLE001
            end = classify_exception(e)
        out[key] = {'units': units, 'end': end}
    # the signature lookups of this one object in query order, and whether `_type_units_by_sig` has been published:
    # compared with Model/SigCache run by the driver (Props/C04 sig8_history_independent, sig8_published_iff)
    out['sig_hist'] = sig_hist
    out['sig_published'] = di._type_units_by_sig is not None
    return out


def probe_world(le, dasz, info, abbrev, types, secs, walked):
    """the random-access probe as a separate observation (None = agrees with the walk): judged on WELL-FORMED forests only —
    on a malformed one (e.g. a DW_AT_sibling that lies) the walk and the ancestor search may legitimately disagree"""
    try:
        probe_random_access_parents(le, dasz, info, abbrev, types, secs, walked)
        probe_gapped_unit_cache(le, dasz, info, abbrev, types, secs, walked)
    except AssertionError as e:
        return str(e)
    return None


def reduced(x):
    """after an exception inside get_top_DIE the unit caches a half-built top entry (state after a failure is C10's
    subject): when any unit fails to iterate, only headers and the iteration results are compared"""
    return {sec: {'end': x[sec]['end'], 'units': [{'hdr': u['hdr'], 'dies': u['dies']} for u in x[sec]['units']]}
            for sec in ('info', 'types')}


def any_failed(x):
    return any('err' in u['dies'] for sec in ('info', 'types') for u in x[sec]['units'])


def diverged(x):
    return any(u['dies'].get('err') == 'outOfFuel' or any(c.get('err') == 'outOfFuel' for c in u.get('children', []))
               for sec in ('info', 'types') for u in x[sec]['units'])


def cmp_expect(impl, expect, skip=None, only=None):
    """first difference between what the code yields and what the property prescribes, or None.
    `skip` / `only`: {(section, unit): [bool per reference slot]} — reference slots to leave out / to look at alone."""
    def wanted(sec, k, j):
        if skip is not None:
            sl = skip.get((sec, k), [])
            return not (j < len(sl) and sl[j])
        if only is not None:
            sl = only.get((sec, k), [])
            return j < len(sl) and sl[j]
        return True
    for sec in ('info', 'types'):
        iu, eu = impl[sec]['units'], expect[sec]['units']
        if impl[sec]['end'] is not None or len(iu) != len(eu):
            return (sec, 'units', impl[sec]['end'], len(iu), len(eu))
        for k, (a, b) in enumerate(zip(iu, eu)):
            for key in ('hdr', 'dies', 'children'):
                if a.get(key) != b.get(key):
                    if key == 'dies' and 'ok' in a.get(key, {}) :
                        for x, y in zip(a['dies']['ok'], b['dies']['ok']):
                            if x != y:
                                return (sec, k, 'die', x, y)
                    return (sec, k, key, a.get(key), b.get(key))
            for j, (x, y) in enumerate(zip(a.get('refs', []), b.get('refs', []))):
                if y is not None and x != y and wanted(sec, k, j):
                    return (sec, k, 'ref', j, x, y)
            if len(a.get('refs', [])) != len(b.get('refs', [])):
                return (sec, k, 'refs-len', len(a.get('refs', [])), len(b.get('refs', [])))
    return None


def judge(rq, impl, expect):
    """(first difference outside the known-finding class, first difference inside it as (diff, [sec, unit, slot]))"""
    slots = sig8_v5_slots(rq)
    for (sec, k), sl in slots.items():          # the slot order must be the expectation's; otherwise classify nothing
        eu = expect[sec]['units']
        if k >= len(eu) or len(eu[k].get('refs', [])) != len(sl):
            slots = {}
            break
    d = cmp_expect(impl, expect, skip=slots)
    if d is not None:
        return d, None
    d = cmp_expect(impl, expect, only=slots) if slots else None
    if d is not None:
        return None, (d, [d[0], d[1], d[3]])
    return None, None


def check_case(ctx, stream, rq, r):
    out = ctx.out
    info, abbrev = bytes.fromhex(r['info']), bytes.fromhex(r['abbrev'])
    types = bytes.fromhex(r['types']) if (rq.get('tus') or rq.get('types_present')) else None
    impl = impl_world(rq['le'], rq['dasz'], info, abbrev, types, rq['secs'])
    out.case(rq)
    if r['wf'] != r['wf_old']:
        # `wf` is Spec.C04.wfForestB (the hypothesis of debug_info_exact / debug_types_exact); `wf_old` the part-by-part
        # predicate the check used before the forest description existed.  They must describe the same inputs.
        raise RuntimeError('C04: wfForestB = %r but the part-wise well-formedness = %r on %r' % (r['wf'], r['wf_old'], str(rq)[:400]))
    if r['wf']:
        out.count(stream + ':wf')
        for sl in sig8_v5_slots(rq).values():
            out.count(stream + ':ref-sig8-to-v5-type-unit', sum(sl))
        # every reference slot is judged, the ref_sig8 -> DWARF 5 type unit ones included (the former known finding
        # sig8-v5-type-unit is fixed: a fixed entry suppresses nothing)
        d, known = cmp_expect(impl, r['expect']), None
        if d is not None:
            out.violation('property', stream, rq, diff=d, expect=None, got=None)
            return
        pr = probe_world(rq['le'], rq['dasz'], info, abbrev, types, rq['secs'], impl)
        out.count(stream + ':random-access-parent-probe')
        if pr is not None:
            out.violation('property', stream, rq, diff=['random-access', pr], expect=None, got=None)
            return
        if known is not None:
            # a reference the property covers and the library does not resolve: judged, reported, and recognised by
            # FINDINGS['sig8-v5-type-unit'] from the generated case (the slot named here is re-derived there)
            out.violation('property', stream, rq, diff=known[0], sig8_v5_slot=known[1], expect=None, got=None)
    else:
        out.count(stream + ':not-wf')
        if not r['wf_tables']:
            out.count(stream + ':not-wf:tables')
        for un in r.get('unresolved', []):
            if un is not None:
                out.count(stream + ':unresolved:%s:%s' % (un[0], 'bases=' + ''.join('1' if b is not None else '0' for b in un[2:])))
        for parts in r['wf_parts']:
            for nm, b in zip(('hdr', 'codes', 'tree', 'distinct-names', 'resolve', 'abbrev-off', 'sibling'), parts):
                if not b:
                    out.count(stream + ':not-wf:' + nm)
    if diverged(impl) or diverged(r['model']):
        out.count(stream + ':diverged')
        return
    r['model'] = dict(r['model'])
    model = dict(r['model'])
    low = model.pop('low_fetch', False)
    if model.pop('top_hook_fails'):
        # get_top_DIE raised after caching a half-translated top entry: later calls on that unit depend on the history
        out.count(stream + ':state-after-failure(C10)')
        return
    if low:
        # a DIE below cu_die_offset was fetched and took the top DIE's cache slot (get_top_DIE returns _dielist[0]):
        # what the unit answers afterwards depends on the cache history
        out.count(stream + ':low-fetch-replaces-top(C10)')
        return
    if any_failed(impl) or any_failed(model):
        out.count(stream + ':reduced-compare')
        impl, model = reduced(impl), reduced(model)
    if 'sig_hist' in impl:
        out.count(stream + ':sig-cache:lookups', len(impl['sig_hist']))
        out.count(stream + ':sig-cache:repeated-or-later-lookups', max(0, len(impl['sig_hist']) - 1))
        out.count(stream + ':sig-cache:' + ('published' if impl.get('sig_published') else 'not-published'))
    if impl != model:
        out.violation('correspondence', stream, rq, diff=first_diff(impl, model))


def first_diff(a, b, path=''):
    if type(a) != type(b):
        return (path, a, b)
    if isinstance(a, dict):
        for k in sorted(set(a) | set(b)):
            if a.get(k) != b.get(k):
                return first_diff(a.get(k), b.get(k), path + '/' + str(k))
    if isinstance(a, list):
        if len(a) != len(b):
            return (path + '/len', len(a), len(b))
        for i, (x, y) in enumerate(zip(a, b)):
            if x != y:
                return first_diff(x, y, path + '/' + str(i))
    return (path, a, b) if a != b else None


def stats(ctx, rq, r):
    out = ctx.out
    out.count('units', len(rq['units']))
    out.count('tus', len(rq['tus']))
    out.count('tables', len(rq['abbrevs']))
    out.count('tables:with-gap', sum(1 for t in rq['abbrevs'] if t.get('gap')))
    used = [u['table'] for u in rq['units'] + rq['tus']]
    out.count('tables:shared-by-several-units', sum(1 for t in set(used) if used.count(t) > 1))
    out.count('abbrev-offset:nonzero', sum(1 for u in rq['units'] + rq['tus'] if r.get('table_offs', [0] * 9)[u['table']] != 0))
    sigs = [u['id8'] for u in rq['tus']]
    out.count('tus:duplicate-signature', len(sigs) - len(set(sigs)))
    for u in rq['units'] + rq['tus']:
        out.count('cfg:v%d/%d/a%d' % (u['version'], 64 if u['fmt64'] else 32, u['asz']))
        if 'utype' in u:
            out.count('utype:%d' % u['utype'])

        def walk(t, depth):
            out.count('entries')
            out.count('depth:%d' % depth)
            for a in t['attrs']:
                out.count('form:%#x' % a['form'])
                if a.get('ind'):
                    out.count('indirect:len%d' % len(a['ind']))
            for k in t['kids']:
                walk(k, depth + 1)
        walk(u['tree'], 0)


def build_case(ctx, rng, quick):
    le, dasz, tables, units, tus, w = gen_case(rng, quick)
    rq0 = request(le, dasz, tables, units, tus, w)
    r0 = ctx.driver.ask(rq0)
    if 'fatal' in r0 or 'layout' not in r0:
        raise RuntimeError('driver: %r on %r' % (r0, str(rq0)[:300]))
    patch(rng, r0['layout'], units, tus)
    return request(le, dasz, tables, units, tus, w)


def run_ast(ctx):
    rng = ctx.rng('ast')
    quick = ctx.tier == 'quick'
    n = ctx.budget(260, 6000)
    for i in range(n):
        rq = build_case(ctx, rng, quick)
        r = ctx.driver.ask(rq)
        if 'fatal' in r:
            raise RuntimeError('driver: %s on %r' % (r['fatal'], str(rq)[:300]))
        stats(ctx, rq, r)
        check_case(ctx, 'ast', rq, r)
        if ctx.time_left() < 25:
            ctx.out.notes.append('ast: stopped after %d of %d cases (time budget)' % (i + 1, n))
            break


def mutate(rng, b):
    b = bytearray(b)
    r = rng.random()
    if not b:
        return bytes(b)
    if r < 0.6:
        for _ in range(rng.choice([1, 1, 2, 3])):
            i = rng.randrange(len(b))
            b[i] = rng.choice([0, 1, 0x16, 0x21, 0x7f, 0x80, 0xff, b[i] ^ (1 << rng.randrange(8)), rng.randrange(256)])
    elif r < 0.8:
        del b[rng.randrange(len(b)):]
    elif r < 0.9:
        i = rng.randrange(len(b))
        del b[i]
    else:
        b += rnd_bytes(rng, rng.choice([1, 2, 7]))
    return bytes(b)


def run_raw(ctx):
    rng = ctx.rng('raw')
    quick = ctx.tier == 'quick'
    n = ctx.budget(150, 5000)
    for i in range(n):
        rq = build_case(ctx, rng, True)
        r = ctx.driver.ask(rq)
        info, abbrev = bytes.fromhex(r['info']), bytes.fromhex(r['abbrev'])
        types = bytes.fromhex(r['types']) if rq['tus'] else None
        for _ in range(3):
            which = rng.choice(['info', 'info', 'abbrev', 'types', 'secs'])
            c = {'p': 'C04', 'k': 'raw', 'le': rq['le'], 'dasz': rq['dasz'], 'info': hx(info), 'abbrev': hx(abbrev),
                 'secs': dict(rq['secs'])}
            if types is not None:
                c['types'] = hx(types)
            if which == 'secs':
                k = rng.choice(sorted(c['secs']))
                c['secs'][k] = hx(mutate(rng, bytes.fromhex(c['secs'][k])))
                if rng.random() < 0.2:
                    del c['secs'][k]
            elif which in c:
                c[which] = hx(mutate(rng, bytes.fromhex(c[which])))
            m = ctx.driver.ask(c)
            if 'fatal' in m:
                raise RuntimeError('driver: %s on %r' % (m['fatal'], str(c)[:300]))
            impl = impl_world(c['le'], c['dasz'], bytes.fromhex(c['info']), bytes.fromhex(c['abbrev']),
                              bytes.fromhex(c['types']) if 'types' in c else None, c['secs'])
            ctx.out.case(c)
            for sec in ('info', 'types'):
                for u in impl[sec]['units']:
                    ctx.out.count('raw:dies:' + ('ok' if 'ok' in u['dies'] else u['dies']['err']))
                if impl[sec]['end']:
                    ctx.out.count('raw:end:' + impl[sec]['end'])
            if diverged(impl) or diverged(m['model']):
                ctx.out.count('raw:diverged')
                continue
            model = dict(m['model'])
            low = model.pop('low_fetch', False)
            if model.pop('top_hook_fails'):
                ctx.out.count('raw:state-after-failure(C10)')
                continue
            if low:
                ctx.out.count('raw:low-fetch-replaces-top(C10)')
                continue
            if any_failed(impl) or any_failed(model):
                ctx.out.count('raw:reduced-compare')
                impl, model = reduced(impl), reduced(model)
            if impl != model:
                ctx.out.violation('correspondence', 'raw', c, diff=first_diff(impl, model))
        if ctx.time_left() < 8:
            ctx.out.notes.append('raw: stopped after %d of %d seeds (time budget)' % (i + 1, n))
            break


def run(ctx):
    run_ast(ctx)
    run_raw(ctx)


def replay(ctx, payload):
    v = payload['violation']
    case, stream = v['case'], v['stream']
    res = {'stream': stream, 'case': case}
    r = ctx.driver.ask(case)
    if stream == 'ast':
        info, abbrev = bytes.fromhex(r['info']), bytes.fromhex(r['abbrev'])
        types = bytes.fromhex(r['types']) if (case.get('tus') or case.get('types_present')) else None
        impl = impl_world(case['le'], case['dasz'], info, abbrev, types, case['secs'])
        d = None
        if r['wf']:
            d, known = judge(case, impl, r['expect'])
            d = d if d is not None else (known[0] if known is not None else None)
            if d is None:
                pr = probe_world(case['le'], case['dasz'], info, abbrev, types, case['secs'], impl)
                d = ['random-access', pr] if pr is not None else None
        model = dict(r['model'])
        hook = model.pop('top_hook_fails') or model.pop('low_fetch', False)
        model.pop('low_fetch', None)
        if any_failed(impl) or any_failed(model):
            impl, model = reduced(impl), reduced(model)
        if hook:
            model = impl
        res.update(wf=r['wf'], property_diff=d, model_diff=first_diff(impl, model),
                   fails=(d is not None) or (impl != model and not diverged(impl) and not diverged(model)))
    else:
        impl = impl_world(case['le'], case['dasz'], bytes.fromhex(case['info']), bytes.fromhex(case['abbrev']),
                          bytes.fromhex(case['types']) if 'types' in case else None, case['secs'])
        model = dict(r['model'])
        hook = model.pop('top_hook_fails') or model.pop('low_fetch', False)
        model.pop('low_fetch', None)
        if any_failed(impl) or any_failed(model):
            impl, model = reduced(impl), reduced(model)
        if hook:
            model = impl
        res.update(model_diff=first_diff(impl, model), fails=impl != model and not diverged(impl) and not diverged(model))
    return res


FINDINGS = {}
# DW_FORM_ref_sig8 designating a DWARF 5 type unit (DW_UT_type / DW_UT_split_type in .debug_info): get_DIE_by_sig8 scans
# only .debug_types and raises KeyError.  Matched on the input class, slot by slot; any other reference problem
# (v4 .debug_types lookups included) is compared first and reported as a violation.
# FIXED in /repo (fix: commit 6a8fa76): no predicate any more, the slots are compared like every other reference.
