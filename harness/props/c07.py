"""C07 — location and range lists.  Streams:

  v4   : one DWARF 2-4 location / range list (base-selection entries, any expression length) between arbitrary bytes,
         encoded by the Lean Spec encoder → DWARFInfo.location_lists()/range_lists().get_*_list_at_offset
  sec  : a whole section from the Lean Spec assembler — .debug_loc/.debug_ranges (lists, gaps, view pairs) or
         .debug_loclists/.debug_rnglists (1-3 unit blocks, DWARF32/64, offset tables with 0..5 entries, every DW_LLE/DW_RLE
         kind, indexed addresses through .debug_addr, gaps, view pairs) — plus hand-assembled .debug_info/.debug_abbrev whose
         DIEs refer to the lists by offset or by index in every list-capable form.  Observed: fetch by offset, by attribute
         (value + LocationParser.parse_from_attribute), raw fetch + translate_v5_entry, iter_location_lists / iter_range_lists,
         iter_CUs, iter_CU_range_lists_ex
  pair : both generations present (.debug_loc + .debug_loclists, or .debug_ranges + .debug_rnglists) and units of mixed
         versions: DWARFInfo.location_lists()/range_lists() return a LocationListsPair/RangeListsPair; fetch by offset for
         units of either generation (a v5 unit's list must come from the v5 section, an older unit's from the old one), also
         with the "wrong" unit and without a unit, and every forwarding method
  cls  : every (attribute name, form, version) of a pool × all forms × versions 2..5 → LocationParser classification
  raw  : damaged sections / random offsets → model vs code only (errors included)
  info : END TO END from section bytes: the units / debugging entries of a `sec` case are turned into a forest DESCRIPTION
         (C04's format: abbreviation tables with gaps and padded codes, trees, DW_FORM_indirect chains around list-capable
         forms, DW_FORM_implicit_const / DW_FORM_string bystanders, padded null entries); .debug_info / .debug_abbrev come
         from the Lean Spec encoders and the composed model (Model/ListsInfo: C04's DIE model + the list code) decodes them
         itself.  Observed: what the list code sees of .debug_info (name, form, raw value per entry: impl == description ==
         model), iter_location_lists / iter_range_lists, value + parse_from_attribute / get_range_list_at_offset per reference
  expr : C07 × C12: well-formed operation sequences (C12's generator and Spec assembler) become the expressions of the
         entries of a .debug_loc list / the counted location descriptions of a .debug_loclists list; the list is fetched with
         the real library and EVERY entry's loc_expr is parsed with the real DWARFExprParser: == the encoded operations
         (Props/C07 location_expr_ops_exact) and == C12's model on those bytes
"""
import io, struct
from common import run_impl, canon, hx, rnd_uint, rnd_bytes, uleb, sleb

RULE = ('v4: entry kind, address (boundary pools), expression length 0..300/65535, address size 4/8, byte order, pre/rest; '
        'sec: version 2-5, address size, byte order, DWARF32/64 per unit, 1-3 units, offset_count 0..5, list lengths 0..5, '
        'every entry kind, padded ULEB128, gaps before/between/after lists, view pairs, which lists are referenced and in '
        'which form (data1/2/4/8, sec_offset, loclistx/rnglistx) by which attribute; cls: exhaustive over the pool; '
        'pair: both sections present, units of mixed versions in either order, fetch for the right / wrong / no unit, '
        'every forwarding method; raw: byte flips / truncations of valid sections and random offsets. Non-trivial = distinct (call, case).')
ASSUMPTIONS = ['io.BytesIO read/seek/tell semantics', 'struct.unpack for <>BHIQ',
               'streams sec / pair / raw: the model receives the (name, form, raw value) triples the harness assembled into '
               '.debug_info (DIE decoding is C04); stream info closes that interface: the composed model decodes the '
               'Spec-encoded .debug_info itself (Props/C07 debug_info_cus_exact, enumeration_exact_*_info)',
               'the unit address size equals the container default address size (DWARFInfo hands its own structs to the list objects)']
FINDINGS = {}

P = 'C07'


# --------------------------------------------------------------------------- canonical results
def cn(v):
    if isinstance(v, tuple) and hasattr(v, '_fields'):
        return {'r': [['_t', type(v).__name__]] + [[k, cn(getattr(v, k))] for k in v._fields]}
    if isinstance(v, (list, tuple)) and not isinstance(v, (bytes, bytearray)):
        from elftools.construct.lib.container import ListContainer
        return [cn(x) for x in v]
    from elftools.construct.lib.container import Container
    if isinstance(v, Container):
        return {'r': [[k, cn(x)] for k, x in v.items()]}
    return canon(v)


# --------------------------------------------------------------------------- .debug_info / .debug_abbrev assembler
def enc_form(form, raw, le, fmt64, asz):
    e = '<' if le else '>'
    if form in ('DW_FORM_data1', 'DW_FORM_flag', 'DW_FORM_ref1'): return struct.pack(e + 'B', raw)
    if form in ('DW_FORM_data2', 'DW_FORM_ref2'): return struct.pack(e + 'H', raw)
    if form in ('DW_FORM_data4', 'DW_FORM_ref4'): return struct.pack(e + 'I', raw)
    if form in ('DW_FORM_data8', 'DW_FORM_ref8'): return struct.pack(e + 'Q', raw)
    if form == 'DW_FORM_sdata': return sleb(raw)
    if form in ('DW_FORM_udata', 'DW_FORM_loclistx', 'DW_FORM_rnglistx'): return uleb(raw)
    if form == 'DW_FORM_sec_offset': return struct.pack(e + ('Q' if fmt64 else 'I'), raw)
    if form == 'DW_FORM_addr': return struct.pack(e + ('Q' if asz == 8 else 'I'), raw)
    if form == 'DW_FORM_exprloc' or form == 'DW_FORM_block': return uleb(len(raw)) + bytes(raw)
    if form == 'DW_FORM_block1': return struct.pack(e + 'B', len(raw)) + bytes(raw)
    if form == 'DW_FORM_block2': return struct.pack(e + 'H', len(raw)) + bytes(raw)
    if form == 'DW_FORM_block4': return struct.pack(e + 'I', len(raw)) + bytes(raw)
    raise KeyError(form)


def build_info(cus, le):
    """cus: [{'version','fmt64','asz','dies': [[(name, form, raw), ...], ...]}] → (.debug_info, .debug_abbrev)"""
    from elftools.dwarf.enums import ENUM_DW_AT, ENUM_DW_FORM, ENUM_DW_TAG
    e = '<' if le else '>'
    info, abbrev = b'', b''
    for cu in cus:
        aoff = len(abbrev)
        dies = cu['dies']
        body = b''
        for i, die in enumerate(dies):
            tag = ENUM_DW_TAG['DW_TAG_compile_unit' if i == 0 else 'DW_TAG_variable']
            children = 1 if (i == 0 and len(dies) > 1) else 0
            abbrev += uleb(i + 1) + uleb(tag) + bytes([children])
            body += uleb(i + 1)
            for name, form, raw in die:
                abbrev += uleb(ENUM_DW_AT[name]) + uleb(ENUM_DW_FORM[form])
                body += enc_form(form, raw, le, cu['fmt64'], cu['asz'])
            abbrev += b'\0\0'
        abbrev += b'\0'
        if len(dies) > 1:
            body += b'\0'
        osz = 'Q' if cu['fmt64'] else 'I'
        if cu['version'] >= 5:
            hdr = struct.pack(e + 'HBB', cu['version'], 1, cu['asz']) + struct.pack(e + osz, aoff)
        else:
            hdr = struct.pack(e + 'H', cu['version']) + struct.pack(e + osz, aoff) + struct.pack(e + 'B', cu['asz'])
        unit = hdr + body
        info += (struct.pack(e + 'IQ', 0xffffffff, len(unit)) if cu['fmt64'] else struct.pack(e + 'I', len(unit))) + unit
    return info, abbrev


def cu_json(cu):
    return {'version': cu['version'], 'asz': cu['asz'], 'fmt': 64 if cu['fmt64'] else 32,
            'dies': [[[n, f, (list(r) if isinstance(r, (list, bytes)) else r)] for n, f, r in die] for die in cu['dies']]}


def mk_dwarf(le, asz, info=None, abbrev=None, loc=None, ranges=None, addr=None, loclists=None, rnglists=None):
    from elftools.dwarf.dwarfinfo import DWARFInfo, DebugSectionDescriptor, DwarfConfig

    def sec(b, name):
        return DebugSectionDescriptor(io.BytesIO(b), name, 0, len(b), 0) if b is not None else None
    return DWARFInfo(DwarfConfig(le, 'x64' if asz == 8 else 'x86', asz),
                     debug_info_sec=sec(info, '.debug_info'), debug_aranges_sec=None, debug_abbrev_sec=sec(abbrev, '.debug_abbrev'),
                     debug_frame_sec=None, eh_frame_sec=None, debug_str_sec=None, debug_loc_sec=sec(loc, '.debug_loc'),
                     debug_ranges_sec=sec(ranges, '.debug_ranges'), debug_line_sec=None, debug_pubtypes_sec=None,
                     debug_pubnames_sec=None, debug_addr_sec=sec(addr, '.debug_addr'), debug_str_offsets_sec=None,
                     debug_line_str_sec=None, debug_loclists_sec=sec(loclists, '.debug_loclists'),
                     debug_rnglists_sec=sec(rnglists, '.debug_rnglists'), debug_sup_sec=None, gnu_debugaltlink_sec=None,
                     debug_types_sec=None)


# --------------------------------------------------------------------------- generators
def rnd_addr(rng, asz, nonzero=False):
    v = rnd_uint(rng, 8 * asz)
    if nonzero and v == 0:
        v = 1
    return v


def rnd_expr(rng, big=()):
    n = rng.choice(list(big) or [0, 1, 1, 2, 3, 5, 17, 127, 128, 129, 300])
    return rnd_bytes(rng, n)


def gen_v4_entries(rng, what, asz, big=()):
    mx = (1 << (8 * asz)) - 1
    out = []
    for _ in range(rng.choice([0, 1, 1, 2, 3, 5])):
        r = rng.random()
        if r < 0.25:
            out.append(['base', rnd_addr(rng, asz)])
        else:
            b, e = rnd_addr(rng, asz), rnd_addr(rng, asz)
            if b == mx:
                b = mx - 1
            if b == 0 and e == 0:
                e = rng.choice([1, mx])              # (0, mx) and (0, 1) are entries, not terminators
            if what == 'loc':
                out.append(['loc', b, e, hx(rnd_expr(rng, big if rng.random() < 0.02 else ()))])
            else:
                out.append(['range', b, e])
    return out


def U(rng, v):
    n = max(1, (v.bit_length() + 6) // 7)
    return ['u', n + rng.choice([0, 0, 0, 0, 1, 3]), v]


def C(rng):
    x = rnd_expr(rng)
    n = max(1, (len(x).bit_length() + 6) // 7)
    return ['c', n + rng.choice([0, 0, 0, 1, 2]), hx(x)]


LLE = {1: 'u', 2: 'uuc', 3: 'uuc', 4: 'uuc', 5: 'c', 6: 'a', 7: 'aac', 8: 'auc'}
RLE = {1: 'u', 2: 'uu', 3: 'uu', 4: 'uu', 5: 'a', 6: 'aa', 7: 'au'}
INDEXED = {1: [0], 2: [0, 1], 3: [0]}        # operand positions that are .debug_addr indices


def gen_v5_entries(rng, what, asz, naddrs, allow_bad_index=False):
    tbl = LLE if what == 'loc' else RLE
    out = []
    for _ in range(rng.choice([0, 1, 1, 2, 3, 5])):
        code = rng.choice(sorted(tbl))
        if code in INDEXED and naddrs == 0:
            code = max(tbl)
        vals = []
        for i, k in enumerate(tbl[code]):
            if k == 'a':
                vals.append(['a', rnd_addr(rng, asz)])
            elif k == 'u':
                if i in INDEXED.get(code, []):
                    vals.append(U(rng, rng.randrange(naddrs)))
                else:
                    vals.append(U(rng, rnd_uint(rng, rng.choice([7, 14, 32, 64]))))
            else:
                vals.append(C(rng))
        out.append({'code': code, 'vals': vals})
    return out


def gen_views(rng, n):
    return [[U(rng, rnd_uint(rng, 14)), U(rng, rnd_uint(rng, 14))] for _ in range(n)]


def nloc_entries(what, ver, ents):
    """number of location-type entries (one view pair each)"""
    if ver < 5:
        return sum(1 for e in ents if e[0] != 'base')
    return sum(1 for e in ents if e['code'] not in (1, 6))


def gen_items(rng, what, ver, asz, naddrs):
    items = []
    for _ in range(rng.choice([0, 1, 1, 2, 3, 4, 6])):
        if what == 'loc' and rng.random() < 0.3:
            items.append({'t': 'gap', 'hex': hx(rnd_bytes(rng, rng.choice([1, 2, 3, 7, 16])))})
        ents = gen_v4_entries(rng, what, asz) if ver < 5 else gen_v5_entries(rng, what, asz, naddrs)
        it = {'t': 'list', 'entries': ents}
        if what == 'loc' and rng.random() < 0.3:
            n = nloc_entries(what, ver, ents)
            if n:
                it['views'] = gen_views(rng, n)
        items.append(it)
    if what == 'loc' and rng.random() < 0.3:
        items.append({'t': 'gap', 'hex': hx(rnd_bytes(rng, rng.choice([1, 2, 5, 12])))})
    return items


LOC_ATTRS = ['DW_AT_location', 'DW_AT_frame_base', 'DW_AT_string_length', 'DW_AT_return_addr', 'DW_AT_static_link',
             'DW_AT_use_location', 'DW_AT_vtable_elem_location', 'DW_AT_segment', 'DW_AT_call_value', 'DW_AT_call_target',
             'DW_AT_GNU_call_site_value', 'DW_AT_data_member_location', 'DW_AT_call_data_location']


def fits(form, v):
    return v < {'DW_FORM_data1': 1 << 8, 'DW_FORM_data2': 1 << 16, 'DW_FORM_data4': 1 << 32}.get(form, 1 << 64)


def gen_case(rng, fix=None):
    what = rng.choice(['loc', 'rng'])
    ver = rng.choice([2, 3, 4, 5, 5, 5])
    le = rng.random() < 0.5
    asz = rng.choice([4, 8])
    if fix:
        what, ver, le, asz = fix.get('what', what), fix.get('ver', ver), fix.get('le', le), fix.get('asz', asz)
    naddrs = rng.choice([0, 1, 3, 6])
    addrs = [rnd_addr(rng, asz) for _ in range(naddrs)]
    units = []
    if ver >= 5:
        for _ in range(rng.choice([1, 1, 2, 3])):
            items = gen_items(rng, what, ver, asz, naddrs)
            nlists = sum(1 for it in items if it['t'] == 'list')
            units.append({'fmt64': rng.random() < 0.4, 'segsz': rng.choice([0, 0, 0, 1, 8]), 'noff': min(nlists, rng.choice([0, 0, 1, 2, 3, 5, 6])), 'items': items})
    else:
        units.append({'items': gen_items(rng, what, ver, asz, naddrs)})
    return {'p': P, 'k': 'asm', 'what': what, 'ver': ver, 'le': le, 'asz': asz, 'addrs': addrs, 'units': units}


def gen_cus(rng, c, r, addr_pre):
    """CUs whose DIEs refer to a random subset of the lists; returns (cus, refs) with
    refs = [(cu index, die index, attr name, unit index, item index)]"""
    what, ver, asz = c['what'], c['ver'], c['asz']
    cus, refs = [], []
    for ui, (u, ur) in enumerate(zip(c['units'], r['units'])):
        fmt64 = u.get('fmt64', rng.random() < 0.3)
        cuver = ver if ver >= 5 else rng.choice([ver, ver, 2, 3, 4])
        top = [('DW_AT_low_pc', 'DW_FORM_addr', 0)]
        if ver >= 5:
            top.append(('DW_AT_addr_base', 'DW_FORM_sec_offset', addr_pre))
            top.append(('DW_AT_loclists_base' if what == 'loc' else 'DW_AT_rnglists_base', 'DW_FORM_sec_offset', ur['table']))
        dies = [top]
        tabidx = {}
        if ver >= 5:
            k = 0
            for ii, it in enumerate(ur['items']):
                if it['t'] == 'list' and k < u['noff']:
                    tabidx[ii] = k
                    k += 1
        # DW_AT_ranges on the unit entry itself (CU ranges: sec_offset from GCC, rnglistx from clang); the unit entry's
        # index forms are translated by a deferred pass of get_top_DIE, a different path from inner entries
        if what == 'rng' and rng.random() < 0.35:
            cand = [(ii, it) for ii, it in enumerate(ur['items']) if it['t'] == 'list']
            if cand:
                ii, it = rng.choice(cand)
                opts = []
                if cuver >= 5 and ii in tabidx:
                    opts += [('DW_FORM_rnglistx', tabidx[ii])] * 2
                if cuver >= 4 and (fmt64 or it['off'] < 1 << 32):
                    opts.append(('DW_FORM_sec_offset', it['off']))
                if opts:
                    form, raw = rng.choice(opts)
                    top.append(('DW_AT_ranges', form, raw))
                    refs.append((len(cus), 0, 'DW_AT_ranges', ui, ii))
        for ii, it in enumerate(ur['items']):
            if it['t'] != 'list' or rng.random() < 0.25:
                continue
            for _ in range(rng.choice([1, 1, 2])):
                off = it['off']
                forms = []
                if cuver >= 4:
                    forms.append(('DW_FORM_sec_offset', off))
                if cuver < 4:
                    forms += [(f, off) for f in ('DW_FORM_data1', 'DW_FORM_data2', 'DW_FORM_data4', 'DW_FORM_data8') if fits(f, off)]
                    if what == 'rng':
                        forms.append(('DW_FORM_sec_offset', off))
                if cuver >= 5 and ii in tabidx:
                    forms.append(('DW_FORM_loclistx' if what == 'loc' else 'DW_FORM_rnglistx', tabidx[ii]))
                form, raw = rng.choice(forms)
                if form == 'DW_FORM_sec_offset' and not fmt64 and raw >= 1 << 32:
                    continue
                die = []
                if rng.random() < 0.3:
                    die.append(('DW_AT_upper_bound', 'DW_FORM_data1', rng.randrange(256)))
                if what == 'loc':
                    name = 'DW_AT_location' if it['voff'] != it['off'] else rng.choice(LOC_ATTRS[:3] + LOC_ATTRS)
                    if name == 'DW_AT_data_member_location' and form != 'DW_FORM_sec_offset' and form != 'DW_FORM_loclistx':
                        name = 'DW_AT_location'            # a constant from DWARF 3 on: not a list
                    if it['voff'] != it['off']:
                        vform = 'DW_FORM_sec_offset' if cuver >= 4 else 'DW_FORM_data4'
                        die.append(('DW_AT_GNU_locviews', vform, it['voff']))
                    die.append((name, form, raw))
                    if name != 'DW_AT_frame_base' and rng.random() < 0.3:
                        die.append(('DW_AT_frame_base', 'DW_FORM_exprloc' if cuver >= 4 else 'DW_FORM_block1', list(rnd_bytes(rng, 2))))
                else:
                    name = 'DW_AT_ranges'
                    die.append((name, form, raw))
                if rng.random() < 0.2:
                    die.append(('DW_AT_const_value', 'DW_FORM_data4', rng.randrange(1 << 32)))
                refs.append((len(cus), len(dies), name, ui, ii))
                dies.append(die)
        cus.append({'version': cuver, 'fmt64': fmt64, 'asz': asz, 'dies': dies})
    if rng.random() < 0.3:
        # a unit of the other generation: must be ignored by the enumeration
        over = 4 if ver >= 5 else 5
        die = [('DW_AT_location', 'DW_FORM_sec_offset', 0)] if what == 'loc' else [('DW_AT_ranges', 'DW_FORM_sec_offset', 0)]
        cus.append({'version': over, 'fmt64': False, 'asz': asz, 'dies': [[('DW_AT_low_pc', 'DW_FORM_addr', 0)], die]})
    return cus, refs


# --------------------------------------------------------------------------- the real library
class Runaway(Exception):
    """an enumeration produced more items than the section has bytes: reported as an ordinary (wrong) outcome instead of
    letting the harness run out of memory"""


class World:
    """sections + DWARFInfo for one case"""

    def __init__(self, c, data, addr, cus):
        self.c, self.data, self.addr, self.cus = c, data, addr, cus
        what, ver, le, asz = c['what'], c['ver'], c['le'], c['asz']
        info, abbrev = build_info(cus, le) if cus else (None, None)
        kw = {}
        key = {('loc', True): 'loclists', ('loc', False): 'loc', ('rng', True): 'rnglists', ('rng', False): 'ranges'}[(what, ver >= 5)]
        kw[key] = data
        self.di = mk_dwarf(le, asz, info=info, abbrev=abbrev, addr=addr, **kw)
        self.lists = self.di.location_lists() if what == 'loc' else self.di.range_lists()
        self._cus = None

    def cu(self, i):
        if self._cus is None:
            self._cus = list(self.di.iter_CUs())
        return self._cus[i]

    def die(self, ci, di_):
        return list(self.cu(ci).iter_DIEs())[di_]

    def disturbing(self, offs):
        d = getattr(self, 'data', b'') or b''
        return bool(offs) and (sum(d[:16]) + len(d)) % 2 == 0

    def disturb(self, offs, k):
        """Between two advances of a suspended enumeration, fetch a list of the same section through the public API:
        the section stream is shared, and the property does not let an enumeration depend on where it was left
        (a seeded sequential `iter_CUs` was missed while the enumeration was always drained in one go).  Whether a case
        is disturbed is derived from its content, so both paths stay covered and a replay is exact."""
        if not self.disturbing(offs):
            return
        off = offs[k % len(offs)]
        try:
            if self.c['what'] == 'rng':
                self.lists.get_range_list_at_offset_ex(off)
            else:
                self.lists.get_location_list_at_offset(off)
        except Exception:       # noqa: BLE001
            pass

    def interleaved(self, call, cap):
        """`iter_cus_il` / `iter_cus_ex_il`: the enumeration of the unit blocks (and, for range lists, of each block's
        lists) on an object on which NOTHING has been parsed yet, with a step of ordinary client work between two
        advances of the suspended generators: (a) the next not yet parsed entry of .debug_info is parsed — its
        DW_FORM_loclistx / DW_FORM_rnglistx / DW_FORM_strx values are translated at that moment, through the offset
        tables of the very section being enumerated; (b) the list just yielded is translated entry by entry
        (startx / base_addressx entries go through get_addr -> get_top_DIE, a first-time parse of the unit entry).
        The property does not let the enumeration depend on where such work leaves the shared section stream: the
        result must be the plain enumeration's (same expectation, same model answer).  A seeded clean-up that dropped
        `preserve_stream_pos` from the offset-table read was missed while entries were always parsed before the walk."""
        L = self.lists

        def entries():
            for cu in self.di.iter_CUs():
                for d in cu.iter_DIEs():
                    yield d
        touch = entries()

        def poke(k, lst=()):
            try:
                next(touch)
            except Exception:       # noqa: BLE001  (StopIteration included)
                pass
            if self.c['what'] == 'rng':
                try:
                    cu = self.cu(k) if k < len(self.cus) else None
                    for e in lst:
                        L.translate_v5_entry(e, cu)
                except Exception:       # noqa: BLE001
                    pass
        out = []
        for k, h in enumerate(L.iter_CUs()):
            if len(out) > cap:
                raise Runaway('more unit blocks than section bytes')
            poke(k)
            if call == 'iter_cus_il':
                out.append(cn(h))
                continue
            lists = []
            for lst in L.iter_CU_range_lists_ex(h):
                lists.append(cn(lst))
                if len(lists) > cap:
                    raise Runaway('more items than section bytes')
                poke(k, lst)
            out.append(lists)
        return out

    def model_req(self, call, **kw):
        c = self.c
        call = {'iter_cus_il': 'iter_cus', 'iter_cus_ex_il': 'iter_cus_ex'}.get(call, call)
        rq = {'p': P, 'k': 'model', 'what': c['what'], 'ver': c['ver'], 'le': c['le'], 'asz': c['asz'], 'hex': hx(self.data),
              'call': call, 'cus': [cu_json(cu) for cu in self.cus]}
        if self.addr is not None:
            rq['addr'] = hx(self.addr)
        if c['ver'] >= 5:
            rq['loclists' if c['what'] == 'loc' else 'rnglists'] = hx(self.data)
        rq.update(kw)
        return rq

    def impl(self, call, **kw):
        what = self.c['what']
        L = self.lists
        if call == 'at':
            cu = self.cu(kw['cuidx']) if kw.get('cuidx') is not None else None
            if what == 'loc':
                die = cu.get_top_DIE() if cu is not None else None
                return cn(L.get_location_list_at_offset(kw['off'], die))
            return cn(L.get_range_list_at_offset(kw['off'], cu))
        if call == 'at_ex':
            return cn(L.get_range_list_at_offset_ex(kw['off']))
        if call == 'at_ex_tr':
            cu = self.cu(kw['cuidx']) if kw.get('cuidx') is not None else None
            return [cn(L.translate_v5_entry(e, cu)) for e in L.get_range_list_at_offset_ex(kw['off'])]
        if call == 'iter':
            return cn(list(L.iter_location_lists() if what == 'loc' else L.iter_range_lists()))
        # every block / list takes at least one byte of its section
        cap = len(getattr(self, 'data', None) or (getattr(self, 'd4', b'') + getattr(self, 'd5', b''))) + 2

        def capped(it):
            out = []
            for x in it:
                out.append(x)
                if len(out) > cap:
                    raise Runaway('more items than section bytes')
            return out
        if call in ('iter_cus_il', 'iter_cus_ex_il'):
            return World(self.c, self.data, self.addr, self.cus).interleaved(call, cap)
        if call == 'iter_cus':
            out = []
            for k, h in enumerate(L.iter_CUs()):
                out.append(h)
                if len(out) > cap:
                    raise Runaway('more unit blocks than section bytes')
                self.disturb(kw.get('disturb'), k)
            return cn(out)
        if call == 'iter_cus_ex':
            if not self.disturbing(kw.get('disturb')):
                return [cn(capped(L.iter_CU_range_lists_ex(h))) for h in capped(L.iter_CUs())]
            out = []
            for k, h in enumerate(L.iter_CUs()):
                if len(out) > cap:
                    raise Runaway('more unit blocks than section bytes')
                self.disturb(kw.get('disturb'), k + 1)
                out.append(cn(capped(L.iter_CU_range_lists_ex(h))))
                self.disturb(kw.get('disturb'), k)
            return out
        if call == 'attr':
            from elftools.dwarf.locationlists import LocationParser
            cu = self.cu(kw['cuidx'])
            die = self.die(kw['cuidx'], kw['die'])
            a = die.attributes[kw['name']]
            if what == 'loc':
                r = LocationParser(L).parse_from_attribute(a, cu['version'], die)
                r = cn(r) if isinstance(r, list) else cn(r)
            else:
                r = cn(L.get_range_list_at_offset(a.value, cu))
            return {'r': [['value', cn(a.value)], ['parsed', r]]}
        raise KeyError(call)


def loc_expr_obs(raw):
    return {'r': [['_t', 'LocationExpr'], ['loc_expr', list(raw)]]}


def check(ctx, stream, case, impl, model, expect=None, wf=True):
    out = ctx.out
    out.case(case)
    if expect is not None and wf and impl != {'ok': expect}:
        out.violation('property', stream, case, expect=expect, got=impl, model=model)
    elif impl != model:
        out.violation('correspondence', stream, case, got=impl, model=model)



# --------------------------------------------------------------------------- info: end to end through .debug_info
FORM_OP = {'DW_FORM_data1': 'nat', 'DW_FORM_data2': 'nat', 'DW_FORM_data4': 'nat', 'DW_FORM_data8': 'nat',
           'DW_FORM_sec_offset': 'nat', 'DW_FORM_addr': 'nat', 'DW_FORM_udata': 'uleb', 'DW_FORM_loclistx': 'uleb',
           'DW_FORM_rnglistx': 'uleb', 'DW_FORM_sdata': 'sleb', 'DW_FORM_exprloc': 'blocku', 'DW_FORM_block': 'blocku',
           'DW_FORM_block1': 'block', 'DW_FORM_block2': 'block', 'DW_FORM_block4': 'block'}
INDIRECT_OK = ('DW_FORM_data1', 'DW_FORM_data2', 'DW_FORM_data4', 'DW_FORM_data8', 'DW_FORM_sec_offset', 'DW_FORM_loclistx',
               'DW_FORM_rnglistx', 'DW_FORM_exprloc', 'DW_FORM_block1')
BASE_ATTRS = ('DW_AT_addr_base', 'DW_AT_loclists_base', 'DW_AT_rnglists_base')


def uleb_len(v):
    return max(1, (v.bit_length() + 6) // 7)


def forest_of_cus(rng, cus):
    """the units of `gen_cus` as a forest description (C04's request format); the entry order — top entry, its children,
    the closing null entry — is the one `refs` index into"""
    from elftools.dwarf.enums import ENUM_DW_AT, ENUM_DW_FORM
    abbrevs, units = [], []
    for cu in cus:
        decls, nodes = [], []
        dies = cu['dies']
        for i, die in enumerate(dies):
            code = i + 1 if rng.random() < 0.8 else 200 + 7 * i
            specs, attrs = [], []
            die = list(die)
            if rng.random() < 0.25:
                die.insert(rng.randrange(len(die) + 1), ('DW_AT_name', 'DW_FORM_string', rnd_bytes(rng, rng.choice([0, 1, 5])).replace(b'\0', b'x')))
            if cu['version'] >= 5 and rng.random() < 0.2:
                die.insert(rng.randrange(len(die) + 1), ('DW_AT_decl_line', 'DW_FORM_implicit_const', rng.choice([0, 1, -1, 63, -64, 1000])))
            for name, form, raw in die:
                an, fc = ENUM_DW_AT[name], ENUM_DW_FORM[form]
                spec = {'name': an, 'form': fc, 'nl': uleb_len(an) + rng.choice([0, 0, 0, 1])}
                a = {'form': fc}
                if form == 'DW_FORM_implicit_const':
                    spec['const'] = raw
                    spec['cl'] = 2 + rng.choice([0, 1])
                    a['op'] = ['implicit']
                elif form == 'DW_FORM_string':
                    a['op'] = ['str', hx(raw)]
                else:
                    k = FORM_OP[form]
                    if k == 'nat':
                        a['op'] = ['nat', raw]
                    elif k == 'uleb':
                        a['op'] = ['uleb', uleb_len(raw) + rng.choice([0, 0, 1, 2]), raw]
                    elif k == 'sleb':
                        a['op'] = ['sleb', 10, raw]
                    elif k == 'blocku':
                        a['op'] = ['blocku', uleb_len(len(raw)) + rng.choice([0, 0, 1]), hx(bytes(raw))]
                    else:
                        a['op'] = ['block', hx(bytes(raw))]
                    if form in INDIRECT_OK and name not in BASE_ATTRS and rng.random() < 0.2:
                        # DW_FORM_indirect: the final form stands in the entry, behind 0..1 further DW_FORM_indirect codes
                        spec['form'] = ENUM_DW_FORM['DW_FORM_indirect']
                        a['ind'] = [1 + rng.choice([0, 0, 1])] * rng.choice([1, 1, 2])
                specs.append(spec)
                attrs.append(a)
            decls.append({'code': code, 'cl': uleb_len(code) + rng.choice([0, 0, 1]), 'tag': 0x11 if i == 0 else 0x34,
                          'children': i == 0 and len(dies) > 1, 'specs': specs})
            nodes.append({'code': code, 'cl': uleb_len(code) + rng.choice([0, 0, 2]), 'attrs': attrs})
        tree = dict(nodes[0], kids=nodes[1:], nl=rng.choice([1, 1, 2, 3]))
        abbrevs.append({'decls': decls, 'gap': hx(rnd_bytes(rng, rng.choice([0, 0, 1, 5]))), 'end_len': rng.choice([1, 1, 2])})
        units.append({'fmt64': cu['fmt64'], 'version': cu['version'], 'asz': cu['asz'], 'table': len(abbrevs) - 1, 'tree': tree})
    return abbrevs, units


class InfoWorld(World):
    """sections + DWARFInfo for one `info` case: .debug_info / .debug_abbrev are the Lean Spec encodings"""

    def __init__(self, c, data, addr, info, abbrev):
        self.c, self.data, self.addr = c, data, addr
        what, ver, le, asz = c['what'], c['ver'], c['le'], c['asz']
        key = {('loc', True): 'loclists', ('loc', False): 'loc', ('rng', True): 'rnglists', ('rng', False): 'ranges'}[(what, ver >= 5)]
        self.di = mk_dwarf(le, asz, info=info, abbrev=abbrev, addr=addr, **{key: data})
        self.lists = self.di.location_lists() if what == 'loc' else self.di.range_lists()
        self._cus = None

    def impl(self, call, **kw):
        if call == 'cus':
            out = []
            for cu in self.di.iter_CUs():
                out.append({'version': cu['version'], 'asz': cu['address_size'], 'fmt': cu.structs.dwarf_format,
                            'dies': [[[a.name if isinstance(a.name, str) else str(a.name),
                                       a.form if isinstance(a.form, str) else str(a.form), cn(a.raw_value)]
                                      for a in die.attributes.values()] for die in cu.iter_DIEs()]})
            return out
        return World.impl(self, call, **kw)


def info_request(c, data, addr, abbrevs, units, calls):
    secs = {}
    if addr is not None:
        secs['addr'] = hx(addr)
    if c['ver'] >= 5:
        secs['loclists' if c['what'] == 'loc' else 'rnglists'] = hx(data)
    return {'p': P, 'k': 'info', 'what': c['what'], 'ver': c['ver'], 'le': c['le'], 'asz': c['asz'], 'hex': hx(data),
            'abbrevs': abbrevs, 'units': units, 'secs': secs,
            'calls': [dict(kw, call=call) for call, kw in calls]}


def info_calls(c, r, cus, refs):
    """[(call, kwargs, expect or None, wf)]: the enumeration and every reference, as in `sec`"""
    out = []
    for call, kw, exp, wf in sec_calls(c, r, cus, refs):
        if call in ('iter', 'attr'):
            out.append((call, {k: v for k, v in kw.items() if k != 'disturb'}, exp, wf))
    return out


def run_info(ctx):
    rng = ctx.rng('info')
    cases = [gen_case(rng) for _ in range(ctx.budget(350, 6000))]
    replies = ctx.driver.ask_many(cases)
    todo, reqs = [], []
    for c, r in zip(cases, replies):
        if 'fatal' in r:
            raise RuntimeError('driver: %s on %r' % (r['fatal'], str(c)[:400]))
        data = bytes.fromhex(r['bytes'])
        addr_pre = rng.choice([0, 8, 8, 12, 16])
        addr = rnd_bytes(rng, addr_pre) + bytes.fromhex(r['addrbytes']) + rnd_bytes(rng, rng.choice([0, 3]))
        cus, refs = gen_cus(rng, c, r, addr_pre)
        if not cus:
            continue
        abbrevs, units = forest_of_cus(rng, cus)
        calls = info_calls(c, r, cus, refs)
        addr = addr if c['ver'] >= 5 else None
        todo.append((c, data, addr, abbrevs, units, calls))
        reqs.append(info_request(c, data, addr, abbrevs, units, [('cus', {})] + [(call, kw) for call, kw, _, _ in calls]))
    for (c, data, addr, abbrevs, units, calls), rq, m in zip(todo, reqs, ctx.driver.ask_many(reqs)):
        if 'fatal' in m:
            raise RuntimeError('driver: %s on info %r' % (m['fatal'], str(rq)[:600]))
        info_compare(ctx, c, data, addr, abbrevs, units, calls, m)


def info_compare(ctx, c, data, addr, abbrevs, units, calls, m, replaying=None):
    """compare one info case; with `replaying` = (call, kw) return (impl, expect, model, fails) of that call instead"""
    w = InfoWorld(c, data, addr, bytes.fromhex(m['info']), bytes.fromhex(m['abbrev']))
    wf0 = m['wf']
    allcalls = [('cus', {}, m['cus'], wf0)] + [(call, kw, exp, wf and wf0) for call, kw, exp, wf in calls]
    if replaying is None:
        ctx.out.count('info:%s:v%d:%s' % (c['what'], c['ver'], 'wf' if wf0 else 'notwf'))
        for u in units:
            ctx.out.count('info:unit:v%d:%s' % (u['version'], 'fmt64' if u['fmt64'] else 'fmt32'))
            for n in [u['tree']] + u['tree']['kids']:
                for a in n['attrs']:
                    ctx.out.count('info:attr:form%#x%s' % (a['form'], ':indirect%d' % len(a['ind']) if a.get('ind') else ''))
    for (call, kw, exp, wf), model in zip(allcalls, m['models']):
        impl = run_impl(lambda: w.impl(call, **kw))
        if replaying is not None:
            if replaying == (call, kw):
                fails = impl != model or (exp is not None and wf and impl != {'ok': exp})
                return impl, exp, model, fails
            continue
        ctx.out.count('info:call:%s:%s' % (call, 'ok' if 'ok' in impl else 'err'))
        case = {'asm': c, 'addr': hx(addr) if addr is not None else None, 'data': hx(data), 'abbrevs': abbrevs, 'units': units,
                'calls': [[cl, k2, e2, w2] for cl, k2, e2, w2 in calls], 'call': call, 'kw': kw}
        check(ctx, 'info', case, impl, model, exp, wf)
    return None



# --------------------------------------------------------------------------- expr: expressions inside location entries
def run_expr(ctx):
    from props import c12
    rng = ctx.rng('expr')
    sigs = {}
    todo = []
    for _ in range(ctx.budget(160, 3000)):
        le, asz, ver = rng.random() < 0.5, rng.choice([4, 8]), rng.choice([2, 3, 4, 5, 5])
        cfg = c12.cfg_list(le, 32, asz, ver)           # the structs a DWARFInfo hands out: DWARF32, default address size
        if tuple(cfg) not in sigs:
            sigs[tuple(cfg)] = c12.get_sig(ctx, cfg)
        exprs = []
        for _k in range(rng.choice([1, 1, 2, 3])):
            ops = c12.rnd_ops(rng, sigs[tuple(cfg)], rng.choice([0, 1, 1, 2, 3, 8]), rng.randrange(0, 3), blob_cap=24)
            c12.fix_entry_lengths(ops, rng)
            exprs.append(ops)
        todo.append((cfg, exprs))
    flat = [(cfg, ops) for cfg, exprs in todo for ops in exprs]
    areps = ctx.driver.ask_many([{'p': 'C12', 'k': 'ast', 'cfg': cfg, 'ops': ops} for cfg, ops in flat])
    it = iter(areps)
    reqs, metas = [], []
    for cfg, exprs in todo:
        rs = [next(it) for _ in exprs]
        for r in rs:
            if 'fatal' in r:
                raise RuntimeError('driver: %s' % r['fatal'])
        le, _, asz, ver = cfg
        if any((not r['wf']) or len(r['bytes']) // 2 >= 65536 for r in rs):
            ctx.out.count('expr:notwf')
            continue
        if ver < 5:
            ents = []
            for r in rs:
                if rng.random() < 0.3:
                    ents.append(['base', rnd_addr(rng, asz)])
                ents.append(['loc', 1 + rng.randrange(1000), 1 + rng.randrange(1000), r['bytes']])
            rq = {'p': P, 'k': 'v4', 'what': 'loc', 'le': le, 'asz': asz, 'pre': hx(rnd_bytes(rng, rng.choice([0, 3, 16]))),
                  'rest': hx(rnd_bytes(rng, rng.choice([0, 5]))), 'entries': ents}
        else:
            ents = []
            for r in rs:
                x = bytes.fromhex(r['bytes'])
                cl = ['c', uleb_len(len(x)) + rng.choice([0, 0, 1]), r['bytes']]
                code = rng.choice([4, 5, 7, 8])
                vals = {4: lambda: [U(rng, 1), U(rng, 9), cl], 5: lambda: [cl],
                        7: lambda: [['a', rnd_addr(rng, asz)], ['a', rnd_addr(rng, asz)], cl],
                        8: lambda: [['a', rnd_addr(rng, asz)], U(rng, 77), cl]}[code]()
                ents.append({'code': code, 'vals': vals})
            rq = {'p': P, 'k': 'asm', 'what': 'loc', 'ver': 5, 'le': le, 'asz': asz, 'addrs': [],
                  'units': [{'fmt64': rng.random() < 0.4, 'segsz': 0, 'noff': 0, 'items': [{'t': 'list', 'entries': ents}]}]}
        reqs.append(rq)
        metas.append((cfg, rs, rq))
    for (cfg, rs, rq), r in zip(metas, ctx.driver.ask_many(reqs)):
        if 'fatal' in r:
            raise RuntimeError('driver: %s on %r' % (r['fatal'], str(rq)[:300]))
        expr_compare(ctx, cfg, rs, rq, r)


def expr_fetch(cfg, rq, r):
    """the real library: the list, then every entry's expression through the real parser"""
    from props import c12
    le, _, asz, ver = cfg
    data = bytes.fromhex(r['bytes'])
    if ver < 5:
        di = mk_dwarf(le, asz, loc=data)
        lst = di.location_lists().get_location_list_at_offset(r['pos'])
        exp_list = r['expect']
    else:
        info, abbrev = build_info([{'version': 5, 'fmt64': False, 'asz': asz, 'dies': [[('DW_AT_low_pc', 'DW_FORM_addr', 0)]]}], le)
        di = mk_dwarf(le, asz, info=info, abbrev=abbrev, loclists=data, addr=b'')
        it = r['units'][0]['items'][0]
        lst = di.location_lists().get_location_list_at_offset(it['off'], next(di.iter_CUs()).get_top_DIE())
        exp_list = it['tr']
    parser = c12.parser_for(cfg)
    ops = [c12.canon_ops(parser.parse_expr(e.loc_expr)) for e in lst if hasattr(e, 'loc_expr')]
    return {'list': cn(lst), 'ops': ops}, exp_list


def expr_compare(ctx, cfg, rs, rq, r, replaying=False):
    holder = {}

    def go():
        got, exp_list = expr_fetch(cfg, rq, r)
        holder['exp_list'] = exp_list
        return got
    impl = run_impl(go)
    if 'exp_list' not in holder:
        holder['exp_list'] = None
    expect = {'list': holder['exp_list'], 'ops': [x['expect'] for x in rs]}
    mlist = r['model'].get('ok') if isinstance(r.get('model'), dict) else holder['exp_list']     # `v4` replies carry the list model
    model = {'ok': {'list': mlist, 'ops': [x['model']['ok'] if 'ok' in x['model'] else x['model'] for x in rs]}}
    if replaying:
        return impl, expect, model, (impl != {'ok': expect} or impl != model)
    ctx.out.count('expr:v%d:asz%d:%s' % (cfg[3], cfg[2], 'ok' if 'ok' in impl else 'err'))
    for x in rs:
        ctx.out.count('expr:ops:%s' % ('0' if not x['expect'] else '1-3' if len(x['expect']) <= 3 else '4+'))
    case = {'cfg': cfg, 'rs': [{'bytes': x['bytes'], 'expect': x['expect'], 'model': x['model']} for x in rs], 'req': rq}
    check(ctx, 'expr', case, impl, model, expect, True)


# --------------------------------------------------------------------------- streams
def run_v4(ctx):
    rng = ctx.rng('v4')
    cases = []
    # 2-byte expression length: the model is list-based (quadratic), so the 64 KiB boundary is left to the thorough tier
    big = (1000, 4000)
    if ctx.tier != 'quick':
        for ln in (65535, 65534):            # the boundary itself: two dedicated cases (~1 min each in the model)
            cases.append({'p': P, 'k': 'v4', 'what': 'loc', 'le': ln % 2 == 0, 'asz': 4 + 4 * (ln % 2), 'pre': '00', 'rest': '',
                          'entries': [['loc', 1, 2, hx(rnd_bytes(rng, ln))], ['base', 7]]})
    for _ in range(ctx.budget(2500, 25000)):
        what = rng.choice(['loc', 'rng'])
        asz = rng.choice([4, 8])
        cases.append({'p': P, 'k': 'v4', 'what': what, 'le': rng.random() < 0.5, 'asz': asz,
                      'pre': hx(rnd_bytes(rng, rng.choice([0, 0, 1, 5, 33]))), 'rest': hx(rnd_bytes(rng, rng.choice([0, 0, 1, 9]))),
                      'entries': gen_v4_entries(rng, what, asz, big=big)})
    for c, r in zip(cases, ctx.driver.ask_many(cases)):
        if 'fatal' in r:
            raise RuntimeError('driver: %s on %r' % (r['fatal'], c))
        ctx.out.count('v4:%s:asz%d:%s' % (c['what'], c['asz'], 'wf' if r['wf'] else 'notwf'))
        for e in c['entries']:
            ctx.out.count('v4:entry:' + e[0])
        impl = run_impl(lambda: v4_impl(c, r))
        check(ctx, 'v4', {'req': c}, impl, r['model'], r['expect'], r['wf'])


def v4_impl(c, r):
    data = bytes.fromhex(r['bytes'])
    di = mk_dwarf(c['le'], c['asz'], **{'loc' if c['what'] == 'loc' else 'ranges': data})
    if c['what'] == 'loc':
        return cn(di.location_lists().get_location_list_at_offset(r['pos']))
    return cn(di.range_lists().get_range_list_at_offset(r['pos']))


def sec_calls(c, r, cus, refs):
    """[(call, kwargs, expect or None)] for one assembled case"""
    what, ver = c['what'], c['ver']
    calls = []
    allwf = r['wf']
    lists = {}
    for ui, ur in enumerate(r['units']):
        for ii, it in enumerate(ur['items']):
            if it['t'] == 'list':
                lists[(ui, ii)] = it
                allwf = allwf and it['wf']
    # a CU of the right generation for every unit (fetch by offset)
    for (ui, ii), it in lists.items():
        cuidx = ui if cus else None
        if ver >= 5 and cuidx is None:
            continue
        calls.append(('at', {'off': it['off'], 'cuidx': cuidx}, it['tr'], it['wf']))
        if ver >= 5 and what == 'rng':
            calls.append(('at_ex', {'off': it['off']}, it['raw'], it['wf']))
            calls.append(('at_ex_tr', {'off': it['off'], 'cuidx': cuidx}, it['tr'], it['wf']))
    if cus:
        # by attribute: value (offset, or index through the offset table) and the list
        for (ci, di_, name, ui, ii) in refs:
            it = lists[(ui, ii)]
            exp = {'r': [['value', it['off']], ['parsed', it['tr']]]}
            calls.append(('attr', {'cuidx': ci, 'die': di_, 'name': name}, exp, it['wf']))
        # enumeration: the distinct referenced lists, by increasing offset, each with its view pairs
        seen = sorted({(lists[(ui, ii)]['voff'], ui, ii) for (_, _, _, ui, ii) in refs})
        exp = [lists[(ui, ii)]['views'] + lists[(ui, ii)]['tr'] for (_, ui, ii) in seen] if allwf else None
        calls.append(('iter', {}, exp, allwf))
        if ver >= 5:
            offs = sorted({it['off'] for it in lists.values()})
            calls.append(('iter_cus', {'disturb': offs}, [ur['hdr'] for ur in r['units']], r['wf']))
            calls.append(('iter_cus_il', {}, [ur['hdr'] for ur in r['units']], r['wf']))
            if what == 'rng':
                calls.append(('iter_cus_ex', {'disturb': offs}, [ur['lists'] for ur in r['units']], allwf))
                calls.append(('iter_cus_ex_il', {}, [ur['lists'] for ur in r['units']], allwf))
    return calls


def run_sec(ctx):
    rng = ctx.rng('sec')
    cases = [gen_case(rng) for _ in range(ctx.budget(1200, 15000))]
    replies = ctx.driver.ask_many(cases)
    todo = []
    for c, r in zip(cases, replies):
        if 'fatal' in r:
            raise RuntimeError('driver: %s on %r' % (r['fatal'], str(c)[:400]))
        data = bytes.fromhex(r['bytes'])
        addr_pre = rng.choice([0, 8, 8, 12, 16])
        addr = (rnd_bytes(rng, addr_pre) + bytes.fromhex(r['addrbytes']) + rnd_bytes(rng, rng.choice([0, 3]))) if (c['addrs'] or rng.random() < 0.5) else None
        cus, refs = gen_cus(rng, c, r, addr_pre)
        if addr is None:
            # no .debug_addr: the generator made no indexed entries (naddrs = 0); keep a stub so that base attributes resolve
            addr = b''
        w = World(c, data, addr if c['ver'] >= 5 else None, cus)
        ctx.out.count('sec:%s:v%d:asz%d:%s' % (c['what'], c['ver'], c['asz'], 'le' if c['le'] else 'be'))
        ctx.out.count('sec:units:%d' % len(c['units']))
        for u in c['units']:
            if 'noff' in u:
                ctx.out.count('sec:offset_count:%d' % u['noff'])
                ctx.out.count('sec:fmt64' if u['fmt64'] else 'sec:fmt32')
            for it in u['items']:
                ctx.out.count('sec:item:' + it['t'] + (':views' if it.get('views') else ''))
                for e in it.get('entries', []):
                    ctx.out.count('sec:entry:%s' % (e['code'] if isinstance(e, dict) else e[0]))
        for cu in cus:
            for k, die in enumerate(cu['dies']):
                for n, f, _ in die:
                    if n in LOC_ATTRS or n == 'DW_AT_ranges':
                        ctx.out.count('sec:ref:' + f + (':top' if k == 0 else ''))
        for call, kw, exp, wf in sec_calls(c, r, cus, refs):
            todo.append((w, call, kw, exp, wf))
    models = ctx.driver.ask_many([w.model_req(call, **kw) for (w, call, kw, exp, wf) in todo])
    for (w, call, kw, exp, wf), m in zip(todo, models):
        if 'fatal' in m:
            raise RuntimeError('driver: %s on %s %r' % (m['fatal'], call, kw))
        impl = run_impl(lambda: w.impl(call, **kw))
        ctx.out.count('sec:call:' + call)
        case = {'asm': w.c, 'cus': w.cus, 'addr': hx(w.addr) if w.addr is not None else None, 'call': call, 'kw': kw}
        check(ctx, 'sec', case, impl, m['model'], exp, wf)


class PairWorld(World):
    """both sections present: the list object is a LocationListsPair / RangeListsPair"""

    def __init__(self, what, le, asz, d4, d5, addr, cus):
        self.c = {'what': what, 'le': le, 'asz': asz}
        self.d4, self.d5, self.addr, self.cus = d4, d5, addr, cus
        info, abbrev = build_info(cus, le)
        kw = {'loc': d4, 'loclists': d5} if what == 'loc' else {'ranges': d4, 'rnglists': d5}
        self.di = mk_dwarf(le, asz, info=info, abbrev=abbrev, addr=addr, **kw)
        self.lists = self.di.location_lists() if what == 'loc' else self.di.range_lists()
        self._cus = None

    def model_req(self, call, **kw):
        c = self.c
        rq = {'p': P, 'k': 'pair', 'what': c['what'], 'le': c['le'], 'asz': c['asz'], 'hex4': hx(self.d4), 'hex5': hx(self.d5),
              'call': call, 'cus': [cu_json(cu) for cu in self.cus], 'addr': hx(self.addr),
              ('loclists' if c['what'] == 'loc' else 'rnglists'): hx(self.d5)}
        rq.update(kw)
        return rq


def pair_world(ctx, pc):
    """pc: {'c4','c5','cus','addr'} → (PairWorld, r4, r5)"""
    r4, r5 = ctx.driver.ask_many([pc['c4'], pc['c5']])
    for r in (r4, r5):
        if 'fatal' in r:
            raise RuntimeError('driver: %s' % r['fatal'])
    c5 = pc['c5']
    w = PairWorld(c5['what'], c5['le'], c5['asz'], bytes.fromhex(r4['bytes']), bytes.fromhex(r5['bytes']),
                  bytes.fromhex(pc['addr']), pc['cus'])
    return w, r4, r5


def run_pair(ctx):
    rng = ctx.rng('pair')
    todo = []
    for _ in range(ctx.budget(250, 4000)):
        what = rng.choice(['loc', 'rng'])
        le = rng.random() < 0.5
        asz = rng.choice([4, 8])
        c4 = gen_case(rng, {'what': what, 'ver': rng.choice([2, 3, 4]), 'le': le, 'asz': asz})
        c5 = gen_case(rng, {'what': what, 'ver': 5, 'le': le, 'asz': asz})
        r4, r5 = ctx.driver.ask_many([c4, c5])
        for r in (r4, r5):
            if 'fatal' in r:
                raise RuntimeError('driver: %s' % r['fatal'])
        addr_pre = rng.choice([0, 8, 8, 12, 16])
        addr = rnd_bytes(rng, addr_pre) + bytes.fromhex(r5['addrbytes']) + rnd_bytes(rng, rng.choice([0, 3]))
        cus4, _ = gen_cus(rng, c4, r4, addr_pre)
        cus5, _ = gen_cus(rng, c5, r5, addr_pre)
        flip = rng.random() < 0.5                     # units of mixed versions, in either order
        cus = cus5 + cus4 if flip else cus4 + cus5
        base4, base5 = (len(cus5), 0) if flip else (0, len(cus4))
        pc = {'c4': c4, 'c5': c5, 'cus': cus, 'addr': hx(addr)}
        w = PairWorld(what, le, asz, bytes.fromhex(r4['bytes']), bytes.fromhex(r5['bytes']), addr, cus)
        ctx.out.count('pair:%s:asz%d:%s:%s' % (what, asz, 'le' if le else 'be', type(w.lists).__name__))
        l4 = [it for it in r4['units'][0]['items'] if it['t'] == 'list']
        l5 = [(ui, it) for ui, ur in enumerate(r5['units']) for it in ur['items'] if it['t'] == 'list']
        calls = []
        for it in l4:
            calls.append(('at', {'off': it['off'], 'cuidx': base4}, it['tr'], it['wf'] and r4['wf'], 'old'))
        for ui, it in l5:
            calls.append(('at', {'off': it['off'], 'cuidx': base5 + ui}, it['tr'], it['wf'] and r5['wf'], 'v5'))
            if what == 'rng':
                calls.append(('at_ex', {'off': it['off']}, it['raw'], it['wf'] and r5['wf'], 'v5'))
                calls.append(('at_ex_tr', {'off': it['off'], 'cuidx': base5 + ui}, it['tr'], it['wf'] and r5['wf'], 'v5'))
        # the other section's offsets with this unit, and no unit at all: model vs code
        if l4:
            calls.append(('at', {'off': l4[0]['off'], 'cuidx': base5}, None, False, 'cross'))
            calls.append(('at', {'off': l4[0]['off'], 'cuidx': None}, None, False, 'nounit'))
        if l5:
            calls.append(('at', {'off': l5[0][1]['off'], 'cuidx': base4}, None, False, 'cross'))
        calls.append(('iter', {}, None, False, 'refused'))
        allwf5 = r5['wf'] and all(it['wf'] for _, it in l5)
        if what == 'rng':
            calls.append(('iter_cus', {}, [ur['hdr'] for ur in r5['units']], r5['wf'], 'v5'))
            calls.append(('iter_cus_ex', {}, [ur['lists'] for ur in r5['units']], allwf5, 'v5'))
        else:
            calls.append(('iter_cus', {}, None, False, 'refused'))
        for call, kw, exp, wf, tag in calls:
            todo.append((w, pc, call, kw, exp, wf, tag))
    models = ctx.driver.ask_many([w.model_req(call, **kw) for (w, pc, call, kw, exp, wf, tag) in todo])
    for (w, pc, call, kw, exp, wf, tag), m in zip(todo, models):
        if 'fatal' in m:
            raise RuntimeError('driver: %s on pair %s %r' % (m['fatal'], call, kw))
        impl = run_impl(lambda: w.impl(call, **kw))
        ctx.out.count('pair:call:%s:%s:%s' % (call, tag, 'ok' if 'ok' in impl else 'err'))
        check(ctx, 'pair', dict(pc, call=call, kw=kw), impl, m['model'], exp if wf else None, wf)


CLS_NAMES = ['DW_AT_location', 'DW_AT_string_length', 'DW_AT_const_value', 'DW_AT_return_addr', 'DW_AT_data_member_location',
             'DW_AT_frame_base', 'DW_AT_segment', 'DW_AT_static_link', 'DW_AT_use_location', 'DW_AT_vtable_elem_location',
             'DW_AT_call_value', 'DW_AT_GNU_call_site_value', 'DW_AT_GNU_call_site_target', 'DW_AT_GNU_call_site_data_value',
             'DW_AT_call_target', 'DW_AT_call_target_clobbered', 'DW_AT_call_data_location', 'DW_AT_call_data_value',
             'DW_AT_upper_bound', 'DW_AT_count', 'DW_AT_name', 'DW_AT_ranges', 'DW_AT_GNU_locviews', 'DW_AT_low_pc',
             'DW_AT_lower_bound', 'DW_AT_byte_size']


class _Stub:
    def get_location_list_at_offset(self, off, die=None):
        return 'LIST'


def cls_impl(name, form, ver):
    from elftools.dwarf.locationlists import LocationParser, LocationExpr
    from elftools.dwarf.die import AttributeValue
    a = AttributeValue(name=name, form=form, value=0, raw_value=0, offset=0, indirection_length=0)
    has = LocationParser.attribute_has_location(a, ver)
    try:
        r = LocationParser(_Stub()).parse_from_attribute(a, ver)
        cls = 'expr' if isinstance(r, LocationExpr) else ('list' if r == 'LIST' else 'none?')
    except ValueError:
        cls = 'neither'
    return {'cls': cls, 'has': has}


def run_cls(ctx):
    from elftools.dwarf.enums import ENUM_DW_FORM
    reqs = []
    for name in CLS_NAMES:
        for form in sorted(ENUM_DW_FORM):
            if form == '_default_':
                continue
            for ver in (2, 3, 4, 5):
                reqs.append({'p': P, 'k': 'cls', 'name': name, 'form': form, 'ver': ver})
    for rq, r in zip(reqs, ctx.driver.ask_many(reqs)):
        if 'fatal' in r:
            raise RuntimeError('driver: %s' % r['fatal'])
        impl = run_impl(lambda: cls_impl(rq['name'], rq['form'], rq['ver']))
        ctx.out.count('cls:' + r['expect'])
        exp = {'cls': r['expect'], 'has': r['expect'] != 'neither'}
        model = {'ok': {'cls': r['model'], 'has': r['model_has_location']}}
        check(ctx, 'cls', {'name': rq['name'], 'form': rq['form'], 'ver': rq['ver']}, impl, model, exp)


def run_raw(ctx):
    """damaged sections: correspondence only"""
    rng = ctx.rng('raw')
    cases = [gen_case(rng) for _ in range(ctx.budget(500, 8000))]
    replies = ctx.driver.ask_many(cases)
    todo = []
    for c, r in zip(cases, replies):
        if 'fatal' in r:
            raise RuntimeError('driver: %s' % r['fatal'])
        data = bytearray(bytes.fromhex(r['bytes']))
        addr_pre = 8
        addr = rnd_bytes(rng, addr_pre) + bytes.fromhex(r['addrbytes'])
        cus, refs = gen_cus(rng, c, r, addr_pre)
        mode = rng.choice(['flip', 'trunc', 'flip', 'none'])
        if data and mode == 'flip':
            for _ in range(rng.choice([1, 1, 2, 4])):
                data[rng.randrange(len(data))] = rng.choice([0, 1, 0xff, rng.randrange(256)])
        elif data and mode == 'trunc':
            del data[rng.randrange(len(data)):]
        if rng.random() < 0.3 and addr:
            addr = addr[:rng.randrange(len(addr) + 1)]
        w = World(c, bytes(data), addr if c['ver'] >= 5 else None, cus)
        ctx.out.count('raw:' + mode)
        offs = [it['off'] for ur in r['units'] for it in ur['items'] if it['t'] == 'list']
        for off in offs[:3] + [rng.randrange(len(data) + 2)]:
            cuidx = 0 if cus else None
            if c['ver'] >= 5 and cuidx is None:
                continue
            todo.append((w, 'at', {'off': off + rng.choice([0, 0, 0, 1]), 'cuidx': cuidx}))
            if c['ver'] >= 5 and c['what'] == 'rng':
                todo.append((w, 'at_ex', {'off': off}))
        if cus:
            todo.append((w, 'iter', {}))
            if c['ver'] >= 5:
                todo.append((w, 'iter_cus', {}))
                if c['what'] == 'rng':
                    todo.append((w, 'iter_cus_ex', {}))
    models = ctx.driver.ask_many([w.model_req(call, **kw) for (w, call, kw) in todo])
    for (w, call, kw), m in zip(todo, models):
        if 'fatal' in m:
            raise RuntimeError('driver: %s on %s %r' % (m['fatal'], call, kw))
        impl = run_impl(lambda: w.impl(call, **kw))
        ctx.out.count('raw:call:' + call + (':err' if 'err' in impl else ':ok'))
        case = {'asm': w.c, 'cus': w.cus, 'addr': hx(w.addr) if w.addr is not None else None, 'data': hx(w.data), 'call': call, 'kw': kw}
        check(ctx, 'raw', case, impl, m['model'])


def run(ctx):
    run_v4(ctx)
    run_cls(ctx)
    run_sec(ctx)
    run_pair(ctx)
    run_raw(ctx)
    run_info(ctx)
    run_expr(ctx)


# --------------------------------------------------------------------------- replay
def replay(ctx, payload):
    v = payload['violation']
    case, stream = v['case'], v['stream']
    res = {'stream': stream, 'case': case}
    if stream == 'v4':
        c = case['req']
        r = ctx.driver.ask(c)
        impl = run_impl(lambda: v4_impl(c, r))
        res.update(impl=impl, expect=r['expect'], model=r['model'],
                   fails=((r['wf'] and impl != {'ok': r['expect']}) or impl != r['model']))
    elif stream == 'cls':
        rq = {'p': P, 'k': 'cls', 'name': case['name'], 'form': case['form'], 'ver': case['ver']}
        r = ctx.driver.ask(rq)
        impl = run_impl(lambda: cls_impl(case['name'], case['form'], case['ver']))
        exp = {'cls': r['expect'], 'has': r['expect'] != 'neither'}
        model = {'ok': {'cls': r['model'], 'has': r['model_has_location']}}
        res.update(impl=impl, expect=exp, model=model, fails=(impl != {'ok': exp} or impl != model))
    elif stream == 'expr':
        r = ctx.driver.ask(case['req'])
        impl, exp, model, fails = expr_compare(ctx, case['cfg'], case['rs'], case['req'], r, replaying=True)
        res.update(impl=impl, expect=exp, model=model, fails=fails)
    elif stream == 'info':
        c = case['asm']
        data = bytes.fromhex(case['data'])
        addr = bytes.fromhex(case['addr']) if case.get('addr') is not None else None
        calls = [(cl, kw, exp, wf) for cl, kw, exp, wf in case['calls']]
        rq = info_request(c, data, addr, case['abbrevs'], case['units'], [('cus', {})] + [(cl, kw) for cl, kw, _, _ in calls])
        m = ctx.driver.ask(rq)
        impl, exp, model, fails = info_compare(ctx, c, data, addr, case['abbrevs'], case['units'], calls, m,
                                               replaying=(case['call'], case['kw']))
        res.update(impl=impl, expect=exp, model=model, fails=fails)
    elif stream == 'pair':
        cus = [dict(cu, dies=[[tuple(a) for a in die] for die in cu['dies']]) for cu in case['cus']]
        w, r4, r5 = pair_world(ctx, dict(case, cus=cus))
        call, kw = case['call'], case['kw']
        impl = run_impl(lambda: w.impl(call, **kw))
        m = ctx.driver.ask(w.model_req(call, **kw))
        exp = v.get('expect')
        fails = impl != m['model'] or (exp is not None and impl != {'ok': exp})
        res.update(impl=impl, expect=exp, model=m['model'], fails=fails)
    else:
        c = case['asm']
        r = ctx.driver.ask(c)
        data = bytes.fromhex(case['data']) if 'data' in case else bytes.fromhex(r['bytes'])
        addr = bytes.fromhex(case['addr']) if case.get('addr') is not None else None
        cus = [dict(cu, dies=[[tuple(a) for a in die] for die in cu['dies']]) for cu in case['cus']]
        w = World(c, data, addr, cus)
        call, kw = case['call'], case['kw']
        impl = run_impl(lambda: w.impl(call, **kw))
        m = ctx.driver.ask(w.model_req(call, **kw))
        exp = v.get('expect') if stream == 'sec' else None
        fails = impl != m['model'] or (exp is not None and impl != {'ok': exp})
        res.update(impl=impl, expect=exp, model=m['model'], fails=fails)
    return res
