"""C10 — answers do not depend on query history or stream position.

Streams:
  hist     : random histories (quick 200 x 60 ops) over the public read-only API on small generated files
             (props/c10_gen.py) and on shipped binaries: the SAME op list is applied to ONE live object; every
             answer is compared with the answer of the same query on a FRESHLY opened object (property) and —
             for the operations the Lean state machine covers — with `Model.C10.xstep` (the base step inside the cache
             layer) run by the driver over the pure parse tables of the file (correspondence: answers AND the abstract
             cache state after every op: `_cu_offsets_map`, per-unit `_diemap`, `_parent`/`_terminator` links,
             `_abbrevtable_cache` keys and the per-unit `_abbrev_table` memo, `_linetable_cache` keys with their
             decoded flag, `entries` / `_entry_cache` keys of two CallFrameInfo objects that are kept, the position of
             the .debug_info stream).  Tables, line-program headers / entries and CFI entries are compared by value
             through per-file numbering of their canonical forms (`describe_x`).
  exh      : thorough: every history up to depth 4 over a 14-op alphabet and up to depth 3 over 17 ops on two tiny files (every reachable abstract
             cache state x every operation; states/transitions counted from hashes of the private cache attributes,
             which are only read); quick: depth 2
  soak     : thorough: 2000-op random histories
  err      : corrupted copies of generated files (no .debug_addr under DW_FORM_addrx, a symbol table running past the
             end of the file, a section that cannot be constructed, a last .debug_frame entry running past the end of
             its section under a CallFrameInfo object that is kept): a query that raises must raise the same way every
             time (regression for the five half-built-cache defects fixed for this property)
  seqrand  : sequential iteration on one object vs access by offset, in reverse order, on another: entry for entry

An operation is a JSON list; `seek` operations reposition any of the shared streams adversarially, `it_new`/`it_next`
create and resume generators (partial consumption interleaved with other queries).  Failing histories are shrunk
(delta debugging on the op list) before they are reported.
"""
import io, os, json, hashlib, itertools
from common import run_impl, classify_exception, REPO
from props import c10_gen

RULE = ('hist: files from the structured generator (1-3 units, DWARF 2-5, DIE trees to depth 3 with and without DW_AT_sibling in '
        'ref4/ref_udata/ref_addr form, cross-unit DW_FORM_ref_addr, DWARF 5 strx/addrx in the top DIE before its *_base attribute, '
        'shared and define_file line programs, forward CIE pointers, duplicate section and symbol names, both byte orders and '
        'classes) and shipped binaries; ops drawn uniformly from the alphabet instantiated with every valid unit/DIE offset of '
        'the file, every stream and boundary seek positions. exh: all op sequences to the depth bound. Non-trivial = distinct '
        '(file, history prefix, op); every compared answer comes from at least one parse.')
ASSUMPTIONS = ['io.BytesIO read/seek/tell semantics', 'bisect.bisect_right, list.insert, dict order, generator resumption',
               'offsets passed to get_CU_at / get_DIE_from_refaddr are valid unit / DIE starts (an invalid get_CU_at offset '
               'poisons the unit cache by design; out of scope as the design states)',
               'DIE / unit / line-program / CFI decoding itself is C04/C05/C06/C13; here only equality with a fresh object',
               'Lean step: the parse functions are tables computed from a fresh object (pure in (file, offset) by construction)',
               'cache layer: the CFI tables exist for sections whose entries tile the section (each entry ends where its length '
               'field says; all generated and shipped files); a DIE parse that fails after loading the abbreviation table is not '
               'recorded by the model (offsets are DIE starts of well-formed units)',
               'CallFrameInfo objects that are kept are built with the public constructor, exactly as DWARFInfo.CFI_entries does']

SHIPPED = ['dwarf_llpair.elf', 'dwarfv5_basic.elf', 'debug_info.elf']


# ----------------------------------------------------------------------------------------------- guard
import signal


class OpTimeout(Exception):
    pass


def guarded(fn, seconds=8):
    """run_impl with a wall-clock bound: a library that loops on some history must become a reported answer
    (`other:OpTimeout`), not a hung check"""
    def on_alarm(sig, frm):
        raise OpTimeout()
    old = signal.signal(signal.SIGALRM, on_alarm)
    signal.setitimer(signal.ITIMER_REAL, seconds)
    try:
        return run_impl(fn)
    except OpTimeout:
        return {'err': 'other:OpTimeout'}
    finally:
        signal.setitimer(signal.ITIMER_REAL, 0)
        signal.signal(signal.SIGALRM, old)


# ----------------------------------------------------------------------------------------------- canonical answers
def cv(v):
    from elftools.construct.lib.container import Container, ListContainer
    if v is None or isinstance(v, (bool, int, str)):
        return v
    if isinstance(v, (bytes, bytearray)):
        return {'b': bytes(v).hex()}
    if isinstance(v, (Container, dict)):
        return {'r': [[str(k), cv(x)] for k, x in v.items() if not str(k).endswith('_parser')]}
    if isinstance(v, (list, tuple, ListContainer)):
        return [cv(x) for x in v]
    if hasattr(v, '_asdict'):
        return {'r': [[k, cv(x)] for k, x in v._asdict().items()]}
    return {'obj': type(v).__name__}


def die_canon(d):
    if d is None:
        return None
    return {'off': d.offset, 'cu': d.cu.cu_offset, 'tag': d.tag, 'size': d.size, 'ch': d.has_children, 'code': d.abbrev_code,
            'attrs': [[a.name, a.form, cv(a.value), cv(a.raw_value), a.offset, a.indirection_length] for a in d.attributes.values()]}


def cu_canon(cu):
    return {'off': cu.cu_offset, 'die_off': cu.cu_die_offset, 'hdr': cv(cu.header), 'size': cu.size, 'fmt': cu.structs.dwarf_format,
            'asz': cu.structs.address_size, 'ver': cu.structs.dwarf_version}


def sec_canon(s):
    if s is None:
        return None
    return {'cls': type(s).__name__, 'name': s.name, 'hdr': cv(s.header)}


def sym_canon(s):
    return {'name': s.name, 'entry': cv(s.entry)}


def lp_canon(lp, entries=True):
    if lp is None:
        return None
    out = {'start': lp.program_start_offset, 'end': lp.program_end_offset}
    if entries:
        es = lp.get_entries()
        out['entries'] = [[e.command, e.is_extended, cv(e.args),
                           None if e.state is None else [e.state.address, e.state.file, e.state.line, e.state.column, cv(e.state.is_stmt),
                                                         e.state.basic_block, e.state.end_sequence, e.state.prologue_end,
                                                         e.state.epilogue_begin, e.state.isa, e.state.discriminator]] for e in es]
    out['hdr'] = cv(lp.header)
    return out


def cfi_canon(entries):
    from elftools.dwarf.callframe import CIE, FDE, ZERO
    out = []
    for e in entries:
        if isinstance(e, ZERO):
            out.append(['ZERO', e.offset])
            continue
        dec = e.get_decoded()
        out.append([type(e).__name__, e.offset, cv(e.header), [[i.opcode, cv(i.args)] for i in e.instructions],
                    [[[str(k), cv(x) if not hasattr(x, 'type') else [x.type, cv(x.arg)] if not hasattr(x, 'reg') else [cv(x.reg), cv(x.offset), cv(x.expr)]]
                      for k, x in row.items()] for row in dec.table], cv(dec.reg_order),
                    e.cie.offset if isinstance(e, FDE) else None])
    return out


def cfi_entry_key(row):
    """a canonical CFI entry without the link to its CIE (the link is reported as the CIE's offset)"""
    return json.dumps(row[:-1], sort_keys=True, default=str) if row[0] != 'ZERO' else 'ZERO'


def abbrev_canon(tbl):
    """an AbbrevTable by value (`_abbrev_map` is only read)"""
    return [[code, cv(d.decl), d.has_children()] for code, d in tbl._abbrev_map.items()]


def lp_hdr_key(c):
    return json.dumps({'start': c['start'], 'end': c['end'], 'hdr': c['hdr']}, sort_keys=True, default=str)


# ----------------------------------------------------------------------------------------------- a session on one object
INFO_STREAMS = ['elf', 'info', 'abbrev', 'str', 'line', 'frame', 'eh', 'aranges', 'pubnames']


class Session:
    """One opened file and everything derived from it that is kept alive between operations."""

    def __init__(self, data):
        from elftools.elf.elffile import ELFFile
        self.data = data
        self.elf = ELFFile(io.BytesIO(data))
        self._di = None
        self._symtab = None
        self.iters = []          # [generator, kind, args, count]
        self.cfiobj = {}         # eh -> a CallFrameInfo object that is kept (the public constructor DWARFInfo itself uses)

    @property
    def di(self):
        if self._di is None:
            self._di = self.elf.get_dwarf_info(follow_links=False)
        return self._di

    @property
    def symtab(self):
        if self._symtab is None:
            self._symtab = self.elf.get_section_by_name('.symtab')
        return self._symtab

    def stream(self, which):
        if which == 'elf':
            return self.elf.stream
        di = self.di
        sec = {'info': di.debug_info_sec, 'abbrev': di.debug_abbrev_sec, 'str': di.debug_str_sec, 'line': di.debug_line_sec,
               'frame': di.debug_frame_sec, 'eh': di.eh_frame_sec, 'aranges': di.debug_aranges_sec,
               'pubnames': di.debug_pubnames_sec}[which]
        return None if sec is None else sec.stream

    def cfi_object(self, eh):
        if eh not in self.cfiobj:
            from elftools.dwarf.callframe import CallFrameInfo
            di = self.di
            sec = di.eh_frame_sec if eh else di.debug_frame_sec
            self.cfiobj[eh] = CallFrameInfo(stream=sec.stream, size=sec.size, address=sec.address, base_structs=di.structs,
                                            for_eh_frame=eh)
        return self.cfiobj[eh]

    def die_at(self, cu_off, off):
        return self.di.get_CU_at(cu_off).get_DIE_from_refaddr(off)

    # ---- generators (created, not advanced)
    def make_iter(self, kind, args):
        if kind == 'cus':
            return (cu_canon(c) for c in self.di.iter_CUs())
        if kind == 'dies':
            return (die_canon(d) for d in self.di.get_CU_at(args[0]).iter_DIEs())
        if kind == 'children':
            return (die_canon(d) for d in self.die_at(args[0], args[1]).iter_children())
        if kind == 'siblings':
            return (die_canon(d) for d in self.die_at(args[0], args[1]).iter_siblings())
        if kind == 'secs':
            return (sec_canon(s) for s in self.elf.iter_sections())
        if kind == 'segs':
            return ({'cls': type(s).__name__, 'hdr': cv(s.header)} for s in self.elf.iter_segments())
        if kind == 'syms':
            return (sym_canon(s) for s in self.symtab.iter_symbols())
        raise KeyError(kind)

    # ---- one operation
    def do(self, op):
        k = op[0]
        if k == 'seek':
            st = self.stream(op[1])
            if st is not None:
                st.seek(op[2])
            return None
        if k == 'sec_i':
            return sec_canon(self.elf.get_section(op[1]))
        if k == 'sec_n':
            return sec_canon(self.elf.get_section_by_name(op[1]))
        if k == 'sec_idx':
            return self.elf.get_section_index(op[1])
        if k == 'seg_i':
            s = self.elf.get_segment(op[1])
            return {'cls': type(s).__name__, 'hdr': cv(s.header)}
        if k == 'sym_i':
            return sym_canon(self.symtab.get_symbol(op[1]))
        if k == 'sym_n':
            r = self.symtab.get_symbol_by_name(op[1])
            return None if r is None else [sym_canon(s) for s in r]
        if k == 'sec_data':
            return hashlib.sha1(self.elf.get_section(op[1]).data()).hexdigest()
        if k == 'cu_at':
            return cu_canon(self.di.get_CU_at(op[1]))
        if k == 'cu_cont':
            return cu_canon(self.di.get_CU_containing(op[1]))
        if k == 'top':
            return die_canon(self.di.get_CU_at(op[1]).get_top_DIE())
        if k == 'die':
            return die_canon(self.die_at(op[1], op[2]))
        if k == 'refaddr':
            return die_canon(self.di.get_DIE_from_refaddr(op[1]))
        if k == 'children':
            d = self.die_at(op[1], op[2])
            return [die_canon(c) for c in d.iter_children()]
        if k == 'parent':
            return die_canon(self.die_at(op[1], op[2]).get_parent())
        if k == 'siblings':
            return [die_canon(c) for c in self.die_at(op[1], op[2]).iter_siblings()]
        if k == 'ref':
            return die_canon(self.die_at(op[1], op[2]).get_DIE_from_attribute(op[3]))
        if k == 'take':        # the first n items of a new generator, which is then abandoned
            return list(itertools.islice(self.make_iter(op[1], op[2]), op[3]))
        if k == 'all':
            return list(self.make_iter(op[1], op[2]))
        if k == 'it_new':
            self.iters.append([self.make_iter(op[1], op[2]), op[1], op[2], 0])
            return len(self.iters) - 1
        if k == 'it_next':
            if not self.iters:
                return 'no-iterator'
            it = self.iters[op[1] % len(self.iters)]
            it[3] += 1
            try:
                return {'item': next(it[0])}
            except StopIteration:
                return 'stop'
        if k == 'lp':
            return lp_canon(self.di.line_program_for_CU(self.di.get_CU_at(op[1])))
        if k == 'lp_hdr':
            return lp_canon(self.di.line_program_for_CU(self.di.get_CU_at(op[1])), entries=False)
        if k == 'cfi':
            return cfi_canon(self.di.CFI_entries())
        if k == 'ehcfi':
            return cfi_canon(self.di.EH_CFI_entries())
        if k == 'cfi_obj':
            return cfi_canon(self.cfi_object(False).get_entries())
        if k == 'ehcfi_obj':
            return cfi_canon(self.cfi_object(True).get_entries())
        if k == 'abbrev_cu':
            return abbrev_canon(self.di.get_CU_at(op[1]).get_abbrev_table())
        if k == 'abbrev_at':
            return abbrev_canon(self.di.get_abbrev_table(op[1]))
        if k == 'aranges':
            ar = self.di.get_aranges()
            return None if ar is None else ar.cu_offset_at_addr(op[1])
        if k == 'pubname':
            pn = self.di.get_pubnames()
            if pn is None:
                return None
            e = pn.get(op[1])
            return None if e is None else [e.cu_ofs, e.die_ofs, die_canon(self.di.get_DIE_from_lut_entry(e))]
        raise KeyError(k)

    # ---- the abstract cache state (private attributes are READ only)
    def abstract(self, with_pos=True):
        st = {'secmap': None if self.elf._section_name_map is None else sorted(self.elf._section_name_map.items()),
              'symmap': None if self._symtab is None or self._symtab._symbol_name_map is None else
                        sorted((k, tuple(v)) for k, v in self._symtab._symbol_name_map.items()),
              'iters': [(k, tuple(a), n) for _, k, a, n in self.iters]}
        if self._di is not None:
            di = self._di
            st['cumap'] = list(di._cu_offsets_map)
            st['units'] = [[cu.cu_offset, list(cu._diemap),
                            [[d.offset, None if d._parent is None else d._parent.offset,
                              None if d._terminator is None else d._terminator.offset] for d in cu._dielist],
                            cu._abbrev_table is not None] for cu in di._cu_cache]
            st['abbrev'] = sorted(di._abbrevtable_cache)
            st['line'] = sorted((k, v._decoded_entries is not None) for k, v in di._linetable_cache.items())
            st['cfiobj'] = [[False, []] if eh not in self.cfiobj else
                            [self.cfiobj[eh].entries is not None, sorted(self.cfiobj[eh]._entry_cache)] for eh in (False, True)]
            if with_pos:
                st['pos'] = [None if self.stream(w) is None else self.stream(w).tell() for w in INFO_STREAMS]
        elif with_pos:
            st['pos'] = [self.elf.stream.tell()]
        return st


def state_hash(st):
    return hashlib.sha1(json.dumps(st, sort_keys=True, default=str).encode()).hexdigest()[:16]


# ----------------------------------------------------------------------------------------------- fresh answers
class Fresh:
    """answer of an operation on a freshly opened object; memoised per file (a fresh object's answer is a function of
    (file, op): that is what "fresh" means)"""

    def __init__(self, data):
        self.data = data
        self.memo = {}

    def answer(self, op, iter_ctx=None):
        if op[0] == 'seek' or op[0] == 'it_new':
            return None
        key = json.dumps([op, iter_ctx])
        if key not in self.memo:
            self.memo[key] = self._eval(op, iter_ctx)
        return self.memo[key]

    def _eval(self, op, iter_ctx):
        s = Session(self.data)
        if op[0] == 'it_next':
            if iter_ctx is None:
                return {'ok': 'no-iterator'}
            kind, args, count = iter_ctx

            def f():
                it = s.make_iter(kind, args)
                r = 'stop'
                for j in range(count):
                    try:
                        r = {'item': next(it)}
                    except StopIteration:
                        return 'stop'
                    except Exception:
                        # a generator that raised is finished: only the call that raised sees the exception
                        if j == count - 1:
                            raise
                        return 'stop'
                return r
            return guarded(f)
        return guarded(lambda: s.do(op))


def run_history(data, ops, fresh=None, collect_states=False, with_pos=True):
    """apply ops to ONE live object; returns (list of (op, live, fresh) mismatches, states)"""
    fresh = fresh or Fresh(data)
    live = Session(data)
    bad, states, answers = [], [], []
    for i, op in enumerate(ops):
        ictx = None
        if op[0] == 'it_next' and live.iters:
            it = live.iters[op[1] % len(live.iters)]
            ictx = [it[1], it[2], it[3] + 1]
            # a generator that already raised / finished stays finished: the fresh counterpart is "advance count times"
        got = guarded(lambda: live.do(op))
        if op[0] == 'it_new':
            got = {'ok': None}
        answers.append(got)
        exp = fresh.answer(op, ictx)
        if op[0] not in ('seek', 'it_new') and got != exp:
            bad.append({'i': i, 'op': op, 'live': got, 'fresh': exp})
        if collect_states:
            states.append(live.abstract(with_pos))
    return bad, states, answers


# ----------------------------------------------------------------------------------------------- the alphabet of a file
def describe(data):
    """valid unit / DIE offsets etc. of a file, read from a fresh object by plain sequential iteration"""
    s = Session(data)
    d = {'nsec': s.elf.num_sections(), 'nseg': s.elf.num_segments(), 'units': [], 'sec_names': [], 'sym_names': [], 'nsym': 0,
         'pub_names': [], 'streams': {}}
    d['sec_list'] = [sec.name for sec in s.elf.iter_sections()]
    d['sec_names'] = sorted(set(d['sec_list']))
    st = s.elf.get_section_by_name('.symtab')
    d['sym_list'], d['sym_canon'] = [], []
    if st is not None and hasattr(st, 'num_symbols'):
        d['nsym'] = st.num_symbols()
        try:
            d['sym_canon'] = [sym_canon(sym) for sym in st.iter_symbols()]
        except Exception:      # noqa: BLE001 — the alphabet must exist even if plain enumeration is broken
            d['sym_canon'] = []
        d['sym_list'] = [c['name'] for c in d['sym_canon']]
        d['sym_names'] = sorted(set(d['sym_list']))[:40] or ['main', 'foo']
    if not s.elf.has_dwarf_info():
        return d
    di = s.di
    d['info_size'] = di.debug_info_sec.size if di.debug_info_sec else 0
    for cu in di.iter_CUs():
        u = {'off': cu.cu_offset, 'die_off': cu.cu_die_offset, 'size': cu.size, 'dies': []}
        parent_stack = []
        for die in cu.iter_DIEs():
            sib = None
            if 'DW_AT_sibling' in die.attributes:
                a = die.attributes['DW_AT_sibling']
                if a.form == 'DW_FORM_ref_addr':
                    sib = a.value
                elif a.form in ('DW_FORM_ref1', 'DW_FORM_ref2', 'DW_FORM_ref4', 'DW_FORM_ref8', 'DW_FORM_ref', 'DW_FORM_ref_udata'):
                    sib = a.value + cu.cu_offset
                else:
                    sib = -1
            refs = [a.name for a in die.attributes.values() if a.form.startswith('DW_FORM_ref') and a.form not in ('DW_FORM_ref_sig8', 'DW_FORM_ref_sup4', 'DW_FORM_ref_sup8')]
            refv = [[a.name, a.form == 'DW_FORM_ref_addr', a.raw_value] for a in die.attributes.values()
                    if a.name in refs and isinstance(a.name, str) and isinstance(a.raw_value, int) and a.raw_value >= 0]
            u['dies'].append({'off': die.offset, 'size': die.size, 'ch': bool(die.has_children), 'null': die.is_null(), 'sib': sib, 'refs': refs,
                              'refv': refv})
        top = cu.get_top_DIE()
        u['stmt'] = top.attributes['DW_AT_stmt_list'].value if 'DW_AT_stmt_list' in top.attributes else None
        d['units'].append(u)
    pn = di.get_pubnames() if di.debug_pubnames_sec else None
    if pn is not None:
        d['pub_names'] = list(pn.keys())[:20]
        d['pubtab'] = [[k, e.cu_ofs, e.die_ofs] for k, e in pn.items()]
    d['pos0'] = di.debug_info_sec.stream.tell() if di.debug_info_sec else 0
    describe_x(data, d)
    for w in INFO_STREAMS:
        stt = s.stream(w)
        if stt is not None:
            p = stt.tell()
            stt.seek(0, 2)
            d['streams'][w] = stt.tell()
            stt.seek(p)
    return d


MODEL_ITER_KINDS = ('cus', 'dies', 'children', 'siblings')
def describe_x(data, d):
    """the pure tables of the cache layer (abbreviation tables, line programs, CFI entries), every row read from a
    FRESH object; canonical values are numbered per file (`xpay`) and the model handles the numbers"""
    pays = {'abbrev': {}, 'lph': {}, 'lpe': {}, 'cfi': {}}

    def pay(cat, key):
        return pays[cat].setdefault(key, len(pays[cat]))
    x = {}
    s = Session(data)
    di = s.di
    x['abbrev_size'] = di.debug_abbrev_sec.size if di.debug_abbrev_sec else 0
    cus = list(di.iter_CUs())
    x['cu_abbrev'] = [[cu.cu_offset, cu['debug_abbrev_offset']] for cu in cus]
    x['abbrev_tables'] = []
    for o in sorted({o for _, o in x['cu_abbrev']}):
        r = run_impl(lambda: abbrev_canon(Session(data).di.get_abbrev_table(o)))
        if 'ok' in r:
            x['abbrev_tables'].append([o, pay('abbrev', json.dumps(r['ok'], sort_keys=True, default=str))])
    # line programs: per unit, on a fresh object, the header before and after the entries are decoded
    keys = []
    x['lp_keys'], parse_rows, decode_rows = [], {}, {}
    for u, cu in zip(d['units'], cus):
        k3 = [cu.structs.little_endian, cu.structs.dwarf_format, cu.structs.address_size]
        if k3 not in keys:
            keys.append(k3)
        key = keys.index(k3)
        x['lp_keys'].append([u['off'], key])
        if u['stmt'] is None:
            continue
        s2 = Session(data)
        r = run_impl(lambda: lp_canon(s2.di.line_program_for_CU(s2.di.get_CU_at(u['off'])), entries=False))
        if 'ok' not in r or r['ok'] is None:
            continue
        row = [key, u['stmt'], pay('lph', lp_hdr_key(r['ok']))]
        if parse_rows.setdefault((key, u['stmt']), row) != row:
            raise RuntimeError('line program header at %d is not a function of (structs, offset)' % u['stmt'])
        r = run_impl(lambda: lp_canon(s2.di.line_program_for_CU(s2.di.get_CU_at(u['off']))))
        if 'ok' in r:
            row = [key, u['stmt'], pay('lpe', json.dumps(r['ok']['entries'], sort_keys=True, default=str)), pay('lph', lp_hdr_key(r['ok']))]
            if decode_rows.setdefault((key, u['stmt']), row) != row:
                raise RuntimeError('line program at %d is not a function of (structs, offset)' % u['stmt'])
    x['lp_parse'], x['lp_decode'] = list(parse_rows.values()), list(decode_rows.values())
    # CFI: the entries of each section in order; an entry occupies [offset, offset + length + initial-length size)
    for eh, name in ((False, 'cfi_d'), (True, 'cfi_e')):
        sec = di.eh_frame_sec if eh else di.debug_frame_sec
        if sec is None:
            continue
        s2 = Session(data)
        r = run_impl(lambda: (lambda es: [cfi_canon(es), [None if type(e).__name__ == 'ZERO' else
                                                          e.header.length + e.structs.initial_length_field_size() for e in es]])(
            s2.di.EH_CFI_entries() if eh else s2.di.CFI_entries()))
        if 'ok' not in r:
            continue
        rows, skips = r['ok']
        heads, fdes, pos, tiled = [], [], 0, True
        tag = {}
        for row, skip in zip(rows, skips):
            if row[0] != 'ZERO':
                tag[row[1]] = pay('cfi', cfi_entry_key(row)) + 1
        for row, skip in zip(rows, skips):
            off = row[1]
            tiled = tiled and off == pos
            if row[0] == 'ZERO':
                heads.append([off, 0, off + 4, 0, 0])
                pos = off + 4
                continue
            pos = off + skip
            if row[0] == 'CIE':
                heads.append([off, 1, skip, off + skip, tag[off] - 1])
            else:
                heads.append([off, 2, row[-1], 0, 0])
                ct = tag.get(row[-1], 0)
                fdes.append([off, ct if eh else 0, ct, skip, off + skip, tag[off] - 1])
        if tiled and pos >= sec.size:
            x[name] = {'size': sec.size, 'heads': heads, 'fdes': fdes}
    d['x'] = x
    d['xpay'] = pays


NEUTRAL_OPS = {'sec_i', 'sec_n', 'seg_i', 'sym_i', 'sec_data', 'aranges'}


def model_compatible(op):
    """the Lean state machine either executes the op or the op does not touch the state it models"""
    k = op[0]
    if k in NEUTRAL_OPS or k in ('seek', 'it_next'):
        return True
    if k in ('take', 'all', 'it_new'):
        return op[1] in MODEL_ITER_KINDS + ('secs', 'segs', 'syms') and not (k == 'it_new' and op[1] in ('secs', 'segs', 'syms'))
    if k == 'ref':
        return isinstance(op[3], str)
    return k in MODEL_OPS


def desc_from_generator(gd):
    """the alphabet's parameters taken from the generator's description (used only when `describe` cannot run)"""
    units = [{'off': u['off'], 'die_off': u['die_off'], 'size': u['size'], 'stmt': None,
              'dies': [{'off': o, 'size': 1, 'ch': o in u['with_children'], 'null': False, 'sib': None,
                        'refs': [r[1] for r in u['refs'] if r[0] == o]} for o in sorted(u['offsets'])]} for u in gd['units']]
    return {'nsec': gd['nsec'], 'nseg': gd['nseg'], 'units': units, 'sec_names': gd['sec_names'], 'sec_list': [], 'sym_names': gd['sym_names'],
            'sym_list': [], 'sym_canon': [], 'nsym': gd['nsym'], 'pub_names': gd['pub_names'], 'info_size': gd['info_size'],
            'streams': {'elf': 64, 'info': gd['info_size']}, 'pos0': 0}


def alphabet(desc, rng, limit_dies=None, model_only=False):
    """instantiate the op alphabet with the file's valid offsets; returns a function drawing a random op"""
    units = desc['units']
    has_dw = bool(units)

    def pick_unit():
        return rng.choice(units)

    def pick_die(u, pred=None):
        ds = u['dies'] if pred is None else [x for x in u['dies'] if pred(x)]
        return rng.choice(ds) if ds else u['dies'][0]

    def seek_op():
        w = rng.choice(list(desc['streams'])) if desc.get('streams') else 'elf'
        size = desc['streams'].get(w, 64) if desc.get('streams') else 64
        pos = rng.choice([0, 1, size, size + 7, max(0, size - 1), rng.randrange(0, size + 1), rng.randrange(0, size + 1)])
        if w == 'info' and units and rng.random() < 0.5:
            u = pick_unit()
            pos = rng.choice([u['off'], u['die_off'], pick_die(u)['off'] + 1, u['off'] + u['size']])
        return ['seek', w, pos]

    elf_ops = [
        lambda: ['sec_i', rng.randrange(desc['nsec'])] if desc['nsec'] else seek_op(),
        lambda: ['sec_n', rng.choice(desc['sec_names'] + ['.nope'])],
        lambda: ['sec_idx', rng.choice(desc['sec_names'] + ['.nope'])],
        lambda: ['seg_i', rng.randrange(desc['nseg'])] if desc['nseg'] else seek_op(),
        lambda: ['sym_i', rng.randrange(desc['nsym'])] if desc['nsym'] else seek_op(),
        lambda: ['sym_n', rng.choice(desc['sym_names'] + ['nope'])] if desc['nsym'] else seek_op(),
        lambda: ['take', rng.choice(['secs', 'segs', 'syms'] if desc['nsym'] else ['secs', 'segs']), [], rng.choice([1, 2, 3])],
        lambda: ['sec_data', rng.randrange(desc['nsec'])] if desc['nsec'] and desc.get('small') else seek_op(),
    ]
    K = limit_dies or 10 ** 9

    def dw(f):
        return f if has_dw else seek_op

    def it_new():
        kind = rng.choice(['cus', 'dies', 'dies', 'children', 'children', 'siblings', 'secs', 'syms' if desc['nsym'] else 'secs'])
        if kind in ('cus', 'secs', 'syms') or not has_dw:
            return ['it_new', kind if has_dw or kind != 'cus' else 'secs', []]
        u = pick_unit()
        if kind == 'dies':
            return ['it_new', 'dies', [u['off']]]
        dd = pick_die(u, (lambda x: x['ch']) if kind == 'children' else None)
        return ['it_new', kind, [u['off'], dd['off']]]

    def take_dies():
        u = pick_unit()
        return ['take', 'dies', [u['off']], rng.choice([1, 2, 3, 5, min(K, 8)])]

    def children():
        u = pick_unit()
        return ['children', u['off'], pick_die(u, lambda x: x['ch'] or rng.random() < 0.2)['off']]

    def ref():
        u = pick_unit()
        dd = pick_die(u, lambda x: x['refs'])
        return ['ref', u['off'], dd['off'], rng.choice(dd['refs'])] if dd['refs'] else ['top', u['off']]

    def take_kids():
        # the first n items / the full list of a children or sibling generator that is then abandoned
        u = pick_unit()
        kind = rng.choice(['children', 'siblings', 'siblings'])
        dd = pick_die(u, (lambda x: x['ch']) if kind == 'children' else None)
        if rng.random() < 0.3:
            return ['all', kind, [u['off'], dd['off']]]
        return ['take', kind, [u['off'], dd['off']], rng.choice([1, 2, 3])]

    def all_dies():
        u = pick_unit()
        if len(u['dies']) > K:
            return ['take', 'dies', [u['off']], K]
        return ['all', 'dies', [u['off']]]

    dw_ops = [
        dw(lambda: ['cu_at', pick_unit()['off']]),
        dw(lambda: ['cu_cont', (lambda u: rng.choice([u['off'], u['die_off'], u['off'] + u['size'] - 1, pick_die(u)['off']]))(pick_unit())]),
        dw(lambda: ['take', 'cus', [], rng.choice([1, 2, 3])]),
        dw(lambda: ['top', pick_unit()['off']]),
        dw(lambda: (lambda u: ['die', u['off'], pick_die(u)['off']])(pick_unit())),
        dw(lambda: ['refaddr', pick_die(pick_unit())['off']]),
        dw(children),
        dw(lambda: (lambda u: ['parent', u['off'], pick_die(u)['off']])(pick_unit())),
        dw(lambda: (lambda u: ['siblings', u['off'], pick_die(u)['off']])(pick_unit())),
        dw(ref),
        dw(take_dies),
        dw(take_kids),
        dw(all_dies),
        dw(it_new), dw(it_new),
        lambda: ['it_next', rng.randrange(8)], lambda: ['it_next', rng.randrange(8)], lambda: ['it_next', rng.randrange(8)],
        dw(lambda: ['lp', pick_unit()['off']]),
        dw(lambda: ['lp_hdr', pick_unit()['off']]),
        dw(lambda: ['cfi']) if desc.get('streams', {}).get('frame') else seek_op,
        dw(lambda: ['ehcfi']) if desc.get('streams', {}).get('eh') and desc.get('small') else seek_op,
        dw(lambda: ['cfi_obj']) if desc.get('streams', {}).get('frame') else seek_op,
        dw(lambda: ['ehcfi_obj']) if desc.get('streams', {}).get('eh') and desc.get('small') else seek_op,
        dw(lambda: ['abbrev_cu', pick_unit()['off']]),
        dw(lambda: ['abbrev_at', rng.choice([o for _, o in desc['x']['cu_abbrev']] + [desc['x']['abbrev_size'], desc['x']['abbrev_size'] + 5])])
        if desc.get('x') else seek_op,
        dw(lambda: ['aranges', rng.choice([0, 0x1000, 0x1080, 0x10ff, 0x1100, 0x2000, 0x2001, 0x5000])]) if desc.get('streams', {}).get('aranges') else seek_op,
        dw(lambda: ['pubname', rng.choice(desc['pub_names'] + ['nope'])]) if desc.get('pub_names') else seek_op,
        seek_op, seek_op, seek_op, seek_op, seek_op,
    ]
    ops = elf_ops + dw_ops

    def draw():
        while True:
            op = rng.choice(ops)()
            if not model_only or model_compatible(op):
                return op
    return draw


# ----------------------------------------------------------------------------------------------- shrinking
def shrink(data, ops, fails):
    """delta debugging on the op list: `fails(ops) -> bool`"""
    cur = list(ops)
    n = 2
    tries = [0]
    inner = fails

    def fails(cand):
        tries[0] += 1
        return tries[0] <= 150 and inner(cand)
    while len(cur) >= 2 and tries[0] <= 150:
        chunk = max(1, len(cur) // n)
        reduced = False
        for i in range(0, len(cur), chunk):
            cand = cur[:i] + cur[i + chunk:]
            if cand and fails(cand):
                cur = cand
                n = max(n - 1, 2)
                reduced = True
                break
        if not reduced:
            if chunk == 1:
                break
            n = min(len(cur), n * 2)
    return cur


# the define_file finding: a line program containing DW_LNE_define_file grows its header's file table when the
# entries are first decoded, so the header read before and after `get_entries()` differs (documented in LineProgram)
def is_define_file_case(v):
    c = v.get('case', {})
    return bool(c.get('define_file')) and all(b['op'][0] in ('lp_hdr',) for b in c.get('bad', [{'op': ['x']}]))


FINDINGS = {'lineprogram-define-file-header': is_define_file_case}


# ----------------------------------------------------------------------------------------------- Lean correspondence
MODEL_OPS = {'cu_at', 'cu_cont', 'top', 'die', 'refaddr', 'children', 'parent', 'lp', 'lp_hdr', 'seek', 'it_new', 'it_next',
             'take', 'all', 'sec_idx', 'sym_n', 'siblings', 'ref', 'pubname',
             'abbrev_cu', 'abbrev_at', 'cfi', 'ehcfi', 'cfi_obj', 'ehcfi_obj'}
CFI_OPS = {'cfi': 'cfi_d', 'cfi_obj': 'cfi_d', 'ehcfi': 'cfi_e', 'ehcfi_obj': 'cfi_e'}


def model_request(desc, ops):
    """the pure parse tables of the file + the op list, for `Model.C10.step`"""
    units = [[u['off'], u['size'], u['die_off'], -1 if u['stmt'] is None else u['stmt'],
              [[x['off'], x['size'], x['ch'], x['null'], -1 if x['sib'] is None else x['sib'], x.get('refv', [])] for x in u['dies']]]
             for u in desc['units']]
    return {'p': 'C10', 'k': 'hist', 'size': desc.get('info_size', 0), 'units': units,
            'secs': desc.get('sec_list', []), 'syms': desc.get('sym_list', []), 'pos0': desc.get('pos0', 0), 'ops': ops,
            'pubnames': desc.get('pubtab'), 'x': desc.get('x', {})}


def model_view_answer(op, ans, stmt_of=None, iter_kind=None, pays=None):
    """project a live answer to what the model answers (offsets)"""
    if 'err' in ans:
        # `raise StopIteration()` inside the `iter_siblings` generator reaches the caller as RuntimeError (PEP 479);
        # the model mirrors the statement that is written
        if ans['err'] == 'other:RuntimeError' and (op[0] == 'siblings' or (op[0] in ('take', 'all') and op[1] == 'siblings')
                                                   or (op[0] == 'it_next' and iter_kind == 'siblings')):
            return {'err': 'stopIteration'}
        return ans
    a = ans['ok']
    k = op[0]
    if k in ('abbrev_cu', 'abbrev_at'):
        return {'ok': pays['abbrev'].get(json.dumps(a, sort_keys=True, default=str), -1)}
    if k in CFI_OPS:
        return {'ok': [['Z', r[1]] if r[0] == 'ZERO' else
                       [r[0][0], r[1], pays['cfi'].get(cfi_entry_key(r), -1)] + ([r[-1]] if r[0] == 'FDE' else []) for r in a]}
    if k in ('lp', 'lp_hdr') and a is not None:
        return {'ok': [stmt_of[op[1]], pays['lph'].get(lp_hdr_key(a), -1),
                       pays['lpe'].get(json.dumps(a['entries'], sort_keys=True, default=str), -1) if k == 'lp' else None]}
    if k == 'siblings':
        return {'ok': [x['off'] for x in a]}
    if k == 'ref':
        return {'ok': a['off']}
    if k == 'pubname':
        return {'ok': None if a is None else [a[0], a[1], a[2]['off']]}
    if k in ('cu_at', 'cu_cont'):
        return {'ok': [a['off'], a['die_off']]}
    if k in ('top', 'die', 'refaddr'):
        return {'ok': a['off']}
    if k == 'parent':
        return {'ok': None if a is None else a['off']}
    if k == 'children':
        return {'ok': [x['off'] for x in a]}
    if k in ('lp', 'lp_hdr'):
        return {'ok': None if a is None else stmt_of[op[1]]}
    if k in ('take', 'all'):
        return {'ok': [x['off'] for x in a]}
    if k == 'it_next':
        if a in ('stop', 'no-iterator'):
            return {'ok': a}
        return {'ok': a['item']['off']}
    return {'ok': a}


def model_supported(op, desc=None):
    k = op[0]
    if k not in MODEL_OPS:
        return False
    if k in CFI_OPS:
        # the CFI tables exist when the entries of the section tile it (every entry ends where its length says)
        return desc is not None and CFI_OPS[k] in desc.get('x', {})
    if k in ('take', 'all', 'it_new'):
        return op[1] in MODEL_ITER_KINDS
    if k == 'ref':
        return isinstance(op[3], str)
    return True


def check_model(ctx, stream, data, desc, ops, live_answers, states, fi):
    """run the op list through the Lean step and compare answers and abstract cache state"""
    mops = []
    idx = []
    # iterators of unsupported kinds would shift the handle numbering: only histories whose iterators are all supported
    if any(op[0] == 'it_new' and op[1] not in MODEL_ITER_KINDS for op in ops):
        ctx.out.count('model:skipped-iter-kind')
        return
    for i, op in enumerate(ops):
        if model_supported(op, desc) and not (op[0] == 'seek' and op[1] != 'info'):
            mops.append(op)
            idx.append(i)
    if not mops:
        return
    r = ctx.driver.ask(model_request(desc, mops))
    if 'fatal' in r:
        raise RuntimeError('driver: %s' % r['fatal'])
    for j, i in enumerate(idx):
        op = ops[i]
        m = r['steps'][j]
        if op[0] not in ('seek', 'it_new'):
            its = states[i].get('iters') or []
            ikind = its[op[1] % len(its)][0] if op[0] == 'it_next' and its else None
            want = model_view_answer(op, live_answers[i], {u['off']: u['stmt'] for u in desc['units']}, ikind, desc['xpay'])
            if op[0] == 'sym_n' and not desc['sym_canon']:
                continue
            if op[0] == 'sym_n' and 'ok' in m['ans'] and m['ans']['ok'] is not None:
                m = dict(m, ans={'ok': [desc['sym_canon'][x] for x in m['ans']['ok']]})
            if m['ans'] != want:
                ctx.out.violation('correspondence', stream, {'file': fi, 'ops': ops[:i + 1], 'i': i, 'what': 'answer'}, got=want, model=m['ans'])
                return
        st = states[i]
        if 'cumap' not in st:
            continue
        live_view = {'cumap': st['cumap'],
                     'units': [[u[0], u[1], [[d[0], -1 if d[1] is None else d[1], -1 if d[2] is None else d[2]] for d in u[2]]] for u in st['units']],
                     'line': [[k, dec] for k, dec in st['line']],
                     'pos': st['pos'][1],
                     'abbrev': st['abbrev'], 'memo': sorted(u[0] for u in st['units'] if u[3]),
                     'cfiobj': [[a, b] if (w in desc.get('x', {})) else None for (a, b), w in zip(st['cfiobj'], ('cfi_d', 'cfi_e'))]}
        mv = {'cumap': m['st']['cumap'], 'units': m['st']['units'], 'line': m['st']['line'], 'pos': m['st']['pos'],
              'abbrev': m['st']['abbrev'], 'memo': m['st']['memo'],
              'cfiobj': [c if (w in desc.get('x', {})) else None for c, w in zip(m['st']['cfiobj'], ('cfi_d', 'cfi_e'))]}
        # lp entries are decoded by the canonicaliser of `lp`, which the model mirrors as a flag
        if live_view != mv:
            ctx.out.violation('correspondence', stream, {'file': fi, 'ops': ops[:i + 1], 'i': i, 'what': 'state'}, got=live_view, model=mv)
            return
    ctx.out.count('model:histories')
    ctx.out.count('model:steps', len(mops))


# ----------------------------------------------------------------------------------------------- streams
def file_for(ctx, fi):
    """fi = ['gen', stream, k, tiny] | ['shipped', name]"""
    if fi[0] == 'gen':
        rng = ctx.rng('file/%s/%d' % (fi[1], fi[2]))
        data, gd = c10_gen.gen_file(rng, tiny=fi[3], force_top9=(fi[1] == 'err'))
        return data, gd
    with open(os.path.join(REPO, 'test', 'testfiles_for_unittests', fi[1]), 'rb') as f:
        return f.read(), {}


def report(ctx, stream, fi, data, gd, ops, bad, fresh, only=None, exclude=()):
    """shrink and record a failing history"""
    def sel(b):
        return [x for x in b if (only is None or x['op'][0] in only) and x['op'][0] not in exclude]

    def fails(cand):
        b, _, _ = run_history(data, cand, fresh)
        return bool(sel(b))
    # Confirm before reporting: every op runs under a wall-clock guard (`guarded`), so on a heavily loaded machine a
    # stalled op can surface once as `other:OpTimeout` and differ from the fresh answer.  A history is reported only if
    # it fails again when re-run (the library and the harness are deterministic: a real defect does).
    orig = ops[:bad[0]['i'] + 1]
    if not fails(orig):
        ctx.out.count('unconfirmed-history')
        ctx.out.notes.append('%s: a difference in %r did not reproduce on re-run (first: %r); not reported' % (
            stream, orig[-3:], {k: str(v)[:80] for k, v in bad[0].items() if k in ('live', 'fresh')}))
        return
    small = shrink(data, orig, fails)
    b2, _, _ = run_history(data, small, fresh)
    b2 = sel(b2)
    if not b2:
        small = orig
        b2, _, _ = run_history(data, small, fresh)
        b2 = sel(b2)
        if not b2:
            ctx.out.count('unconfirmed-history')
            return
    case = {'file': fi, 'ops': small, 'bad': [{'i': x['i'], 'op': x['op']} for x in b2], 'define_file': bool(gd.get('define_file')),
            'original_len': len(ops)}
    ctx.out.violation('property', stream, case, expect=b2[0]['fresh'] if b2 else None, got=b2[0]['live'] if b2 else None)


def run_hist(ctx, stream, files, nhist, nops, model=True, model_every=2):
    for fi in files:
        data, gd = file_for(ctx, fi)
        dd = guarded(lambda: describe(data), 60)
        no_model = False
        if 'err' in dd:
            # plain sequential enumeration of a fresh object fails (not by itself a C10 matter): instantiate the alphabet
            # from the generator's own description and keep comparing live with fresh; the Lean tables cannot be built
            ctx.out.count('describe-failed:' + dd['err'])
            if fi[0] != 'gen':
                raise RuntimeError('cannot enumerate shipped file %s on a fresh object: %s' % (fi[1], dd['err']))
            desc = desc_from_generator(gd)
            no_model = True
        else:
            desc = dd['ok']
        desc['small'] = fi[0] == 'gen'
        fresh = Fresh(data)
        rng = ctx.rng('%s/%s' % (stream, json.dumps(fi)))
        draw_all = alphabet(desc, rng, limit_dies=None if fi[0] == 'gen' else 40)
        draw_model = alphabet(desc, rng, limit_dies=None if fi[0] == 'gen' else 40, model_only=True)
        for h in range(nhist):
            # every second history is drawn from the part of the alphabet the Lean state machine follows
            with_model = model and h % model_every == 1 and not no_model
            draw = draw_model if with_model else draw_all
            if ctx.time_left() < 5:
                ctx.out.notes.append('%s: stopped early (time)' % stream)
                return
            ops = [draw() for _ in range(nops)]
            for op in ops:
                ctx.out.count('op:' + op[0])
                if op[0] in ('take', 'all', 'it_new'):
                    ctx.out.count('gen:%s:%s' % (op[0], op[1]))
            bad, states, answers = run_history(data, ops, fresh, collect_states=True)
            for i, op in enumerate(ops):
                ctx.out.case({'f': fi, 'h': h, 'i': i, 'op': op}, nontrivial=op[0] != 'seek')
            for s in states:
                ctx.states.add(state_hash(s))
            known = [b for b in bad if gd.get('define_file') and b['op'][0] == 'lp_hdr']
            real = [b for b in bad if b not in known]
            if known and fi[2] not in ctx.reported_define_file:
                ctx.reported_define_file.add(fi[2])
                report(ctx, stream, fi, data, gd, ops, known, fresh, only=('lp_hdr',))
            if real:
                report(ctx, stream, fi, data, gd, ops, real, fresh, exclude=('lp_hdr',) if gd.get('define_file') else ())
                continue
            if with_model and desc['units'] and not any(u['stmt'] is not None and any(x['sib'] == -1 for x in u['dies']) for u in desc['units']):
                check_model(ctx, stream, data, desc, ops, answers, states, fi)


def corrupt(data, kind):
    """a corrupted copy of a generated file on which some query raises: the property then says it raises every time"""
    import struct
    from elftools.elf.elffile import ELFFile
    e = ELFFile(io.BytesIO(data))
    names = [s.name for s in e.iter_sections()]
    shoff, shentsize = e['e_shoff'], e['e_shentsize']
    b = bytearray(data)
    E = '<' if e.little_endian else '>'
    if kind == 'no-debug-addr':
        return bytes(b.replace(b'.debug_addr\0', b'.debug_adxr\0'))
    if kind == 'symtab-too-long':
        i = names.index('.symtab')
        off = shoff + i * shentsize
        es = e._get_section_header(i)['sh_entsize']
        if e.elfclass == 32:
            b[off + 20:off + 24] = struct.pack(E + 'I', es * 100000)
        else:
            b[off + 32:off + 40] = struct.pack(E + 'Q', es * 100000)
        return bytes(b)
    if kind == 'cfi-last-entry-too-long':
        # the length field of the last entry of .debug_frame runs past the end of the section: parsing it raises
        # after the entries before it (and the CIE) have been put into CallFrameInfo._entry_cache
        sec = e.get_section_by_name('.debug_frame')
        base, size = sec['sh_offset'], sec['sh_size']
        off = last = 0
        while off + 4 <= size:
            last = off
            off += 4 + struct.unpack(E + 'I', bytes(b[base + off:base + off + 4]))[0]
        ln = struct.unpack(E + 'I', bytes(b[base + last:base + last + 4]))[0]
        b[base + last:base + last + 4] = struct.pack(E + 'I', ln + 0x40)
        return bytes(b)
    if kind == 'bad-section':
        i = names.index('.debug_str')
        off = shoff + i * shentsize + 4
        b[off:off + 4] = struct.pack(E + 'I', 2)          # a PROGBITS section becomes SHT_SYMTAB with a bad link
        return bytes(b)
    raise KeyError(kind)


def run_err(ctx):
    """repeated queries on corrupted files: an operation that raises must raise the same way every time"""
    n = 0
    for k in range(ctx.budget(12, 60)):
        fi = ['gen', 'err', k, False]
        data, gd = file_for(ctx, fi)
        rng = ctx.rng('err/%d' % k)
        for kind in ('no-debug-addr', 'symtab-too-long', 'bad-section', 'cfi-last-entry-too-long'):
            bad_data = corrupt(data, kind)
            units = [u['off'] for u in gd['units']]
            pool = [['top', o] for o in units] + [['sym_n', 'main'], ['sym_n', 'nope'], ['sec_idx', '.symtab'], ['sec_n', '.strtab'],
                                                  ['sec_idx', '.text'], ['sym_i', 1], ['take', 'dies', [units[0]], 2], ['lp', units[0]],
                                                  ['seek', 'elf', rng.randrange(0, len(data))]]
            if kind == 'cfi-last-entry-too-long':
                # a CallFrameInfo that is kept and asked again after it raised, interleaved with seeks on its stream
                pool = [['cfi_obj'], ['cfi_obj'], ['cfi'], ['ehcfi_obj'], ['abbrev_cu', units[0]], ['top', units[0]],
                        ['seek', 'frame', rng.randrange(0, 64)]]
            ops = [rng.choice(pool) for _ in range(12)]
            fresh = Fresh(bad_data)
            bad, _, _ = run_history(bad_data, ops, fresh)
            n += 1
            for i, op in enumerate(ops):
                ctx.out.case({'f': fi, 'kind': kind, 'i': i, 'op': op}, nontrivial=op[0] != 'seek')
            ctx.out.count('err:' + kind)
            if bad:
                def fails(cand, bad_data=bad_data, fresh=fresh):
                    b, _, _ = run_history(bad_data, cand, fresh)
                    return bool(b)
                small = shrink(bad_data, ops[:bad[0]['i'] + 1], fails)
                b2, _, _ = run_history(bad_data, small, fresh)
                ctx.out.violation('property', 'err', {'file': fi, 'corrupt': kind, 'ops': small, 'bad': [{'i': x['i'], 'op': x['op']} for x in b2]},
                                  expect=b2[0]['fresh'] if b2 else None, got=b2[0]['live'] if b2 else None)


def run_seqrand(ctx):
    """random access by offset and sequential iteration agree entry for entry: every unit and every DIE reached by
    plain sequential iteration on one fresh object equals the object returned by offset on ANOTHER object that is
    queried in reverse order (so that its caches fill back to front)"""
    files = [['gen', 'seq', k, False] for k in range(ctx.budget(25, 120))] + [['shipped', n] for n in SHIPPED]
    for fi in files:
        data, gd = file_for(ctx, fi)
        a, b = Session(data), Session(data)
        seq_units = [(cu_canon(cu), [die_canon(d) for d in cu.iter_DIEs()]) for cu in a.di.iter_CUs()]
        for cuc, dies in reversed(seq_units):
            got_cu = run_impl(lambda: cu_canon(b.di.get_CU_at(cuc['off'])))
            case = {'file': fi, 'cu': cuc['off']}
            ctx.out.case(case)
            if got_cu != {'ok': cuc}:
                ctx.out.violation('property', 'seqrand', case, expect=cuc, got=got_cu)
                continue
            step = max(1, len(dies) // 60)
            for d in list(reversed(dies))[::step]:
                if d is None:
                    continue
                got = run_impl(lambda: die_canon(b.di.get_DIE_from_refaddr(d['off'])))
                case = {'file': fi, 'cu': cuc['off'], 'die': d['off']}
                ctx.out.case(case)
                ctx.out.count('seqrand:die')
                if got != {'ok': d}:
                    ctx.out.violation('property', 'seqrand', case, expect=d, got=got)
                    break


def exh_alphabet(desc):
    u0, u1 = desc['units'][0], desc['units'][-1]
    with_ch = [x for x in u0['dies'] if x['ch']]
    deep = with_ch[-1]['off']
    last1 = [x for x in u1['dies'] if not x['null']][-1]['off']
    mid0 = u0['dies'][len(u0['dies']) // 2]['off']
    return [
        ['cu_at', u1['off']],
        ['cu_cont', u0['off'] + u0['size'] - 1],
        ['take', 'cus', [], 1],
        ['top', u0['off']],
        ['refaddr', last1],
        ['die', u0['off'], mid0],
        ['children', u0['off'], deep],
        ['parent', u1['off'], last1],
        ['parent', u0['off'], mid0],
        ['it_new', 'dies', [u0['off']]],
        ['it_next', 0],
        ['lp', u0['off']],
        ['seek', 'info', mid0 + 1],
        ['sym_n', 'main'],
        ['abbrev_cu', u1['off']],
        ['cfi_obj'],
        ['lp_hdr', u1['off']],
    ]


def run_exh(ctx, depth, nalpha=None):
    """all op sequences up to `depth` over the first `nalpha` ops of the alphabet (all of them by default)"""
    total = 0
    trans = set()
    for k in range(2):
        fi = ['gen', 'exh', k, True]
        data, gd = file_for(ctx, fi)
        desc = describe(data)
        desc['small'] = True
        fresh = Fresh(data)
        alpha = exh_alphabet(desc)[:nalpha]
        for d in range(1, depth + 1):
            for seq in itertools.product(range(len(alpha)), repeat=d):
                if d < depth and False:
                    continue
                if ctx.time_left() < 5:
                    ctx.out.notes.append('exh: stopped early (time) after %d sequences' % total)
                    return
                ops = [alpha[i] for i in seq]
                bad, states, answers = run_history(data, ops, fresh, collect_states=True, with_pos=True)
                total += 1
                ctx.out.case({'f': fi, 'seq': list(seq)})
                prev = 'init'
                for i, s in enumerate(states):
                    h = state_hash(s)
                    ctx.states.add(h)
                    trans.add((prev, seq[i]))
                    prev = h
                if bad:
                    n0 = len(ctx.out.violations)
                    report(ctx, 'exh', fi, data, gd, ops, bad, fresh)
                    if len(ctx.out.violations) > n0:
                        return
        # the Lean step on every sequence of the full depth would repeat the prefixes: run it on the longest ones only
        rng = ctx.rng('exh-model/%d' % k)
        for _ in range(ctx.budget(60, 1500)):
            seq = [rng.randrange(len(alpha)) for _ in range(depth + 4)]
            ops = [alpha[i] for i in seq]
            bad, states, answers = run_history(data, ops, fresh, collect_states=True)
            if not bad:
                check_model(ctx, 'exh', data, desc, ops, answers, states, fi)
    ctx.out.count('exh:sequences', total)
    ctx.out.count('exh:transitions', len(trans))


def run(ctx):
    ctx.states = set()
    ctx.reported_define_file = set()
    quick = ctx.tier == 'quick'
    ngen = ctx.budget(34, 150)
    files = [['gen', 'hist', k, False] for k in range(ngen)]
    run_hist(ctx, 'hist', files, 5 if quick else 8, 60)
    run_hist(ctx, 'hist', [['shipped', n] for n in SHIPPED], 10 if quick else 40, 60)
    if quick:
        run_exh(ctx, 2)
    else:
        # the ops on the caches of the fourth wave (abbreviation tables, CallFrameInfo, line-program header) are the last
        # three of the alphabet: depth 4 over the first 14 ops as before, depth 3 over all 17
        run_exh(ctx, 4, 14)
        run_exh(ctx, 3)
    run_err(ctx)
    run_seqrand(ctx)
    if not quick:
        run_hist(ctx, 'soak', [['gen', 'soak', k, False] for k in range(6)] + [['shipped', n] for n in SHIPPED], 1, 2000, model=True)
    ctx.out.count('abstract-states', len(ctx.states))
    ctx.out.notes.append('distinct abstract cache states visited: %d' % len(ctx.states))


def replay(ctx, payload):
    v = payload['violation']
    case = v['case']
    ctx.states = set()
    ctx.reported_define_file = set()
    data, gd = file_for(ctx, case['file'])
    res = {'stream': v['stream'], 'case': case}
    if 'describe' in case:
        dd = guarded(lambda: describe(data), 60)
        res.update(describe=dd.get('err'), fails='err' in dd)
    elif v['stream'] == 'err':
        bad, _, _ = run_history(corrupt(data, case['corrupt']), case['ops'])
        res.update(bad=bad, fails=bool(bad))
    elif v['stream'] == 'seqrand':
        a, b = Session(data), Session(data)
        cu = [c for c in a.di.iter_CUs() if c.cu_offset == case['cu']][0]
        if 'die' in case:
            exp = [die_canon(d) for d in cu.iter_DIEs() if d.offset == case['die']][0]
            got = run_impl(lambda: die_canon(b.di.get_DIE_from_refaddr(case['die'])))
        else:
            exp = cu_canon(cu)
            got = run_impl(lambda: cu_canon(b.di.get_CU_at(case['cu'])))
        res.update(expect=exp, got=got, fails=got != {'ok': exp})
    elif v['kind'] == 'property':
        bad, _, _ = run_history(data, case['ops'])
        if case.get('bad') and all(x['op'][0] == 'lp_hdr' for x in case['bad']):
            bad = [x for x in bad if x['op'][0] == 'lp_hdr']
        res.update(bad=bad, fails=bool(bad))
    else:
        desc = describe(data)
        desc['small'] = case['file'][0] == 'gen'
        ops = case['ops']
        bad, states, answers = run_history(data, ops, collect_states=True)
        n0 = len(ctx.out.violations)
        check_model(ctx, v['stream'], data, desc, ops, answers, states, case['file'])
        res.update(fails=len(ctx.out.violations) > n0, violations=ctx.out.violations[n0:])
    return res
