"""C16 — primitive decoders.  Streams:

  enc   : value → Lean *spec encoder* (padded LEB128, both byte orders, ...) → real decoder; compared with the
          value the standard assigns (property) and with the model run on the generated construct (correspondence)
  raw   : arbitrary / exhaustive short byte strings → real decoder vs model, errors included
  cstr  : the chunked C-string reader at every length around the 64-byte chunk, vs first-NUL spec and model
"""
import io, itertools
from common import run_impl, canon, hx, rnd_uint, rnd_bytes, BOUNDARY

RULE = ('enc: (kind, value, encoding length, byte order, pre/rest) drawn from boundary pools and uniform ranges, '
        'encoded by the Lean spec encoder; raw: every byte string up to length 2 (quick) / 3 (thorough) as LEB128 and '
        'fixed-width prefix plus random strings to 20 bytes and every truncation point; cstr: string lengths 0..300 with and '
        'without terminator at every offset mod 64. Non-trivial = distinct (kind, bytes, position); all cases decode at least one field.')
ASSUMPTIONS = ['io.BytesIO read/seek/tell semantics', 'struct.unpack for <>BHIQbhiq']

DW = ('dwarf', [True, 32, 4, 4])


def dwarf_structs(le, fmt=32, asz=4, ver=4):
    from elftools.dwarf.structs import DWARFStructs
    return DWARFStructs(little_endian=le, dwarf_format=fmt, address_size=asz, dwarf_version=ver)


def elf_structs(le, cls):
    from elftools.elf.structs import ELFStructs
    s = ELFStructs(little_endian=le, elfclass=cls)
    s.create_basic_structs()
    s.create_advanced_structs('ET_EXEC', 'EM_386', 'ELFOSABI_SYSV')
    return s


def impl_parse(con, data, pos):
    from elftools.common.utils import struct_parse
    st = io.BytesIO(data)
    # both calling conventions of the library's own callers: an explicit offset, or "at the current position" after a
    # seek (content-derived choice; the second is how expression, CFI and line-program operands are read — a seeded
    # defect in the error path of the default-argument form was missed while only the first form was exercised)
    if (len(data) + pos + sum(data[:4])) % 2:
        st.seek(pos)
        v = struct_parse(con, st)
    else:
        v = struct_parse(con, st, pos)
    return {'v': canon(v), 'pos': st.tell()}


def prim(le, what, n=None):
    """(live construct, bundle kind, bundle cfg, struct name) for a primitive."""
    ds = dwarf_structs(le)
    cfg = ['dwarf', [le, 32, 4, 4]]
    if what == 'uleb': return ds.Dwarf_uleb128(''), cfg, 'Dwarf_uleb128'
    if what == 'sleb': return ds.Dwarf_sleb128(''), cfg, 'Dwarf_sleb128'
    if what == 'uint': return getattr(ds, 'Dwarf_uint%d' % (8 * n))(''), cfg, 'Dwarf_uint%d' % (8 * n)
    if what == 'sint': return getattr(ds, 'Dwarf_int%d' % (8 * n))(''), cfg, 'Dwarf_int%d' % (8 * n)
    if what == 'u24': return ds.Dwarf_uint24(''), cfg, 'Dwarf_uint24'
    if what == 'cstring': return ds.Dwarf_dw_form['DW_FORM_string'], cfg, 'Dwarf_dw_form:DW_FORM_string'
    if what in ('initlen32', 'initlen64', 'initlen'): return ds.Dwarf_initial_length(''), cfg, 'Dwarf_initial_length'
    if what == 'block_fixed':
        nm = 'DW_FORM_block%d' % n
        return ds.Dwarf_dw_form[nm], cfg, 'Dwarf_dw_form:' + nm
    if what == 'block_uleb': return ds.Dwarf_dw_form['DW_FORM_exprloc'], cfg, 'Dwarf_dw_form:DW_FORM_exprloc'
    raise KeyError(what)


ELF_PRIMS = ['Elf_byte', 'Elf_half', 'Elf_word', 'Elf_word64', 'Elf_addr', 'Elf_offset', 'Elf_sword', 'Elf_xword',
             'Elf_sxword', 'Elf_uleb128', 'Elf_ntbs']


def compare(ctx, stream, case, impl, model, expect=None):
    out = ctx.out
    out.case(case)
    if expect is not None and impl != {'ok': expect}:
        out.violation('property', stream, case, expect=expect, got=impl, model=model)
    elif impl != model:
        out.violation('correspondence', stream, case, got=impl, model=model)


def gen_enc_cases(rng, n):
    cases = []
    for _ in range(n):
        what = rng.choice(['uleb', 'uleb', 'sleb', 'sleb', 'uint', 'sint', 'u24', 'cstring', 'initlen32', 'initlen64',
                           'block_fixed', 'block_uleb'])
        le = rng.random() < 0.5
        pre = rnd_bytes(rng, rng.choice([0, 0, 1, 3, 17]))
        rest = rnd_bytes(rng, rng.choice([0, 0, 1, 2, 9]))
        c = {'p': 'C16', 'k': 'enc', 'what': what, 'le': le, 'pre': hx(pre), 'rest': hx(rest)}
        if what == 'uleb':
            v = rnd_uint(rng, rng.choice([7, 14, 32, 64, 70]))
            minlen = max(1, (v.bit_length() + 6) // 7)
            c.update(v=v, n=minlen + rng.choice([0, 0, 0, 1, 2, 5]))
        elif what == 'sleb':
            bits = rng.choice([7, 14, 32, 64, 70])
            v = rnd_uint(rng, bits) - (1 << (bits - 1)) if rng.random() < 0.7 else rng.choice([0, -1, 1, -64, 63, 64, -65, -(1 << 63), (1 << 63) - 1])
            n = 1
            while not (-(1 << (7 * n - 1)) <= v < (1 << (7 * n - 1))):
                n += 1
            c.update(v=v, n=n + rng.choice([0, 0, 0, 1, 2, 5]))
        elif what == 'uint':
            n = rng.choice([1, 2, 4, 8])
            c.update(v=rnd_uint(rng, 8 * n), n=n)
        elif what == 'sint':
            n = rng.choice([1, 2, 4, 8])
            c.update(v=rnd_uint(rng, 8 * n) - (1 << (8 * n - 1)), n=n)
        elif what == 'u24':
            c.update(what='uint', prim='u24', v=rnd_uint(rng, 24), n=3)
        elif what == 'cstring':
            ln = rng.choice([0, 1, 2, 5, 63, 64, 65, 130])
            c.update(s=hx(bytes(rng.randrange(1, 256) for _ in range(ln))))
        elif what == 'initlen32':
            c.update(v=min(rnd_uint(rng, 32), 0xFFFFFEFF))
        elif what == 'initlen64':
            c.update(v=rnd_uint(rng, 64))
        elif what == 'block_fixed':
            n = rng.choice([1, 2, 4])
            ln = rng.choice([0, 1, 2, 10, 255, 256, 300]) if n > 1 else rng.choice([0, 1, 2, 10, 200, 255])
            c.update(n=n, payload=hx(rnd_bytes(rng, ln)))
        elif what == 'block_uleb':
            ln = rng.choice([0, 1, 2, 10, 127, 128, 129, 300])
            minlen = max(1, (ln.bit_length() + 6) // 7)
            c.update(n=minlen + rng.choice([0, 0, 1, 3]), payload=hx(rnd_bytes(rng, ln)))
        cases.append(c)
    return cases


def run_enc(ctx):
    rng = ctx.rng('enc')
    cases = gen_enc_cases(rng, ctx.budget(1500, 40000))
    replies = ctx.driver.ask_many(cases)
    reqs2, keep = [], []
    for c, r in zip(cases, replies):
        if 'fatal' in r:
            raise RuntimeError('driver: %s on %r' % (r['fatal'], c))
        if not r['wf']:
            ctx.out.count('enc:not-wf')
            continue
        what = c.get('prim', c['what'])
        con, cfg, name = prim(c['le'], what, c.get('n'))
        reqs2.append({'p': 'con', 'bundle': cfg[0], 'cfg': cfg[1], 'name': name, 'hex': r['bytes'], 'pos': r['pos']})
        keep.append((c, r, con))
        ctx.out.count('enc:' + what)
    models = ctx.driver.ask_many(reqs2)
    for (c, r, con), m in zip(keep, models):
        data = bytes.fromhex(r['bytes'])
        impl = run_impl(lambda: impl_parse(con, data, r['pos']))
        compare(ctx, 'enc', {'req': c, 'bytes': r['bytes'], 'pos': r['pos']}, impl, m.get('model'), r['expect'])


RAW_KINDS = [('uleb', None), ('sleb', None), ('uint', 1), ('uint', 2), ('uint', 4), ('uint', 8), ('sint', 1), ('sint', 2),
             ('sint', 4), ('sint', 8), ('u24', None), ('cstring', None), ('initlen', None), ('block_fixed', 1),
             ('block_fixed', 2), ('block_fixed', 4), ('block_uleb', None)]


def run_raw(ctx):
    rng = ctx.rng('raw')
    items = []          # (what, n, le, data, pos)
    # exhaustive short strings as LEB128 prefixes (and for the 1/2-byte fixed fields)
    maxlen = 2
    for ln in range(0, maxlen + 1):
        for tup in itertools.product(range(256), repeat=ln):
            data = bytes(tup)
            items.append(('uleb', None, True, data, 0))
            items.append(('sleb', None, True, data, 0))
    for _ in range(ctx.budget(3000, 200000)):
        what, n = rng.choice(RAW_KINDS)
        le = rng.random() < 0.5
        ln = rng.choice([0, 1, 2, 3, 4, 5, 7, 8, 9, 12, 13, 20])
        data = rnd_bytes(rng, ln)
        if what in ('uleb', 'sleb') and rng.random() < 0.5:
            data = bytes((b | 0x80) for b in data[:-1]) + data[-1:]        # long digit strings
        if what == 'initlen' and rng.random() < 0.7 and ln >= 4:
            w = rng.choice([0xffffffff, 0xfffffffe, 0xffffff00, 0xfffffeff, 0xfffffff0, 0xffffffef])
            data = w.to_bytes(4, 'little' if le else 'big') + data[4:]
        pos = rng.choice([0, 0, 0, 1, 2]) if ln else 0
        items.append((what, n, le, data, min(pos, ln)))
    reqs, cons = [], []
    for what, n, le, data, pos in items:
        con, cfg, name = prim(le, what, n)
        reqs.append({'p': 'con', 'bundle': cfg[0], 'cfg': cfg[1], 'name': name, 'hex': hx(data), 'pos': pos})
        cons.append(con)
        ctx.out.count('raw:' + what)
    # the ELF-side primitive factories, both classes
    for _ in range(ctx.budget(600, 20000)):
        le = rng.random() < 0.5
        cls = rng.choice([32, 64])
        name = rng.choice(ELF_PRIMS)
        data = rnd_bytes(rng, rng.choice([0, 1, 2, 3, 4, 7, 8, 9]))
        s = elf_structs(le, cls)
        con = getattr(s, name)('')
        reqs.append({'p': 'con', 'bundle': 'elf', 'cfg': [le, cls, 'EM_SPARC', False, False], 'name': name, 'hex': hx(data), 'pos': 0})
        cons.append(con)
        ctx.out.count('raw:elf:' + name)
    models = ctx.driver.ask_many(reqs)
    # the same bytes through the *Spec* construct: by the C16 theorems its answer is the standard's
    # (value and consumed length for complete encodings, parse error for truncated / reserved ones)
    specs = ctx.driver.ask_many([dict(r, spec=True) for r in reqs])
    for rq, con, m, sp in zip(reqs, cons, models, specs):
        if 'fatal' in m or 'fatal' in sp:
            raise RuntimeError('driver: %s on %r' % (m.get('fatal', sp.get('fatal')), rq))
        data = bytes.fromhex(rq['hex'])
        impl = run_impl(lambda: impl_parse(con, data, rq['pos']))
        case = {'name': rq['name'], 'bundle': rq['bundle'], 'cfg': rq['cfg'], 'hex': rq['hex'], 'pos': rq['pos']}
        ctx.out.case(case)
        if impl != sp.get('model'):
            ctx.out.violation('property', 'raw', case, expect=sp.get('model'), got=impl, model=m.get('model'))
        elif impl != m.get('model'):
            ctx.out.violation('correspondence', 'raw', case, got=impl, model=m.get('model'))


def run_cstr(ctx):
    from elftools.common.utils import parse_cstring_from_stream
    rng = ctx.rng('cstr')
    reqs = []
    lens = list(range(0, 301)) if ctx.tier == 'thorough' else sorted(set(list(range(0, 70)) + [126, 127, 128, 129, 130, 191, 192, 193, 255, 256, 257, 300]))
    for ln in lens:
        for term in (True, False):
            for pos in (0, rng.randrange(0, 70)):
                body = bytes(rng.randrange(1, 256) for _ in range(ln))
                data = rnd_bytes(rng, pos).replace(b'\0', b'\1') + body + (b'\0' + rnd_bytes(rng, rng.randrange(0, 70)) if term else b'')
                reqs.append({'p': 'C16', 'k': 'cstr', 'hex': hx(data), 'pos': pos, 'chunk': 64})
    replies = ctx.driver.ask_many(reqs)
    for rq, r in zip(reqs, replies):
        if 'fatal' in r:
            raise RuntimeError('driver: %s' % r['fatal'])
        data = bytes.fromhex(rq['hex'])

        def f():
            st = io.BytesIO(data)
            v = parse_cstring_from_stream(st, rq['pos'])
            return canon(v)
        impl = run_impl(f)
        ctx.out.count('cstr')
        compare(ctx, 'cstr', {'hex': rq['hex'], 'pos': rq['pos']}, impl, r['model'], r['expect'])


def run(ctx):
    run_enc(ctx)
    run_raw(ctx)
    run_cstr(ctx)


def replay(ctx, payload):
    v = payload['violation']
    case = v['case']
    res = {'stream': v['stream'], 'case': case}
    if v['stream'] == 'enc':
        c = case['req']
        what = c.get('prim', c['what'])
        con, cfg, name = prim(c['le'], what, c.get('n'))
        data = bytes.fromhex(case['bytes'])
        impl = run_impl(lambda: impl_parse(con, data, case['pos']))
        r = ctx.driver.ask(c)
        m = ctx.driver.ask({'p': 'con', 'bundle': cfg[0], 'cfg': cfg[1], 'name': name, 'hex': case['bytes'], 'pos': case['pos']})
        res.update(impl=impl, expect=r['expect'], model=m.get('model'), fails=(impl != {'ok': r['expect']}))
    elif v['stream'] == 'raw':
        le, cfg = case['cfg'][0], case['cfg']
        if case.get('bundle', 'dwarf' if len(cfg) == 4 else 'elf') == 'dwarf':
            ds = dwarf_structs(cfg[0], cfg[1], cfg[2], cfg[3])
            nm = case['name']
            con = ds.Dwarf_dw_form[nm.split(':', 1)[1]] if ':' in nm else getattr(ds, nm)('')
            kind = 'dwarf'
        else:
            con = getattr(elf_structs(cfg[0], cfg[1]), case['name'])('')
            kind = 'elf'
        data = bytes.fromhex(case['hex'])
        impl = run_impl(lambda: impl_parse(con, data, case['pos']))
        rq = {'p': 'con', 'bundle': kind, 'cfg': cfg, 'name': case['name'], 'hex': case['hex'], 'pos': case['pos']}
        m = ctx.driver.ask(rq)
        sp = ctx.driver.ask(dict(rq, spec=True))
        res.update(impl=impl, model=m.get('model'), expect=sp.get('model'), fails=(impl != sp.get('model')))
    else:
        from elftools.common.utils import parse_cstring_from_stream
        data = bytes.fromhex(case['hex'])
        impl = run_impl(lambda: canon(parse_cstring_from_stream(io.BytesIO(data), case['pos'])))
        r = ctx.driver.ask({'p': 'C16', 'k': 'cstr', 'hex': case['hex'], 'pos': case['pos'], 'chunk': 64})
        res.update(impl=impl, expect=r['expect'], model=r['model'], fails=(impl != {'ok': r['expect']}))
    return res


FINDINGS = {}
