"""C10 helper: generator of small, well-formed ELF files with a complete set of DWARF sections
(.debug_info with DIE trees, .debug_abbrev, .debug_str, .debug_line, .debug_frame, .eh_frame,
.debug_aranges, .debug_pubnames, DWARF 5 .debug_addr/.debug_str_offsets), a symbol table with
duplicate names and program headers.  Everything is drawn from the rng passed in; the description
returned next to the bytes is what the operation alphabet is derived from.
"""
import struct
import elfbuild
from common import uleb, sleb

# DWARF constants used by the generator
TAG_CU, TAG_SUBPROGRAM, TAG_VARIABLE, TAG_BASE, TAG_BLOCK, TAG_STRUCT = 0x11, 0x2e, 0x34, 0x24, 0x0b, 0x13
AT_SIBLING, AT_NAME, AT_BYTE_SIZE, AT_STMT_LIST, AT_LOW_PC, AT_TYPE = 0x01, 0x03, 0x0b, 0x10, 0x11, 0x49
AT_STR_OFFSETS_BASE, AT_ADDR_BASE = 0x72, 0x73
F_ADDR, F_DATA4, F_STRING, F_DATA1, F_STRP, F_REF_ADDR, F_REF4, F_REF_UDATA, F_SEC_OFFSET = \
    0x01, 0x06, 0x08, 0x0b, 0x0e, 0x10, 0x13, 0x15, 0x17
F_ADDRX, F_STRX1 = 0x1b, 0x25

# code -> (tag, has_children, [(attr, form)])
ABBREVS = {
    1: (TAG_CU, True, [(AT_NAME, F_STRP), (AT_STMT_LIST, F_DATA4), (AT_LOW_PC, F_ADDR)]),
    2: (TAG_SUBPROGRAM, True, [(AT_NAME, F_STRING), (AT_SIBLING, F_REF4)]),
    3: (TAG_SUBPROGRAM, True, [(AT_NAME, F_STRING)]),
    4: (TAG_VARIABLE, False, [(AT_NAME, F_STRING), (AT_TYPE, F_REF4)]),
    5: (TAG_BASE, False, [(AT_NAME, F_STRP), (AT_BYTE_SIZE, F_DATA1)]),
    6: (TAG_BLOCK, True, []),
    7: (TAG_VARIABLE, False, [(AT_TYPE, F_REF_ADDR)]),
    8: (TAG_CU, False, [(AT_NAME, F_STRING)]),
    9: (TAG_CU, True, [(AT_NAME, F_STRX1), (AT_STR_OFFSETS_BASE, F_SEC_OFFSET), (AT_ADDR_BASE, F_SEC_OFFSET),
                       (AT_LOW_PC, F_ADDRX), (AT_STMT_LIST, F_SEC_OFFSET)]),
    10: (TAG_STRUCT, True, [(AT_SIBLING, F_REF_ADDR), (AT_NAME, F_STRING)]),
    11: (TAG_CU, True, [(AT_NAME, F_STRING), (AT_STMT_LIST, F_SEC_OFFSET)]),
    12: (TAG_STRUCT, True, [(AT_NAME, F_STRING), (AT_SIBLING, F_REF_UDATA)]),
}
NAMES = [b'main', b'x', b'int', b'foo', b'bar', b'\xc3\xa9t\xc3\xa9', b'a_rather_long_identifier_name_that_goes_past_64_bytes_'
         b'so_that_the_chunked_reader_loops', b'f', b'g']


def abbrev_bytes():
    out = bytearray()
    for code, (tag, ch, attrs) in ABBREVS.items():
        out += uleb(code) + uleb(tag) + bytes([1 if ch else 0])
        for a, f in attrs:
            out += uleb(a) + uleb(f)
        out += b'\0\0'
    out += b'\0'
    return bytes(out)


class Node:
    def __init__(self, code, vals=None, children=None):
        self.code, self.vals, self.children = code, dict(vals or {}), list(children or [])
        self.offset = None


class Ctx:
    pass


def gen_tree(rng, depth, budget, top_code):
    """a random DIE tree below a top DIE with abbreviation `top_code`"""
    top = Node(top_code)
    if not ABBREVS[top_code][1]:
        return top
    def kids(d, n):
        out = []
        for _ in range(n):
            if budget[0] <= 0:
                break
            budget[0] -= 1
            r = rng.random()
            if d < depth and r < 0.45:
                code = rng.choice([2, 3, 6, 10, 12, 2, 3])
                node = Node(code)
                node.children = kids(d + 1, rng.choice([0, 1, 2, 3]))
            else:
                node = Node(rng.choice([4, 5, 7, 4, 5]))
            out.append(node)
        return out
    top.children = kids(1, rng.choice([0, 1, 2, 3, 4]))
    return top


def all_nodes(n):
    yield n
    for c in n.children:
        yield from all_nodes(c)


def form_size(form, c):
    if form == F_ADDR: return c.asz
    if form == F_DATA4 or form == F_REF4: return 4
    if form in (F_DATA1, F_STRX1): return 1
    if form in (F_STRP, F_SEC_OFFSET): return c.osz
    if form == F_REF_ADDR: return c.asz if c.version == 2 else c.osz
    raise KeyError(form)


def node_size(n, c):
    """size of the DIE itself; ref_udata and addrx are emitted in a fixed 2 / 1 byte encoding"""
    sz = len(uleb(n.code))
    for a, f in ABBREVS[n.code][2]:
        if f == F_STRING:
            sz += len(n.vals['name']) + 1
        elif f == F_REF_UDATA:
            sz += 2
        elif f == F_ADDRX:
            sz += 1
        else:
            sz += form_size(f, c)
    return sz


def layout(n, off, c):
    """assign offsets; returns the offset after the subtree (including the terminator)"""
    n.offset = off
    off += node_size(n, c)
    if ABBREVS[n.code][1]:
        for ch in n.children:
            off = layout(ch, off, c)
        n.term = off
        off += 1 + n.pad
    n.end = off
    return off


def emit(n, c, out):
    p = lambda v, size: v.to_bytes(size, 'little' if c.le else 'big')
    out += uleb(n.code)
    for a, f in ABBREVS[n.code][2]:
        if f == F_STRING:
            out += n.vals['name'] + b'\0'
        elif f == F_REF_UDATA:
            v = n.vals[a]
            out += bytes([(v & 0x7f) | 0x80, (v >> 7) & 0x7f])
        elif f == F_ADDRX:
            out += uleb(n.vals[a])
        else:
            out += p(n.vals[a], form_size(f, c))
    if ABBREVS[n.code][1]:
        for ch in n.children:
            emit(ch, c, out)
        out += b'\0' * (1 + n.pad)        # terminator (+ optional extra null entries)


def line_program(rng, le, version, asz, with_define_file):
    p = lambda fmt, *v: struct.pack(('<' if le else '>') + fmt, *v)
    opcode_base = rng.choice([10, 13])
    std_lens = [0, 1, 1, 1, 1, 0, 0, 0, 1, 0, 0, 1][:opcode_base - 1]
    body_hdr = bytes([1]) + (bytes([1]) if version >= 4 else b'') + bytes([1]) + p('b', -5) + bytes([14, opcode_base]) + bytes(std_lens)
    body_hdr += b'inc\0' + b'\0'
    body_hdr += b'a.c\0' + uleb(1) + uleb(0) + uleb(0) + b'\0'
    prog = bytearray()
    prog += bytes([0, 1 + asz, 2]) + (0x1000).to_bytes(asz, 'little' if le else 'big')      # DW_LNE_set_address
    for _ in range(rng.choice([1, 2, 4])):
        r = rng.random()
        if r < 0.3:
            prog += bytes([rng.randrange(opcode_base, 256)])                               # special opcode
        elif r < 0.5:
            prog += bytes([2]) + uleb(rng.randrange(0, 300))                                # advance_pc
        elif r < 0.7:
            prog += bytes([3]) + sleb(rng.randrange(-20, 20))                               # advance_line
        elif r < 0.8:
            prog += bytes([1])                                                              # copy
        else:
            prog += bytes([5]) + uleb(rng.randrange(0, 9))                                  # set_column
    if with_define_file:
        fe = b'gen.h\0' + uleb(0) + uleb(0) + uleb(0)
        prog += bytes([0]) + uleb(1 + len(fe)) + bytes([3]) + fe                            # DW_LNE_define_file
        prog += bytes([rng.randrange(opcode_base, 256)])
    prog += bytes([0, 1, 1])                                                                # end_sequence
    hl = len(body_hdr)
    rest = p('H', version) + p('I', hl) + body_hdr + bytes(prog)
    return p('I', len(rest)) + rest


def cfi_sections(rng, le, asz):
    p = lambda fmt, *v: struct.pack(('<' if le else '>') + fmt, *v)
    A = 'I' if asz == 4 else 'Q'

    def pad(b, al):
        while (len(b) + 4) % al:
            b += b'\0'
        return b
    # .debug_frame: CIE, FDE, FDE (second FDE first refers forward in one variant)
    cie = pad(p('I', 0xffffffff) + bytes([1]) + b'\0' + uleb(1) + sleb(-4) + bytes([8]) + bytes([0x0c, 4, 4, 0x88, 1]), asz)
    cie = p('I', len(cie)) + cie
    fdes = b''
    nf = rng.choice([1, 2, 3])
    forward = rng.random() < 0.4
    cie_off = 0
    blocks = []
    for i in range(nf):
        ins = bytes([0x41, 0x0e, 8, 0x42, 0x0e, 16][:rng.choice([0, 3, 6])])
        blocks.append((0x1000 + 0x40 * i, 0x20, ins))
    if forward:
        # FDEs first, the CIE last
        pos = 0
        sizes = []
        for (loc, rg, ins) in blocks:
            body = pad(p('I', 0) + p(A, loc) + p(A, rg) + ins, asz)
            sizes.append(4 + len(body))
        cie_off = sum(sizes)
        out = b''
        for (loc, rg, ins) in blocks:
            body = pad(p('I', cie_off) + p(A, loc) + p(A, rg) + ins, asz)
            out += p('I', len(body)) + body
        debug_frame = out + cie
    else:
        out = cie
        for (loc, rg, ins) in blocks:
            body = pad(p('I', 0) + p(A, loc) + p(A, rg) + ins, asz)
            out += p('I', len(body)) + body
        debug_frame = out
    # .eh_frame: CIE "zR" (pcrel|sdata4), FDEs, zero terminator
    ecie = pad(p('I', 0) + bytes([1]) + b'zR\0' + uleb(1) + sleb(-8) + bytes([16]) + uleb(1) + bytes([0x1b]) + bytes([0x0c, 7, 8, 0x90, 1]), 4)
    ecie = p('I', len(ecie)) + ecie
    eh = ecie
    for i in range(rng.choice([1, 2])):
        start = len(eh)
        ins = bytes([0x41, 0x0e, 16][:rng.choice([0, 3])])
        body = pad(p('I', start + 4) + p('i', 0x100 * (i + 1)) + p('I', 0x10) + uleb(0) + ins, 4)
        eh += p('I', len(body)) + body
    eh += p('I', 0)
    return debug_frame, eh


def gen_file(rng, tiny=False, force_top9=False):
    """returns (bytes, description)"""
    c = Ctx()
    c.le = rng.random() < 0.7
    cls = rng.choice([32, 64])
    c.asz = cls // 8
    p = lambda fmt, *v: struct.pack(('<' if c.le else '>') + fmt, *v)
    ncu = 2 if tiny else rng.choice([1, 2, 2, 3])
    # string table
    str_tab = b'\0'
    str_off = {}
    for nm in NAMES:
        str_off[nm] = len(str_tab)
        str_tab += nm + b'\0'
    # line programs
    line_sec = b''
    line_offs = []
    any_define = False
    for i in range(ncu):
        if i > 0 and rng.random() < 0.25:
            line_offs.append(line_offs[0])        # two units sharing one program
            continue
        wd = (not tiny) and rng.random() < 0.3
        any_define = any_define or wd
        line_offs.append(len(line_sec))
        line_sec += line_program(rng, c.le, rng.choice([2, 3, 4]), c.asz, wd)
    # DWARF 5 auxiliary sections (32-bit format)
    addr_sec = p('I', 4 + 2 * c.asz) + p('H', 5) + bytes([c.asz, 0]) + (0x1000).to_bytes(c.asz, 'little' if c.le else 'big') \
        + (0x2000).to_bytes(c.asz, 'little' if c.le else 'big')
    stroffs_sec = p('I', 4 + 8) + p('H', 5) + p('H', 0) + p('I', str_off[b'main']) + p('I', str_off[b'foo'])
    info = bytearray()
    units = []
    for i in range(ncu):
        c.version = rng.choice([2, 3, 4, 4, 5]) if not tiny else [4, 3][i]
        c.osz = 4
        if c.version == 5:
            top_code = rng.choice([9, 9, 11, 8])
        else:
            top_code = rng.choice([1, 1, 1, 11 if c.version >= 4 else 1, 8])
        if tiny:
            top_code = 1
        if force_top9 and i == 0:
            # a DWARF 5 unit whose top DIE uses DW_FORM_strx1 / DW_FORM_addrx before the *_base attributes
            c.version, top_code = 5, 9
        hdr_len = 11 if c.version < 5 else 12
        cu_off = len(info)
        tree = gen_tree(rng, 3 if not tiny else 2, [rng.choice([3, 6, 10, 16]) if not tiny else 5], top_code)
        if tiny and not tree.children:
            tree.children = [Node(3, children=[Node(4)]), Node(5)]
        nodes = list(all_nodes(tree))
        for n in nodes:
            n.pad = 0
            n.vals['name'] = rng.choice(NAMES[:6] + NAMES[7:])
        layout(tree, cu_off + hdr_len, c)
        leafs = [n for n in nodes if n is not tree]
        # fill attribute values
        def fill(n, parent, idx):
            for a, f in ABBREVS[n.code][2]:
                if a == AT_NAME and f == F_STRP:
                    n.vals[a] = str_off[rng.choice(NAMES)]
                elif a == AT_NAME and f == F_STRX1:
                    n.vals[a] = rng.choice([0, 1])
                elif a == AT_STMT_LIST:
                    n.vals[a] = line_offs[i]
                elif a == AT_LOW_PC:
                    n.vals[a] = 0x1000 * (i + 1) if f == F_ADDR else rng.choice([0, 1])
                elif a == AT_BYTE_SIZE:
                    n.vals[a] = rng.choice([1, 2, 4, 8])
                elif a == AT_STR_OFFSETS_BASE:
                    n.vals[a] = 8
                elif a == AT_ADDR_BASE:
                    n.vals[a] = 8
                elif a == AT_TYPE and f == F_REF4:
                    n.vals[a] = rng.choice(nodes).offset - cu_off
                elif a == AT_TYPE and f == F_REF_ADDR:
                    # any DIE of an already laid out unit or of this one
                    pool = [x for u in units for x in u['offsets']] + [x.offset for x in nodes]
                    n.vals[a] = rng.choice(pool)
                elif a == AT_SIBLING:
                    nxt = n.end          # offset of the next sibling (or of the parent's terminator)
                    n.vals[a] = nxt if f == F_REF_ADDR else nxt - cu_off
            for k, ch in enumerate(n.children):
                fill(ch, n, k)
        fill(tree, None, 0)
        body = bytearray()
        emit(tree, c, body)
        if c.version < 5:
            hdr = p('H', c.version) + p('I', 0) + bytes([c.asz])
        else:
            hdr = p('H', c.version) + bytes([1, c.asz]) + p('I', 0)
        unit = hdr + bytes(body)
        info += p('I', len(unit)) + unit
        parent = {}
        for n in nodes:
            for ch in n.children:
                parent[ch.offset] = n.offset
        units.append({'off': cu_off, 'die_off': cu_off + hdr_len, 'size': 4 + len(unit), 'version': c.version,
                      'offsets': [n.offset for n in nodes], 'terms': [n.term for n in nodes if ABBREVS[n.code][1]],
                      'parents': [n.offset for n in nodes if n.children], 'with_children': [n.offset for n in nodes if ABBREVS[n.code][1]],
                      'refs': [[n.offset, 'DW_AT_type'] for n in nodes if n.code in (4, 7)] +
                              [[n.offset, 'DW_AT_sibling'] for n in nodes if n.code in (2, 10, 12)],
                      'line': line_offs[i], 'top_code': top_code})
    # aranges / pubnames
    ar = b''
    for u in units:
        tup = b''
        first = 12
        padn = (-first) % (2 * c.asz)
        body = p('H', 2) + p('I', u['off']) + bytes([c.asz, 0]) + bytes(padn)
        A = 'I' if c.asz == 4 else 'Q'
        body += p(A, 0x1000 * (units.index(u) + 1)) + p(A, 0x100) + p(A, 0) + p(A, 0)
        ar += p('I', len(body)) + body
    pn = b''
    pub_names = []
    for u in units:
        ents = b''
        for o in u['offsets'][1:3]:
            nm = b'pn%d' % o
            pub_names.append(nm.decode())
            ents += p('I', o - u['off']) + nm + b'\0'
        ents += p('I', 0)
        body = p('H', 2) + p('I', u['off']) + p('I', u['size']) + ents
        pn += p('I', len(body)) + body
    debug_frame, eh_frame = cfi_sections(rng, c.le, c.asz)
    # ELF container
    img = elfbuild.ElfImage(cls=cls, le=c.le, e_type=elfbuild.ET_EXEC, e_machine=elfbuild.EM_386 if cls == 32 else elfbuild.EM_X86_64)
    text = img.add_section('.text', elfbuild.SHT_PROGBITS, data=bytes(64), flags=6, addr=0x1000, addralign=16)
    img.add_section('.eh_frame', elfbuild.SHT_PROGBITS, data=eh_frame, flags=2, addr=0x2000, addralign=8)
    img.add_section('.debug_info', elfbuild.SHT_PROGBITS, data=bytes(info))
    img.add_section('.debug_abbrev', elfbuild.SHT_PROGBITS, data=abbrev_bytes())
    img.add_section('.debug_str', elfbuild.SHT_PROGBITS, data=str_tab)
    img.add_section('.debug_line', elfbuild.SHT_PROGBITS, data=line_sec)
    img.add_section('.debug_frame', elfbuild.SHT_PROGBITS, data=debug_frame)
    img.add_section('.debug_aranges', elfbuild.SHT_PROGBITS, data=ar)
    img.add_section('.debug_pubnames', elfbuild.SHT_PROGBITS, data=pn)
    img.add_section('.debug_addr', elfbuild.SHT_PROGBITS, data=addr_sec)
    img.add_section('.debug_str_offsets', elfbuild.SHT_PROGBITS, data=stroffs_sec)
    if rng.random() < 0.3:
        img.add_section('.text', elfbuild.SHT_PROGBITS, data=bytes(8), flags=6, addr=0x3000)     # duplicate section name
    sym_names = [b'', b'main', b'foo', b'main', b'bar', b'\xc3\xa9', b'foo', b'z'][:rng.choice([3, 5, 8])]
    tab, off = elfbuild.strtab(sym_names)
    syms = b''
    for k, nm in enumerate(sym_names):
        if cls == 32:
            syms += p('IIIBBH', off[nm], 0x1000 + k, 4, 0x12 if k else 0, 0, text if k else 0)
        else:
            syms += p('IBBHQQ', off[nm], 0x12 if k else 0, 0, text if k else 0, 0x1000 + k, 4)
    strndx = len(img.sections) + 1
    img.add_section('.symtab', elfbuild.SHT_SYMTAB, data=syms, link=strndx, info=1, addralign=8, entsize=16 if cls == 32 else 24)
    img.add_section('.strtab', elfbuild.SHT_STRTAB, data=tab)
    img.add_segment(elfbuild.PT_LOAD, section=text, flags=5, align=0x1000)
    img.add_segment(elfbuild.PT_LOAD, section=2, flags=4, align=8)
    data = img.build()
    desc = {'le': c.le, 'cls': cls, 'units': units, 'info_size': len(info), 'nsec': len(img.sections) + 1, 'nseg': 2,
            'sym_names': sorted({n.decode() for n in sym_names}), 'nsym': len(sym_names), 'pub_names': pub_names,
            'define_file': any_define,
            'sec_names': sorted({s['name'] for s in img.sections} | {'.shstrtab'})}
    return data, desc
