"""C01 — ELF file, section and program headers are decoded exactly as encoded.

Streams
  ast   : random abstract ELF descriptions (class × byte order × machine class × OS ABI × core, tables placed
          anywhere, padded entry sizes, extended-numbering escapes, named and unnamed codes, every section kind)
          → bytes by the Lean assembler (Spec.ElfDesc.assemble) → real `ELFFile`; compared with the Spec's
          observation (property) and with the Lean model of elffile.py run on the same bytes (correspondence)
  raw   : mutated images (truncations, byte substitutions in the header tables) → model vs real, errors included
"""
import io
from common import run_impl, canon, hx, rnd_uint, rnd_bytes

RULE = ('ast: ElfDesc drawn type-directed: cls∈{32,64} × LSB/MSB × 8 machine classes (+unnamed codes) × Solaris/other × core/other; '
        '0..14 sections over every section kind with valid links, 0..6 segments, random region order/gaps, entry sizes padded by 0/8/24, '
        'escapes forced on small tables (quick) and real ≥0xff00 / ≥0xffff tables (thorough); integers from boundary pools. '
        'raw: truncation at table boundaries and single-byte substitutions of header-table bytes. '
        'Non-trivial = distinct image with ≥1 section or segment.')
ASSUMPTIONS = ['io.BytesIO semantics', 'section names are valid UTF-8 without NUL (the library decodes names with errors=replace)']

CLASS_MACHINES = {
    'EM_SPARC': ['EM_SPARC', 'EM_386', 'EM_68K', 'EM_S390', 'EM_SH', 'EM_CRIS', 'EM_M32R', 'EM_MN10300'],
    'EM_MIPS': ['EM_MIPS'], 'EM_MIPS_RS3_LE': ['EM_MIPS_RS3_LE'], 'EM_ARM': ['EM_ARM'], 'EM_X86_64': ['EM_X86_64'],
    'EM_AARCH64': ['EM_AARCH64'], 'EM_RISCV': ['EM_RISCV'],
}
SPECIAL = set(sum(CLASS_MACHINES.values(), []))

SHT = dict(NULL=0, PROGBITS=1, SYMTAB=2, STRTAB=3, RELA=4, HASH=5, DYNAMIC=6, NOTE=7, NOBITS=8, REL=9, DYNSYM=11,
           INIT_ARRAY=14, GROUP=17, SYMTAB_SHNDX=18, RELR=19, GNU_HASH=0x6ffffff6, VERDEF=0x6ffffffd, VERNEED=0x6ffffffe,
           VERSYM=0x6fffffff, SUNW_SYMINFO=0x6ffffffc, SUNW_LDYNSYM=0x6ffffff3, PROC3=0x70000003, PROC1=0x70000001,
           PROC_X=0x70000005, UNKNOWN=0x12345678)


def R(**kw):
    return {'r': [[k, v] for k, v in kw.items()]}


def machine_choices():
    from elftools.elf.enums import ENUM_E_MACHINE
    return {k: v for k, v in ENUM_E_MACHINE.items() if k != '_default_'}


def gen_desc(rng, big=None):
    M = machine_choices()
    cls = rng.choice([32, 64])
    le = rng.random() < 0.5
    mclass = rng.choice(['default', 'default'] + list(CLASS_MACHINES))
    if mclass == 'default':
        if rng.random() < 0.3:
            e_machine = rng.choice([0xfe01, 0x9999, 0xffff, 0xabc])
            while e_machine in M.values():
                e_machine += 1
        else:
            e_machine = M[rng.choice([k for k in M if k not in SPECIAL])]
    else:
        e_machine = M[rng.choice(CLASS_MACHINES[mclass])]
    solaris = rng.random() < 0.15
    core = rng.random() < 0.15
    osabi = 6 if solaris else rng.choice([0, 0, 3, 9, 64, 97, 255, 200])
    e_type = 4 if core else rng.choice([0, 1, 2, 3, 0xfe00, 0xff00, 0xffff, 7])
    w = cls // 8
    shsz = 40 if cls == 32 else 64
    phsz = 32 if cls == 32 else 56
    symsz = 16 if cls == 32 else 24
    wbits = cls

    def X():     # xword-sized random
        return rnd_uint(rng, wbits)

    def W():
        return rnd_uint(rng, 32)

    nsec = rng.choice([0, 1, 2, 3, 5, 8, 12, 14]) if big is None else big.get('nsec', 3)
    nseg = rng.choice([0, 0, 1, 2, 4, 6]) if big is None else big.get('nseg', 1)
    names_pool = [b'.text', b'.data', b'.stab', b'.shstrtab', b'', b'.a', b'x' * 70, '.ünïcödé'.encode('utf-8'),
                  b'.text', b'.debug_info', b'.note.gnu.build-id', b'.strtab']
    secs = []          # dicts: name, type, flags, addr, size, link, info, addralign, entsize, body (bytes or None)
    if nsec > 0:
        secs.append(dict(name=b'', type=0, flags=0, addr=0, size=0, link=0, info=0, addralign=0, entsize=0, body=None))
    # always: one string table for names (the shstrtab) somewhere
    strtab_idx = None
    if nsec > 1:
        strtab_idx = rng.randrange(1, nsec)
    kinds = ['PROGBITS', 'PROGBITS', 'NOTE', 'NOBITS', 'STRTAB', 'SYMTAB', 'DYNSYM', 'REL', 'RELA', 'DYNAMIC', 'SYMTAB_SHNDX',
             'VERNEED', 'VERDEF', 'VERSYM', 'HASH', 'GNU_HASH', 'RELR', 'PROC3', 'PROC1', 'PROC_X', 'UNKNOWN', 'INIT_ARRAY',
             'SUNW_SYMINFO', 'SUNW_LDYNSYM', 'GROUP', 'STAB']
    for i in range(1, nsec):
        if big is not None and i != strtab_idx:
            secs.append(dict(name=b'.b', type=1, flags=0, addr=0, size=0, link=0, info=0, addralign=1, entsize=0, body=None, kind='PROGBITS'))
            continue
        k = 'STRTAB' if i == strtab_idx else rng.choice(kinds)
        name = rng.choice(names_pool)
        if k == 'STAB':
            k, name = 'PROGBITS', b'.stab'
        elif name == b'.stab' and k == 'PROGBITS' and rng.random() < 0.5:
            name = b'.stabx'
        s = dict(name=name, type=SHT.get(k, 1), flags=X() & ~0x800, addr=X(), size=0, link=W(), info=W(), addralign=X(), entsize=X(),
                 body=rnd_bytes(rng, rng.choice([0, 1, 7, 16, 40])), kind=k)
        secs.append(s)
    # fix up links / entsizes / bodies so that the constructors' guards hold (well-formedness)
    def first_of(pred, avoid=None):
        c = [j for j, t in enumerate(secs) if j > 0 and pred(t) and j != avoid]
        return rng.choice(c) if c else None
    for i, s in enumerate(secs):
        if i == 0:
            continue
        k = s['kind']
        if k in ('SYMTAB', 'DYNSYM', 'SUNW_LDYNSYM', 'VERNEED', 'VERDEF', 'DYNAMIC'):
            j = first_of(lambda t: t['kind'] == 'STRTAB')
            if j is None:
                s['kind'], s['type'] = 'PROGBITS', 1
            else:
                s['link'] = j
        k = s['kind']
        if k in ('SYMTAB', 'DYNSYM', 'SUNW_LDYNSYM'):
            s['entsize'] = rng.choice([symsz, symsz, symsz + 8, 1])
            n = rng.choice([0, 1, 3])
            s['body'] = rnd_bytes(rng, n * s['entsize'])
        if k in ('REL', 'RELA'):
            s['entsize'] = (2 * w if k == 'REL' else 3 * w)
            s['body'] = rnd_bytes(rng, rng.choice([0, 1, 2]) * s['entsize'])
        if k == 'RELR':
            s['entsize'] = w
            s['body'] = rnd_bytes(rng, rng.choice([0, 1, 3]) * w)
    for i, s in enumerate(secs):
        if i == 0:
            continue
        k = s['kind']
        if k in ('VERSYM', 'HASH', 'GNU_HASH', 'SUNW_SYMINFO'):
            j = first_of(lambda t: t['kind'] in ('SYMTAB', 'DYNSYM'))
            if j is None:
                s['kind'], s['type'] = 'PROGBITS', 1
            else:
                s['link'] = j
        k = s['kind']
        pk = ('<' if le else '>')
        import struct as _st
        if k == 'HASH':
            nb, nc = rng.choice([0, 1, 3]), rng.choice([0, 1, 4])
            s['body'] = _st.pack(pk + 'II', nb, nc) + rnd_bytes(rng, 4 * (nb + nc)) + rnd_bytes(rng, rng.choice([0, 3]))
        if k == 'GNU_HASH':
            nb, bl = rng.choice([0, 1, 3]), rng.choice([0, 1, 2])
            s['body'] = _st.pack(pk + 'IIII', nb, rng.randrange(5), bl, rng.randrange(32)) + rnd_bytes(rng, w * bl + 4 * nb + 4 * rng.randrange(3))
        if k == 'PROC3' and mclass in ('EM_ARM', 'EM_RISCV'):
            s['body'] = b'A' + rnd_bytes(rng, rng.choice([0, 5, 20]))
        if k == 'PROC1' and mclass == 'EM_ARM':
            s['link'] = rng.randrange(0, max(1, nsec))
    # the shstrtab body: names at offsets (shared suffixes now and then)
    tab = bytearray(b'\0')
    name_off = {}
    order = list(range(len(secs)))
    rng.shuffle(order)
    for i in order:
        nm = secs[i]['name']
        if nm in name_off and rng.random() < 0.7:
            continue
        if nm == b'':
            name_off[nm] = rng.choice([0, len(tab) - 1]) if len(tab) > 0 else 0
            continue
        name_off[nm] = len(tab)
        tab += nm + b'\0'
    if strtab_idx is not None:
        secs[strtab_idx]['body'] = bytes(tab) + rnd_bytes(rng, rng.choice([0, 0, 3]))
        secs[strtab_idx]['flags'] &= ~0x800
    shstrndx = strtab_idx if strtab_idx is not None else 0
    # sizes
    for s in secs[1:]:
        if s['kind'] == 'NOBITS':
            s['size'] = X()
            s['body'] = None
        else:
            s['size'] = len(s['body'] or b'')
    # segments
    PT = [0, 1, 1, 2, 3, 4, 6, 7, 0x6474e550, 0x6474e551, 0x70000000, 0x70000001, 0x70000003, 0x12345, 0x6ffffffa]
    segs = []
    for _ in range(nseg):
        t = rng.choice(PT) if big is None else 1
        segs.append(dict(p_type=t, p_offset=X(), p_vaddr=X(), p_paddr=X(), p_filesz=X(), p_memsz=X(), p_flags=W(), p_align=X()))
    # escapes
    xShnum = nsec > 0 and (rng.random() < 0.15 or nsec >= 0xff00)
    xShstr = nsec > 0 and (rng.random() < 0.15 or shstrndx >= 0xff00)
    xPh = nsec > 0 and (rng.random() < 0.15 or nseg >= 0xffff)
    if nsec > 0:
        if xShnum: secs[0]['size'] = nsec
        elif rng.random() < 0.3: secs[0]['size'] = X()
        if xShstr: secs[0]['link'] = shstrndx
        elif rng.random() < 0.3: secs[0]['link'] = W()
        if xPh: secs[0]['info'] = nseg
        elif rng.random() < 0.3: secs[0]['info'] = W()
    # layout: ehdr at 0, the rest in random order with random gaps
    shentsize = shsz + rng.choice([0, 0, 0, 8, 24])
    phentsize = phsz + rng.choice([0, 0, 0, 8, 24])
    ehsize = 52 if cls == 32 else 64
    regions = ['sh', 'ph'] + [('body', i) for i, s in enumerate(secs) if s.get('body')]
    rng.shuffle(regions)
    pos = ehsize + rng.choice([0, 0, 4, 12])
    shoff = phoff = 0
    for r in regions:
        pos += rng.choice([0, 0, 0, 1, 3, 8, 17])
        if r == 'sh':
            shoff = pos
            pos += shentsize * len(secs)
        elif r == 'ph':
            phoff = pos
            pos += phentsize * len(segs)
        else:
            secs[r[1]]['offset'] = pos
            pos += len(secs[r[1]]['body'])
    if shoff == 0: shoff = pos
    for s in secs:
        s.setdefault('offset', 0 if s is secs[0] else rnd_uint(rng, wbits))
    ast = {
        'cls': cls, 'le': le, 'mclass': mclass, 'solaris': solaris, 'core': core,
        'ehdr': R(EI_VERSION=rng.choice([1, 1, 0, 7]), EI_OSABI=osabi, EI_ABIVERSION=rng.randrange(256), e_type=e_type,
                  e_machine=e_machine, e_version=rng.choice([1, 1, 0, 0xffffffff]), e_entry=X(), e_flags=W(), e_ehsize=rng.choice([ehsize, 0, 0xffff])),
        'shoff': shoff, 'phoff': phoff, 'shentsize': shentsize, 'phentsize': phentsize,
        'sections': [{'name': hx(s['name']), 'nameOff': name_off.get(s['name'], 0),
                      'hdr': R(sh_type=s['type'], sh_flags=s['flags'], sh_addr=s['addr'], sh_offset=s['offset'], sh_size=s['size'],
                               sh_link=s['link'], sh_info=s['info'], sh_addralign=s['addralign'], sh_entsize=s['entsize']),
                      'body': hx(s['body']) if s.get('body') else None} for s in secs],
        'segments': [R(**({'p_type': p['p_type'], 'p_offset': p['p_offset'], 'p_vaddr': p['p_vaddr'], 'p_paddr': p['p_paddr'],
                           'p_filesz': p['p_filesz'] % (1 << wbits), 'p_memsz': p['p_memsz'], 'p_flags': p['p_flags'], 'p_align': p['p_align']}
                          if cls == 32 else
                          {'p_type': p['p_type'], 'p_flags': p['p_flags'], 'p_offset': p['p_offset'], 'p_vaddr': p['p_vaddr'], 'p_paddr': p['p_paddr'],
                           'p_filesz': p['p_filesz'], 'p_memsz': p['p_memsz'], 'p_align': p['p_align']})) for p in segs],
        'shstrndx': shstrndx, 'xShnum': bool(xShnum), 'xShstrndx': bool(xShstr), 'xPhnum': bool(xPh),
    }
    queries = sorted({s['name'] for s in secs} | {b'.nonexistent', b'.tex', b'.textx'})
    has_dyn_seg = any(p['p_type'] == 2 for p in segs)
    return ast, [hx(q) for q in queries], {'nsec': len(secs), 'nseg': len(segs), 'mclass': mclass, 'dynseg': has_dyn_seg}


def impl_observe(data, queries):
    from elftools.elf.elffile import ELFFile
    f = ELFFile(io.BytesIO(data))
    secs = []
    for i in range(f.num_sections()):
        s = f.get_section(i)
        secs.append([type(s).__name__, {'b': s.name.encode('utf-8').hex()}, canon(s.header)])
    # iter_sections must agree with indexed access
    it = [[type(s).__name__, {'b': s.name.encode('utf-8').hex()}, canon(s.header)] for s in f.iter_sections()]
    if it != secs:
        raise AssertionError('iter_sections disagrees with get_section')
    segs = [[type(s).__name__, canon(s.header)] for s in f.iter_segments()]
    if f.num_segments() != len(segs):
        raise AssertionError('num_segments disagrees with iter_segments')
    look = []
    for q in queries:
        name = bytes.fromhex(q).decode('utf-8')
        idx = f.get_section_index(name)
        sec = f.get_section_by_name(name)
        if (sec is None) != (idx is None) or f.has_section(name) != (idx is not None):
            raise AssertionError('lookup functions disagree')
        if sec is not None and (sec.name != name or canon(sec.header) != secs[idx][2]):
            raise AssertionError('get_section_by_name returned a different section')
        look.append(idx)
    return {'elfclass': f.elfclass, 'little_endian': f.little_endian, 'header': canon(f.header), 'sections': secs,
            'segments': segs, 'lookup': look}


def run_ast(ctx):
    rng = ctx.rng('ast')
    n = ctx.budget(700, 12000)
    cases = [gen_desc(rng) for _ in range(n)]
    reqs = [{'p': 'C01', 'k': 'ast', 'ast': a, 'queries': q, 'tail': rng.choice([0, 0, 5])} for a, q, _ in cases]
    if ctx.tier == 'thorough':
        # real extended numbering: ≥ 0xff00 sections / ≥ 0xffff segments (model skipped: List-based reads are quadratic)
        for big in ({'nsec': 0xff00, 'nseg': 1}, {'nsec': 0xff01, 'nseg': 2}, {'nsec': 3, 'nseg': 0xffff}, {'nsec': 0x10005, 'nseg': 0x10001}):
            a, q, meta = gen_desc(rng, big)
            cases.append((a, q, meta))
            reqs.append({'p': 'C01', 'k': 'ast', 'ast': a, 'queries': q[:3], 'tail': 0, 'nomodel': True})
    replies = ctx.driver.ask_many(reqs)
    for (a, q, meta), rq, r in zip(cases, reqs, replies):
        if 'fatal' in r:
            raise RuntimeError('driver: %s' % r['fatal'])
        if not r.get('wf'):
            ctx.out.count('ast:not-wf')
            continue
        data = bytes.fromhex(r['bytes'])
        impl = run_impl(lambda: impl_observe(data, rq['queries']))
        ctx.out.count('ast:nsec=%d' % min(meta['nsec'], 15))
        ctx.out.count('ast:mclass=' + meta['mclass'])
        case = {'ast': a, 'queries': rq['queries'], 'tail': rq['tail']}
        ctx.out.case({'bytes_sha': hx(data[:64]), 'n': len(data), 'nsec': meta['nsec']}, nontrivial=meta['nsec'] + meta['nseg'] > 0)
        if len(ctx.out.samples) <= 3 and len(r['bytes']) < 3000:
            ctx.out.samples[-1] = {'ast': a}
        if impl != r['expect']:
            ctx.out.violation('property', 'ast', case, expect=r['expect'], got=impl, model=r.get('model'))
        elif r.get('model') is not None and impl != r['model']:
            ctx.out.violation('correspondence', 'ast', case, got=impl, model=r['model'])
    return [(rq, r) for rq, r in zip(reqs, replies) if r.get('wf') and len(r['bytes']) < 20000]


def run_raw(ctx, seeds):
    rng = ctx.rng('raw')
    n = ctx.budget(600, 10000)
    reqs = []
    for _ in range(n):
        rq, r = rng.choice(seeds)
        data = bytearray(bytes.fromhex(r['bytes']))
        a = rq['ast']
        ehsize = 52 if a['cls'] == 32 else 64
        mode = rng.choice(['trunc', 'sub', 'sub', 'sub2'])
        if mode == 'trunc':
            cut = rng.choice([rng.randrange(0, len(data) + 1), a['shoff'], a['shoff'] + 1, a['phoff'], ehsize, ehsize - 1, 16, 5, 4])
            data = data[:max(0, min(cut, len(data)))]
        else:
            for _ in range(1 if mode == 'sub' else 3):
                region = rng.choice(['eh', 'sh', 'ph'])
                if region == 'eh' or not len(data):
                    pos = rng.randrange(0, min(ehsize, max(1, len(data))))
                elif region == 'sh':
                    pos = a['shoff'] + rng.randrange(0, max(1, a['shentsize'] * max(1, len(a['sections']))))
                else:
                    pos = a['phoff'] + rng.randrange(0, max(1, a['phentsize'] * max(1, len(a['segments']))))
                if pos < len(data):
                    data[pos] = rng.choice([0, 0xff, (data[pos] + 1) & 0xff, data[pos] ^ 0x80, rng.randrange(256)])
        if _too_many(bytes(data)):
            ctx.out.count('raw:skipped-huge-count')      # corrupt counts: C19's subject, too slow to enumerate here
            continue
        reqs.append({'p': 'C01', 'k': 'raw', 'hex': hx(data)})
    replies = ctx.driver.ask_many(reqs)
    for rq, r in zip(reqs, replies):
        if 'fatal' in r:
            raise RuntimeError('driver: %s' % r['fatal'])
        data = bytes.fromhex(rq['hex'])
        impl = run_impl(lambda: impl_observe(data, []))
        m = r['model']
        ctx.out.count('raw:' + ('ok' if 'ok' in impl else impl['err']))
        ctx.out.case({'raw_sha': hx(data[:48]), 'n': len(data)})
        if impl != m:
            # names that are not valid UTF-8 are outside the model (decode with errors=replace)
            if 'err' in impl and impl['err'] == 'unicodeError':
                ctx.out.count('raw:skipped-non-utf8')
                continue
            if 'ok' in impl and 'ok' in m and _only_names_differ(impl['ok'], m['ok']):
                ctx.out.count('raw:skipped-non-utf8')
                continue
            ctx.out.violation('correspondence', 'raw', {'hex': rq['hex']}, got=impl, model=m)


def _too_many(data, cap=2000):
    from elftools.elf.elffile import ELFFile
    try:
        f = ELFFile(io.BytesIO(data))
        if f.num_sections() > cap:
            return True
        if f['e_phnum'] >= 0xffff:
            return f._get_section_header(0)['sh_info'] > cap
        return False
    except Exception:
        return False


def _only_names_differ(a, b):
    """True when the two observations agree except for section names containing U+FFFD (invalid UTF-8 in the file)."""
    try:
        if {k: v for k, v in a.items() if k != 'sections'} != {k: v for k, v in b.items() if k != 'sections'}:
            return False
        if len(a['sections']) != len(b['sections']):
            return False
        repl = '�'.encode('utf-8').hex()
        diff = False
        for x, y in zip(a['sections'], b['sections']):
            if x[2] != y[2]:
                return False
            if x[1] != y[1] or x[0] != y[0]:
                if repl not in x[1]['b']:
                    return False
                diff = True
        return diff
    except Exception:
        return False


def run(ctx):
    seeds = run_ast(ctx)
    if seeds:
        run_raw(ctx, seeds)


def replay(ctx, payload):
    v = payload['violation']
    case = v['case']
    if v['stream'] == 'ast':
        r = ctx.driver.ask({'p': 'C01', 'k': 'ast', 'ast': case['ast'], 'queries': case['queries'], 'tail': case.get('tail', 0)})
        data = bytes.fromhex(r['bytes'])
        impl = run_impl(lambda: impl_observe(data, case['queries']))
        return {'stream': 'ast', 'bytes': r['bytes'], 'impl': impl, 'expect': r['expect'], 'model': r['model'],
                'fails': impl != r['expect'] or impl != r['model']}
    data = bytes.fromhex(case['hex'])
    impl = run_impl(lambda: impl_observe(data, []))
    r = ctx.driver.ask({'p': 'C01', 'k': 'raw', 'hex': case['hex']})
    return {'stream': 'raw', 'impl': impl, 'model': r['model'], 'fails': impl != r['model']}


FINDINGS = {}
