"""C01 — ELF file, section and program headers are decoded exactly as encoded.

Streams
  ast   : random abstract ELF descriptions (class × byte order × machine class × OS ABI × core, tables placed
          anywhere, padded entry sizes, extended-numbering escapes, named and unnamed codes, every section kind,
          SHF_COMPRESSED sections with a compression header of the file's class and byte order)
          → bytes by the Lean assembler (Spec.ElfDesc.assemble) → real `ELFFile`; compared with the Spec's
          observation (property, inside wfZ) and with the Lean model of elffile.py run on the same bytes
          (correspondence, inside and outside wfZ)
  raw   : mutated images (truncations, byte substitutions in the header tables) → model vs real, errors included
  big   : REAL extended numbering on every run: one image with ≥ 0xff00 sections (or the largest table without
          escape), one with ≥ 0xffff segments, one with ≥ 0xffff segments in the shape of a Linux core dump (one null
          section header, e_shstrndx = SHN_UNDEF: no name table; inside wfZ, and `extnum_only`), run-length encoded on the
          wire; one enumeration of each table against the Spec, counts and indexed access at spot indices against
          the model as well
"""
import io, zlib
import struct as _st
from common import run_impl, canon, hx, rnd_uint, rnd_bytes

RULE = ('ast: ElfDesc drawn type-directed: cls∈{32,64} × LSB/MSB × 8 machine classes (+unnamed codes) × Solaris/other × core/other; '
        '0..14 sections over every section kind with valid links, 0..6 segments, random region order/gaps, entry sizes padded by 0/8/24, '
        'escapes forced on small tables; SHF_COMPRESSED on 0/15/40 % of the sections of a file (Chdr + payload, Chdr alone, or fewer bytes '
        'than a Chdr = outside wfZ), the name table included; 5 % files without a name table (e_shstrndx = SHN_UNDEF: every section nameless, '
        'sh_name arbitrary); 6 % files with names that are not '
        'valid UTF-8 (model only); integers from boundary pools. '
        'big: ≥0xff00 sections / ≥0xffff segments at and around the escape boundaries, both classes and byte orders (quick: 3 images — many sections, many segments, many segments in the shape of a Linux core dump without name table —, thorough: 9 '
        'plus 4 fully enumerated with lookups). raw: truncation at table boundaries and single-byte substitutions of header-table bytes. '
        'Non-trivial = distinct image with ≥1 section or segment.')
ASSUMPTIONS = ['io.BytesIO semantics',
               'property comparison: section names are valid UTF-8 (the theorems treat names as bytes; the library\'s str API decodes with U+FFFD '
               'replacement — modelled in Model/Utf8.lean, validated against CPython on every run, and applied by the driver, so the correspondence '
               'covers every name)']

CLASS_MACHINES = {
    'EM_SPARC': ['EM_SPARC', 'EM_386', 'EM_68K', 'EM_S390', 'EM_SH', 'EM_CRIS', 'EM_M32R', 'EM_MN10300'],
    'EM_MIPS': ['EM_MIPS'], 'EM_MIPS_RS3_LE': ['EM_MIPS_RS3_LE'], 'EM_ARM': ['EM_ARM'], 'EM_X86_64': ['EM_X86_64'],
    'EM_AARCH64': ['EM_AARCH64'], 'EM_RISCV': ['EM_RISCV'],
}
SPECIAL = set(sum(CLASS_MACHINES.values(), []))

SHT = dict(NULL=0, PROGBITS=1, SYMTAB=2, STRTAB=3, RELA=4, HASH=5, DYNAMIC=6, NOTE=7, NOBITS=8, REL=9, DYNSYM=11,
           INIT_ARRAY=14, GROUP=17, SYMTAB_SHNDX=18, RELR=19, GNU_HASH=0x6ffffff6, VERDEF=0x6ffffffd, VERNEED=0x6ffffffe,
           VERSYM=0x6fffffff, SUNW_SYMINFO=0x6ffffffc, SUNW_LDYNSYM=0x6ffffff3, PROC3=0x70000003, PROC1=0x70000001,
           PROC_X=0x70000005, UNKNOWN=0x12345678)


def R(**kw):
    return {'r': [[k, v] for k, v in kw.items()]}


def machine_choices():
    from elftools.elf.enums import ENUM_E_MACHINE
    return {k: v for k, v in ENUM_E_MACHINE.items() if k != '_default_'}


def gen_desc(rng, big=None):
    M = machine_choices()
    cls = rng.choice([32, 64])
    le = rng.random() < 0.5
    mclass = rng.choice(['default', 'default'] + list(CLASS_MACHINES))
    if mclass == 'default':
        if rng.random() < 0.3:
            e_machine = rng.choice([0xfe01, 0x9999, 0xffff, 0xabc])
            while e_machine in M.values():
                e_machine += 1
        else:
            e_machine = M[rng.choice([k for k in M if k not in SPECIAL])]
    else:
        e_machine = M[rng.choice(CLASS_MACHINES[mclass])]
    solaris = rng.random() < 0.15
    core = rng.random() < 0.15
    osabi = 6 if solaris else rng.choice([0, 0, 3, 9, 64, 97, 255, 200])
    e_type = 4 if core else rng.choice([0, 1, 2, 3, 0xfe00, 0xff00, 0xffff, 7])
    w = cls // 8
    shsz = 40 if cls == 32 else 64
    phsz = 32 if cls == 32 else 56
    symsz = 16 if cls == 32 else 24
    wbits = cls
    pk = '<' if le else '>'

    def X():     # xword-sized random
        return rnd_uint(rng, wbits)

    def W():
        return rnd_uint(rng, 32)

    nsec = rng.choice([0, 2, 2, 3, 5, 8, 12, 14]) if big is None else big.get('nsec', 3)
    # a file with sections and NO section-name string table (gABI: e_shstrndx = SHN_UNDEF): every section nameless,
    # whatever its sh_name says (half of these files carry arbitrary sh_name values)
    nonames = big is None and nsec > 0 and rng.random() < 0.05
    nonames_junk = nonames and rng.random() < 0.5
    if nonames and rng.random() < 0.3:
        nsec = 1
    nseg = rng.choice([0, 0, 1, 2, 4, 6]) if big is None else big.get('nseg', 1)
    names_pool = [b'.text', b'.data', b'.stab', b'.shstrtab', b'', b'.a', b'x' * 70, '.ünïcödé'.encode('utf-8'),
                  b'.text', b'.debug_info', b'.note.gnu.build-id', b'.strtab']
    # names that are not valid UTF-8 (the library reports them decoded with U+FFFD replacement): outside the property
    # comparison (ASSUMPTIONS), inside the correspondence (the driver decodes the model's names, Model/Utf8.lean)
    badnames = big is None and rng.random() < 0.06
    if badnames:
        names_pool = names_pool[:6] + [b'.bad\xff', b'.bad\xfe', b'.bad\xef\xbf\xbd', b'\xc3', b'.x\xed\xa0\x80', b'.t\xe2\x82', b'.stab\x80',
                                       b'\xf0\x9f\x98\x80\xf0\x9f\x98']
    secs = []          # dicts: name, type, flags, addr, size, link, info, addralign, entsize, body (bytes or None)
    if nsec > 0:
        secs.append(dict(name=b'', type=0, flags=0, addr=0, size=0, link=0, info=0, addralign=0, entsize=0, body=None))
    # always: one string table for names (the shstrtab) somewhere
    strtab_idx = None
    if nsec > 1 and not nonames:
        strtab_idx = rng.randrange(1, nsec)
    kinds = ['PROGBITS', 'PROGBITS', 'NOTE', 'NOBITS', 'STRTAB', 'SYMTAB', 'DYNSYM', 'REL', 'RELA', 'DYNAMIC', 'SYMTAB_SHNDX',
             'VERNEED', 'VERDEF', 'VERSYM', 'HASH', 'GNU_HASH', 'RELR', 'PROC3', 'PROC1', 'PROC_X', 'UNKNOWN', 'INIT_ARRAY',
             'SUNW_SYMINFO', 'SUNW_LDYNSYM', 'GROUP', 'STAB']
    for i in range(1, nsec):
        if big is not None and i != strtab_idx:
            secs.append(dict(name=b'.b', type=1, flags=0, addr=0, size=0, link=0, info=0, addralign=1, entsize=0, body=None, kind='PROGBITS'))
            continue
        k = 'STRTAB' if i == strtab_idx else rng.choice(kinds)
        name = rng.choice(names_pool)
        if nonames:
            name = b''
            if k == 'STAB':
                k = 'PROGBITS'
        elif k == 'STAB':
            k, name = 'PROGBITS', b'.stab'
        elif name == b'.stab' and k == 'PROGBITS' and rng.random() < 0.5:
            name = b'.stabx'
        s = dict(name=name, type=SHT.get(k, 1), flags=X() & ~0x800, addr=X(), size=0, link=W(), info=W(), addralign=X(), entsize=X(),
                 body=rnd_bytes(rng, rng.choice([0, 1, 7, 16, 40])), kind=k)
        secs.append(s)
    # fix up links / entsizes / bodies so that the constructors' guards hold (well-formedness)
    def first_of(pred, avoid=None):
        c = [j for j, t in enumerate(secs) if j > 0 and pred(t) and j != avoid]
        return rng.choice(c) if c else None
    for i, s in enumerate(secs):
        if i == 0:
            continue
        k = s['kind']
        if k in ('SYMTAB', 'DYNSYM', 'SUNW_LDYNSYM', 'VERNEED', 'VERDEF', 'DYNAMIC'):
            j = first_of(lambda t: t['kind'] == 'STRTAB')
            if j is None:
                s['kind'], s['type'] = 'PROGBITS', 1
            else:
                s['link'] = j
        k = s['kind']
        if k in ('SYMTAB', 'DYNSYM', 'SUNW_LDYNSYM'):
            s['entsize'] = rng.choice([symsz, symsz, symsz + 8, 1])
            n = rng.choice([0, 1, 3])
            s['body'] = rnd_bytes(rng, n * s['entsize'])
        if k in ('REL', 'RELA'):
            s['entsize'] = (2 * w if k == 'REL' else 3 * w)
            s['body'] = rnd_bytes(rng, rng.choice([0, 1, 2]) * s['entsize'])
        if k == 'RELR':
            s['entsize'] = w
            s['body'] = rnd_bytes(rng, rng.choice([0, 1, 3]) * w)
    for i, s in enumerate(secs):
        if i == 0:
            continue
        k = s['kind']
        if k in ('VERSYM', 'HASH', 'GNU_HASH', 'SUNW_SYMINFO'):
            j = first_of(lambda t: t['kind'] in ('SYMTAB', 'DYNSYM'))
            if j is None:
                s['kind'], s['type'] = 'PROGBITS', 1
            else:
                s['link'] = j
        k = s['kind']
        if k == 'HASH':
            nb, nc = rng.choice([0, 1, 3]), rng.choice([0, 1, 4])
            s['body'] = _st.pack(pk + 'II', nb, nc) + rnd_bytes(rng, 4 * (nb + nc)) + rnd_bytes(rng, rng.choice([0, 3]))
        if k == 'GNU_HASH':
            nb, bl = rng.choice([0, 1, 3]), rng.choice([0, 1, 2])
            s['body'] = _st.pack(pk + 'IIII', nb, rng.randrange(5), bl, rng.randrange(32)) + rnd_bytes(rng, w * bl + 4 * nb + 4 * rng.randrange(3))
        if k == 'PROC3' and mclass in ('EM_ARM', 'EM_RISCV'):
            s['body'] = b'A' + rnd_bytes(rng, rng.choice([0, 5, 20]))
        if k == 'PROC1' and mclass == 'EM_ARM':
            s['link'] = rng.randrange(0, max(1, nsec))
    # SHF_COMPRESSED sections (gABI "Section compression"): the body begins with an Elf32_Chdr / Elf64_Chdr of the
    # file's class and byte order.  'ok': header + payload, 'exact': the header alone, 'short': fewer bytes than a
    # header (outside wfZ: set aside for the property, still compared with the model)
    def chdr():
        ch_type = rng.choice([1, 1, 1, 2, 0, 3, 0x60000000, 0x6fffffff, 0x70000001, rnd_uint(rng, 32)])
        if cls == 32:
            return _st.pack(pk + 'III', ch_type, W(), W())
        return _st.pack(pk + 'IIQQ', ch_type, W(), X(), X())
    zmode = {}
    zp = rng.choice([0.0, 0.0, 0.15, 0.4]) if big is None else 0.0
    for i, s in enumerate(secs):
        if i == 0 or s['kind'] == 'NOBITS' and rng.random() < 0.9:
            continue
        onsight = s['kind'] in ('HASH', 'GNU_HASH') or (s['kind'] == 'PROC3' and mclass in ('EM_ARM', 'EM_RISCV'))
        if rng.random() >= (zp * 0.2 if onsight else zp):
            continue
        s['flags'] |= 0x800
        if i == strtab_idx:
            zmode[i] = 'ok'               # its body is built below: header, then the names
            continue
        zmode[i] = rng.choice(['ok', 'ok', 'ok', 'ok', 'exact', 'short'])
        hd = chdr()
        if zmode[i] == 'ok':
            pay = zlib.compress(rnd_bytes(rng, rng.choice([0, 5, 40]))) if rng.random() < 0.5 else rnd_bytes(rng, rng.choice([1, 9, 30]))
            body = hd + pay
            es = s['entsize']
            if s['kind'] in ('SYMTAB', 'DYNSYM', 'SUNW_LDYNSYM') and es > 0 and len(body) % es:
                body += bytes(es - len(body) % es)
        elif zmode[i] == 'exact':
            body = hd
        else:
            body = hd[:rng.randrange(0, len(hd))]
        if s['kind'] == 'NOBITS' and body:
            s['kind'], s['type'] = 'PROGBITS', 1        # a NOBITS section has no body to hold the header
        s['body'] = body
    # the shstrtab body: names at offsets (shared suffixes now and then); after a compression header if flagged
    ztab = chdr() if strtab_idx in zmode else b''
    tab = bytearray(ztab + b'\0')
    name_off = {}
    order = list(range(len(secs)))
    rng.shuffle(order)
    for i in order:
        nm = secs[i]['name']
        if nm in name_off and rng.random() < 0.7:
            continue
        if nm == b'':
            name_off[nm] = rng.choice([len(ztab), len(tab) - 1])
            continue
        name_off[nm] = len(tab)
        tab += nm + b'\0'
    if strtab_idx is not None:
        secs[strtab_idx]['body'] = bytes(tab) + rnd_bytes(rng, rng.choice([0, 0, 3]))
    shstrndx = strtab_idx if strtab_idx is not None else 0
    # sizes
    for s in secs[1:]:
        if s['kind'] == 'NOBITS':
            s['size'] = X()
            s['body'] = None
        else:
            s['size'] = len(s['body'] or b'')
    # segments
    PT = [0, 1, 1, 2, 3, 4, 6, 7, 0x6474e550, 0x6474e551, 0x70000000, 0x70000001, 0x70000003, 0x12345, 0x6ffffffa]
    segs = []
    for _ in range(nseg):
        t = rng.choice(PT) if big is None else 1
        segs.append(dict(p_type=t, p_offset=X(), p_vaddr=X(), p_paddr=X(), p_filesz=X(), p_memsz=X(), p_flags=W(), p_align=X()))
    # escapes
    xShnum = nsec > 0 and (rng.random() < 0.15 or nsec >= 0xff00)
    xShstr = nsec > 0 and (rng.random() < 0.15 or shstrndx >= 0xff00)      # without a name table: SHN_XINDEX and sh_link[0] = SHN_UNDEF
    xPh = nsec > 0 and (rng.random() < 0.15 or nseg >= 0xffff)
    if nsec > 0:
        if xShnum: secs[0]['size'] = nsec
        elif rng.random() < 0.3: secs[0]['size'] = X()
        if xShstr: secs[0]['link'] = shstrndx
        elif rng.random() < 0.3: secs[0]['link'] = W()
        if xPh: secs[0]['info'] = nseg
        elif rng.random() < 0.3: secs[0]['info'] = W()
    # layout: ehdr at 0, the rest in random order with random gaps
    shentsize = shsz + rng.choice([0, 0, 0, 8, 24])
    phentsize = phsz + rng.choice([0, 0, 0, 8, 24])
    ehsize = 52 if cls == 32 else 64
    regions = ['sh', 'ph'] + [('body', i) for i, s in enumerate(secs) if s.get('body')]
    rng.shuffle(regions)
    pos = ehsize + rng.choice([0, 0, 4, 12])
    shoff = phoff = 0
    for r in regions:
        pos += rng.choice([0, 0, 0, 1, 3, 8, 17])
        if r == 'sh':
            shoff = pos
            pos += shentsize * len(secs)
        elif r == 'ph':
            phoff = pos
            pos += phentsize * len(segs)
        else:
            secs[r[1]]['offset'] = pos
            pos += len(secs[r[1]]['body'])
    if shoff == 0: shoff = pos
    for s in secs:
        s.setdefault('offset', 0 if s is secs[0] else rnd_uint(rng, wbits))
    ast = {
        'cls': cls, 'le': le, 'mclass': mclass, 'solaris': solaris, 'core': core,
        'ehdr': R(EI_VERSION=rng.choice([1, 1, 0, 7]), EI_OSABI=osabi, EI_ABIVERSION=rng.randrange(256), e_type=e_type,
                  e_machine=e_machine, e_version=rng.choice([1, 1, 0, 0xffffffff]), e_entry=X(), e_flags=W(), e_ehsize=rng.choice([ehsize, 0, 0xffff])),
        'shoff': shoff, 'phoff': phoff, 'shentsize': shentsize, 'phentsize': phentsize,
        'sections': [{'name': hx(s['name']), 'nameOff': rnd_uint(rng, 32) if nonames_junk else name_off.get(s['name'], 0),
                      'hdr': R(sh_type=s['type'], sh_flags=s['flags'], sh_addr=s['addr'], sh_offset=s['offset'], sh_size=s['size'],
                               sh_link=s['link'], sh_info=s['info'], sh_addralign=s['addralign'], sh_entsize=s['entsize']),
                      'body': hx(s['body']) if s.get('body') else None} for s in secs],
        'segments': [R(**({'p_type': p['p_type'], 'p_offset': p['p_offset'], 'p_vaddr': p['p_vaddr'], 'p_paddr': p['p_paddr'],
                           'p_filesz': p['p_filesz'] % (1 << wbits), 'p_memsz': p['p_memsz'], 'p_flags': p['p_flags'], 'p_align': p['p_align']}
                          if cls == 32 else
                          {'p_type': p['p_type'], 'p_flags': p['p_flags'], 'p_offset': p['p_offset'], 'p_vaddr': p['p_vaddr'], 'p_paddr': p['p_paddr'],
                           'p_filesz': p['p_filesz'], 'p_memsz': p['p_memsz'], 'p_align': p['p_align']})) for p in segs],
        'shstrndx': shstrndx, 'xShnum': bool(xShnum), 'xShstrndx': bool(xShstr), 'xPhnum': bool(xPh),
    }
    # queries are `str` for the library: every name as the library reports it (decoded with replacement, re-encoded)
    queries = sorted({s['name'].decode('utf-8', errors='replace').encode('utf-8') for s in secs} | {b'.nonexistent', b'.tex', b'.textx'})
    has_dyn_seg = any(p['p_type'] == 2 for p in segs)
    zkind = 'none' if not zmode else ('short' if 'short' in zmode.values() else 'full')
    return ast, [hx(q) for q in queries], {'nsec': len(secs), 'nseg': len(segs), 'mclass': mclass, 'dynseg': has_dyn_seg,
                                           'z': zkind, 'nz': len(zmode), 'ztab': strtab_idx in zmode, 'nonames': nonames,
                                           'badnames': any(s['name'].decode('utf-8', errors='replace').encode('utf-8') != s['name'] for s in secs)}


def impl_observe(data, queries):
    from elftools.elf.elffile import ELFFile
    f = ELFFile(io.BytesIO(data))
    secs = []
    for i in range(f.num_sections()):
        s = f.get_section(i)
        secs.append([type(s).__name__, {'b': s.name.encode('utf-8').hex()}, canon(s.header)])
    # iter_sections must agree with indexed access
    it = [[type(s).__name__, {'b': s.name.encode('utf-8').hex()}, canon(s.header)] for s in f.iter_sections()]
    if it != secs:
        raise AssertionError('iter_sections disagrees with get_section')
    segs = [[type(s).__name__, canon(s.header)] for s in f.iter_segments()]
    if f.num_segments() != len(segs):
        raise AssertionError('num_segments disagrees with iter_segments')
    # the type filter of both enumerations yields exactly the entries whose reported type EQUALS the filter — for every
    # type the file reports (names and raw codes), for names that are substrings of other names, and for absent ones
    # (a seeded `in` for `==` made 'SHT_REL' also select SHT_RELA sections and raise on unnamed codes)
    allsec = list(f.iter_sections())
    stypes = []
    for s in allsec:
        if s['sh_type'] not in stypes:
            stypes.append(s['sh_type'])
    # (the documented filter is a type NAME: raw codes are reported by the file but not passed as a filter)
    for t in [x for x in stypes if isinstance(x, str)] + [x for x in ('SHT_REL', 'SHT_SYMTAB', 'SHT_NO') if x not in stypes]:
        want = [[s.name, canon(s.header)] for s in allsec if s['sh_type'] == t]
        got = [[s.name, canon(s.header)] for s in f.iter_sections(type=t)]
        if got != want:
            raise AssertionError('iter_sections(type=%r) yields %d sections, %d have that type' % (t, len(got), len(want)))
    allseg = list(f.iter_segments())
    ptypes = []
    for g in allseg:
        if g['p_type'] not in ptypes:
            ptypes.append(g['p_type'])
    for t in [x for x in ptypes if isinstance(x, str)] + [x for x in ('PT_LOAD', 'PT_NO') if x not in ptypes]:
        want = [canon(g.header) for g in allseg if g['p_type'] == t]
        got = [canon(g.header) for g in f.iter_segments(type=t)]
        if got != want:
            raise AssertionError('iter_segments(type=%r) yields %d segments, %d have that type' % (t, len(got), len(want)))
    # lookups by name, each through its own public function: [get_section_index, has_section, get_section_by_name]
    look = []
    for q in queries:
        name = bytes.fromhex(q).decode('utf-8')
        sec = f.get_section_by_name(name)
        look.append([f.get_section_index(name), f.has_section(name),
                     None if sec is None else [type(sec).__name__, {'b': sec.name.encode('utf-8').hex()}, canon(sec.header)]])
    return {'elfclass': f.elfclass, 'little_endian': f.little_endian, 'header': canon(f.header), 'sections': secs,
            'segments': segs, 'lookup': look}


def run_ast(ctx):
    rng = ctx.rng('ast')
    n = ctx.budget(700, 12000)
    cases = [gen_desc(rng) for _ in range(n)]
    reqs = [{'p': 'C01', 'k': 'ast', 'ast': a, 'queries': q, 'tail': rng.choice([0, 0, 5])} for a, q, _ in cases]
    if ctx.tier == 'thorough':
        # real extended numbering, full enumeration and lookups: ≥ 0xff00 sections / ≥ 0xffff segments (model skipped:
        # List-based reads are quadratic; the quick-tier `big` stream runs the model at spot indices)
        for big in ({'nsec': 0xff00, 'nseg': 1}, {'nsec': 0xff01, 'nseg': 2}, {'nsec': 3, 'nseg': 0xffff}, {'nsec': 0x10005, 'nseg': 0x10001}):
            a, q, meta = gen_desc(rng, big)
            cases.append((a, q, meta))
            reqs.append({'p': 'C01', 'k': 'ast', 'ast': a, 'queries': q[:3], 'tail': 0, 'nomodel': True})
    replies = ctx.driver.ask_many(reqs)
    for (a, q, meta), rq, r in zip(cases, reqs, replies):
        if 'fatal' in r:
            raise RuntimeError('driver: %s' % r['fatal'])
        case = {'ast': a, 'queries': rq['queries'], 'tail': rq['tail']}
        if 'bytes' not in r:
            ctx.out.count('ast:not-encodable')
            continue
        data = bytes.fromhex(r['bytes'])
        if not r.get('wf'):
            # outside the theorems' domain (wfZ): never compared with `expect`; the model mirrors the code on every byte
            # string, so the correspondence still has to hold
            ctx.out.count('ast:not-wf:z=' + meta['z'])
            if r.get('model') is not None and not _too_many(data):
                impl = run_impl(lambda: impl_observe(data, rq['queries']))
                ctx.out.count('ast:not-wf:' + ('ok' if 'ok' in impl else impl['err']))
                ctx.out.case({'bytes_sha': hx(data[:64]), 'n': len(data), 'nsec': meta['nsec'], 'notwf': True}, nontrivial=False)
                if impl != r['model']:
                    ctx.out.violation('correspondence', 'ast', case, got=impl, model=r['model'])
            continue
        if meta['badnames']:
            # inside wfZ, but some name is not valid UTF-8: the theorems hold (names are bytes there); what the `str` API
            # reports is compared with the model only
            ctx.out.count('ast:non-utf8-names')
            impl = run_impl(lambda: impl_observe(data, rq['queries']))
            ctx.out.case({'bytes_sha': hx(data[:64]), 'n': len(data), 'nsec': meta['nsec'], 'badnames': True})
            if r.get('model') is not None and impl != r['model']:
                ctx.out.violation('correspondence', 'ast', case, got=impl, model=r['model'])
            continue
        impl = run_impl(lambda: impl_observe(data, rq['queries']))
        ctx.out.count('ast:nsec=%d' % min(meta['nsec'], 15))
        ctx.out.count('ast:mclass=' + meta['mclass'])
        # wf0: inside `wf` (no SHF_COMPRESSED section, theorems *_exact); otherwise inside wfZ only (theorems *_exact_z)
        ctx.out.count('ast:domain=' + ('wf' if meta['nz'] == 0 else 'wfZ-only'))
        ctx.out.count('ast:compressed-sections=%d' % min(meta['nz'], 4))
        if meta['nonames']:
            # a file without a section-name string table (e_shstrndx = SHN_UNDEF): judged like any other well-formed file
            ctx.out.count('ast:no-name-table')
        if meta['ztab']:
            ctx.out.count('ast:compressed-shstrtab')
        if r.get('wf0') is not None and bool(r['wf0']) != (meta['nz'] == 0):
            raise RuntimeError('wf / wfZ disagree with the generator about SHF_COMPRESSED: %r' % (meta,))
        ctx.out.case({'bytes_sha': hx(data[:64]), 'n': len(data), 'nsec': meta['nsec']}, nontrivial=meta['nsec'] + meta['nseg'] > 0)
        if len(ctx.out.samples) <= 3 and len(r['bytes']) < 3000:
            ctx.out.samples[-1] = {'ast': a}
        if impl != r['expect']:
            ctx.out.violation('property', 'ast', case, expect=r['expect'], got=impl, model=r.get('model'))
        elif r.get('model') is not None and impl != r['model']:
            ctx.out.violation('correspondence', 'ast', case, got=impl, model=r['model'])
    return [(rq, r) for rq, r in zip(reqs, replies) if r.get('wf') and len(r['bytes']) < 20000]


# ---------------------------------------------------------------------------- real extended numbering, every run
def gen_big(rng, which, directed=False):
    """A description with a REAL large table, run-length encoded (long runs of one filler entry, tiny bodies).
    which='sec': ≥ 0xff00 sections (e_shnum = 0 / sh_size[0], and from 0xff02 on the name table index by SHN_XINDEX /
    sh_link[0]) or the largest table that needs no escape; which='seg': ≥ 0xffff segments (PN_XNUM / sh_info[0]) or the
    largest table that needs none; which='core': the same with the sections of a Linux core dump (gen_big_core)."""
    cls = rng.choice([32, 64])
    le = rng.random() < 0.5
    wbits = cls

    def X():
        return rnd_uint(rng, wbits)

    def W():
        return rnd_uint(rng, 32)
    if which == 'sec':
        nsec, nseg = rng.choice([0xff00, 0xff00, 0xff02, 0xff02, 0xfeff, 0xff05, 0x10001]), rng.choice([3, 4])
        if directed:         # the first image of every run: a link into the reserved index range (see `last` below)
            nsec = rng.choice([0xff02, 0xff05])
    else:
        nsec, nseg = rng.choice([4, 5]), rng.choice([0xffff, 0xffff, 0xfffe, 0x10000, 0x10001])
        if which == 'core':
            return gen_big_core(rng, cls, le, nseg)
    # the name table: the last section but one, so that its index needs SHN_XINDEX from 0xff02 sections on
    # (0xff00 sections: index 0xfefe, the largest that does not)
    strtab_idx = nsec - 2
    names = [b'.b', b'.shstrtab', b'.last', b'']
    tab = b'\0' + b'\0'.join(names[:3]) + b'\0'
    off = {nm: (tab.index(nm + b'\0') if nm else 0) for nm in names}
    shsz = 40 if cls == 32 else 64
    phsz = 32 if cls == 32 else 56
    ehsize = 52 if cls == 32 else 64
    shentsize = shsz + rng.choice([0, 0, 8])
    phentsize = phsz + rng.choice([0, 0, 8])
    order = rng.choice(['sh-ph-tab', 'tab-ph-sh', 'ph-tab-sh'])
    pos = ehsize + rng.choice([0, 4])
    shoff = phoff = taboff = 0
    for r in order.split('-'):
        pos += rng.choice([0, 0, 3, 8])
        if r == 'sh':
            shoff = pos; pos += shentsize * nsec
        elif r == 'ph':
            phoff = pos; pos += phentsize * nseg
        else:
            taboff = pos; pos += len(tab)

    def sec(name, type=1, flags=0, addr=0, offset=0, size=0, link=0, info=0, addralign=0, entsize=0, body=None):
        return {'name': hx(name), 'nameOff': off[name],
                'hdr': R(sh_type=type, sh_flags=flags, sh_addr=addr, sh_offset=offset, sh_size=size, sh_link=link, sh_info=info,
                         sh_addralign=addralign, sh_entsize=entsize), 'body': hx(body) if body else None}
    xShnum = nsec >= 0xff00 or rng.random() < 0.2
    xShstr = strtab_idx >= 0xff00 or rng.random() < 0.2
    xPh = nseg >= 0xffff or rng.random() < 0.2
    sec0 = sec(b'', type=0, size=nsec if xShnum else rng.choice([0, X()]), link=strtab_idx if xShstr else rng.choice([0, W()]),
               info=nseg if xPh else rng.choice([0, W()]))
    filler = sec(b'.b', type=rng.choice([1, 1, 8, 7, 0x12345678]), flags=X() & ~0x800, addr=X(), offset=X(), size=0, link=W(), info=W(),
                 addralign=X(), entsize=X())
    strtab = sec(b'.shstrtab', type=3, offset=taboff, size=len(tab), body=tab)
    # the last section: in every second image a symbol table whose sh_link designates the name table — at nsec >= 0xff02 an
    # index inside SHN_LORESERVE..SHN_HIRESERVE, which under extended numbering is an ordinary section index (a seeded
    # "reserved indices reference no section" check in the link validation was missed while no link pointed that high)
    ltype = rng.choice([1, 14, 0x70000005, 2, 11, 2])
    if directed:
        ltype = rng.choice([2, 11])
    if ltype in (2, 11):
        last = sec(b'.last', type=ltype, flags=X() & ~0x800, addr=X(), offset=X(), link=strtab_idx, info=W(),
                   addralign=X(), entsize=16 if cls == 32 else 24)
    else:
        last = sec(b'.last', type=ltype, flags=X() & ~0x800, addr=X(), offset=X(), link=W(), info=W(),
                   addralign=X(), entsize=X())
    sections = [sec0, {'rep': nsec - 3, 'sec': filler}, strtab, last]

    def seg(t):
        p = dict(p_type=t, p_offset=X(), p_vaddr=X(), p_paddr=X(), p_filesz=X(), p_memsz=X(), p_flags=W(), p_align=X())
        keys = (['p_type', 'p_offset', 'p_vaddr', 'p_paddr', 'p_filesz', 'p_memsz', 'p_flags', 'p_align'] if cls == 32 else
                ['p_type', 'p_flags', 'p_offset', 'p_vaddr', 'p_paddr', 'p_filesz', 'p_memsz', 'p_align'])
        return R(**{k: p[k] for k in keys})
    segments = [seg(6), {'rep': nseg - 3, 'seg': seg(1)}, seg(rng.choice([4, 0x6474e551, 0x12345])), seg(rng.choice([1, 7, 0x70000001]))]
    M = machine_choices()
    e_machine = M[rng.choice(['EM_386', 'EM_PPC64', 'EM_S390', 'EM_IA_64', 'EM_PPC'])]
    ast = {
        'cls': cls, 'le': le, 'mclass': 'EM_SPARC' if e_machine in (M['EM_386'], M['EM_S390']) else 'default', 'solaris': False, 'core': False,
        'ehdr': R(EI_VERSION=1, EI_OSABI=rng.choice([0, 3, 9]), EI_ABIVERSION=rng.randrange(256), e_type=rng.choice([1, 2, 3]),
                  e_machine=e_machine, e_version=1, e_entry=X(), e_flags=W(), e_ehsize=ehsize),
        'shoff': shoff, 'phoff': phoff, 'shentsize': shentsize, 'phentsize': phentsize,
        'sections': sections, 'segments': segments,
        'shstrndx': strtab_idx, 'xShnum': bool(xShnum), 'xShstrndx': bool(xShstr), 'xPhnum': bool(xPh),
    }
    # indexed access (and the model, whose List-based reads cost O(offset) each) at a few indices only
    sec_idx = sorted({0, 0xfeff, 0xff00, strtab_idx, nsec - 1} & set(range(nsec)))
    seg_idx = sorted({0, 0xfffe, 0xffff, nseg - 1} & set(range(nseg)))
    return ast, sec_idx, seg_idx, {'nsec': nsec, 'nseg': nseg, 'cls': cls, 'linked_last': strtab_idx if ltype in (2, 11) else None}


def gen_big_core(rng, cls, le, nseg):
    """The ≥ 0xffff-segment file as it occurs in practice: a core dump as the Linux kernel writes it (fs/binfmt_elf.c
    fill_extnum_info) — e_type = ET_CORE, ONE section header (SHT_NULL, sh_size = 1, sh_link = 0, sh_info = the segment
    count), e_shnum = 1, e_shstrndx = SHN_UNDEF: no section-name string table (the null section is nameless).  Inside wfZ
    like every file without a name table, and inside the domain of the theorem `extnum_only`."""
    wbits = cls

    def X():
        return rnd_uint(rng, wbits)

    def W():
        return rnd_uint(rng, 32)
    shsz, phsz, ehsize = (40, 32, 52) if cls == 32 else (64, 56, 64)
    # the kernel puts the program headers right after the ELF header and the section header at the end; vary
    if rng.random() < 0.5:
        phoff = ehsize
        shoff = phoff + phsz * nseg + rng.choice([0, 0, 4096])
    else:
        shoff = ehsize + rng.choice([0, 8])
        phoff = shoff + shsz + rng.choice([0, 0, 16])
    xPh = nseg >= 0xffff or rng.random() < 0.5
    sec0 = {'name': '', 'nameOff': 0,
            'hdr': R(sh_type=0, sh_flags=0, sh_addr=0, sh_offset=0, sh_size=1, sh_link=0, sh_info=nseg if xPh else 0, sh_addralign=0,
                     sh_entsize=0), 'body': None}

    def seg(t):
        p = dict(p_type=t, p_offset=X(), p_vaddr=X(), p_paddr=X(), p_filesz=X(), p_memsz=X(), p_flags=W() & 7, p_align=rng.choice([0, 1, 4096]))
        keys = (['p_type', 'p_offset', 'p_vaddr', 'p_paddr', 'p_filesz', 'p_memsz', 'p_flags', 'p_align'] if cls == 32 else
                ['p_type', 'p_flags', 'p_offset', 'p_vaddr', 'p_paddr', 'p_filesz', 'p_memsz', 'p_align'])
        return R(**{k: p[k] for k in keys})
    segments = [seg(4), {'rep': nseg - 3, 'seg': seg(1)}, seg(1), seg(rng.choice([1, 1, 0x12345]))]
    M = machine_choices()
    e_machine = M[rng.choice(['EM_PPC64', 'EM_IA_64', 'EM_PPC', 'EM_S390'])]
    ast = {
        'cls': cls, 'le': le, 'mclass': 'EM_SPARC' if e_machine == M['EM_S390'] else 'default', 'solaris': False, 'core': True,
        'ehdr': R(EI_VERSION=1, EI_OSABI=rng.choice([0, 0, 3]), EI_ABIVERSION=0, e_type=4, e_machine=e_machine, e_version=1, e_entry=0,
                  e_flags=W(), e_ehsize=ehsize),
        'shoff': shoff, 'phoff': phoff, 'shentsize': shsz, 'phentsize': phsz,
        'sections': [sec0], 'segments': segments,
        'shstrndx': 0, 'xShnum': False, 'xShstrndx': False, 'xPhnum': bool(xPh),
    }
    seg_idx = sorted({0, 0xfffe, 0xffff, nseg - 1} & set(range(nseg)))
    return ast, [0], seg_idx, {'nsec': 1, 'nseg': nseg, 'cls': cls, 'core': True}


def _rle(items):
    out = []
    for x in items:
        if out and out[-1][1] == x:
            out[-1][0] += 1
        else:
            out.append([1, x])
    return out


def impl_observe_big(data, sec_idx, seg_idx):
    """One enumeration of each table (run-length encoded), both counts, indexed access at the spot indices."""
    from elftools.elf.elffile import ELFFile
    f = ELFFile(io.BytesIO(data))

    def osec(s):
        return [type(s).__name__, {'b': s.name.encode('utf-8').hex()}, canon(s.header)]

    def oseg(s):
        return [type(s).__name__, canon(s.header)]
    return {'elfclass': f.elfclass, 'little_endian': f.little_endian, 'header': canon(f.header),
            'nsec': f.num_sections(), 'nseg': f.num_segments(),
            'sections': _rle(osec(s) for s in f.iter_sections()), 'segments': _rle(oseg(s) for s in f.iter_segments()),
            'secAt': [osec(f.get_section(i)) for i in sec_idx], 'segAt': [oseg(f.get_segment(i)) for i in seg_idx]}


_SPOT = ('elfclass', 'little_endian', 'header', 'nsec', 'nseg', 'secAt', 'segAt')


def _spot(res):
    return {'ok': {k: res['ok'][k] for k in _SPOT}} if 'ok' in res else res


def check_big(ctx, case):
    r = ctx.driver.ask({'p': 'C01', 'k': 'big', 'ast': case['ast'], 'secIdx': case['secIdx'], 'segIdx': case['segIdx']})
    if 'fatal' in r:
        raise RuntimeError('driver: %s' % r['fatal'])
    if not r.get('wf'):
        return r, None
    data = bytes.fromhex(r['bytes'])
    impl = run_impl(lambda: impl_observe_big(data, case['secIdx'], case['segIdx']))
    return r, impl


def _big_fails(r, impl):
    """(kind of failure or None); only called inside wfZ"""
    if impl != r['expect']:
        return 'property'
    if _spot(impl) != r['model']:
        return 'correspondence'
    return None


def run_big(ctx):
    rng = ctx.rng('big')
    for k in range(ctx.budget(3, 9)):
        ast, sec_idx, seg_idx, meta = gen_big(rng, ('sec', 'seg', 'core')[k % 3], directed=(k == 0))
        case = {'ast': ast, 'secIdx': sec_idx, 'segIdx': seg_idx}
        r, impl = check_big(ctx, case)
        if impl is None:
            ctx.out.count('big:not-wf')
            continue
        ctx.out.count('big:nsec=%#x,nseg=%#x,elf%d%s' % (meta['nsec'], meta['nseg'], meta['cls'], ',kernel-core-shape' if meta.get('core') else ''))
        ctx.out.count('big:domain=wfZ')
        if meta.get('linked_last'):
            ctx.out.count('big:last-section-is-symtab-linked-to-index-%s' % ('>=0xff00' if meta['linked_last'] >= 0xff00 else '<0xff00'))
        ctx.out.case({'big': [meta['nsec'], meta['nseg'], meta['cls'], ast['le'], ast['shoff'], ast['phoff']]})
        kind = _big_fails(r, impl)
        if kind == 'property':
            ctx.out.violation('property', 'big', case, expect=_brief(r['expect']), got=_brief(impl), model=_brief(r['model']))
        elif kind == 'correspondence':
            ctx.out.violation('correspondence', 'big', case, got=_brief(_spot(impl)), model=_brief(r['model']))


def _brief(res):
    """violation records are written to replay files: keep the run-length encoded form, cut anything long"""
    t = repr(res)
    return res if len(t) < 20000 else t[:20000] + '…'


def run_raw(ctx, seeds):
    rng = ctx.rng('raw')
    n = ctx.budget(600, 10000)
    reqs = []
    for _ in range(n):
        rq, r = rng.choice(seeds)
        data = bytearray(bytes.fromhex(r['bytes']))
        a = rq['ast']
        ehsize = 52 if a['cls'] == 32 else 64
        mode = rng.choice(['trunc', 'sub', 'sub', 'sub2'])
        if mode == 'trunc':
            cut = rng.choice([rng.randrange(0, len(data) + 1), a['shoff'], a['shoff'] + 1, a['phoff'], ehsize, ehsize - 1, 16, 5, 4])
            data = data[:max(0, min(cut, len(data)))]
        else:
            for _ in range(1 if mode == 'sub' else 3):
                region = rng.choice(['eh', 'sh', 'ph'])
                if region == 'eh' or not len(data):
                    pos = rng.randrange(0, min(ehsize, max(1, len(data))))
                elif region == 'sh':
                    pos = a['shoff'] + rng.randrange(0, max(1, a['shentsize'] * max(1, len(a['sections']))))
                else:
                    pos = a['phoff'] + rng.randrange(0, max(1, a['phentsize'] * max(1, len(a['segments']))))
                if pos < len(data):
                    data[pos] = rng.choice([0, 0xff, (data[pos] + 1) & 0xff, data[pos] ^ 0x80, rng.randrange(256)])
        if _too_many(bytes(data)):
            ctx.out.count('raw:skipped-huge-count')      # corrupt counts: C19's subject, too slow to enumerate here
            continue
        reqs.append({'p': 'C01', 'k': 'raw', 'hex': hx(data)})
    replies = ctx.driver.ask_many(reqs)
    for rq, r in zip(reqs, replies):
        if 'fatal' in r:
            raise RuntimeError('driver: %s' % r['fatal'])
        data = bytes.fromhex(rq['hex'])
        impl = run_impl(lambda: impl_observe(data, []))
        m = r['model']
        ctx.out.count('raw:' + ('ok' if 'ok' in impl else impl['err']))
        ctx.out.case({'raw_sha': hx(data[:48]), 'n': len(data)})
        if 'ok' in impl and any('efbfbd' in x[1]['b'] for x in impl['ok']['sections']):
            ctx.out.count('raw:names-with-U+FFFD')
        if impl != m:
            ctx.out.violation('correspondence', 'raw', {'hex': rq['hex']}, got=impl, model=m)


def _too_many(data, cap=2000):
    from elftools.elf.elffile import ELFFile
    try:
        f = ELFFile(io.BytesIO(data))
        if f.num_sections() > cap:
            return True
        if f['e_phnum'] >= 0xffff:
            return f._get_section_header(0)['sh_info'] > cap
        return False
    except Exception:
        return False


def run_utf8(ctx):
    """Model/Utf8.lean (names as the library's `str` API reports them) against CPython's own decoder."""
    rng = ctx.rng('utf8')
    pool = [0x00, 0x41, 0x7f, 0x80, 0x8f, 0x90, 0x9f, 0xa0, 0xbf, 0xc0, 0xc1, 0xc2, 0xdf, 0xe0, 0xe1, 0xec, 0xed, 0xee, 0xef, 0xf0, 0xf1,
            0xf3, 0xf4, 0xf5, 0xf7, 0xf8, 0xff]
    cases = [bytes(rng.choice(pool) if rng.random() < 0.8 else rng.randrange(256) for _ in range(rng.randrange(0, 9)))
             for _ in range(ctx.budget(400, 20000))]
    replies = ctx.driver.ask_many([{'p': 'C01', 'k': 'utf8', 'hex': hx(c)} for c in cases])
    for c, r in zip(cases, replies):
        if 'fatal' in r:
            raise RuntimeError('driver: %s' % r['fatal'])
        got = hx(c.decode('utf-8', errors='replace').encode('utf-8'))
        ctx.out.count('utf8:' + ('valid' if got == hx(c) else 'replaced'))
        ctx.out.case({'utf8': hx(c)}, nontrivial=False)
        if got != r['out']:
            ctx.out.violation('correspondence', 'utf8', {'hex': hx(c)}, got=got, model=r['out'])


def run(ctx):
    seeds = run_ast(ctx)
    if seeds:
        run_raw(ctx, seeds)
    run_big(ctx)
    run_utf8(ctx)


def replay(ctx, payload):
    v = payload['violation']
    case = v['case']
    if v['stream'] == 'utf8':
        c = bytes.fromhex(case['hex'])
        got = hx(c.decode('utf-8', errors='replace').encode('utf-8'))
        r = ctx.driver.ask({'p': 'C01', 'k': 'utf8', 'hex': case['hex']})
        return {'stream': 'utf8', 'impl': got, 'model': r['out'], 'fails': got != r['out']}
    if v['stream'] == 'big':
        r, impl = check_big(ctx, case)
        return {'stream': 'big', 'impl': _brief(impl), 'expect': _brief(r.get('expect')), 'model': _brief(r.get('model')),
                'fails': impl is not None and _big_fails(r, impl) is not None}
    if v['stream'] == 'ast':
        r = ctx.driver.ask({'p': 'C01', 'k': 'ast', 'ast': case['ast'], 'queries': case['queries'], 'tail': case.get('tail', 0)})
        data = bytes.fromhex(r['bytes'])
        impl = run_impl(lambda: impl_observe(data, case['queries']))
        # the property comparison applies inside wfZ with valid UTF-8 names; the correspondence applies to every image
        bad = any(bytes.fromhex(x['name']).decode('utf-8', errors='replace').encode('utf-8') != bytes.fromhex(x['name'])
                  for x in case['ast']['sections'])
        in_domain = r.get('wf') and not bad
        return {'stream': 'ast', 'bytes': r['bytes'], 'impl': impl, 'expect': r['expect'], 'model': r['model'], 'in_domain': bool(in_domain),
                'fails': (in_domain and impl != r['expect']) or impl != r['model']}
    data = bytes.fromhex(case['hex'])
    impl = run_impl(lambda: impl_observe(data, []))
    r = ctx.driver.ask({'p': 'C01', 'k': 'raw', 'hex': case['hex']})
    return {'stream': 'raw', 'impl': impl, 'model': r['model'], 'fails': impl != r['model']}


# the finding `no-name-table` (files with sections and e_shstrndx = SHN_UNDEF got section 0 taken for the name table) is
# repaired (fixes/C01-no-name-table.patch): such files are judged like any other well-formed file
FINDINGS = {}
