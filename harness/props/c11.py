"""C11 — the DWARF view is invariant under the container encoding of the same debug data.  Streams:

  wrap    : a debug payload (the logical contents of the .debug_* / .eh_frame sections: taken from the shipped test
            binaries or synthesized for every ELF class x byte order) is re-wrapped under every container transform
            (plain, SHF_COMPRESSED at zlib levels 0-9 on all / a random subset of the sections, `.zdebug` framing,
            stripped file + .gnu_debuglink with right / wrong CRC, with / without stream loader, follow_links on/off,
            .gnu_debugaltlink / .debug_sup with / without loader).  The container bytes come from the Lean SPEC encoders
            (Spec/Container.lean), the deflate streams from the real zlib, the ELF envelope from harness/elfbuild.py.
            property   : descriptors reported by the real `get_dwarf_info` == the payload (stream, size, address), for
                         every transform; full DIE / line-program / CFI dumps of the resulting DWARFInfo are identical
                         across wrappings; wrong CRC => ELFError; has_dwarf_info as the property states.
            correspondence : everything the real code reports (descriptors incl. name/global_offset, config, the
                         supplementary DWARFInfo, has_dwarf_info / has_dwarf_link / get_dwarf_link, error class) ==
                         the Lean model run on the same bytes with the regenerated structs.
  corpus  : the shipped binaries as they are (incl. the compressed_*.o, debuglink, debugsup, altlink, phantom-byte,
            relocatable ones): real code vs model.
  bad     : malformed containers.  Declared size != inflated size (both compression formats) must be REJECTED
            (property); wrong magic, short sections, truncated / corrupted deflate streams, unknown compression types,
            non-zero debuglink padding, truncated links, missing linked files, random byte flips: real code vs model.
  has     : every combination of presence of .debug_info / .zdebug_info / .eh_frame / others x strict.
  reloc   : relocatable objects.  A synthesized payload for every listed machine x class x byte order gets relocation
            sections (.rel/.rela, entries and symbol values drawn as in C08: mostly valid, some rejected, some outside the
            domain) against 1-3 of its debug sections; the tables, the symbol table and the RELOCATED logical content come
            from the Lean SPEC side (C08's encoders and `applyStd`).  The same content is stored plain, SHF_COMPRESSED
            (all / subset, any level) and as .zdebug (+ .rel[a].zdebug_*), and read with relocate_dwarf_sections on/off.
            property   : view == relocated content (on) / content as written (off), identically for the three storages;
                         a rejected relocation => ELFRelocationError in all three.
            correspondence : as in `wrap`.
            relobj: shipped ET_REL objects re-assembled section by section with their debug sections compressed in each
            format (their own relocation / symbol sections kept): view == the library's view of the original object.
"""
import io, os, sys, zlib, binascii, struct, hashlib, json, glob
from common import canon, hx, rnd_uint, rnd_bytes, classify_exception, uleb, sleb, REPO
import elfbuild as EB

RULE = ('wrap: payloads = debug sections of every shipped test binary that has any (quick: those under 64 KiB of debug data) '
        'plus synthesized DWARF (CU + DIEs + line program + .debug_frame) for ELF32/64 x LE/BE with section sizes drawn around '
        'the 4096-byte chunk size; each payload under plain, gABI (levels 0-9, all sections and random subsets), .zdebug (levels), '
        'debuglink (ok / bad crc / no loader / follow_links=False, target itself plain/gABI/.zdebug), altlink and .debug_sup '
        '(with / without loader), and the links composed (debug link -> debug file plain/gABI/.zdebug -> its supplementary link -> '
        'supplementary file plain/gABI/.zdebug). bad: declared sizes {n-1, n+1, 0, 2n, random} and container corruptions. has: all '
        '2^4 presence combinations x strict. reloc: synthesized relocatable objects for every listed machine (REL/RELA, both classes '
        'and byte orders, 1-3 targeted debug sections, valid / rejected / out-of-domain entries) stored plain, gABI (all / subset) and '
        '.zdebug, relocate on/off; shipped ET_REL objects re-assembled with their debug sections compressed in each format. '
        'Non-trivial = distinct file images; every case reads at least one section through the container code.')
ASSUMPTIONS = ['zlib.decompressobj().decompress(data, max_length) is external: its answers are recorded from the real module during '
               'the run and handed to the model as a table (an answer the real code never asked for is a correspondence failure)',
               'zlib streaming: feeding 4096-byte chunks and flush() gives the bytes / error of one unlimited decompress call',
               'zlib round trip (ZlibOk): decompress(compress(x, level), k) == x (x[:k] for k > 0) - checked on every generated stream',
               'binascii.crc32 is the CRC-32 of the GDB manual (the model computes it from Spec/ContainerCrc.lean, folded over '
               '4096-byte chunks as _file_crc32 does) and satisfies the streaming law crc32(a+b, i) == crc32(b, crc32(a, i)) - the '
               'law is checked on every recorded _file_crc32 conversation, the value by every followed debug link',
               'stream_loader is a mapping path -> bytes; a missing path raises KeyError',
               'io.BytesIO read/seek/tell semantics; section names are valid UTF-8']
FINDINGS = {}

KEYWORDS = None          # [(DWARFInfo keyword, section name)] from the regenerated table (read lazily from the source tree)
TESTDIR = os.path.join(REPO, 'test', 'testfiles_for_unittests')
READELFDIR = os.path.join(REPO, 'test', 'testfiles_for_readelf')


def keywords():
    """(keyword, section name, renamed-under-zdebug) — parsed from the regenerated Lean table so that harness and model
    walk the same list"""
    global KEYWORDS
    if KEYWORDS is None:
        import re
        path = os.path.join(os.path.dirname(os.path.dirname(os.path.dirname(os.path.abspath(__file__)))), 'lean', 'PyElf', 'Gen', 'Extra_C11.lean')
        out = []
        for m in re.finditer(r'\("(\w+)", \[([^\]]*)\], (true|false)\)', open(path).read()):
            out.append((m.group(1), bytes(int(x, 16) for x in m.group(2).split(',')).decode(), m.group(3) == 'true'))
        assert len(out) >= 19, 'regenerated section-name table not found'
        KEYWORDS = out
    return KEYWORDS


# --------------------------------------------------------------------------- running the real code
class ZRec:
    """zlib stand-in that records every decompressobj conversation: (all input fed, max_length) -> all output / error."""

    error = zlib.error

    def __init__(self):
        self.table = {}

    def decompressobj(self, *a, **k):
        rec = self

        class Obj:
            def __init__(self):
                self.o = zlib.decompressobj(*a, **k)
                self.inp, self.out = b'', b''

            def decompress(self, data, max_length=0):
                self.inp += bytes(data)
                self.k = max_length
                try:
                    r = self.o.decompress(data, max_length)
                except zlib.error:
                    rec.table[(self.inp, max_length)] = None
                    raise
                self.out += r
                rec.table[(self.inp, max_length)] = self.out
                return r

            def flush(self, *aa):
                r = self.o.flush(*aa)
                self.out += r
                rec.table[(self.inp, getattr(self, 'k', 0))] = self.out
                return r

            def __getattr__(self, n):
                return getattr(self.o, n)
        return Obj()

    def __getattr__(self, n):
        return getattr(zlib, n)


class CRec:
    """binascii stand-in for dwarf_util: records the crc32 conversation of every _file_crc32 run (chunk sizes, chaining)"""

    def __init__(self):
        self.runs = []          # [[(chunk bytes, init, out), ...]]

    def crc32(self, data, value=0):
        out = binascii.crc32(data, value)
        if value == 0 or not self.runs:
            self.runs.append([])
        self.runs[-1].append((bytes(data), value, out))
        return out

    def __getattr__(self, n):
        return getattr(binascii, n)


CRC_STATS = {}


def check_crc_streaming(runs):
    """ASSUMPTION check (CrcStreaming of the theorems): crc32(a + b, init) == crc32(b, crc32(a, init)) on every recorded
    chain, i.e. the chained value is the one-shot CRC of the concatenation; also notes the chunking that was seen"""
    for chain in runs:
        whole, cur = b'', 0
        for d, init, out in chain:
            if init != cur:
                return          # not a chain started at 0 by _file_crc32 (someone else called crc32): nothing to check
            whole += d
            cur = out
            if binascii.crc32(whole) != out:
                raise AssertionError('crc32 streaming assumption violated after %d bytes' % len(whole))
        k = 'crc:chunks:%s' % ('1' if len(chain) == 1 else '2-4' if len(chain) <= 4 else '5+')
        CRC_STATS[k] = CRC_STATS.get(k, 0) + 1
        sizes = set(len(d) for d, _, _ in chain[:-1])
        k2 = 'crc:chunksize:%s' % ('-' if not sizes else ','.join(str(x) for x in sorted(sizes)))
        CRC_STATS[k2] = CRC_STATS.get(k2, 0) + 1


def classify(e):
    if isinstance(e, zlib.error):
        return 'zlibError'
    return classify_exception(e)


def descr_json(d):
    if d is None:
        return None
    d.stream.seek(0)
    return {'stream': {'b': d.stream.read().hex()}, 'name': {'b': d.name.encode('utf-8').hex()},
            'global_offset': d.global_offset, 'size': d.size, 'address': d.address}


def info_json(di):
    return {'le': di.config.little_endian, 'addr_size': di.config.default_address_size, 'arch': di.config.machine_arch,
            'secs': [[kw, descr_json(getattr(di, kw))] for kw, _, _ in keywords()],
            'sup': None if di.supplementary_dwarfinfo is None else info_json(di.supplementary_dwarfinfo)}


def open_impl(main, files, has_loader):
    from elftools.elf.elffile import ELFFile
    loader = (lambda path: io.BytesIO(files[bytes(path)])) if has_loader else None
    return ELFFile(io.BytesIO(main), loader)


def with_zrec(fn):
    """run fn() with the recording zlib installed in the two modules that use zlib"""
    import elftools.elf.sections as S, elftools.elf.elffile as E, elftools.dwarf.dwarf_util as DU
    rec, crec = ZRec(), CRec()
    o1, o2, o3 = S.zlib, E.zlib, DU.binascii
    S.zlib = E.zlib = rec
    DU.binascii = crec
    try:
        res = fn()
    finally:
        S.zlib, E.zlib, DU.binascii = o1, o2, o3
    check_streaming(rec.table)
    check_crc_streaming(crec.runs)
    return res, rec.table


def check_streaming(table):
    """ASSUMPTION check: every recorded conversation (possibly many 4096-byte chunks + flush) gives what ONE call on the
    concatenated input gives — the model makes one call"""
    for (inp, k), out in table.items():
        try:
            o = zlib.decompressobj()
            r = o.decompress(inp, k)
            if k == 0:
                r += o.flush()
        except zlib.error:
            r = None
        if r != out:
            raise AssertionError('zlib streaming assumption violated on %d input bytes (max_length %d)' % (len(inp), k))


def check_roundtrip(body, deflated):
    """ASSUMPTION check (ZlibOk of the theorems): decompress(deflate(x), k) == x (x[:k] for k > 0)"""
    for k in (0, len(body) + 1, max(1, len(body) // 2)):
        r = zlib.decompressobj().decompress(deflated, k)
        if r != (body if k == 0 else body[:k]):
            raise AssertionError('zlib round-trip assumption violated (len %d, max_length %d)' % (len(body), k))


def run_real(main, files, has_loader, relocate, follow, want_dump=False):
    """Everything observed of the real library on one file set.  Returns (observation, zlib table, dump hash or None)."""
    def go():
        obs = {}
        dump = None
        try:
            ef = open_impl(main, files, has_loader)
        except Exception as e:      # noqa: BLE001
            err = {'err': classify(e)}
            return {'model': err, 'has': err, 'has_strict': err, 'has_link': err, 'link': err}, None

        # every observation on a FRESH ELFFile: a failed _make_section_name_map() leaves a partial map behind, so a
        # second call on the same object does not see what a first call sees (the model describes first calls)
        def guarded(f):
            try:
                return {'ok': f(open_impl(main, files, has_loader))}
            except Exception as e:      # noqa: BLE001
                return {'err': classify(e)}
        obs['has'] = guarded(lambda ef: bool(ef.has_dwarf_info()))
        obs['has_strict'] = guarded(lambda ef: bool(ef.has_dwarf_info(strict=True)))
        obs['has_link'] = guarded(lambda ef: bool(ef.has_dwarf_link()))

        def link(ef):
            l = ef.get_dwarf_link()
            return None if l is None else {'filename': {'b': bytes(l.filename).hex()}, 'checksum': l.checksum}
        obs['link'] = guarded(link)
        ef = open_impl(main, files, has_loader)
        try:
            di = ef.get_dwarf_info(relocate_dwarf_sections=relocate, follow_links=follow)
            obs['model'] = {'ok': info_json(di)}
            if want_dump:
                dump = dump_all(di)
        except RecursionError:
            raise
        except Exception as e:      # noqa: BLE001
            obs['model'] = {'err': classify(e)}
        return obs, dump
    (obs, dump), table = with_zrec(go)
    return obs, table, dump


def model_request(main, files, has_loader, relocate, follow, ztable):
    return {'p': 'C11', 'k': 'view', 'hex': hx(main),
            'files': [[hx(n), hx(c)] for n, c in files.items()],
            'zlib': [[hx(d), k, None if o is None else hx(o)] for (d, k), o in ztable.items()],
            'has_loader': has_loader, 'relocate': relocate, 'follow': follow}


# --------------------------------------------------------------------------- dumps (through the DWARF layers)
def jsonable(v, depth=0):
    from elftools.construct.lib.container import Container, ListContainer
    if v is None or isinstance(v, (bool, int, str)):
        return v
    if isinstance(v, (bytes, bytearray)):
        return {'b': bytes(v).hex()}
    if isinstance(v, (Container, dict)):
        return {str(k): jsonable(x, depth + 1) for k, x in v.items()}
    if isinstance(v, (list, tuple, ListContainer)):
        return [jsonable(x, depth + 1) for x in v]
    if hasattr(v, '_asdict'):
        return {k: jsonable(x, depth + 1) for k, x in v._asdict().items()}
    if hasattr(v, '__dict__') and depth < 6:
        return {k: jsonable(x, depth + 1) for k, x in sorted(vars(v).items()) if not k.startswith('_') and k not in ('cfi', 'structs', 'stream', 'dwarfinfo', 'cu', 'program')}
    return repr(type(v))


def guard(f):
    try:
        return f()
    except RecursionError:
        raise
    except Exception as e:      # noqa: BLE001
        return {'err': classify(e)}


def dump_units(di):
    out = []
    units = list(di.iter_CUs())
    if di.has_debug_types() and hasattr(di, 'iter_TUs'):
        units += list(di.iter_TUs())
    for cu in units:
        u = {'offset': cu.cu_offset, 'header': jsonable(cu.header), 'dies': []}

        def dies(cu=cu, u=u):
            for die in cu.iter_DIEs():
                u['dies'].append([die.offset, die.tag if isinstance(die.tag, (str, int)) else str(die.tag), die.size, die.abbrev_code,
                                  die.has_children,
                                  [[str(k), a.form, jsonable(a.value), jsonable(a.raw_value), a.offset] for k, a in die.attributes.items()]])
            return None
        e = guard(dies)
        if e:
            u['dies'].append(e)
        out.append(u)
    return out


def dump_lines(di):
    out = []
    for cu in di.iter_CUs():
        def one(cu=cu):
            lp = di.line_program_for_CU(cu)
            if lp is None:
                return None
            ents = []
            for e in lp.get_entries():
                st = e.state
                ents.append([e.command, e.is_extended, jsonable(e.args),
                             None if st is None else [st.address, st.file, st.line, st.column, st.is_stmt, st.basic_block,
                                                      st.end_sequence, st.prologue_end, st.epilogue_begin, st.isa, st.discriminator]])
            return {'header': jsonable(lp.header), 'entries': ents}
        out.append(guard(one))
    return out


def dump_cfi(di):
    def entries(it):
        out = []
        for e in it:
            d = {'type': type(e).__name__, 'offset': getattr(e, 'offset', None)}
            if hasattr(e, 'header'):
                d['header'] = jsonable(e.header)
                d['instructions'] = [[i.opcode, jsonable(i.args)] for i in e.instructions]
                d['augmentation'] = jsonable(getattr(e, 'augmentation_dict', None))

                def table(e=e):
                    t = e.get_decoded()
                    return {'table': [{str(k): jsonable(v) for k, v in row.items()} for row in t.table], 'reg_order': jsonable(t.reg_order)}
                d['decoded'] = guard(table)
            out.append(d)
        return out
    res = {}
    res['debug_frame'] = guard(lambda: entries(di.CFI_entries()) if di.has_CFI() else None)
    res['eh_frame'] = guard(lambda: entries(di.EH_CFI_entries()) if di.has_EH_CFI() else None)
    return res


def dump_all(di, with_eh=True):
    """hashes of the full dumps: (units+DIEs, line programs, .debug_frame CFI, .eh_frame CFI) and a size summary"""
    u = guard(lambda: dump_units(di))
    l = guard(lambda: dump_lines(di))
    c = dump_cfi(di)

    def h(x):
        return hashlib.sha1(json.dumps(x, sort_keys=True, default=str).encode()).hexdigest()[:20]
    ndies = sum(len(x['dies']) for x in u) if isinstance(u, list) else -1
    nlines = sum(len(x['entries']) for x in l if isinstance(x, dict) and 'entries' in x) if isinstance(l, list) else -1
    ncfi = len(c['debug_frame']) if isinstance(c['debug_frame'], list) else -1
    neh = len(c['eh_frame']) if isinstance(c['eh_frame'], list) else -1
    return {'units': h(u), 'lines': h(l), 'cfi': h(c['debug_frame']), 'eh': h(c['eh_frame']),
            'n': [len(u) if isinstance(u, list) else -1, ndies, nlines, ncfi, neh]}


# --------------------------------------------------------------------------- payloads
class Payload:
    """The logical debug content of a file: [(section name, bytes, sh_addr, addralign)] plus the header facts the
    DWARF configuration depends on."""

    def __init__(self, label, cls, le, e_machine, e_type, e_flags, sections):
        self.label, self.cls, self.le = label, cls, le
        self.e_machine, self.e_type, self.e_flags = e_machine, e_type, e_flags
        self.sections = sections

    def total(self):
        return sum(len(s[1]) for s in self.sections)


def raw_header_fields(data):
    cls = 32 if data[4] == 1 else 64
    le = data[5] == 1
    e = '<' if le else '>'
    e_type, e_machine = struct.unpack_from(e + 'HH', data, 16)
    e_flags = struct.unpack_from(e + 'I', data, 36 if cls == 32 else 48)[0]
    return cls, le, e_machine, e_type, e_flags


def payload_from_file(path):
    """the debug sections of a shipped binary as the library itself presents them (relocated for ET_REL objects)"""
    from elftools.elf.elffile import ELFFile
    data = open(path, 'rb').read()
    if data[:4] != b'\x7fELF':
        return None
    try:
        ef = ELFFile(io.BytesIO(data))
        if not ef.has_dwarf_info():
            return None
        di = ef.get_dwarf_info(relocate_dwarf_sections=True, follow_links=False)
    except Exception:           # noqa: BLE001
        return None
    cls, le, e_machine, e_type, e_flags = raw_header_fields(data)
    if e_machine == 118 and not (e_flags & 0x80000000):
        # phantom-byte objects: the logical content is the de-phantomed stream; re-wrap it as a non-phantom file
        e_flags |= 0x80000000
    secs = []
    for kw, name, _ in keywords():
        d = getattr(di, kw)
        if d is None:
            continue
        d.stream.seek(0)
        body = d.stream.read()
        if len(body) != d.size:
            return None
        secs.append((name, body, d.address, 1))
    if not secs:
        return None
    return Payload(os.path.basename(path), cls, le, e_machine, 2 if e_type == 1 else e_type, e_flags, secs)


def synth_payload(rng, cls, le, label):
    """a small but complete DWARF 4 payload in the requested class / byte order"""
    e = '<' if le else '>'
    A = cls // 8
    afmt = 'I' if A == 4 else 'Q'

    def P(fmt, *v):
        return struct.pack(e + fmt, *v)
    nfun = rng.choice([0, 1, 2, 5, 40])
    big = rng.choice([0, 0, 1, 2])
    # .debug_str
    strs, stroff = b'', []
    for i in range(nfun):
        stroff.append(len(strs))
        strs += ('fn_%d_%s' % (i, ''.join(rng.choice('abcdefghij') for _ in range(rng.choice([1, 5, 30]))))).encode() + b'\0'
    if big == 1:
        strs += (b'padding-string-' * rng.choice([273, 274, 600])) + b'\0'          # compressible, > 4096
    elif big == 2:
        strs += bytes(rng.randrange(1, 256) for _ in range(rng.choice([4095, 4096, 4097, 9000]))) + b'\0'   # incompressible
    # .debug_abbrev
    abbrev = (uleb(1) + uleb(0x11) + b'\1' + uleb(0x03) + uleb(0x08) + uleb(0x10) + uleb(0x17) + uleb(0x11) + uleb(0x01) + b'\0\0' +
              uleb(2) + uleb(0x2e) + b'\0' + uleb(0x03) + uleb(0x0e) + uleb(0x3b) + uleb(0x0f) + uleb(0x11) + uleb(0x01) + b'\0\0' + b'\0')
    base = rnd_uint(rng, 8 * A - 8)
    dies = uleb(1) + b'unit.c\0' + P('I', 0) + P(afmt, base)
    for i in range(nfun):
        dies += uleb(2) + P('I', stroff[i]) + uleb(rnd_uint(rng, 20)) + P(afmt, base + 16 * i)
    dies += b'\0'
    cu_body = P('H', 4) + P('I', 0) + bytes([A]) + dies
    info = P('I', len(cu_body)) + cu_body
    # .debug_line
    std_lens = bytes([0, 1, 1, 1, 1, 0, 0, 0, 1, 0, 0, 1])
    hdr_rest = bytes([1, 1, 1, (-5) & 0xff, 14, 13]) + std_lens + b'src\0\0' + b'unit.c\0' + uleb(1) + uleb(0) + uleb(0) + b'\0'
    prog = b'\0' + uleb(1 + A) + b'\2' + P(afmt, base)
    for _ in range(rng.choice([0, 1, 3, 20, 200])):
        r = rng.random()
        if r < 0.6:
            prog += bytes([rng.randrange(13, 256)])
        elif r < 0.75:
            prog += b'\2' + uleb(rnd_uint(rng, 10))
        elif r < 0.9:
            prog += b'\3' + sleb(rng.randrange(-50, 50))
        else:
            prog += b'\1'
    prog += b'\0\1\1'
    lbody = P('H', 4) + P('I', len(hdr_rest)) + hdr_rest + prog
    line = P('I', len(lbody)) + lbody
    # .debug_frame: one CIE, a few FDEs
    def padded(b):
        while (len(b) + 4) % A:
            b += b'\0'
        return b
    cie = padded(P('I', 0xffffffff) + b'\1' + b'\0' + uleb(1) + sleb(-A) + bytes([rng.choice([8, 14, 16])]) + b'\x0c' + uleb(7) + uleb(A) + bytes([0x80 | 16]) + uleb(1))
    frame = P('I', len(cie)) + cie
    for i in range(rng.choice([0, 1, 3])):
        ins = bytes([0x40 | rng.randrange(1, 60)]) + b'\x0e' + uleb(rnd_uint(rng, 12)) + bytes([0x40 | 4]) + bytes([0x80 | rng.randrange(1, 16)]) + uleb(rng.randrange(1, 9))
        fde = padded(P('I', 0) + P(afmt, base + 16 * i) + P(afmt, 16) + ins)
        frame += P('I', len(fde)) + fde
    secs = [('.debug_info', info, 0, 1), ('.debug_abbrev', abbrev, 0, 1), ('.debug_line', line, 0, 1), ('.debug_frame', frame, 0, A)]
    if strs:
        secs.append(('.debug_str', strs, 0, 1))
    if rng.random() < 0.3:
        secs.append(('.debug_ranges', rnd_bytes(rng, rng.choice([0, 1, 16, 64])), 0, 1))
    rng.shuffle(secs)
    em = rng.choice([EB.EM_386, EB.EM_ARM, EB.EM_MIPS]) if cls == 32 else rng.choice([EB.EM_X86_64, EB.EM_AARCH64, EB.EM_PPC64])
    return Payload(label, cls, le, em, rng.choice([EB.ET_EXEC, EB.ET_DYN]), 0, secs)


# --------------------------------------------------------------------------- wrapping
def lean_wrap(ctx, reqs):
    out = ctx.driver.ask_many(reqs)
    for r, q in zip(out, reqs):
        if 'fatal' in r or 'bytes' not in r:
            raise RuntimeError('driver: %r on %r' % (r, str(q)[:200]))
    return out


class Builder:
    """collects Spec-encoder requests, then assembles the images"""

    def __init__(self, ctx):
        self.ctx = ctx

    def image(self, p, extra=(), omit_debug=False):
        img = EB.ElfImage(cls=p.cls, le=p.le, e_type=p.e_type, e_machine=p.e_machine, e_flags=p.e_flags)
        return img

    def plain(self, p, extra=(), only=None, strip=False):
        """plain file; `strip` keeps only non-.debug sections (what `strip --strip-debug` leaves of the payload)"""
        img = self.image(p)
        img.add_section('.text', EB.SHT_PROGBITS, data=b'\x90' * 8, flags=6, addr=0x1000, addralign=4)
        for name, body, addr, al in p.sections:
            if strip and name != '.eh_frame':
                continue
            img.add_section(name, EB.SHT_PROGBITS, data=body, addr=addr, addralign=al, flags=2 if name == '.eh_frame' else 0)
        for name, body in extra:
            img.add_section(name, EB.SHT_PROGBITS, data=body, addralign=4)
        return img.build()

    def gabi(self, p, level, subset=None, extra=(), declared=None, ch_type=None):
        reqs, idx = [], []
        for i, (name, body, addr, al) in enumerate(p.sections):
            if name == '.eh_frame' or (subset is not None and i not in subset):
                continue
            size = len(body) if declared is None else declared(i, len(body))
            deflated = zlib.compress(body, level)
            check_roundtrip(body, deflated)
            reqs.append({'p': 'C11', 'k': 'wrap', 'what': 'gabi', 'cls': p.cls, 'le': p.le, 'size': size, 'align': al,
                         'deflated': hx(deflated)})
            idx.append(i)
        wrapped = dict(zip(idx, [bytes.fromhex(r['bytes']) for r in lean_wrap(self.ctx, reqs)]))
        img = self.image(p)
        img.add_section('.text', EB.SHT_PROGBITS, data=b'\x90' * 8, flags=6, addr=0x1000, addralign=4)
        for i, (name, body, addr, al) in enumerate(p.sections):
            if i in wrapped:
                w = wrapped[i]
                if ch_type is not None:
                    w = struct.pack(('<' if p.le else '>') + 'I', ch_type) + w[4:]
                img.add_section(name, EB.SHT_PROGBITS, data=w, addr=addr, addralign=8 if p.cls == 64 else 4, flags=EB.SHF_COMPRESSED)
            else:
                img.add_section(name, EB.SHT_PROGBITS, data=body, addr=addr, addralign=al, flags=2 if name == '.eh_frame' else 0)
        for name, body in extra:
            img.add_section(name, EB.SHT_PROGBITS, data=body, addralign=4)
        return img.build()

    def zdebug(self, p, level, extra=(), declared=None, mangle=None):
        reqs, idx = [], []
        for i, (name, body, addr, al) in enumerate(p.sections):
            if not name.startswith('.debug_'):
                continue
            size = len(body) if declared is None else declared(i, len(body))
            deflated = zlib.compress(body, level)
            check_roundtrip(body, deflated)
            reqs.append({'p': 'C11', 'k': 'wrap', 'what': 'zdebug', 'size': size, 'name': hx(name.encode()),
                         'deflated': hx(deflated)})
            idx.append(i)
        rs = lean_wrap(self.ctx, reqs)
        wrapped = {i: (bytes.fromhex(r['name']).decode(), bytes.fromhex(r['bytes'])) for i, r in zip(idx, rs)}
        img = self.image(p)
        img.add_section('.text', EB.SHT_PROGBITS, data=b'\x90' * 8, flags=6, addr=0x1000, addralign=4)
        for i, (name, body, addr, al) in enumerate(p.sections):
            if i in wrapped:
                zn, w = wrapped[i]
                if mangle is not None:
                    w = mangle(i, w)
                img.add_section(zn, EB.SHT_PROGBITS, data=w, addr=addr, addralign=1)
            elif name == '.eh_frame':
                img.add_section(name, EB.SHT_PROGBITS, data=body, addr=addr, addralign=al, flags=2)
        for name, body in extra:
            img.add_section(name, EB.SHT_PROGBITS, data=body, addralign=4)
        return img.build()

    def stored_sections(self, p, mode, level, subset=None):
        """[(name in the file, stored bytes, sh_flags, addralign, addr, logical name)] for the payload's sections under
        `mode` in plain / gabi / zdebug (`subset`: indices that are compressed under gabi; zdebug frames every .debug_*)"""
        reqs, idx = [], []
        for i, (name, body, addr, al) in enumerate(p.sections):
            if mode == 'gabi' and name != '.eh_frame' and (subset is None or i in subset):
                deflated = zlib.compress(body, level)
                check_roundtrip(body, deflated)
                reqs.append({'p': 'C11', 'k': 'wrap', 'what': 'gabi', 'cls': p.cls, 'le': p.le, 'size': len(body), 'align': al,
                             'deflated': hx(deflated)})
                idx.append(i)
            elif mode == 'zdebug' and name.startswith('.debug_'):
                deflated = zlib.compress(body, level)
                check_roundtrip(body, deflated)
                reqs.append({'p': 'C11', 'k': 'wrap', 'what': 'zdebug', 'size': len(body), 'name': hx(name.encode()),
                             'deflated': hx(deflated)})
                idx.append(i)
        wrapped = dict(zip(idx, lean_wrap(self.ctx, reqs))) if reqs else {}
        out = []
        for i, (name, body, addr, al) in enumerate(p.sections):
            if i in wrapped and mode == 'gabi':
                out.append((name, bytes.fromhex(wrapped[i]['bytes']), EB.SHF_COMPRESSED, 8 if p.cls == 64 else 4, addr, name))
            elif i in wrapped:
                out.append((bytes.fromhex(wrapped[i]['name']).decode(), bytes.fromhex(wrapped[i]['bytes']), 0, 1, addr, name))
            else:
                out.append((name, body, 2 if name == '.eh_frame' else 0, al, addr, name))
        return out

    def reloc_image(self, p, mode, level, rel, subset=None, decoy=False, rel_first=False, sym_first=True):
        """a relocatable object: the payload stored under `mode`, a symbol table, and for every target of `rel['targets']`
        (logical section name -> relocation table bytes) a `.rel`/`.rela` section named after the section AS STORED"""
        stored = self.stored_sections(p, mode, level, subset)
        img = self.image(p)
        rela = rel['rela']
        pfx, sht = ('.rela', EB.SHT_RELA) if rela else ('.rel', EB.SHT_REL)
        itxt = img.add_section('.text', EB.SHT_PROGBITS, data=b'\x90' * 16, flags=6, addr=0, addralign=4)
        # section indices are known up front: sections are appended in this order
        order = []
        if sym_first:
            order += ['strtab', 'symtab']
        if decoy:
            order.append('decoy')
        if rel_first:
            order += [('rel', n) for n in rel['targets']]
        order += [('sec', i) for i in range(len(stored))]
        if not rel_first:
            order += [('rel', n) for n in rel['targets']]
        if not sym_first:
            order += ['strtab', 'symtab']
        index = {k: 2 + j for j, k in enumerate(order)}
        stored_name = {logical: sname for sname, _, _, _, _, logical in stored}
        sec_index = {logical: index[('sec', i)] for i, (_, _, _, _, _, logical) in enumerate(stored)}
        for k in order:
            if k == 'strtab':
                got = img.add_section('.strtab', EB.SHT_STRTAB, data=b'\0')
            elif k == 'symtab':
                got = img.add_section('.symtab', EB.SHT_SYMTAB, data=rel['symbytes'], link=index['strtab'], entsize=rel['symentsize'],
                                      addralign=8)
            elif k == 'decoy':
                got = img.add_section(pfx + '.text', sht, data=bytes(rel['relentsize']), link=index['symtab'], info=itxt,
                                      entsize=rel['relentsize'], addralign=8)
            elif k[0] == 'rel':
                got = img.add_section(pfx + stored_name[k[1]], sht, data=rel['targets'][k[1]], link=index['symtab'],
                                      info=sec_index[k[1]], entsize=rel['relentsize'], addralign=8)
            else:
                sname, data, flags, al, addr, _ = stored[k[1]]
                got = img.add_section(sname, EB.SHT_PROGBITS, data=data, addr=addr, addralign=al, flags=flags)
            assert got == index[k], (got, index[k], k)
        return img.build()

    def debuglink(self, p, filename, crc):
        r = lean_wrap(self.ctx, [{'p': 'C11', 'k': 'wrap', 'what': 'debuglink', 'le': p.le, 'filename': hx(filename), 'crc': crc}])[0]
        return bytes.fromhex(r['bytes'])

    def altlink(self, filename, buildid):
        r = lean_wrap(self.ctx, [{'p': 'C11', 'k': 'wrap', 'what': 'altlink', 'filename': hx(filename), 'buildid': hx(buildid)}])[0]
        return bytes.fromhex(r['bytes'])

    def debugsup(self, p, version, is_sup, filename, checksum):
        r = lean_wrap(self.ctx, [{'p': 'C11', 'k': 'wrap', 'what': 'debugsup', 'le': p.le, 'version': version, 'is_sup': is_sup,
                                  'filename': hx(filename), 'checksum': hx(checksum)}])[0]
        return bytes.fromhex(r['bytes'])


def spec_view(p, strip=False, drop=()):
    """what the property says must be reported for payload `p`: per keyword, (stream, size, address) or None"""
    by = {}
    for name, body, addr, al in p.sections:
        by[name] = {'stream': {'b': body.hex()}, 'size': len(body), 'address': addr}
    out = []
    for kw, name, _ in keywords():
        if (strip and name != '.eh_frame') or name in drop:
            out.append([kw, None])
        else:
            out.append([kw, by.get(name)])
    return out


def view_of(info):
    """project an observed DWARFInfo onto the view (drop name / global_offset)"""
    return [[kw, None if d is None else {'stream': d['stream'], 'size': d['size'], 'address': d['address']}] for kw, d in info['secs']]


# --------------------------------------------------------------------------- one evaluation
class Pending:
    """cases wait here until their model answers arrive in one batch"""

    def __init__(self, ctx):
        self.ctx = ctx
        self.items = []

    def add(self, stream, case, main, files, has_loader, relocate, follow, expect_view=None, expect_err=None,
            expect_sup=None, want_dump=False, expect_rejected=False, expect_has=None):
        obs, ztable, dump = run_real(main, files, has_loader, relocate, follow, want_dump=want_dump)
        req = model_request(main, files, has_loader, relocate, follow, ztable)
        ex = dict(expect_view=expect_view, expect_err=expect_err, expect_sup=expect_sup,
                  expect_rejected=expect_rejected, expect_has=None if expect_has is None else list(expect_has))
        case['ex'] = {k: v for k, v in ex.items() if v}
        self.items.append((stream, case, obs, req, ex))
        return obs, dump

    def flush(self):
        ctx = self.ctx
        if not self.items:
            return
        replies = ctx.driver.ask_many([it[3] for it in self.items])
        for (stream, case, obs, req, ex), rep in zip(self.items, replies):
            if 'fatal' in rep:
                raise RuntimeError('driver: %s on %s' % (rep['fatal'], json.dumps(case)[:300]))
            judge(ctx, stream, case, obs, rep, ex)
        self.items = []


REJECT = ('elfError', 'elfCompressionError', 'assertion', 'elfParseError')


def property_failure(obs, ex):
    """None, or (expect, got) when the real code contradicts what the property prescribes for this case"""
    m = obs['model']
    if ex.get('expect_err') is not None:
        if m != {'err': ex['expect_err']}:
            return {'err': ex['expect_err']}, m
    if ex.get('expect_rejected'):
        if 'err' not in m or m['err'] not in REJECT:
            return {'err': 'one of %s' % (REJECT,)}, m
    if ex.get('expect_view') is not None:
        if 'ok' not in m or view_of(m['ok']) != ex['expect_view']:
            return {'view': ex['expect_view']}, ({'view': view_of(m['ok'])} if 'ok' in m else m)
    if ex.get('expect_sup') is not None:
        want = ex['expect_sup']
        got = None
        if 'ok' in m:
            got = 'absent' if m['ok']['sup'] is None else view_of(m['ok']['sup'])
        if got != want:
            return {'sup': want}, {'sup': got}
    if ex.get('expect_has') is not None:
        got = [obs['has'], obs['has_strict']]
        want = [{'ok': bool(ex['expect_has'][0])}, {'ok': bool(ex['expect_has'][1])}]
        if got != want:
            return {'has': want}, {'has': got}
    return None


def judge(ctx, stream, case, obs, rep, ex):
    out = ctx.out
    out.case({'stream': stream, 'case': case.get('id'), 'h': case['h']})
    out.count('outcome:%s:%s' % (stream, 'ok' if 'ok' in obs['model'] else obs['model']['err']))
    pf = property_failure(obs, ex)
    keys = ('model', 'has', 'has_strict', 'has_link', 'link')
    model = {k: rep.get(k) for k in keys}
    if pf is not None:
        out.violation('property', stream, case, expect=short(pf[0]), got=short(pf[1]), model=short(model.get('model')))
        return
    for k in keys:
        if obs.get(k) != model.get(k):
            out.violation('correspondence', stream, case, field=k, got=short(obs.get(k)), model=short(model.get(k)))
            return


def short(x):
    s = json.dumps(x, default=str)
    return x if len(s) < 1500 else s[:1500] + '...'


def file_case(label, main, files, has_loader, relocate, follow, **kw):
    """the replayable description of one evaluation: the images themselves"""
    c = {'id': label, 'main': hx(main), 'files': [[hx(n), hx(b)] for n, b in files.items()], 'has_loader': has_loader,
         'relocate': relocate, 'follow': follow}
    c.update(kw)
    c['h'] = hashlib.sha1((c['main'] + json.dumps(c['files']) + '%s%s%s' % (has_loader, relocate, follow)).encode()).hexdigest()[:16]
    return c


# --------------------------------------------------------------------------- stream: wrap
def corpus_paths():
    ps = sorted(glob.glob(os.path.join(TESTDIR, '*')) + glob.glob(os.path.join(READELFDIR, '*')))
    return [p for p in ps if os.path.isfile(p)]


def gather_payloads(ctx):
    rng = ctx.rng('payloads')
    out = []
    limit = ctx.budget(20_000, 700_000) if not ctx.search else 700_000
    for path in corpus_paths():
        if os.path.getsize(path) > 4_000_000:
            continue
        p = payload_from_file(path)
        if p is None or p.total() > limit:
            continue
        out.append(p)
    if ctx.tier == 'quick' and not ctx.search and len(out) > 40:
        # a deterministic sample (seeded), always keeping the files that carry links
        keep = [p for p in out if any(n in ('.gnu_debugaltlink', '.debug_sup') for n, *_ in p.sections) or 'debugsup' in p.label or 'altlink' in p.label]
        others = [p for p in out if p not in keep]
        rng.shuffle(others)
        out = keep + others[:40 - len(keep)]
        out.sort(key=lambda p: p.label)
    ctx.out.count('payload:corpus', len(out))
    n = ctx.budget(2, 12)
    for cls in (32, 64):
        for le in (True, False):
            for i in range(n):
                out.append(synth_payload(rng, cls, le, 'synth-%d-%s-%d' % (cls, 'le' if le else 'be', i)))
                ctx.out.count('payload:synth:%d:%s' % (cls, 'le' if le else 'be'))
    return out


def run_wrap(ctx):
    rng = ctx.rng('wrap')
    B = Builder(ctx)
    pend = Pending(ctx)
    payloads = gather_payloads(ctx)
    for p in payloads:
        if ctx.time_left() < 15:
            ctx.out.notes.append('wrap: time budget reached before payload %s' % p.label)
            break
        sv = spec_view(p)
        dumps = {}

        def ev(label, main, files=None, has_loader=False, follow=True, relocate=None, **kw):
            files = files or {}
            relocate = rng.random() < 0.5 if relocate is None else relocate
            case = file_case('%s/%s' % (p.label, label), main, files, has_loader, relocate, follow)
            obs, dump = pend.add('wrap', case, main, files, has_loader, relocate, follow, **kw)
            ctx.out.count('wrap:' + label.split(':')[0])
            return obs, dump, case

        # identity
        plain = B.plain(p)
        _, d0, c0 = ev('plain', plain, expect_view=sv, want_dump=True, expect_has=(True, any(n == '.debug_info' for n, *_ in p.sections)))
        ref = d0

        def same_dump(label, d, case, skip_eh=False):
            if ref is None or d is None:
                return
            for k in ('units', 'lines', 'cfi', 'eh'):
                if k == 'eh' and skip_eh:
                    continue
                if d[k] != ref[k]:
                    ctx.out.violation('property', 'wrap', dict(case, dump_field=k, ref={'main': hx(plain), 'files': [], 'has_loader': False}),
                                      expect={'dump': ref}, got={'dump': d}, model=None)
                    return
        # gABI, all sections, several levels
        levels = list(range(10)) if ctx.tier == 'thorough' else sorted(set([0, 9, rng.randrange(1, 9)]))
        for lv in levels:
            _, d, c = ev('gabi:all:L%d' % lv, B.gabi(p, lv), expect_view=sv, want_dump=(lv in (0, 9) or ctx.tier == 'thorough'))
            same_dump('gabi', d, c)
        # gABI on a random subset (mixed files)
        for _ in range(ctx.budget(1, 3)):
            sub = set(i for i in range(len(p.sections)) if rng.random() < 0.5)
            _, d, c = ev('gabi:subset', B.gabi(p, rng.randrange(10), subset=sub), expect_view=sv, want_dump=True)
            same_dump('gabi-subset', d, c)
        # legacy .zdebug: all .debug_* sections renamed and framed (payloads with link sections are left to the link cases)
        has_info = any(n == '.debug_info' for n, *_ in p.sections)
        linky = any(n in ('.gnu_debugaltlink', '.debug_sup') for n, *_ in p.sections)
        if has_info and not linky:
            for lv in (levels if ctx.tier == 'thorough' else [rng.randrange(10), 6]):
                _, d, c = ev('zdebug:L%d' % lv, B.zdebug(p, lv), expect_view=sv, want_dump=True)
                same_dump('zdebug', d, c)
        # separate debug file behind a CRC-checked link; the target itself in each encoding
        if has_info and not linky:
            fname = rng.choice([b'x.debug', b'ab', b'abc', b'abcd', b'abcde', b'dir/prog.debug', b'\xc3\xa9.dbg'])
            for tname, target in (('plain', plain), ('gabi', B.gabi(p, rng.randrange(10))),
                                  ('zdebug', B.zdebug(p, rng.randrange(10)) if not linky else None)):
                if target is None:
                    continue
                crc = binascii.crc32(target)
                stripped = B.plain(p, strip=True, extra=[('.gnu_debuglink', B.debuglink(p, fname, crc))])
                _, d, c = ev('debuglink:ok:' + tname, stripped, {fname: target}, has_loader=True, follow=True, expect_view=sv, want_dump=True)
                same_dump('debuglink', d, c)
                if tname != 'plain' and ctx.tier == 'quick':
                    continue
                bad = (crc ^ rng.choice([1, 0x80000000, 0xffffffff, 1 << rng.randrange(32)])) & 0xffffffff
                stripped_bad = B.plain(p, strip=True, extra=[('.gnu_debuglink', B.debuglink(p, fname, bad))])
                ev('debuglink:badcrc', stripped_bad, {fname: target}, has_loader=True, follow=True, expect_err='elfError')
                # no loader / follow_links=False: the stripped file's own (empty) view
                svs = spec_view(p, strip=True)
                ev('debuglink:noloader', stripped, {fname: target}, has_loader=False, follow=True, expect_view=svs,
                   expect_has=(any(n == '.eh_frame' for n, *_ in p.sections), False))
                ev('debuglink:nofollow', stripped, {fname: target}, has_loader=True, follow=False, expect_view=svs)
                # a file that has debug info AND a link: the link is not followed
                both = B.plain(p, extra=[('.gnu_debuglink', B.debuglink(p, fname, bad))])
                ev('debuglink:unstripped', both, {fname: target}, has_loader=True, follow=True, expect_view=sv)
        # supplementary file behind .gnu_debugaltlink / .debug_sup
        if has_info and not linky:
            sup = rng.choice([q for q in payloads if q.cls == p.cls and q.le == p.le])
            supsv = spec_view(sup)
            supname = rng.choice([b'sup.dwz', b'../.dwz/x', b's'])
            for sname, supimg in (('plain', B.plain(sup)), ('gabi', B.gabi(sup, rng.randrange(10)))):
                alt = ('.gnu_debugaltlink', B.altlink(supname, rnd_bytes(rng, 20)))
                dsup = ('.debug_sup', B.debugsup(p, 5, 0, supname, rnd_bytes(rng, rng.choice([0, 16, 20]))))
                for kind, extra in (('altlink', alt), ('debugsup', dsup)):
                    drop = ()
                    svx = [[kw, (v if nm != extra[0] else {'stream': {'b': extra[1].hex()}, 'size': len(extra[1]), 'address': 0})]
                           for (kw, v), (_, nm, _) in zip(sv, keywords())]
                    main = B.plain(p, extra=[extra]) if rng.random() < 0.5 else B.gabi(p, rng.randrange(10), extra=[extra])
                    supsv_linky = any(n in ('.gnu_debugaltlink', '.debug_sup') for n, *_ in sup.sections)
                    _, d, c = ev('%s:loader:%s' % (kind, sname), main, {supname: supimg}, has_loader=True, follow=True, expect_view=svx,
                                 expect_sup=supsv, want_dump=True)
                    same_dump(kind, d, c)
                    # the two transforms composed: the same debug file reached through a CRC-checked link from a stripped
                    # file — the target's own supplementary link must still be followed (the usual distro layout; a seeded
                    # follow_links=False in the recursive call was missed while each link kind was exercised alone)
                    lname = b'via.debug'
                    via = B.plain(p, strip=True, extra=[('.gnu_debuglink', B.debuglink(p, lname, binascii.crc32(main)))])
                    ev('%s:via-debuglink:%s' % (kind, sname), via, {lname: main, supname: supimg}, has_loader=True, follow=True,
                       expect_view=svx, expect_sup=supsv)
                    if kind == 'debugsup' and sname == 'plain':
                        # the whole chain in the legacy format (view_composed_links): stripped file -> debug link -> debug
                        # file stored as .zdebug_* (its .debug_sup framed and renamed with the rest) -> supplementary file
                        # stored as .zdebug_* where it can be
                        pz = Payload(p.label, p.cls, p.le, p.e_machine, p.e_type, p.e_flags, p.sections + [('.debug_sup', extra[1], 0, 1)])
                        main_z = B.zdebug(pz, rng.randrange(10))
                        sup_z_ok = not supsv_linky and any(n == '.debug_info' for n, *_ in sup.sections)
                        supz = B.zdebug(sup, rng.randrange(10)) if sup_z_ok else B.gabi(sup, rng.randrange(10))
                        via_z = B.plain(p, strip=True, extra=[('.gnu_debuglink', B.debuglink(p, lname, binascii.crc32(main_z)))])
                        ev('debugsup:via-debuglink:zdebug', via_z, {lname: main_z, supname: supz}, has_loader=True, follow=True,
                           expect_view=svx, expect_sup=supsv)
                        ctx.out.count('composed:zdebug-main:%s-sup' % ('zdebug' if sup_z_ok else 'gabi'))
                    ev('%s:noloader' % kind, main, {supname: supimg}, has_loader=False, follow=True, expect_view=svx, expect_sup='absent')
                    ev('%s:nofollow' % kind, main, {supname: supimg}, has_loader=True, follow=False, expect_view=svx, expect_sup='absent')
                if ctx.tier == 'quick':
                    break
        # a shipped main file that really refers into its supplementary file (DW_FORM_GNU_strp_alt / ref_alt, strp_sup ...):
        # the supplementary payload re-wrapped under each encoding; dumps of the MAIN file must not change
        if has_info and linky:
            supref = None
            try:
                from elftools.elf.elffile import ELFFile
                sp = ELFFile(io.BytesIO(plain)).get_dwarf_info(follow_links=False).parse_debugsupinfo()
                cand = [q for q in payloads if sp is not None and q.label == os.path.basename(bytes(sp)).decode('utf-8', 'replace')]
                supq = cand[0] if cand else None
            except Exception:       # noqa: BLE001
                sp, supq = None, None
            if supq is not None:
                suplinky = any(n in ('.gnu_debugaltlink', '.debug_sup') for n, *_ in supq.sections)
                for sname, supimg in (('plain', B.plain(supq)), ('gabi', B.gabi(supq, rng.randrange(10))),
                                      ('zdebug', None if suplinky else B.zdebug(supq, rng.randrange(10)))):
                    if supimg is None:
                        continue
                    main = plain if rng.random() < 0.5 else B.gabi(p, rng.randrange(10))
                    _, d, c = ev('corpus-sup:' + sname, main, {bytes(sp): supimg}, has_loader=True, follow=True, expect_view=sv,
                                 expect_sup=spec_view(supq), want_dump=True)
                    if supref is None:
                        supref, refcase = d, c
                    elif d is not None:
                        for k in ('units', 'lines', 'cfi', 'eh'):
                            if d[k] != supref[k]:
                                ctx.out.violation('property', 'wrap', dict(c, dump_field=k, ref={'main': refcase['main'], 'files': refcase['files'], 'has_loader': True}),
                                                  expect={'dump': supref}, got={'dump': d}, model=None)
                                break
        pend.flush()
    pend.flush()


# --------------------------------------------------------------------------- stream: corpus
def run_corpus(ctx):
    pend = Pending(ctx)
    rng = ctx.rng('corpus')
    limit = ctx.budget(36_000, 400_000)
    names = {}
    for path in corpus_paths():
        names[os.path.basename(path).encode()] = path
    for path in corpus_paths():
        if ctx.time_left() < 10:
            ctx.out.notes.append('corpus: time budget reached')
            break
        data = open(path, 'rb').read()
        if data[:4] != b'\x7fELF' or len(data) > limit:
            continue
        # the loader: sibling files of the corpus directory, by the names the links mention
        files = {}
        try:
            from elftools.elf.elffile import ELFFile
            ef = ELFFile(io.BytesIO(data))
            l = ef.get_dwarf_link()
            if l is not None and bytes(l.filename) in names:
                files[bytes(l.filename)] = open(names[bytes(l.filename)], 'rb').read()
            if ef.has_dwarf_info():
                sp = ef.get_dwarf_info(follow_links=False).parse_debugsupinfo()
                if sp is not None and os.path.basename(bytes(sp)) in names:
                    files[bytes(sp)] = open(names[os.path.basename(bytes(sp))], 'rb').read()
        except Exception:       # noqa: BLE001
            pass
        if sum(len(v) for v in files.values()) > limit:
            continue
        for has_loader, relocate, follow in ((True, True, True), (False, True, True), (True, False, False)):
            if not files and not has_loader:
                continue
            case = file_case('corpus/' + os.path.basename(path), data, files, has_loader, relocate, follow)
            pend.add('corpus', case, data, files, has_loader, relocate, follow)
            ctx.out.count('corpus')
        pend.flush()


# --------------------------------------------------------------------------- stream: bad
def run_bad(ctx):
    rng = ctx.rng('bad')
    B = Builder(ctx)
    pend = Pending(ctx)
    n = ctx.budget(6, 60)
    for it in range(n):
        if ctx.time_left() < 8:
            ctx.out.notes.append('bad: time budget reached')
            break
        cls, le = rng.choice([32, 64]), rng.random() < 0.5
        p = synth_payload(rng, cls, le, 'bad-%d' % it)
        victim = rng.randrange(len(p.sections))
        vlen = len(p.sections[victim][1])

        def ev(label, main, files=None, has_loader=False, follow=True, **kw):
            files = files or {}
            relocate = rng.random() < 0.5
            case = file_case('bad-%d/%s' % (it, label), main, files, has_loader, relocate, follow)
            pend.add('bad', case, main, files, has_loader, relocate, follow, **kw)
            ctx.out.count('bad:' + label.split(':')[0])

        # declared size disagrees with the inflated size — must be rejected, both formats
        wrongs = [vlen + 1, vlen + rng.randrange(2, 1000), 2 * vlen + 7]
        if vlen >= 1:
            wrongs += [vlen - 1, 0, rng.randrange(0, vlen)]
        for w in sorted(set(x for x in wrongs if x != vlen)):
            ev('gabi-size:%+d' % (w - vlen), B.gabi(p, rng.randrange(10), declared=lambda i, n, w=w: w if i == victim else n), expect_rejected=True)
            zi = [i for i, s in enumerate(p.sections) if s[0] == '.debug_info'][0]
            il = len(p.sections[zi][1])
            w2 = w if w != il else w + 1
            ev('zdebug-size:%+d' % (w2 - il), B.zdebug(p, rng.randrange(10), declared=lambda i, n, w2=w2: w2 if i == zi else n), expect_rejected=True)
        # other container damage: model == code
        ev('gabi-type:int', B.gabi(p, 6, ch_type=rng.choice([0, 2, 3, 0x12345678])))
        ev('gabi-type:named', B.gabi(p, 6, ch_type=rng.choice([0x60000000, 0x6fffffff, 0x70000000, 0x7fffffff])))

        def mangler(kind):
            def f(i, w):
                if p.sections[i][0] != '.debug_info':
                    return w
                if kind == 'magic':
                    return bytes([w[0] ^ 0x20]) + w[1:]
                if kind == 'short':
                    return w[:rng.choice([0, 3, 4, 11, 12])]
                if kind == 'trunc':
                    return w[:rng.randrange(13, max(14, len(w)))]
                if kind == 'flip':
                    j = rng.randrange(12, len(w))
                    return w[:j] + bytes([w[j] ^ (1 << rng.randrange(8))]) + w[j + 1:]
                if kind == 'trail':
                    return w + rnd_bytes(rng, rng.choice([1, 5, 5000]))
                return w
            return f
        for kind in ('magic', 'short', 'trunc', 'flip', 'trail'):
            ev('zdebug-damage:' + kind, B.zdebug(p, rng.randrange(10), mangle=mangler(kind)))
        # gABI stream damage: truncate / flip / trailing bytes inside the file image
        good = B.gabi(p, rng.randrange(1, 10))
        for kind in ('flip', 'cut'):
            img = bytearray(good)
            if kind == 'flip':
                for _ in range(rng.choice([1, 3])):
                    j = rng.randrange(64, len(img))
                    img[j] ^= 1 << rng.randrange(8)
            else:
                img = img[:rng.randrange(64, len(img))]
            ev('gabi-damage:' + kind, bytes(img))
        # links
        target = B.plain(p)
        crc = binascii.crc32(target)
        fname = rng.choice([b'a', b'ab', b'abc', b'abcd', b'abcdefg'])
        dl = B.debuglink(p, fname, crc)
        pad = 3 - len(fname) % 4
        variants = {'missing-file': (dl, {}), 'truncated': (dl[:rng.randrange(0, len(dl))], {fname: target}),
                    'empty-name': (B.debuglink(p, b'', crc), {b'': target}),
                    'self-crc-of-other': (B.debuglink(p, fname, binascii.crc32(target + b'x')), {fname: target})}
        if pad:
            d2 = bytearray(dl)
            d2[len(fname) + 1 + rng.randrange(pad)] = rng.randrange(1, 256)
            variants['nonzero-pad'] = (bytes(d2), {fname: target})
        for k, (body, files) in variants.items():
            # the link section is the last one before .shstrtab so that a truncated body still lies inside the file
            ev('debuglink:' + k, B.plain(p, strip=True, extra=[('.gnu_debuglink', body)]), files, has_loader=True,
               expect_err='elfError' if k == 'self-crc-of-other' else None)
        # a target that is not an ELF file / is itself damaged
        junk = rnd_bytes(rng, 40)
        ev('debuglink:junk-target', B.plain(p, strip=True, extra=[('.gnu_debuglink', B.debuglink(p, fname, binascii.crc32(junk)))]),
           {fname: junk}, has_loader=True)
        # supplementary links: truncated / supplementary flag set / both present / missing file
        supn = b'sup'
        alt = B.altlink(supn, rnd_bytes(rng, 20))
        ds0 = B.debugsup(p, 5, 0, supn, b'')
        ds1 = B.debugsup(p, 5, 1, supn, b'')
        supimg = B.plain(synth_payload(rng, cls, le, 'sup'))
        for k, extra, files in (('alt-trunc', [('.gnu_debugaltlink', alt[:rng.randrange(0, len(alt))])], {supn: supimg}),
                                ('sup-trunc', [('.debug_sup', ds0[:rng.randrange(0, len(ds0))])], {supn: supimg}),
                                ('sup-is-supplementary', [('.debug_sup', ds1)], {supn: supimg}),
                                ('sup1-then-alt', [('.debug_sup', ds1), ('.gnu_debugaltlink', alt)], {supn: supimg}),
                                ('sup0-and-alt', [('.debug_sup', ds0), ('.gnu_debugaltlink', B.altlink(b'other', bytes(20)))], {supn: supimg}),
                                ('missing', [('.gnu_debugaltlink', alt)], {}),
                                ('junk-sup', [('.gnu_debugaltlink', alt)], {supn: junk})):
            ev('suplink:' + k, B.plain(p, extra=extra), files, has_loader=True)
        # phantom-byte machine (EM_DSPIC30F, flag clear): every other byte, also under compression
        q = Payload('phantom', 32, True, 118, EB.ET_EXEC, rng.choice([0, 0x80000000, 1]), p.sections) if cls == 32 and le else None
        if q is not None:
            ev('phantom:plain', B.plain(q))
            ev('phantom:gabi', B.gabi(q, 6))
            ev('phantom:zdebug', B.zdebug(q, 6))
        pend.flush()
    pend.flush()



# --------------------------------------------------------------------------- stream: reloc
EM_NUM = {'x86': 3, 'mips': 8, 'ppc64': 21, 's390': 22, 'arm': 40, 'x64': 62, 'aarch64': 183, 'riscv': 243, 'bpf': 247,
          'loongarch': 258, 'sparc': 2}
RELOC_LISTED = ['x86', 'x64', 'arm', 'aarch64', 'mips', 'ppc64', 's390', 'loongarch']
RELOC_NATURAL_RELA = {'x86': False, 'arm': False, 'x64': True, 'aarch64': True, 'ppc64': True, 's390': True, 'loongarch': True}
RELOC_TYPES = {'x86': [0, 1, 2], 'x64': [0, 1, 2, 10, 11], 'arm': [2, 2, 2], 'aarch64': [257, 258, 261], 'mips': [0, 2, 18],
               'ppc64': [1, 26, 38], 's390': [4, 5, 22], 'loongarch': [0, 1, 2, 47, 48, 50, 51, 52, 53, 55, 56, 99, 109]}
RELOC_TYPE_POOL = [0, 1, 2, 4, 5, 10, 11, 18, 22, 26, 38, 47, 50, 56, 99, 109, 257, 258, 261, 3, 49, 255]


def gen_reloc_case(rng, it):
    """(payload, machine name, rela, {logical section name: [entries]}, symbol values)"""
    mname = rng.choice(RELOC_LISTED) if rng.random() < 0.94 else rng.choice(['riscv', 'bpf', 'sparc'])
    if mname == 'mips':
        rela, cls = rng.random() < 0.5, rng.choice([32, 64])
    else:
        rela = RELOC_NATURAL_RELA.get(mname, True)
        if rng.random() < 0.08:
            rela = not rela
        cls = {'x86': 32, 'arm': 32, 'aarch64': 64, 'ppc64': 64, 'x64': 64}.get(mname, rng.choice([32, 64]))
    le = rng.random() < 0.5
    q = synth_payload(rng, cls, le, 'reloc-%d' % it)
    p = Payload('reloc-%d-%s' % (it, mname), cls, le, EM_NUM[mname], EB.ET_REL, 0, q.sections)
    nsyms = rng.choice([1, 2, 3, 5])
    syms = [0] + [rnd_uint(rng, cls) for _ in range(nsyms - 1)]
    cands = [(n, b) for n, b, _, _ in p.sections if n.startswith('.debug_') and len(b) >= 9]
    rng.shuffle(cands)
    targets = {}
    for name, body in cands[:rng.choice([1, 1, 2, 3])]:
        ents = []
        for _ in range(rng.choice([0, 1, 1, 2, 3, 6])):
            t = rng.choice(RELOC_TYPES.get(mname, RELOC_TYPE_POOL)) if rng.random() < 0.93 else rng.choice(RELOC_TYPE_POOL)
            if cls == 32:
                t &= 0xff
            r = rng.random()
            if r < 0.86:
                off = rng.randrange(0, len(body) - 7)
            elif r < 0.975:
                off = len(body) - rng.choice([8, 8, 8, 8, 4])
            else:
                off = rng.choice([len(body), len(body) + 1, rnd_uint(rng, cls)])
            sym = rng.randrange(0, nsyms) if rng.random() < 0.95 else rng.choice([nsyms, nsyms + 1, 0xffffff])
            e = {'offset': off, 'sym': sym, 'type': t}
            if rela:
                a = rnd_uint(rng, cls - 1)
                e['addend'] = a if rng.random() < 0.5 else -a
            if cls == 64 and mname == 'mips' and rng.random() < 0.1:
                e['type2'], e['type3'], e['ssym'] = rng.choice([0, 1]), rng.choice([0, 0, 7]), rng.choice([0, 0, 3])
            ents.append(e)
        targets[name] = ents
    return p, mname, rela, targets, syms


def run_reloc(ctx):
    rng = ctx.rng('reloc')
    B = Builder(ctx)
    pend = Pending(ctx)
    n = ctx.budget(36, 400)
    for it in range(n):
        if ctx.time_left() < 10:
            ctx.out.notes.append('reloc: time budget reached at case %d' % it)
            break
        p, mname, rela, targets, syms = gen_reloc_case(rng, it)
        by = {name: body for name, body, _, _ in p.sections}
        reqs = [{'p': 'C11', 'k': 'wrap', 'what': 'reloc', 'le': p.le, 'cls': p.cls, 'machine': p.e_machine, 'rela': rela,
                 'relocs': ents, 'syms': syms, 'section': hx(by[name])} for name, ents in targets.items()]
        reps = ctx.driver.ask_many(reqs)
        for r in reps:
            if 'fatal' in r or 'relbytes' not in r:
                raise RuntimeError('driver: %r' % (r,))
        rel = {'rela': rela, 'symbytes': bytes.fromhex(reps[0]['symbytes']), 'symentsize': reps[0]['symentsize'],
               'relentsize': reps[0]['relentsize'],
               'targets': {name: bytes.fromhex(r['relbytes']) for name, r in zip(targets, reps)}}
        wf = all(r['wf'] for r in reps)
        rejected = any(r['relocated'] is None for r in reps)
        # what the property prescribes: relocated logical content (relocate on), content as written (off)
        sv_off = spec_view(p)
        sv_on = None
        if wf and not rejected:
            q = Payload(p.label, p.cls, p.le, p.e_machine, p.e_type, p.e_flags,
                        [(name, bytes.fromhex(reps[list(targets).index(name)]['relocated']) if name in targets else body, addr, al)
                         for name, body, addr, al in p.sections])
            sv_on = spec_view(q)
        res = 'notwf' if not wf else 'rejected' if rejected else 'relocated'
        variants = [('plain', None), ('gabi', None), ('zdebug', None)]
        if rng.random() < 0.5:
            variants.append(('gabi', set(i for i in range(len(p.sections)) if rng.random() < 0.5)))
        for mode, subset in variants:
            level = rng.randrange(10)
            main = B.reloc_image(p, mode, level, rel, subset=subset, decoy=rng.random() < 0.4, rel_first=rng.random() < 0.4,
                                 sym_first=rng.random() < 0.5)
            tag = mode + ('-subset' if subset is not None else '')
            for relocate in (True, False):
                case = file_case('%s/%s:%s' % (p.label, tag, 'on' if relocate else 'off'), main, {}, False, relocate, True)
                kw = {}
                if not relocate:
                    kw['expect_view'] = sv_off
                elif wf and rejected:
                    kw['expect_err'] = 'elfRelocError'
                elif wf:
                    kw['expect_view'] = sv_on
                pend.add('reloc', case, main, {}, False, relocate, True, **kw)
                ctx.out.count('reloc:%s:%s:%s:%s' % (mname, 'rela' if rela else 'rel', tag, res if relocate else 'norelocate'))
        pend.flush()
    pend.flush()


def raw_sections(data):
    """[(name, type, flags, addr, offset, size, link, info, addralign, entsize)] and e_shstrndx, straight from the bytes"""
    cls, le, _, _, _ = raw_header_fields(data)
    E = '<' if le else '>'
    if cls == 32:
        shoff = struct.unpack_from(E + 'I', data, 32)[0]
        shentsize, shnum, shstrndx = struct.unpack_from(E + 'HHH', data, 46)
        hs = [struct.unpack_from(E + '10I', data, shoff + i * shentsize) for i in range(shnum)]
    else:
        shoff = struct.unpack_from(E + 'Q', data, 40)[0]
        shentsize, shnum, shstrndx = struct.unpack_from(E + 'HHH', data, 58)
        hs = [struct.unpack_from(E + 'IIQQQQIIQQ', data, shoff + i * shentsize) for i in range(shnum)]
    if shnum == 0 or shnum >= 0xff00 or shstrndx >= shnum:
        return None, None
    stro = hs[shstrndx][4]
    out = []
    for h in hs:
        end = data.index(b'\0', stro + h[0])
        out.append((data[stro + h[0]:end].decode('utf-8'),) + tuple(h[1:]))
    return out, shstrndx


def relobj_rewrap(B, data, mode, level, subset_rng=None):
    """A shipped relocatable object re-assembled section by section (headers copied, section indices remapped for the
    new position of .shstrtab), with its .debug_* sections stored under `mode`; a relocation section that targets a
    renamed section is renamed with it.  None when the object cannot be represented under `mode`."""
    from elftools.elf.elffile import ELFFile
    cls, le, e_machine, e_type, e_flags = raw_header_fields(data)
    secs, shstrndx = raw_sections(data)
    if secs is None:
        return None
    ef = ELFFile(io.BytesIO(data))
    kept = [i for i in range(1, len(secs)) if i != shstrndx]
    newidx = {0: 0, shstrndx: len(kept) + 1}
    for j, i in enumerate(kept):
        newidx[i] = j + 1
    names = [s[0] for s in secs]
    if mode == 'zdebug' and '.debug_info' not in names:
        return None
    # logical contents of the debug sections that get (re)encoded
    todo = {}
    for i in kept:
        name, ty, flags = secs[i][0], secs[i][1], secs[i][2]
        if not name.startswith('.debug_') or ty != EB.SHT_PROGBITS:
            continue
        if mode == 'gabi' and not (flags & EB.SHF_COMPRESSED) and (subset_rng is None or subset_rng.random() < 0.5):
            todo[i] = data[secs[i][4]:secs[i][4] + secs[i][5]]
        elif mode == 'zdebug':
            todo[i] = ef.get_section(i).data() if flags & EB.SHF_COMPRESSED else data[secs[i][4]:secs[i][4] + secs[i][5]]
    reqs = []
    for i, body in todo.items():
        deflated = zlib.compress(body, level)
        check_roundtrip(body, deflated)
        if mode == 'gabi':
            reqs.append({'p': 'C11', 'k': 'wrap', 'what': 'gabi', 'cls': cls, 'le': le, 'size': len(body), 'align': secs[i][8],
                         'deflated': hx(deflated)})
        else:
            reqs.append({'p': 'C11', 'k': 'wrap', 'what': 'zdebug', 'size': len(body), 'name': hx(secs[i][0].encode()),
                         'deflated': hx(deflated)})
    wrapped = dict(zip(todo, lean_wrap(B.ctx, reqs))) if reqs else {}
    img = EB.ElfImage(cls=cls, le=le, e_type=e_type, e_machine=e_machine, e_flags=e_flags)
    for i in kept:
        name, ty, flags, addr, off, size, link, info, al, entsize = secs[i]
        body = b'' if ty == EB.SHT_NOBITS else data[off:off + size]
        if i in wrapped:
            body = bytes.fromhex(wrapped[i]['bytes'])
            if mode == 'gabi':
                flags |= EB.SHF_COMPRESSED
                al = 8 if cls == 64 else 4
            else:
                name = bytes.fromhex(wrapped[i]['name']).decode()
                flags &= ~EB.SHF_COMPRESSED
        elif mode == 'zdebug' and ty in (EB.SHT_REL, EB.SHT_RELA):
            for pfx in ('.rela', '.rel'):
                if name.startswith(pfx + '.debug_'):
                    name = pfx + '.z' + name[len(pfx) + 1:]
                    break
        if ty in (EB.SHT_REL, EB.SHT_RELA) or flags & 0x40:
            info = newidx.get(info, info)
        got = img.add_section(name, ty, data=body, flags=flags, addr=addr, link=newidx.get(link, link), info=info,
                              addralign=al, entsize=entsize, size=size if ty == EB.SHT_NOBITS else None)
        assert got == newidx[i]
    return img.build()


def run_relobj(ctx):
    """shipped ET_REL objects with relocations against their debug sections, re-stored under every encoding"""
    from elftools.elf.elffile import ELFFile
    rng = ctx.rng('relobj')
    B = Builder(ctx)
    pend = Pending(ctx)
    limit = ctx.budget(16_000, 400_000)
    for path in corpus_paths():
        if ctx.time_left() < 10:
            ctx.out.notes.append('relobj: time budget reached')
            break
        if os.path.getsize(path) > limit:
            continue
        data = open(path, 'rb').read()
        if data[:4] != b'\x7fELF':
            continue
        ref = {}
        try:
            if raw_header_fields(data)[3] != EB.ET_REL:
                continue
            secs, _ = raw_sections(data)
            if secs is None or not any(s[1] in (EB.SHT_REL, EB.SHT_RELA) and '.debug_' in s[0] for s in secs):
                continue
            for relocate in (True, False):
                di = ELFFile(io.BytesIO(data)).get_dwarf_info(relocate_dwarf_sections=relocate, follow_links=False)
                ref[relocate] = view_of(info_json(di))
        except Exception:       # noqa: BLE001
            continue            # objects the library itself cannot read are the corpus stream's business
        label = os.path.basename(path)
        modes = [('plain', None), ('gabi', None), ('gabi', rng), ('zdebug', None)]
        if ctx.tier == 'quick' and not ctx.search:
            # the identity re-assembly (a check of the re-assembler more than of the reader) on a third of the objects,
            # one of the two gABI variants
            modes = ([('plain', None)] if rng.random() < 0.34 else []) + [rng.choice([('gabi', None), ('gabi', rng)]), ('zdebug', None)]
        for mode, sub in modes:
            main = relobj_rewrap(B, data, mode, rng.randrange(10), subset_rng=sub)
            if main is None:
                continue
            tag = mode + ('-subset' if sub is not None else '')
            for relocate in (True, False):
                case = file_case('relobj/%s/%s:%s' % (label, tag, 'on' if relocate else 'off'), main, {}, False, relocate, False)
                pend.add('reloc', case, main, {}, False, relocate, False, expect_view=ref[relocate])
                ctx.out.count('relobj:%s:%s' % (tag, 'on' if relocate else 'off'))
        pend.flush()
    pend.flush()

# --------------------------------------------------------------------------- stream: has
def run_has(ctx):
    rng = ctx.rng('has')
    pend = Pending(ctx)
    pool = ['.debug_info', '.zdebug_info', '.eh_frame', '.debug_abbrev', '.gnu_debuglink']
    for mask in range(1 << len(pool)):
        for cls, le in ((32, True), (64, False)) if ctx.tier == 'quick' else ((32, True), (32, False), (64, True), (64, False)):
            img = EB.ElfImage(cls=cls, le=le, e_type=EB.ET_EXEC, e_machine=EB.EM_386 if cls == 32 else EB.EM_X86_64)
            present = [n for i, n in enumerate(pool) if mask >> i & 1]
            rng.shuffle(present)
            for n in present:
                img.add_section(n, EB.SHT_PROGBITS, data=b'')
            if rng.random() < 0.3:
                img.no_section_headers = True
                present = []
            main = img.build()
            nonstrict = any(n in present for n in ('.debug_info', '.zdebug_info', '.eh_frame'))
            strict = any(n in present for n in ('.debug_info', '.zdebug_info'))
            case = file_case('has/%d/%d%s' % (mask, cls, 'le' if le else 'be'), main, {}, False, False, False, present=present)
            pend.add('has', case, main, {}, False, False, False, expect_has=(nonstrict, strict))
            ctx.out.count('has')
    pend.flush()


def run(ctx):
    import time
    for fn in (run_has, run_bad, run_reloc, run_relobj, run_corpus, run_wrap):
        t0 = time.time()
        fn(ctx)
        ctx.out.notes.append('%s: %.1fs' % (fn.__name__, time.time() - t0))
    for k, v in sorted(CRC_STATS.items()):
        ctx.out.count(k, v)


# --------------------------------------------------------------------------- replay
def replay(ctx, payload):
    v = payload['violation']
    case = v['case']
    main = bytes.fromhex(case['main'])
    files = {bytes.fromhex(n): bytes.fromhex(b) for n, b in case['files']}
    obs, ztable, dump = run_real(main, files, case['has_loader'], case['relocate'], case['follow'], want_dump='dump_field' in case)
    rep = ctx.driver.ask(model_request(main, files, case['has_loader'], case['relocate'], case['follow'], ztable))
    res = {'stream': v['stream'], 'id': case.get('id'), 'impl': short(obs), 'model': short({k: rep.get(k) for k in ('model', 'has', 'has_strict', 'has_link', 'link')})}
    fails = False
    if v['kind'] == 'property':
        if 'dump_field' in case:
            rf = case['ref']
            _, _, ref = run_real(bytes.fromhex(rf['main']), {bytes.fromhex(n): bytes.fromhex(b) for n, b in rf['files']}, rf['has_loader'],
                                 case['relocate'], True, want_dump=True)
            fails = dump is None or ref is None or dump[case['dump_field']] != ref[case['dump_field']]
            res.update(dump=dump, plain_dump=ref)
        else:
            pf = property_failure(obs, dict(case.get('ex') or {}))
            fails = pf is not None
            res.update(expect=short(pf[0]) if pf else None, got=short(pf[1]) if pf else None)
    else:
        fails = any(obs.get(k) != rep.get(k) for k in ('model', 'has', 'has_strict', 'has_link', 'link'))
    res['fails'] = fails
    return res
