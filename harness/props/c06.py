"""C06 — call-frame information (.debug_frame / .eh_frame).  Streams:

  sec    : abstract section (CIEs, FDEs, zero terminators, instruction lists) → Lean *spec assembler* → bytes →
           the real library through DWARFInfo.CFI_entries / EH_CFI_entries and CFIEntry.get_decoded(); compared
           with the observation the Spec prescribes (entry kinds, order, headers, augmentation, pointers, FDE→CIE
           link, instruction split, DWARF §6.4 table) = property, and with the hand-written model run on the same
           bytes with the regenerated tables/structs = correspondence (this one includes reg_order and dict key order)
  instrs : instruction lists alone, with arbitrary bytes before and after → CallFrameInfo._parse_instructions
  raw    : well-formed sections damaged by byte edits / truncation → library vs model, errors included
  bad    : the malformed classes the property names, made from `sec` cases by STRUCTURED damage with a predicted outcome
           (theorems `bad_*`): unknown opcode appended inside the last entry → DWARFError; length field of the last entry
           claiming more than the data → ELFParseError; data cut inside the last entry's instructions → ELFParseError;
           CIE pointer out of range → ELFParseError (.debug_frame) / ValueError (.eh_frame); CIE pointer designating another
           FDE → accepted, `fde.cie` is that FDE; 'z' of a CIE augmentation replaced → AssertionError; a later augmentation
           letter replaced by an unknown one (CIE-only sections) → the letters before it decide `augmentation_dict`;
           every case also library == model
  setloc : `.eh_frame` instruction lists with DW_CFA_set_loc as the LSB encodes them (operand under the FDE pointer encoding;
           Spec/CFIEhSetLoc.lean) → library vs model on every case; under plain absptr the split must be the Spec's
           (`set_loc_eh_absptr`); in the excluded class with an operand as wide as an address the opcodes must be the LSB's
           and every set_loc operand the raw unsigned field (`set_loc_reads_target_addr`); other widths: the known finding
           eh-set-loc-encoding manifests (counted, never reported)
  file   : whole ELF files (elfbuild) carrying a `.debug_frame` and/or an `.eh_frame` of the `sec` stream — stored plainly,
           gABI-compressed (SHF_COMPRESSED + Elf_Chdr) or, for `.debug_frame` in a file with `.zdebug_info`, in the legacy
           `.zdebug_frame` framing; `sh_addr` = the section address; decoy sections of the same name before the real one —
           through ELFFile(BytesIO(bytes)).get_dwarf_info().has_CFI/has_EH_CFI/CFI_entries/EH_CFI_entries (in varying
           order on ONE DWARFInfo), compared with the Spec observation (= property, `cfi_entries_of_file`,
           `eh_cfi_entries_of_file`, `has_cfi_of_file`) and with the composed model `fileCfiEntries` … run on the file
           bytes with the regenerated bundles (= correspondence); zlib is an oracle table recorded from the run
"""
import io, struct, zlib
from common import run_impl, canon, hx, rnd_uint, rnd_bytes, BOUNDARY

RULE = ('sec: 1-12 entries (quick: 1-7), .debug_frame (CIE v1/3/4, DWARF32/64, any order incl. FDE before its CIE) or .eh_frame '
        '(augmentation "" or z+permutation of a subset of RLPS, 9 base encodings x {abs,pcrel}, LSDA omit, personality with '
        'indirect bit, zero terminators anywhere), both byte orders, address size 4/8, section address from boundary pool; '
        'instruction lists of 0-60 over all 28 opcodes, LEB operands with 0-2 padding bytes and boundary values, alignment '
        'factors incl. 0, negative and > 2^32, mostly state-valid sequences plus a share of invalid ones (put aside for the '
        'table only); raw: 1-3 byte edits or truncation of sec cases. Non-trivial = distinct (section bytes, kind, address).')
ASSUMPTIONS = ['io.BytesIO read/seek/tell semantics', 'struct.unpack for <>BHIQbhiq', 'copy.copy / copy.deepcopy of dicts of immutable-by-convention rule objects',
               'Python dict insertion order']

BASES = [0x00, 0x01, 0x02, 0x03, 0x04, 0x09, 0x0a, 0x0b, 0x0c]


# ----------------------------------------------------------------------------- running the real library
def make_dwarfinfo(data, eh, le, asz, address, size=None):
    from elftools.dwarf.dwarfinfo import DWARFInfo, DebugSectionDescriptor, DwarfConfig
    d = DebugSectionDescriptor(io.BytesIO(data), '.eh_frame' if eh else '.debug_frame', 0,
                               len(data) if size is None else size, address)
    kw = dict(debug_info_sec=None, debug_aranges_sec=None, debug_abbrev_sec=None, debug_frame_sec=None, eh_frame_sec=None,
              debug_str_sec=None, debug_loc_sec=None, debug_ranges_sec=None, debug_line_sec=None, debug_pubtypes_sec=None,
              debug_pubnames_sec=None, debug_addr_sec=None, debug_str_offsets_sec=None, debug_line_str_sec=None,
              debug_loclists_sec=None, debug_rnglists_sec=None, debug_sup_sec=None, gnu_debugaltlink_sec=None,
              debug_types_sec=None)
    kw['eh_frame_sec' if eh else 'debug_frame_sec'] = d
    return DWARFInfo(config=DwarfConfig(little_endian=le, machine_arch='x64', default_address_size=asz), **kw)


def rec(pairs):
    return {'r': [[k, v] for k, v in pairs]}


def canon_table(e):
    """(table in canonical form, pyelftools-specific orders)"""
    try:
        t = e.get_decoded()
    except Exception as ex:      # noqa: BLE001
        from common import classify_exception
        return rec([('err', classify_exception(ex))]), None
    rows, keys = [], []
    for line in t.table:
        regs = [(k, v) for k, v in line.items() if not isinstance(k, str)]
        c = line['cfa']
        rows.append(rec([('pc', line['pc']), ('cfa', [canon(c.reg), canon(c.offset), canon(c.expr)]),
                         ('regs', [[k, [v.type, canon(v.arg)]] for k, v in sorted(regs, key=lambda kv: kv[0])])]))
        keys.append([k for k, _ in regs])
    return rows, [list(t.reg_order), keys]


def canon_entry(e):
    from elftools.dwarf.callframe import CIE, FDE, ZERO
    if isinstance(e, ZERO):
        return rec([('kind', 'ZERO'), ('offset', e.offset)])
    ins = [[i.opcode, [canon(a) for a in i.args]] for i in e.instructions]
    table, order = canon_table(e)
    if isinstance(e, CIE):
        ad = rec([('True' if k is True else k, canon(v)) for k, v in e.augmentation_dict.items()])
        return rec([('kind', 'CIE'), ('offset', e.offset), ('header', canon(e.header)), ('aug_bytes', canon(e.augmentation_bytes)),
                    ('aug_dict', ad), ('instructions', ins), ('table', table), ('order', order)])
    assert isinstance(e, FDE)
    return rec([('kind', 'FDE'), ('offset', e.offset), ('header', canon(e.header)), ('cie', e.cie.offset),
                ('aug_bytes', canon(e.augmentation_bytes)), ('lsda_pointer', e.lsda_pointer), ('instructions', ins),
                ('table', table), ('order', order)])


def impl_section(data, eh, le, asz, address, size=None):
    di = make_dwarfinfo(data, eh, le, asz, address, size)
    es = di.EH_CFI_entries() if eh else di.CFI_entries()
    return [canon_entry(e) for e in es]


def strip_order(entries, expect=None):
    """drop the pyelftools-specific 'order' field; where the Spec gives no table (program not valid per §6.4) drop the table too"""
    out = []
    for i, e in enumerate(entries):
        pairs = [list(p) for p in e['r'] if p[0] != 'order']
        if expect is not None and i < len(expect):
            ex = dict((k, v) for k, v in expect[i]['r'])
            if 'table' in ex and ex['table'] is None:
                pairs = [[k, (None if k == 'table' else v)] for k, v in pairs]
        out.append({'r': pairs})
    return out


# ----------------------------------------------------------------------------- generators
def minlen_u(v):
    return max(1, (v.bit_length() + 6) // 7)


def minlen_s(v):
    n = 1
    while not (-(1 << (7 * n - 1)) <= v < (1 << (7 * n - 1))):
        n += 1
    return n


PAD = [0, 0, 0, 0, 1, 2]


def g_uleb(rng, bits=None):
    v = rnd_uint(rng, bits or rng.choice([3, 6, 7, 8, 14, 32, 64]))
    return [minlen_u(v) + rng.choice(PAD), v]


def g_sleb(rng):
    bits = rng.choice([4, 7, 8, 14, 32, 64])
    v = rnd_uint(rng, bits) - (1 << (bits - 1)) if rng.random() < 0.8 else rng.choice([0, -1, 1, -64, 63, 64, -65, -8, -4, 8])
    return [minlen_s(v) + rng.choice(PAD), v]


def g_reg(rng):
    r = rng.random()
    if r < 0.8:
        v = rng.randrange(0, 18)
    elif r < 0.95:
        v = rng.choice([31, 32, 63, 64, 65, 127, 128, 129, 255, 256, 1000])
    else:
        v = rnd_uint(rng, 32)
    return [minlen_u(v) + rng.choice(PAD), v]


def g_block(rng):
    ln = rng.choice([0, 1, 1, 2, 3, 5, 9, 127, 128, 130]) if rng.random() < 0.9 else rng.randrange(0, 400)
    return [minlen_u(ln) + rng.choice(PAD), hx(rnd_bytes(rng, ln))]


OPS = ['advance_loc', 'offset', 'restore', 'nop', 'set_loc', 'advance_loc1', 'advance_loc2', 'advance_loc4', 'offset_extended',
       'restore_extended', 'undefined', 'same_value', 'register', 'remember_state', 'restore_state', 'def_cfa',
       'def_cfa_register', 'def_cfa_offset', 'def_cfa_expression', 'expression', 'offset_extended_sf', 'def_cfa_sf',
       'def_cfa_offset_sf', 'val_offset', 'val_offset_sf', 'val_expression', 'negate_ra_state', 'gnu_args_size']


class PState:
    """what a generator must know to keep a program valid per §6.4.2"""

    def __init__(self, regoff=False):
        self.regoff = regoff
        self.stack = []


def g_instr(rng, asz, st, in_fde, allow_set_loc, sloppy):
    while True:
        m = rng.choice(OPS)
        if not sloppy:
            if m in ('def_cfa_register', 'def_cfa_offset', 'def_cfa_offset_sf') and not st.regoff:
                continue
            if m == 'restore_state' and not st.stack:
                continue
            if m in ('restore', 'restore_extended') and not in_fde:
                continue
            if m in ('advance_loc', 'advance_loc1', 'advance_loc2', 'advance_loc4', 'set_loc') and not in_fde and rng.random() < 0.9:
                continue
        if m == 'set_loc' and not allow_set_loc:
            continue
        break
    if m == 'advance_loc': return [m, rng.choice([0, 1, 2, 4, 8, 62, 63, rng.randrange(64)])]
    if m == 'offset': return [m, rng.randrange(64), g_uleb(rng)]
    if m == 'restore': return [m, rng.randrange(64) if rng.random() < 0.5 else rng.randrange(18)]
    if m in ('nop', 'negate_ra_state'): return [m]
    if m == 'remember_state':
        st.stack.append(st.regoff)
        return [m]
    if m == 'restore_state':
        if st.stack:
            st.regoff = st.stack.pop()
        return [m]
    if m == 'set_loc': return [m, rnd_uint(rng, 8 * asz)]
    if m == 'advance_loc1': return [m, rnd_uint(rng, 8)]
    if m == 'advance_loc2': return [m, rnd_uint(rng, 16)]
    if m == 'advance_loc4': return [m, rnd_uint(rng, 32)]
    if m in ('offset_extended', 'val_offset'): return [m, g_reg(rng), g_uleb(rng)]
    if m == 'register': return [m, g_reg(rng), g_reg(rng)]
    if m == 'def_cfa':
        st.regoff = True
        return [m, g_reg(rng), g_uleb(rng)]
    if m in ('restore_extended', 'undefined', 'same_value', 'def_cfa_register'): return [m, g_reg(rng)]
    if m in ('def_cfa_offset', 'gnu_args_size'): return [m, g_uleb(rng)]
    if m == 'def_cfa_expression':
        st.regoff = False
        return [m, g_block(rng)]
    if m in ('expression', 'val_expression'): return [m, g_reg(rng), g_block(rng)]
    if m in ('offset_extended_sf', 'val_offset_sf'): return [m, g_reg(rng), g_sleb(rng)]
    if m == 'def_cfa_sf':
        st.regoff = True
        return [m, g_reg(rng), g_sleb(rng)]
    if m == 'def_cfa_offset_sf': return [m, g_sleb(rng)]
    raise KeyError(m)


def g_instrs(rng, asz, st, in_fde, allow_set_loc, maxlen):
    n = rng.choice([0, 1, 2, 3, 5, 8, 13]) if rng.random() < 0.7 else rng.randrange(0, maxlen + 1)
    sloppy = rng.random() < 0.08
    return [g_instr(rng, asz, st, in_fde, allow_set_loc, sloppy) for _ in range(n)]


def g_ptr(rng, base, asz):
    if base == 0x00: return rnd_uint(rng, 8 * asz)
    if base == 0x01: return rnd_uint(rng, rng.choice([7, 14, 32, 64]))
    if base == 0x02: return rnd_uint(rng, 16)
    if base == 0x03: return rnd_uint(rng, 32)
    if base == 0x04: return rnd_uint(rng, 64)
    bits = {0x09: rng.choice([7, 14, 32, 64]), 0x0a: 16, 0x0b: 32, 0x0c: 64}[base]
    return rnd_uint(rng, bits) - (1 << (bits - 1))


def g_enc(rng, mods=(0x00, 0x10)):
    return rng.choice(BASES) | rng.choice(mods)


def g_cie(rng, eh, asz, maxlen):
    if eh:
        ver = rng.choice([1, 1, 3])
        f64 = False
        if rng.random() < 0.15:
            aug = None
        else:
            letters = [c for c in 'RLPS' if rng.random() < 0.5]
            rng.shuffle(letters)
            aug = []
            for c in letters:
                if c == 'R': aug.append(['R', g_enc(rng)])
                elif c == 'L': aug.append(['L', 0xff if rng.random() < 0.15 else g_enc(rng)])
                elif c == 'P':
                    e = g_enc(rng, (0x00, 0x10, 0x80, 0x90))
                    aug.append(['P', e, g_ptr(rng, e & 0x0f, asz)])
                else: aug.append(['S'])
    else:
        ver = rng.choice([1, 3, 4])
        f64 = rng.random() < 0.3
        aug = None
    fenc = 0
    for it in aug or []:
        if it[0] == 'R':
            fenc = it[1]
    caf = rng.choice([1, 1, 1, 2, 4, 4, 0, 3, 127, 128, 255, 1 << 31, (1 << 40) + 5])
    daf = rng.choice([-8, -8, -4, -4, 4, 8, 1, -1, 0, 63, -64, 64, -65, -(1 << 31), (1 << 40) + 3])
    ra = rnd_uint(rng, 8) if ver == 1 else rng.choice([16, 30, 14, 127, 128, 300, 65])
    st = PState()
    ins = g_instrs(rng, asz, st, False, (not eh) or fenc == 0, maxlen)
    c = {'t': 'cie', 'f64': f64, 'ver': ver, 'aug': aug, 'auglenN': 1 + rng.choice(PAD), 'asz': asz, 'seg': 0,
         'caf': [minlen_u(caf) + rng.choice(PAD), caf], 'daf': [minlen_s(daf) + rng.choice(PAD), daf],
         'ra': [minlen_u(ra) + (0 if ver == 1 else rng.choice(PAD)), ra], 'ins': ins}
    return c, st.regoff


def cie_encs(c):
    fenc, lenc = 0, 0xff
    for it in c['aug'] or []:
        if it[0] == 'R': fenc = it[1]
        if it[0] == 'L': lenc = it[1]
    return fenc, lenc


def g_fde(rng, eh, asz, cie_idx, cie, regoff, maxlen):
    fenc, lenc = cie_encs(cie) if eh else (0, 0xff)
    st = PState(regoff)
    ins = g_instrs(rng, asz, st, True, (not eh) or fenc == 0, maxlen)
    return {'t': 'fde', 'f64': (not eh) and rng.random() < 0.3, 'cie': cie_idx, 'loc': g_ptr(rng, fenc & 0x0f, asz),
            'range': g_ptr(rng, fenc & 0x0f, asz), 'lsda': 0 if lenc == 0xff else g_ptr(rng, lenc & 0x0f, asz),
            'auglenN': 1 + rng.choice(PAD), 'ins': ins}


def g_section(rng, quick):
    eh = rng.random() < 0.55
    le = rng.random() < 0.6
    asz = rng.choice([4, 8])
    address = rng.choice([0, 0, 0x1000, 0x400000, 1, 0x7fffffff, 0xffffffff, 0x7ffff7dd0000, (1 << 64) - 16]) if rng.random() < 0.8 else rnd_uint(rng, 64)
    n = rng.choice([1, 2, 2, 3, 3, 4, 5, 7]) if quick or rng.random() < 0.6 else rng.randrange(1, 13)
    maxlen = 25 if quick else 60
    ncie = max(1, min(n, rng.choice([1, 1, 2, 3])))
    if eh:
        entries, cies = [], []
        for i in range(n):
            if not cies or (len(cies) < ncie and rng.random() < 0.4):
                c, ro = g_cie(rng, eh, asz, maxlen)
                cies.append((len(entries), c, ro))
                entries.append(c)
            else:
                idx, c, ro = rng.choice(cies)
                entries.append(g_fde(rng, eh, asz, idx, c, ro, maxlen))
            if rng.random() < 0.05:
                entries.append({'t': 'zero'})
        if rng.random() < 0.5:
            entries.append({'t': 'zero'})
    else:
        cies = [g_cie(rng, eh, asz, maxlen) for _ in range(ncie)]
        items = [('c', i) for i in range(ncie)] + [('f', rng.randrange(ncie)) for _ in range(n - ncie)]
        if rng.random() < 0.6:
            rng.shuffle(items)                       # FDE before its CIE
        pos = {}
        for k, (t, i) in enumerate(items):
            if t == 'c':
                pos[i] = k
        entries = []
        for t, i in items:
            if t == 'c':
                entries.append(cies[i][0])
            else:
                entries.append(g_fde(rng, eh, asz, pos[i], cies[i][0], cies[i][1], maxlen))
    return {'eh': eh, 'le': le, 'asz': asz, 'address': address, 'entries': entries}


# ----------------------------------------------------------------------------- streams
def ask_all(ctx, reqs, limit=40000):
    """batches whose request text stays below the pipe capacity (the driver answers while we are still writing)"""
    import json
    out, batch, size = [], [], 0
    for r in reqs:
        n = len(json.dumps(r, separators=(',', ':'))) + 24
        if batch and size + n > limit:
            out += ctx.driver.ask_many(batch)
            batch, size = [], 0
        batch.append(r)
        size += n
    if batch:
        out += ctx.driver.ask_many(batch)
    return out


def check_sec(ctx, stream, sec, r):
    out = ctx.out
    data = bytes.fromhex(r['bytes'])
    impl = run_impl(lambda: impl_section(data, sec['eh'], sec['le'], sec['asz'], sec['address']))
    case = {'sec': sec, 'bytes': r['bytes']}
    model = r['model']
    if not r['wf']:
        out.count(stream + ':not-wf')
        out.case(case, nontrivial=False)
        if impl != model:
            out.violation('correspondence', stream, case, got=impl, model=model)
        return
    out.case(case)
    expect = r['expect']
    got = {'ok': strip_order(impl['ok'], expect)} if 'ok' in impl else impl
    want = {'ok': strip_order(expect, expect)}
    if got != want:
        out.violation('property', stream, case, expect=want, got=got, model=model)
    elif impl != model:
        out.violation('correspondence', stream, case, got=impl, model=model)


def hist_sec(ctx, sec, r):
    out = ctx.out
    out.count('sec:eh' if sec['eh'] else 'sec:debug_frame')
    out.count('sec:entries=%d' % min(len(sec['entries']), 13))
    seen_cie = set()
    for i, e in enumerate(sec['entries']):
        out.count('entry:' + e['t'])
        if e['t'] == 'cie':
            seen_cie.add(i)
            out.count('cie:v%d%s' % (e['ver'], ':64' if e['f64'] else ''))
            if sec['eh']:
                out.count('aug:' + ('none' if e['aug'] is None else 'z' + ''.join(it[0] for it in e['aug'])))
                for it in e['aug'] or []:
                    if it[0] in 'RLP':
                        out.count('enc:%s:%02x' % (it[0], it[1]))
        elif e['t'] == 'fde':
            if e['cie'] not in seen_cie:
                out.count('fde:before-its-cie')
        for ins in e.get('ins', []):
            out.count('op:' + ins[0])
    if r.get('wf') and isinstance(r.get('expect'), list):
        for ex in r['expect']:
            d = dict((k, v) for k, v in ex['r'])
            if 'table' in d:
                out.count('table:' + ('std-defined' if d['table'] is not None else 'program-not-valid'))


def run_sec(ctx):
    rng = ctx.rng('sec')
    n = ctx.budget(700, 14000)
    secs = [g_section(rng, ctx.tier == 'quick') for _ in range(n)]
    replies = ask_all(ctx, [{'p': 'C06', 'k': 'ast', 'sec': s} for s in secs])
    keep = []
    for s, r in zip(secs, replies):
        if 'fatal' in r:
            raise RuntimeError('driver: %s on %r' % (r['fatal'], s))
        hist_sec(ctx, s, r)
        check_sec(ctx, 'sec', s, r)
        keep.append((s, r))
    return keep


def run_instrs(ctx):
    from elftools.dwarf.callframe import CallFrameInfo
    from elftools.dwarf.structs import DWARFStructs
    rng = ctx.rng('instrs')
    reqs = []
    for _ in range(ctx.budget(500, 12000)):
        asz = rng.choice([4, 8])
        st = PState()
        ins = [g_instr(rng, asz, st, True, True, True) for _ in range(rng.choice([0, 1, 1, 2, 3, 6, 20, 60]))]
        reqs.append({'p': 'C06', 'k': 'instrs', 'le': rng.random() < 0.5, 'asz': asz, 'ins': ins,
                     'pre': hx(rnd_bytes(rng, rng.choice([0, 0, 1, 5, 17]))), 'rest': hx(rnd_bytes(rng, rng.choice([0, 0, 1, 3, 9])))})
    replies = ask_all(ctx, reqs)
    for rq, r in zip(reqs, replies):
        if 'fatal' in r:
            raise RuntimeError('driver: %s on %r' % (r['fatal'], rq))
        impl = run_impl(lambda: impl_instrs(rq, r))
        case = {'req': rq, 'bytes': r['bytes']}
        ctx.out.count('instrs')
        if not r['wf']:
            ctx.out.count('instrs:not-wf')
            continue
        ctx.out.case(case)
        if impl != {'ok': r['expect']}:
            ctx.out.violation('property', 'instrs', case, expect=r['expect'], got=impl, model=r['model'])
        elif impl != r['model']:
            ctx.out.violation('correspondence', 'instrs', case, got=impl, model=r['model'])


def impl_instrs(rq, r):
    from elftools.dwarf.callframe import CallFrameInfo
    from elftools.dwarf.structs import DWARFStructs
    data = bytes.fromhex(r['bytes'])
    pre = len(rq['pre']) // 2
    end = r['expect']['pos']
    st = io.BytesIO(data)
    structs = DWARFStructs(little_endian=rq['le'], dwarf_format=32, address_size=rq['asz'])
    cfi = CallFrameInfo(st, len(data), 0, structs)
    st.seek(pre)
    ins = cfi._parse_instructions(structs, pre, end)
    return {'v': [[i.opcode, [canon(a) for a in i.args]] for i in ins], 'pos': st.tell()}


def damage(rng, data):
    b = bytearray(data)
    r = rng.random()
    if r < 0.25 and len(b) > 1:
        return bytes(b[:rng.randrange(1, len(b))]), 'truncate'
    k = rng.choice([1, 1, 2, 3])
    for _ in range(k):
        if not b:
            break
        i = rng.randrange(len(b))
        b[i] = rng.choice([0, 1, 0xff, 0x7f, 0x80, b[i] ^ (1 << rng.randrange(8)), rng.randrange(256)])
    return bytes(b), 'edit%d' % k


def run_raw(ctx, keep):
    rng = ctx.rng('raw')
    n = ctx.budget(500, 10000)
    reqs, metas = [], []
    pool = [(s, r) for s, r in keep if r['wf'] and len(r['bytes']) >= 16]
    if not pool:
        return
    for _ in range(n):
        s, r = rng.choice(pool)
        data, how = damage(rng, bytes.fromhex(r['bytes']))
        reqs.append({'p': 'C06', 'k': 'raw', 'eh': s['eh'], 'le': s['le'], 'asz': s['asz'], 'address': s['address'], 'hex': hx(data)})
        metas.append(how)
    replies = ask_all(ctx, reqs)
    for rq, how, r in zip(reqs, metas, replies):
        if 'fatal' in r:
            raise RuntimeError('driver: %s on %r' % (r['fatal'], rq))
        impl = run_impl(lambda: impl_section(bytes.fromhex(rq['hex']), rq['eh'], rq['le'], rq['asz'], rq['address']))
        model = r['model']
        ctx.out.count('raw:' + how)
        if impl.get('err') == 'other:RecursionError' or model.get('err') == 'outOfFuel':
            ctx.out.count('raw:unbounded-recursion-aside')
            continue
        ctx.out.count('raw:' + ('ok' if 'ok' in impl else impl['err']))
        case = {k: rq[k] for k in ('eh', 'le', 'asz', 'address', 'hex')}
        ctx.out.case(case)
        if impl != model:
            ctx.out.violation('correspondence', 'raw', case, got=impl, model=model)


def make_dwarfinfo_both(dbg, eh, le, asz):
    """one DWARFInfo holding a .debug_frame AND an .eh_frame section (the observation point the property names)"""
    from elftools.dwarf.dwarfinfo import DWARFInfo, DebugSectionDescriptor, DwarfConfig
    kw = dict(debug_info_sec=None, debug_aranges_sec=None, debug_abbrev_sec=None, debug_frame_sec=None, eh_frame_sec=None,
              debug_str_sec=None, debug_loc_sec=None, debug_ranges_sec=None, debug_line_sec=None, debug_pubtypes_sec=None,
              debug_pubnames_sec=None, debug_addr_sec=None, debug_str_offsets_sec=None, debug_line_str_sec=None,
              debug_loclists_sec=None, debug_rnglists_sec=None, debug_sup_sec=None, gnu_debugaltlink_sec=None,
              debug_types_sec=None)
    kw['debug_frame_sec'] = DebugSectionDescriptor(io.BytesIO(dbg[0]), '.debug_frame', 0, len(dbg[0]), dbg[1])
    kw['eh_frame_sec'] = DebugSectionDescriptor(io.BytesIO(eh[0]), '.eh_frame', 0, len(eh[0]), eh[1])
    return DWARFInfo(config=DwarfConfig(little_endian=le, machine_arch='x64', default_address_size=asz), **kw)


def impl_both(dbg, eh, le, asz, order):
    """the accessors called in the given order ('d' = CFI_entries, 'e' = EH_CFI_entries) on ONE object"""
    di = make_dwarfinfo_both(dbg, eh, le, asz)
    out = []
    for o in order:
        es = di.CFI_entries() if o == 'd' else di.EH_CFI_entries()
        out.append([canon_entry(e) for e in es])
    return out


def run_both(ctx, keep):
    """one file normally carries both sections: each accessor must return ITS section's entries whatever was asked before"""
    rng = ctx.rng('both')
    dbg = [(s, r) for s, r in keep if r.get('wf') and not s['eh']]
    ehs = [(s, r) for s, r in keep if r.get('wf') and s['eh']]
    for _ in range(ctx.budget(120, 2500)):
        if not dbg or not ehs:
            return
        sd, rd = rng.choice(dbg)
        cands = [(s, r) for s, r in ehs if s['le'] == sd['le'] and s['asz'] == sd['asz']]
        if not cands:
            continue
        se, re_ = rng.choice(cands)
        order = rng.choice(['de', 'ed', 'dde', 'eed', 'ded', 'ede'])
        d = (bytes.fromhex(rd['bytes']), sd['address'])
        e = (bytes.fromhex(re_['bytes']), se['address'])
        single = {'d': run_impl(lambda: impl_section(d[0], False, sd['le'], sd['asz'], sd['address'])),
                  'e': run_impl(lambda: impl_section(e[0], True, se['le'], se['asz'], se['address']))}
        impl = run_impl(lambda: impl_both(d, e, sd['le'], sd['asz'], order))
        case = {'dbg': {'sec': sd, 'bytes': rd['bytes']}, 'eh': {'sec': se, 'bytes': re_['bytes']}, 'order': order}
        ctx.out.count('both:' + order)
        ctx.out.case(case)
        if 'ok' not in single['d'] or 'ok' not in single['e']:
            continue                      # judged by the 'sec' stream
        want = {'ok': [single[o]['ok'] for o in order]}
        if impl != want:
            ctx.out.violation('property', 'both', case, expect=want, got=impl)


# ----------------------------------------------------------------------------- whole files
class ZRec:
    """zlib stand-in that records every decompressobj conversation: (all input fed, max_length) -> all output / None on error"""
    error = zlib.error

    def __init__(self):
        self.table = {}

    def decompressobj(self, *a, **k):
        rec = self

        class Obj:
            def __init__(self):
                self.o = zlib.decompressobj(*a, **k)
                self.inp, self.out, self.k = b'', b'', 0

            def decompress(self, data, max_length=0):
                self.inp += bytes(data)
                self.k = max_length
                try:
                    r = self.o.decompress(data, max_length)
                except zlib.error:
                    rec.table[(self.inp, max_length)] = None
                    raise
                self.out += r
                rec.table[(self.inp, max_length)] = self.out
                return r

            def flush(self, *aa):
                r = self.o.flush(*aa)
                self.out += r
                rec.table[(self.inp, self.k)] = self.out
                return r

            def __getattr__(self, n):
                return getattr(self.o, n)
        return Obj()

    def __getattr__(self, n):
        return getattr(zlib, n)


def with_zrec(fn):
    """run fn() with the recording zlib installed in the modules that inflate sections; returns (result, table).
    ASSUMPTION check: every recorded conversation (chunks + flush) gives what ONE call on the whole input gives."""
    import elftools.elf.sections as S, elftools.elf.elffile as E
    rec = ZRec()
    o1, o2 = S.zlib, E.zlib
    S.zlib = E.zlib = rec
    try:
        res = fn()
    finally:
        S.zlib, E.zlib = o1, o2
    for (inp, k), out in rec.table.items():
        try:
            o = zlib.decompressobj()
            r = o.decompress(inp, k)
            if k == 0:
                r += o.flush()
        except zlib.error:
            r = None
        if r != out:
            raise AssertionError('zlib streaming assumption violated on %d input bytes (max_length %d)' % (len(inp), k))
    return res, rec.table


def deflate(rng, body):
    d = zlib.compress(body, rng.choice([0, 1, 6, 9]))
    for k in (0, len(body) + 1):                 # ZlibOk of the theorems
        if zlib.decompressobj().decompress(d, k) != body:
            raise AssertionError('zlib round-trip assumption violated')
    return d


def chdr(cls, le, size, align):
    e = '<' if le else '>'
    return struct.pack(e + 'III', 1, size, align) if cls == 32 else struct.pack(e + 'IIQQ', 1, 0, size, align)


def zframe(rng, body):
    return b'ZLIB' + struct.pack('>Q', len(body)) + deflate(rng, body)


D_MODES = ['plain', 'plain', 'gabi', 'zdebug', 'zdebug', 'hidden', 'absent']
E_MODES = ['plain', 'plain', 'gabi', 'absent']


def build_file(rng, cls, le, dbg, eh, mode_d, mode_e):
    """dbg / eh: (section bytes, address) or None.  Returns the file bytes."""
    import elfbuild as EB
    img = EB.ElfImage(cls=cls, le=le, e_type=rng.choice([EB.ET_REL, EB.ET_EXEC, EB.ET_DYN]),
                      e_machine=rng.choice([EB.EM_X86_64, EB.EM_386, EB.EM_ARM, EB.EM_AARCH64, EB.EM_MIPS, EB.EM_PPC64,
                                            EB.EM_RISCV, EB.EM_S390]))
    parts = []          # (name, type, data, flags, addr)
    legacy = mode_d in ('zdebug', 'hidden')
    if legacy:
        parts.append(('.zdebug_info', EB.SHT_PROGBITS, zframe(rng, rnd_bytes(rng, rng.choice([0, 1, 11, 40]))), 0, 0))
    elif rng.random() < 0.6:
        parts.append(('.debug_info', EB.SHT_PROGBITS, rnd_bytes(rng, rng.choice([0, 1, 11, 40])), 0, 0))
    if rng.random() < 0.5:
        parts.append(('.text', EB.SHT_PROGBITS, rnd_bytes(rng, rng.choice([1, 16, 64])), 6, 0x1000))
    if dbg is not None and mode_d != 'absent':
        body, addr = dbg
        name = '.zdebug_frame' if mode_d == 'zdebug' else '.debug_frame'
        if rng.random() < 0.15:             # decoy: get_section_by_name takes the LAST section of a name
            parts.append((name, EB.SHT_PROGBITS, rnd_bytes(rng, rng.choice([4, 24, 50])), 0, 0))
        if mode_d == 'gabi':
            parts.append((name, EB.SHT_PROGBITS, chdr(cls, le, len(body), rng.choice([1, 4, 8])) + deflate(rng, body), EB.SHF_COMPRESSED, addr))
        elif mode_d == 'zdebug':
            parts.append((name, EB.SHT_PROGBITS, zframe(rng, body), 0, addr))
        else:                               # 'plain'; 'hidden': a plain .debug_frame in a .zdebug_info file is not looked up
            parts.append((name, EB.SHT_PROGBITS, body, 0, addr))
    if eh is not None and mode_e != 'absent':
        body, addr = eh
        if rng.random() < 0.15:
            parts.append(('.eh_frame', EB.SHT_PROGBITS, rnd_bytes(rng, rng.choice([4, 24, 50])), 2, 0))
        if mode_e == 'gabi':
            parts.append(('.eh_frame', EB.SHT_PROGBITS, chdr(cls, le, len(body), rng.choice([1, 4, 8])) + deflate(rng, body), 2 | EB.SHF_COMPRESSED, addr))
        else:
            parts.append(('.eh_frame', EB.SHT_PROGBITS, body, 2, addr))
    # the relative order of same-named sections (decoy first) is kept; everything else is shuffled around them
    order = list(range(len(parts)))
    rng.shuffle(order)
    seen = {}
    for i in sorted(order, key=lambda i: order[i]):
        seen.setdefault(parts[i][0], []).append(i)
    slots = sorted(range(len(parts)), key=lambda i: order[i])
    fixed = []
    taken = {n: 0 for n in seen}
    for i in slots:
        n = parts[i][0]
        fixed.append(sorted(seen[n])[taken[n]])
        taken[n] += 1
    for i in fixed:
        n, t, data, fl, addr = parts[i]
        img.add_section(n, t, data=data, flags=fl, addr=addr, addralign=rng.choice([1, 1, 4, 8]))
    return img.build()


def impl_file(data, order, relocate, follow):
    """the four accessors on ONE DWARFInfo, called in the given order (d/e = entries, D/E = has_*); every call is recorded
    and the calls of one accessor must agree"""
    from elftools.elf.elffile import ELFFile
    di = ELFFile(io.BytesIO(data)).get_dwarf_info(relocate_dwarf_sections=relocate, follow_links=follow)
    acc = {'d': lambda: [canon_entry(e) for e in di.CFI_entries()], 'e': lambda: [canon_entry(e) for e in di.EH_CFI_entries()],
           'D': lambda: bool(di.has_CFI()), 'E': lambda: bool(di.has_EH_CFI())}
    key = {'d': 'cfi', 'e': 'eh', 'D': 'has_cfi', 'E': 'has_eh'}
    out = {}
    for o in order:
        r = run_impl(acc[o])
        if key[o] in out and out[key[o]] != r:
            return {'unstable': key[o], 'first': out[key[o]], 'then': r}
        out[key[o]] = r
    return out


FILE_ORDERS = ['DEde', 'EDed', 'deDE', 'edED', 'DdEe', 'eEdD', 'DEdede', 'EDeded']


def file_expect(case, rd, re_):
    """what the property prescribes for the file: per accessor"""
    vis_d = case['dbg'] is not None and case['mode_d'] in ('plain', 'gabi', 'zdebug')
    vis_e = case['eh'] is not None and case['mode_e'] in ('plain', 'gabi')
    want = {'has_cfi': {'ok': vis_d}, 'has_eh': {'ok': vis_e}}
    want['cfi'] = {'ok': strip_order(rd['expect'], rd['expect'])} if vis_d else {'err': 'attributeError'}
    want['eh'] = {'ok': strip_order(re_['expect'], re_['expect'])} if vis_e else {'err': 'attributeError'}
    return want


def file_got(impl, rd, re_):
    got = dict(impl)
    for k, r in (('cfi', rd), ('eh', re_)):
        if isinstance(got.get(k), dict) and 'ok' in got[k] and r is not None:
            got[k] = {'ok': strip_order(got[k]['ok'], r['expect'])}
    return got


def file_request(case, table):
    return {'p': 'C06', 'k': 'file', 'hex': case['hex'], 'relocate': case['relocate'], 'follow': case['follow'],
            'zlib': [[hx(d), k, None if o is None else hx(o)] for (d, k), o in table.items()]}


def judge_file(ctx, case, rd, re_, impl, model, report=True):
    """returns (property_fails, correspondence_fails)"""
    want = file_expect(case, rd, re_)
    got = file_got(impl, rd, re_)
    pf = got != want
    cf = impl != model
    if report:
        if pf:
            ctx.out.violation('property', 'file', case, expect=want, got=got, model=model)
        elif cf:
            ctx.out.violation('correspondence', 'file', case, got=impl, model=model)
    return pf, cf, want, got


def run_file(ctx, keep):
    rng = ctx.rng('file')
    dbgs = [(s, r) for s, r in keep if r.get('wf') and not s['eh'] and s['address'] < (1 << (8 * s['asz']))]
    ehs = [(s, r) for s, r in keep if r.get('wf') and s['eh'] and s['address'] < (1 << (8 * s['asz']))]
    if not dbgs or not ehs:
        return
    cases, reqs, aux = [], [], []
    for _ in range(ctx.budget(160, 4000)):
        sd, rd = rng.choice(dbgs)
        cands = [(s, r) for s, r in ehs if s['le'] == sd['le'] and s['asz'] == sd['asz']]
        if not cands:
            continue
        se, re_ = rng.choice(cands)
        mode_d, mode_e = rng.choice(D_MODES), rng.choice(E_MODES)
        cls, le = 8 * sd['asz'], sd['le']
        data = build_file(rng, cls, le, (bytes.fromhex(rd['bytes']), sd['address']), (bytes.fromhex(re_['bytes']), se['address']),
                          mode_d, mode_e)
        case = {'hex': hx(data), 'dbg': {'sec': sd, 'bytes': rd['bytes']}, 'eh': {'sec': se, 'bytes': re_['bytes']},
                'mode_d': mode_d, 'mode_e': mode_e, 'order': rng.choice(FILE_ORDERS), 'relocate': rng.random() < 0.7,
                'follow': rng.random() < 0.7}
        impl, table = with_zrec(lambda: impl_file(data, case['order'], case['relocate'], case['follow']))
        cases.append(case)
        aux.append((rd, re_, impl))
        reqs.append(file_request(case, table))
    replies = ask_all(ctx, reqs)
    for case, (rd, re_, impl), model in zip(cases, aux, replies):
        if 'fatal' in model:
            raise RuntimeError('driver: %s on file case' % model['fatal'])
        model = {k: model[k] for k in ('has_cfi', 'has_eh', 'cfi', 'eh')}
        ctx.out.count('file:dbg=%s' % case['mode_d'])
        ctx.out.count('file:eh=%s' % case['mode_e'])
        ctx.out.count('file:cls%d:%s' % (8 * case['dbg']['sec']['asz'], 'le' if case['dbg']['sec']['le'] else 'be'))
        ctx.out.count('file:order=%s' % case['order'])
        ctx.out.case({'hex': case['hex'], 'order': case['order']})
        judge_file(ctx, case, rd, re_, impl, model)


# ----------------------------------------------------------------------------- structured malformed sections
UNKNOWN_OPS = [x for x in range(0x17, 0x40) if x not in (0x2d, 0x2e)]


def entry_spans(data, expect):
    """[(offset, size, is64, kind)] of the entries of a well-formed section, from the Spec observation"""
    out = []
    for e in expect:
        d = dict((k, v) for k, v in e['r'])
        off = d['offset']
        if d['kind'] == 'ZERO':
            out.append((off, 4, False, 'ZERO'))
            continue
        is64 = data[off:off + 4] == b'\xff\xff\xff\xff'
        ln = dict((k, v) for k, v in d['header']['r'])['length']
        out.append((off, ln + (12 if is64 else 4), is64, d['kind']))
    return out


def set_length(b, off, is64, le, value):
    if is64:
        b[off + 4:off + 12] = value.to_bytes(8, 'little' if le else 'big')
    else:
        b[off:off + 4] = value.to_bytes(4, 'little' if le else 'big')


def get_length(b, off, is64, le):
    return int.from_bytes(b[off + 4:off + 12] if is64 else b[off:off + 4], 'little' if le else 'big')


def make_bad(rng, s, r):
    """(class, damaged bytes, predicted outcome or None, extra) — None when the class does not apply to this section"""
    data = bytes.fromhex(r['bytes'])
    le, eh = s['le'], s['eh']
    spans = entry_spans(data, r['expect'])
    nz = [i for i, sp in enumerate(spans) if sp[3] != 'ZERO']
    if not nz:
        return None
    last = nz[-1]
    off, size, is64, kind = spans[last]
    ninstr = len(dict((k, v) for k, v in r['expect'][last]['r'])['instructions'])
    cls = rng.choice(['unknown-opcode', 'length-past', 'cut', 'cie-pointer-range', 'cie-pointer-fde', 'aug-not-z', 'aug-letter'])
    b = bytearray(data)
    if cls == 'unknown-opcode':
        ln = get_length(b, off, is64, le)
        if not is64 and ln + 1 >= 0xfffffff0:
            return None
        b[off + size:off + size] = bytes([rng.choice(UNKNOWN_OPS)])
        set_length(b, off, is64, le, ln + 1)
        return cls, bytes(b), {'err': 'dwarfError'}, None
    if cls == 'length-past':
        b = b[:off + size]                            # the entry is the last thing in the data
        ln = get_length(b, off, is64, le)
        delta = rng.choice([1, 1, 2, 3, 100, 0x1000])
        if not is64 and ln + delta >= 0xfffffff0:
            return None
        set_length(b, off, is64, le, ln + delta)
        return cls, bytes(b), {'err': 'elfParseError'}, None
    if cls == 'cut':
        if ninstr == 0:
            return None
        k = rng.randrange(1, ninstr + 1)              # every instruction has at least one byte: the cut stays inside the instructions
        return cls, bytes(b[:off + size - k]), {'err': 'elfParseError'}, None
    fdes = [i for i in nz if spans[i][3] == 'FDE']
    if cls == 'cie-pointer-range':
        if not fdes:
            return None
        j = rng.choice(fdes)
        o, _, f64, _ = spans[j]
        po, pn = (o + 12, 8) if f64 else (o + 4, 4)
        if eh:
            lo = po + 1                               # distance back larger than the offset of the pointer field
            v = rng.choice([lo, lo + 1, lo + rng.randrange(1, 1000), 0xffffffff, 0x80000000])
            want = {'err': 'valueError'}
        else:
            top = (1 << (8 * pn)) - 2                 # all-ones is the CIE id
            v = rng.choice([len(b), len(b) + 1, len(b) + rng.randrange(1, 1000), top, top - 7] + ([1 << 63, (1 << 63) - 1] if f64 else []))
            want = {'err': 'elfParseError'}
        b[po:po + pn] = v.to_bytes(pn, 'little' if le else 'big')
        return cls, bytes(b), want, None
    if cls == 'cie-pointer-fde':
        if eh or len(fdes) < 2:
            return None
        j, m = rng.sample(fdes, 2)
        o, _, f64, _ = spans[j]
        po, pn = (o + 12, 8) if f64 else (o + 4, 4)
        b[po:po + pn] = spans[m][0].to_bytes(pn, 'little' if le else 'big')
        return cls, bytes(b), None, {'fde': j, 'target': spans[m][0]}
    # augmentation classes: CIEs of `.eh_frame` with a 'z…' string; the string starts at offset + 4 + 4 + 1
    cies = [i for i in nz if spans[i][3] == 'CIE' and s['entries'][i]['aug'] is not None]
    if not eh or not cies:
        return None
    i = rng.choice(cies)
    so = spans[i][0] + 9
    letters = ['z'] + [it[0] for it in s['entries'][i]['aug']]
    assert bytes(b[so:so + len(letters)]) == ''.join(letters).encode(), 'augmentation string not where expected'
    if cls == 'aug-not-z':
        b[so] = rng.choice(b'yZxb')
        return cls, bytes(b), {'err': 'assertion'}, None
    if len(letters) < 2 or any(sp[3] == 'FDE' for sp in spans):
        return None                                   # CIE-only sections: the FDEs of a damaged CIE are read with other encodings
    k = rng.randrange(1, len(letters))
    b[so + k] = rng.choice(b'XBGeh')
    keys = {'z': 'length', 'L': 'LSDA_encoding', 'R': 'FDE_encoding', 'P': 'personality', 'S': 'True'}
    return cls, bytes(b), None, {'cie': i, 'keys': sorted(keys[c] for c in letters[:k])}


def judge_bad(cls, impl, want, extra, orig):
    """None, or what is wrong with the library's answer according to the class's theorem"""
    if want is not None:
        return None if impl == want else {'expect': want}
    if 'ok' not in impl:
        return {'expect': 'no error'}
    if cls == 'cie-pointer-fde':
        d = dict((k, v) for k, v in impl['ok'][extra['fde']]['r'])
        return None if d.get('kind') == 'FDE' and d.get('cie') == extra['target'] else {'expect': {'cie': extra['target']}}
    d = dict((k, v) for k, v in impl['ok'][extra['cie']]['r'])
    o = dict((k, v) for k, v in orig[extra['cie']]['r'])
    got = sorted(k for k, _ in d['aug_dict']['r'])
    if got != extra['keys'] or d['instructions'] != o['instructions'] or d['aug_bytes'] != o['aug_bytes']:
        return {'expect': {'aug_dict keys': extra['keys'], 'instructions': o['instructions'], 'aug_bytes': o['aug_bytes']}}
    return None


def run_bad(ctx, keep):
    rng = ctx.rng('bad')
    pool = [(s, r) for s, r in keep if r['wf'] and len(r['bytes']) >= 16]
    # CIE-only `.eh_frame` sections for the augmentation-letter class
    extra_secs = []
    for _ in range(ctx.budget(40, 600)):
        asz = rng.choice([4, 8])
        ents = []
        for _ in range(rng.choice([1, 1, 2, 3])):
            while True:
                c, _ = g_cie(rng, True, asz, 10)
                if c['aug']:
                    break
            ents.append(c)
        extra_secs.append({'eh': True, 'le': rng.random() < 0.6, 'asz': asz, 'address': rng.choice([0, 0x1000, 0x400000]), 'entries': ents})
    for s, r in zip(extra_secs, ask_all(ctx, [{'p': 'C06', 'k': 'ast', 'sec': s} for s in extra_secs])):
        if r.get('wf'):
            pool.append((s, r))
    cieonly = [(s, r) for s, r in pool if s['eh'] and all(e['t'] == 'cie' and e['aug'] for e in s['entries'])]
    made = []
    for _ in range(ctx.budget(420, 9000)):
        s, r = rng.choice(cieonly) if cieonly and rng.random() < 0.12 else rng.choice(pool)
        m = None
        for _try in range(5):                         # a class that applies to this section
            m = make_bad(rng, s, r)
            if m is not None:
                break
        if m is None:
            ctx.out.count('bad:class-not-applicable')
            continue
        made.append((s, r, m))
    reqs = [{'p': 'C06', 'k': 'raw', 'eh': s['eh'], 'le': s['le'], 'asz': s['asz'], 'address': s['address'], 'hex': hx(m[1])}
            for s, r, m in made]
    for (s, r, (cls, data, want, extra)), rq, rep in zip(made, reqs, ask_all(ctx, reqs)):
        if 'fatal' in rep:
            raise RuntimeError('driver: %s on %r' % (rep['fatal'], rq))
        impl = run_impl(lambda: impl_section(data, s['eh'], s['le'], s['asz'], s['address']))
        model = rep['model']
        ctx.out.count('bad:' + cls)
        if impl.get('err') == 'other:RecursionError' or model.get('err') == 'outOfFuel':
            ctx.out.count('bad:unbounded-recursion-aside')
            continue
        case = {'cls': cls, 'sec': s, 'hex': hx(data), 'want': want, 'extra': extra}
        ctx.out.case({'hex': case['hex'], 'eh': s['eh'], 'le': s['le'], 'asz': s['asz'], 'address': s['address']})
        wrong = judge_bad(cls, impl, want, extra, r['expect'])
        if wrong is not None:
            ctx.out.violation('property', 'bad', case, expect=wrong['expect'], got=impl, model=model)
        elif impl != model:
            ctx.out.violation('correspondence', 'bad', case, got=impl, model=model)


# ----------------------------------------------------------------------------- DW_CFA_set_loc as the LSB encodes it
def impl_setloc(rq, r):
    from elftools.dwarf.callframe import CallFrameInfo
    from elftools.dwarf.structs import DWARFStructs
    data = bytes.fromhex(r['bytes'])
    pre = len(rq['pre']) // 2
    st = io.BytesIO(data)
    structs = DWARFStructs(little_endian=rq['le'], dwarf_format=32, address_size=rq['asz'])
    cfi = CallFrameInfo(st, len(data), 0, structs, for_eh_frame=True)
    st.seek(pre)
    ins = cfi._parse_instructions(structs, pre, r['end'])
    return {'v': [[i.opcode, [canon(a) for a in i.args]] for i in ins], 'pos': st.tell()}


def run_setloc(ctx):
    rng = ctx.rng('setloc')
    reqs = []
    for _ in range(ctx.budget(260, 6000)):
        asz = rng.choice([4, 8])
        enc = rng.choice([0, 0, 0x10, 0x1b, 0x1b, 0x03, 0x0b, 0x02, 0x0a, 0x04, 0x0c, 0x01, 0x09, 0x11, 0x13, 0x14, 0x19, 0x1c])
        bits = {0: 8 * asz, 1: 63, 2: 16, 3: 32, 4: 64, 9: 62, 0xa: 15, 0xb: 31, 0xc: 63}[enc & 0x0f]
        st = PState()
        ins = [g_instr(rng, asz, st, True, False, True) for _ in range(rng.choice([0, 1, 2, 3, 6, 12]))]
        for _ in range(rng.choice([1, 1, 2])):
            ins.insert(rng.randrange(len(ins) + 1), ['set_loc', rnd_uint(rng, rng.choice([4, 8, bits]) if bits > 8 else bits) % (1 << bits)])
        reqs.append({'p': 'C06', 'k': 'setloc', 'le': rng.random() < 0.6, 'asz': asz, 'enc': enc, 'ins': ins,
                     'pre': hx(rnd_bytes(rng, rng.choice([0, 0, 3, 17]))), 'rest': hx(rnd_bytes(rng, rng.choice([0, 0, 1, 9])))})
    for rq, r in zip(reqs, ask_all(ctx, reqs)):
        if 'fatal' in r:
            raise RuntimeError('driver: %s on %r' % (r['fatal'], rq))
        if not r['wf']:
            ctx.out.count('setloc:not-wf')
            continue
        impl = run_impl(lambda: impl_setloc(rq, r))
        case = {'req': rq, 'bytes': r['bytes']}
        ctx.out.case(case)
        ctx.out.count('setloc:enc=%02x' % rq['enc'])
        wrong = judge_setloc(ctx, rq, r, impl)
        if wrong is not None:
            ctx.out.violation('property', 'setloc', case, expect=wrong, got=impl, model=r['model'])
        elif impl != r['model']:
            ctx.out.violation('correspondence', 'setloc', case, got=impl, model=r['model'])


def judge_setloc(ctx, rq, r, impl, count=True):
    """None, or what the theorems prescribe and the library does not do"""
    def c(k):
        if count:
            ctx.out.count(k)
    if not r['in_class']:
        c('setloc:absptr(split must be the Spec\'s)')
        want = {'ok': {'v': r['dwarf'], 'pos': r['end']}}
        return None if impl == want else want
    if r['same_width']:
        c('setloc:in-class,address-wide operand(opcodes must be the LSB\'s)')
        data, asz = bytes.fromhex(r['bytes']), rq['asz']
        if 'ok' not in impl or [i[0] for i in impl['ok']['v']] != r['lsb_opcodes'] or impl['ok']['pos'] != r['end']:
            return {'opcodes': r['lsb_opcodes'], 'pos': r['end']}
        # every set_loc operand is the raw unsigned field: rebuild the positions from the Spec's operand sizes
        for got, spec in zip(impl['ok']['v'], r['dwarf']):
            if got[0] == 1:
                if not (isinstance(got[1][0], int) and 0 <= got[1][0] < (1 << (8 * asz))):
                    return {'set_loc operand': 'unsigned %d-byte field' % asz}
            elif got != spec:
                return {'instruction': spec}
        return None
    c('setloc:in-class,other width(finding eh-set-loc-encoding)')
    if 'ok' not in impl or [i[0] for i in impl['ok']['v']] != r['lsb_opcodes']:
        c('setloc:mis-split observed')
    return None


def run(ctx):
    keep = run_sec(ctx)
    run_both(ctx, keep)
    run_file(ctx, keep)
    run_bad(ctx, keep)
    run_setloc(ctx)
    run_instrs(ctx)
    run_raw(ctx, keep)


def replay(ctx, payload):
    v = payload['violation']
    case = v['case']
    res = {'stream': v['stream'], 'case': case}
    if v['stream'] == 'sec':
        sec = case['sec']
        r = ctx.driver.ask({'p': 'C06', 'k': 'ast', 'sec': sec})
        data = bytes.fromhex(r['bytes'])
        impl = run_impl(lambda: impl_section(data, sec['eh'], sec['le'], sec['asz'], sec['address']))
        if r['wf']:
            got = {'ok': strip_order(impl['ok'], r['expect'])} if 'ok' in impl else impl
            want = {'ok': strip_order(r['expect'], r['expect'])}
            res.update(impl=got, expect=want, model=r['model'], fails=(got != want or impl != r['model']),
                       property_fails=(got != want))
        else:
            res.update(impl=impl, model=r['model'], fails=(impl != r['model']))
    elif v['stream'] == 'both':
        sd, se, order = case['dbg']['sec'], case['eh']['sec'], case['order']
        d = (bytes.fromhex(case['dbg']['bytes']), sd['address'])
        e = (bytes.fromhex(case['eh']['bytes']), se['address'])
        single = {'d': run_impl(lambda: impl_section(d[0], False, sd['le'], sd['asz'], sd['address'])),
                  'e': run_impl(lambda: impl_section(e[0], True, se['le'], se['asz'], se['address']))}
        impl = run_impl(lambda: impl_both(d, e, sd['le'], sd['asz'], order))
        want = {'ok': [single[o].get('ok') for o in order]}
        res.update(impl=impl, expect=want, fails=(impl != want))
    elif v['stream'] == 'file':
        rd = ctx.driver.ask({'p': 'C06', 'k': 'ast', 'sec': case['dbg']['sec']})
        re_ = ctx.driver.ask({'p': 'C06', 'k': 'ast', 'sec': case['eh']['sec']})
        data = bytes.fromhex(case['hex'])
        impl, table = with_zrec(lambda: impl_file(data, case['order'], case['relocate'], case['follow']))
        model = ctx.driver.ask(file_request(case, table))
        model = {k: model.get(k) for k in ('has_cfi', 'has_eh', 'cfi', 'eh')}
        pf, cf, want, got = judge_file(ctx, case, rd, re_, impl, model, report=False)
        res.update(impl=got, expect=want, model=model, fails=(pf or cf), property_fails=pf)
    elif v['stream'] == 'setloc':
        rq = case['req']
        r = ctx.driver.ask(rq)
        impl = run_impl(lambda: impl_setloc(rq, r))
        wrong = judge_setloc(ctx, rq, r, impl, count=False)
        res.update(impl=impl, expect=wrong, model=r['model'], fails=(wrong is not None or impl != r['model']),
                   property_fails=(wrong is not None))
    elif v['stream'] == 'bad':
        sec = case['sec']
        data = bytes.fromhex(case['hex'])
        orig = ctx.driver.ask({'p': 'C06', 'k': 'ast', 'sec': sec})
        rep = ctx.driver.ask({'p': 'C06', 'k': 'raw', 'eh': sec['eh'], 'le': sec['le'], 'asz': sec['asz'], 'address': sec['address'],
                              'hex': case['hex']})
        impl = run_impl(lambda: impl_section(data, sec['eh'], sec['le'], sec['asz'], sec['address']))
        wrong = judge_bad(case['cls'], impl, case['want'], case['extra'], orig['expect'])
        res.update(impl=impl, expect=(wrong or {}).get('expect'), model=rep['model'],
                   fails=(wrong is not None or impl != rep['model']), property_fails=(wrong is not None))
    elif v['stream'] == 'instrs':
        rq = case['req']
        r = ctx.driver.ask(rq)
        impl = run_impl(lambda: impl_instrs(rq, r))
        res.update(impl=impl, expect=r['expect'], model=r['model'], fails=(impl != {'ok': r['expect']} or impl != r['model']))
    else:
        rq = dict(case, p='C06', k='raw')
        r = ctx.driver.ask(rq)
        impl = run_impl(lambda: impl_section(bytes.fromhex(case['hex']), case['eh'], case['le'], case['asz'], case['address']))
        res.update(impl=impl, model=r['model'], fails=(impl != r['model']))
    return res


# eh-set-loc-encoding (status known): the `setloc` stream generates the class on purpose, checks library == model on it and the
# two facts the theorems state about it, and never compares it with the LSB split — so no predicate is needed to excuse a report.
FINDINGS = {}
