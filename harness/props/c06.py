"""C06 — call-frame information (.debug_frame / .eh_frame).  Streams:

  sec    : abstract section (CIEs, FDEs, zero terminators, instruction lists) → Lean *spec assembler* → bytes →
           the real library through DWARFInfo.CFI_entries / EH_CFI_entries and CFIEntry.get_decoded(); compared
           with the observation the Spec prescribes (entry kinds, order, headers, augmentation, pointers, FDE→CIE
           link, instruction split, DWARF §6.4 table) = property, and with the hand-written model run on the same
           bytes with the regenerated tables/structs = correspondence (this one includes reg_order and dict key order)
  instrs : instruction lists alone, with arbitrary bytes before and after → CallFrameInfo._parse_instructions
  raw    : well-formed sections damaged by byte edits / truncation → library vs model, errors included
"""
import io
from common import run_impl, canon, hx, rnd_uint, rnd_bytes, BOUNDARY

RULE = ('sec: 1-12 entries (quick: 1-7), .debug_frame (CIE v1/3/4, DWARF32/64, any order incl. FDE before its CIE) or .eh_frame '
        '(augmentation "" or z+permutation of a subset of RLPS, 9 base encodings x {abs,pcrel}, LSDA omit, personality with '
        'indirect bit, zero terminators anywhere), both byte orders, address size 4/8, section address from boundary pool; '
        'instruction lists of 0-60 over all 28 opcodes, LEB operands with 0-2 padding bytes and boundary values, alignment '
        'factors incl. 0, negative and > 2^32, mostly state-valid sequences plus a share of invalid ones (put aside for the '
        'table only); raw: 1-3 byte edits or truncation of sec cases. Non-trivial = distinct (section bytes, kind, address).')
ASSUMPTIONS = ['io.BytesIO read/seek/tell semantics', 'struct.unpack for <>BHIQbhiq', 'copy.copy / copy.deepcopy of dicts of immutable-by-convention rule objects',
               'Python dict insertion order']

BASES = [0x00, 0x01, 0x02, 0x03, 0x04, 0x09, 0x0a, 0x0b, 0x0c]


# ----------------------------------------------------------------------------- running the real library
def make_dwarfinfo(data, eh, le, asz, address, size=None):
    from elftools.dwarf.dwarfinfo import DWARFInfo, DebugSectionDescriptor, DwarfConfig
    d = DebugSectionDescriptor(io.BytesIO(data), '.eh_frame' if eh else '.debug_frame', 0,
                               len(data) if size is None else size, address)
    kw = dict(debug_info_sec=None, debug_aranges_sec=None, debug_abbrev_sec=None, debug_frame_sec=None, eh_frame_sec=None,
              debug_str_sec=None, debug_loc_sec=None, debug_ranges_sec=None, debug_line_sec=None, debug_pubtypes_sec=None,
              debug_pubnames_sec=None, debug_addr_sec=None, debug_str_offsets_sec=None, debug_line_str_sec=None,
              debug_loclists_sec=None, debug_rnglists_sec=None, debug_sup_sec=None, gnu_debugaltlink_sec=None,
              debug_types_sec=None)
    kw['eh_frame_sec' if eh else 'debug_frame_sec'] = d
    return DWARFInfo(config=DwarfConfig(little_endian=le, machine_arch='x64', default_address_size=asz), **kw)


def rec(pairs):
    return {'r': [[k, v] for k, v in pairs]}


def canon_table(e):
    """(table in canonical form, pyelftools-specific orders)"""
    try:
        t = e.get_decoded()
    except Exception as ex:      # noqa: BLE001
        from common import classify_exception
        return rec([('err', classify_exception(ex))]), None
    rows, keys = [], []
    for line in t.table:
        regs = [(k, v) for k, v in line.items() if not isinstance(k, str)]
        c = line['cfa']
        rows.append(rec([('pc', line['pc']), ('cfa', [canon(c.reg), canon(c.offset), canon(c.expr)]),
                         ('regs', [[k, [v.type, canon(v.arg)]] for k, v in sorted(regs, key=lambda kv: kv[0])])]))
        keys.append([k for k, _ in regs])
    return rows, [list(t.reg_order), keys]


def canon_entry(e):
    from elftools.dwarf.callframe import CIE, FDE, ZERO
    if isinstance(e, ZERO):
        return rec([('kind', 'ZERO'), ('offset', e.offset)])
    ins = [[i.opcode, [canon(a) for a in i.args]] for i in e.instructions]
    table, order = canon_table(e)
    if isinstance(e, CIE):
        ad = rec([('True' if k is True else k, canon(v)) for k, v in e.augmentation_dict.items()])
        return rec([('kind', 'CIE'), ('offset', e.offset), ('header', canon(e.header)), ('aug_bytes', canon(e.augmentation_bytes)),
                    ('aug_dict', ad), ('instructions', ins), ('table', table), ('order', order)])
    assert isinstance(e, FDE)
    return rec([('kind', 'FDE'), ('offset', e.offset), ('header', canon(e.header)), ('cie', e.cie.offset),
                ('aug_bytes', canon(e.augmentation_bytes)), ('lsda_pointer', e.lsda_pointer), ('instructions', ins),
                ('table', table), ('order', order)])


def impl_section(data, eh, le, asz, address, size=None):
    di = make_dwarfinfo(data, eh, le, asz, address, size)
    es = di.EH_CFI_entries() if eh else di.CFI_entries()
    return [canon_entry(e) for e in es]


def strip_order(entries, expect=None):
    """drop the pyelftools-specific 'order' field; where the Spec gives no table (program not valid per §6.4) drop the table too"""
    out = []
    for i, e in enumerate(entries):
        pairs = [list(p) for p in e['r'] if p[0] != 'order']
        if expect is not None and i < len(expect):
            ex = dict((k, v) for k, v in expect[i]['r'])
            if 'table' in ex and ex['table'] is None:
                pairs = [[k, (None if k == 'table' else v)] for k, v in pairs]
        out.append({'r': pairs})
    return out


# ----------------------------------------------------------------------------- generators
def minlen_u(v):
    return max(1, (v.bit_length() + 6) // 7)


def minlen_s(v):
    n = 1
    while not (-(1 << (7 * n - 1)) <= v < (1 << (7 * n - 1))):
        n += 1
    return n


PAD = [0, 0, 0, 0, 1, 2]


def g_uleb(rng, bits=None):
    v = rnd_uint(rng, bits or rng.choice([3, 6, 7, 8, 14, 32, 64]))
    return [minlen_u(v) + rng.choice(PAD), v]


def g_sleb(rng):
    bits = rng.choice([4, 7, 8, 14, 32, 64])
    v = rnd_uint(rng, bits) - (1 << (bits - 1)) if rng.random() < 0.8 else rng.choice([0, -1, 1, -64, 63, 64, -65, -8, -4, 8])
    return [minlen_s(v) + rng.choice(PAD), v]


def g_reg(rng):
    r = rng.random()
    if r < 0.8:
        v = rng.randrange(0, 18)
    elif r < 0.95:
        v = rng.choice([31, 32, 63, 64, 65, 127, 128, 129, 255, 256, 1000])
    else:
        v = rnd_uint(rng, 32)
    return [minlen_u(v) + rng.choice(PAD), v]


def g_block(rng):
    ln = rng.choice([0, 1, 1, 2, 3, 5, 9, 127, 128, 130]) if rng.random() < 0.9 else rng.randrange(0, 400)
    return [minlen_u(ln) + rng.choice(PAD), hx(rnd_bytes(rng, ln))]


OPS = ['advance_loc', 'offset', 'restore', 'nop', 'set_loc', 'advance_loc1', 'advance_loc2', 'advance_loc4', 'offset_extended',
       'restore_extended', 'undefined', 'same_value', 'register', 'remember_state', 'restore_state', 'def_cfa',
       'def_cfa_register', 'def_cfa_offset', 'def_cfa_expression', 'expression', 'offset_extended_sf', 'def_cfa_sf',
       'def_cfa_offset_sf', 'val_offset', 'val_offset_sf', 'val_expression', 'negate_ra_state', 'gnu_args_size']


class PState:
    """what a generator must know to keep a program valid per §6.4.2"""

    def __init__(self, regoff=False):
        self.regoff = regoff
        self.stack = []


def g_instr(rng, asz, st, in_fde, allow_set_loc, sloppy):
    while True:
        m = rng.choice(OPS)
        if not sloppy:
            if m in ('def_cfa_register', 'def_cfa_offset', 'def_cfa_offset_sf') and not st.regoff:
                continue
            if m == 'restore_state' and not st.stack:
                continue
            if m in ('restore', 'restore_extended') and not in_fde:
                continue
            if m in ('advance_loc', 'advance_loc1', 'advance_loc2', 'advance_loc4', 'set_loc') and not in_fde and rng.random() < 0.9:
                continue
        if m == 'set_loc' and not allow_set_loc:
            continue
        break
    if m == 'advance_loc': return [m, rng.choice([0, 1, 2, 4, 8, 62, 63, rng.randrange(64)])]
    if m == 'offset': return [m, rng.randrange(64), g_uleb(rng)]
    if m == 'restore': return [m, rng.randrange(64) if rng.random() < 0.5 else rng.randrange(18)]
    if m in ('nop', 'negate_ra_state'): return [m]
    if m == 'remember_state':
        st.stack.append(st.regoff)
        return [m]
    if m == 'restore_state':
        if st.stack:
            st.regoff = st.stack.pop()
        return [m]
    if m == 'set_loc': return [m, rnd_uint(rng, 8 * asz)]
    if m == 'advance_loc1': return [m, rnd_uint(rng, 8)]
    if m == 'advance_loc2': return [m, rnd_uint(rng, 16)]
    if m == 'advance_loc4': return [m, rnd_uint(rng, 32)]
    if m in ('offset_extended', 'val_offset'): return [m, g_reg(rng), g_uleb(rng)]
    if m == 'register': return [m, g_reg(rng), g_reg(rng)]
    if m == 'def_cfa':
        st.regoff = True
        return [m, g_reg(rng), g_uleb(rng)]
    if m in ('restore_extended', 'undefined', 'same_value', 'def_cfa_register'): return [m, g_reg(rng)]
    if m in ('def_cfa_offset', 'gnu_args_size'): return [m, g_uleb(rng)]
    if m == 'def_cfa_expression':
        st.regoff = False
        return [m, g_block(rng)]
    if m in ('expression', 'val_expression'): return [m, g_reg(rng), g_block(rng)]
    if m in ('offset_extended_sf', 'val_offset_sf'): return [m, g_reg(rng), g_sleb(rng)]
    if m == 'def_cfa_sf':
        st.regoff = True
        return [m, g_reg(rng), g_sleb(rng)]
    if m == 'def_cfa_offset_sf': return [m, g_sleb(rng)]
    raise KeyError(m)


def g_instrs(rng, asz, st, in_fde, allow_set_loc, maxlen):
    n = rng.choice([0, 1, 2, 3, 5, 8, 13]) if rng.random() < 0.7 else rng.randrange(0, maxlen + 1)
    sloppy = rng.random() < 0.08
    return [g_instr(rng, asz, st, in_fde, allow_set_loc, sloppy) for _ in range(n)]


def g_ptr(rng, base, asz):
    if base == 0x00: return rnd_uint(rng, 8 * asz)
    if base == 0x01: return rnd_uint(rng, rng.choice([7, 14, 32, 64]))
    if base == 0x02: return rnd_uint(rng, 16)
    if base == 0x03: return rnd_uint(rng, 32)
    if base == 0x04: return rnd_uint(rng, 64)
    bits = {0x09: rng.choice([7, 14, 32, 64]), 0x0a: 16, 0x0b: 32, 0x0c: 64}[base]
    return rnd_uint(rng, bits) - (1 << (bits - 1))


def g_enc(rng, mods=(0x00, 0x10)):
    return rng.choice(BASES) | rng.choice(mods)


def g_cie(rng, eh, asz, maxlen):
    if eh:
        ver = rng.choice([1, 1, 3])
        f64 = False
        if rng.random() < 0.15:
            aug = None
        else:
            letters = [c for c in 'RLPS' if rng.random() < 0.5]
            rng.shuffle(letters)
            aug = []
            for c in letters:
                if c == 'R': aug.append(['R', g_enc(rng)])
                elif c == 'L': aug.append(['L', 0xff if rng.random() < 0.15 else g_enc(rng)])
                elif c == 'P':
                    e = g_enc(rng, (0x00, 0x10, 0x80, 0x90))
                    aug.append(['P', e, g_ptr(rng, e & 0x0f, asz)])
                else: aug.append(['S'])
    else:
        ver = rng.choice([1, 3, 4])
        f64 = rng.random() < 0.3
        aug = None
    fenc = 0
    for it in aug or []:
        if it[0] == 'R':
            fenc = it[1]
    caf = rng.choice([1, 1, 1, 2, 4, 4, 0, 3, 127, 128, 255, 1 << 31, (1 << 40) + 5])
    daf = rng.choice([-8, -8, -4, -4, 4, 8, 1, -1, 0, 63, -64, 64, -65, -(1 << 31), (1 << 40) + 3])
    ra = rnd_uint(rng, 8) if ver == 1 else rng.choice([16, 30, 14, 127, 128, 300, 65])
    st = PState()
    ins = g_instrs(rng, asz, st, False, (not eh) or fenc == 0, maxlen)
    c = {'t': 'cie', 'f64': f64, 'ver': ver, 'aug': aug, 'auglenN': 1 + rng.choice(PAD), 'asz': asz, 'seg': 0,
         'caf': [minlen_u(caf) + rng.choice(PAD), caf], 'daf': [minlen_s(daf) + rng.choice(PAD), daf],
         'ra': [minlen_u(ra) + (0 if ver == 1 else rng.choice(PAD)), ra], 'ins': ins}
    return c, st.regoff


def cie_encs(c):
    fenc, lenc = 0, 0xff
    for it in c['aug'] or []:
        if it[0] == 'R': fenc = it[1]
        if it[0] == 'L': lenc = it[1]
    return fenc, lenc


def g_fde(rng, eh, asz, cie_idx, cie, regoff, maxlen):
    fenc, lenc = cie_encs(cie) if eh else (0, 0xff)
    st = PState(regoff)
    ins = g_instrs(rng, asz, st, True, (not eh) or fenc == 0, maxlen)
    return {'t': 'fde', 'f64': (not eh) and rng.random() < 0.3, 'cie': cie_idx, 'loc': g_ptr(rng, fenc & 0x0f, asz),
            'range': g_ptr(rng, fenc & 0x0f, asz), 'lsda': 0 if lenc == 0xff else g_ptr(rng, lenc & 0x0f, asz),
            'auglenN': 1 + rng.choice(PAD), 'ins': ins}


def g_section(rng, quick):
    eh = rng.random() < 0.55
    le = rng.random() < 0.6
    asz = rng.choice([4, 8])
    address = rng.choice([0, 0, 0x1000, 0x400000, 1, 0x7fffffff, 0xffffffff, 0x7ffff7dd0000, (1 << 64) - 16]) if rng.random() < 0.8 else rnd_uint(rng, 64)
    n = rng.choice([1, 2, 2, 3, 3, 4, 5, 7]) if quick or rng.random() < 0.6 else rng.randrange(1, 13)
    maxlen = 25 if quick else 60
    ncie = max(1, min(n, rng.choice([1, 1, 2, 3])))
    if eh:
        entries, cies = [], []
        for i in range(n):
            if not cies or (len(cies) < ncie and rng.random() < 0.4):
                c, ro = g_cie(rng, eh, asz, maxlen)
                cies.append((len(entries), c, ro))
                entries.append(c)
            else:
                idx, c, ro = rng.choice(cies)
                entries.append(g_fde(rng, eh, asz, idx, c, ro, maxlen))
            if rng.random() < 0.05:
                entries.append({'t': 'zero'})
        if rng.random() < 0.5:
            entries.append({'t': 'zero'})
    else:
        cies = [g_cie(rng, eh, asz, maxlen) for _ in range(ncie)]
        items = [('c', i) for i in range(ncie)] + [('f', rng.randrange(ncie)) for _ in range(n - ncie)]
        if rng.random() < 0.6:
            rng.shuffle(items)                       # FDE before its CIE
        pos = {}
        for k, (t, i) in enumerate(items):
            if t == 'c':
                pos[i] = k
        entries = []
        for t, i in items:
            if t == 'c':
                entries.append(cies[i][0])
            else:
                entries.append(g_fde(rng, eh, asz, pos[i], cies[i][0], cies[i][1], maxlen))
    return {'eh': eh, 'le': le, 'asz': asz, 'address': address, 'entries': entries}


# ----------------------------------------------------------------------------- streams
def ask_all(ctx, reqs, limit=40000):
    """batches whose request text stays below the pipe capacity (the driver answers while we are still writing)"""
    import json
    out, batch, size = [], [], 0
    for r in reqs:
        n = len(json.dumps(r, separators=(',', ':'))) + 24
        if batch and size + n > limit:
            out += ctx.driver.ask_many(batch)
            batch, size = [], 0
        batch.append(r)
        size += n
    if batch:
        out += ctx.driver.ask_many(batch)
    return out


def check_sec(ctx, stream, sec, r):
    out = ctx.out
    data = bytes.fromhex(r['bytes'])
    impl = run_impl(lambda: impl_section(data, sec['eh'], sec['le'], sec['asz'], sec['address']))
    case = {'sec': sec, 'bytes': r['bytes']}
    model = r['model']
    if not r['wf']:
        out.count(stream + ':not-wf')
        out.case(case, nontrivial=False)
        if impl != model:
            out.violation('correspondence', stream, case, got=impl, model=model)
        return
    out.case(case)
    expect = r['expect']
    got = {'ok': strip_order(impl['ok'], expect)} if 'ok' in impl else impl
    want = {'ok': strip_order(expect, expect)}
    if got != want:
        out.violation('property', stream, case, expect=want, got=got, model=model)
    elif impl != model:
        out.violation('correspondence', stream, case, got=impl, model=model)


def hist_sec(ctx, sec, r):
    out = ctx.out
    out.count('sec:eh' if sec['eh'] else 'sec:debug_frame')
    out.count('sec:entries=%d' % min(len(sec['entries']), 13))
    seen_cie = set()
    for i, e in enumerate(sec['entries']):
        out.count('entry:' + e['t'])
        if e['t'] == 'cie':
            seen_cie.add(i)
            out.count('cie:v%d%s' % (e['ver'], ':64' if e['f64'] else ''))
            if sec['eh']:
                out.count('aug:' + ('none' if e['aug'] is None else 'z' + ''.join(it[0] for it in e['aug'])))
                for it in e['aug'] or []:
                    if it[0] in 'RLP':
                        out.count('enc:%s:%02x' % (it[0], it[1]))
        elif e['t'] == 'fde':
            if e['cie'] not in seen_cie:
                out.count('fde:before-its-cie')
        for ins in e.get('ins', []):
            out.count('op:' + ins[0])
    if r.get('wf') and isinstance(r.get('expect'), list):
        for ex in r['expect']:
            d = dict((k, v) for k, v in ex['r'])
            if 'table' in d:
                out.count('table:' + ('std-defined' if d['table'] is not None else 'program-not-valid'))


def run_sec(ctx):
    rng = ctx.rng('sec')
    n = ctx.budget(700, 14000)
    secs = [g_section(rng, ctx.tier == 'quick') for _ in range(n)]
    replies = ask_all(ctx, [{'p': 'C06', 'k': 'ast', 'sec': s} for s in secs])
    keep = []
    for s, r in zip(secs, replies):
        if 'fatal' in r:
            raise RuntimeError('driver: %s on %r' % (r['fatal'], s))
        hist_sec(ctx, s, r)
        check_sec(ctx, 'sec', s, r)
        keep.append((s, r))
    return keep


def run_instrs(ctx):
    from elftools.dwarf.callframe import CallFrameInfo
    from elftools.dwarf.structs import DWARFStructs
    rng = ctx.rng('instrs')
    reqs = []
    for _ in range(ctx.budget(500, 12000)):
        asz = rng.choice([4, 8])
        st = PState()
        ins = [g_instr(rng, asz, st, True, True, True) for _ in range(rng.choice([0, 1, 1, 2, 3, 6, 20, 60]))]
        reqs.append({'p': 'C06', 'k': 'instrs', 'le': rng.random() < 0.5, 'asz': asz, 'ins': ins,
                     'pre': hx(rnd_bytes(rng, rng.choice([0, 0, 1, 5, 17]))), 'rest': hx(rnd_bytes(rng, rng.choice([0, 0, 1, 3, 9])))})
    replies = ask_all(ctx, reqs)
    for rq, r in zip(reqs, replies):
        if 'fatal' in r:
            raise RuntimeError('driver: %s on %r' % (r['fatal'], rq))
        impl = run_impl(lambda: impl_instrs(rq, r))
        case = {'req': rq, 'bytes': r['bytes']}
        ctx.out.count('instrs')
        if not r['wf']:
            ctx.out.count('instrs:not-wf')
            continue
        ctx.out.case(case)
        if impl != {'ok': r['expect']}:
            ctx.out.violation('property', 'instrs', case, expect=r['expect'], got=impl, model=r['model'])
        elif impl != r['model']:
            ctx.out.violation('correspondence', 'instrs', case, got=impl, model=r['model'])


def impl_instrs(rq, r):
    from elftools.dwarf.callframe import CallFrameInfo
    from elftools.dwarf.structs import DWARFStructs
    data = bytes.fromhex(r['bytes'])
    pre = len(rq['pre']) // 2
    end = r['expect']['pos']
    st = io.BytesIO(data)
    structs = DWARFStructs(little_endian=rq['le'], dwarf_format=32, address_size=rq['asz'])
    cfi = CallFrameInfo(st, len(data), 0, structs)
    st.seek(pre)
    ins = cfi._parse_instructions(structs, pre, end)
    return {'v': [[i.opcode, [canon(a) for a in i.args]] for i in ins], 'pos': st.tell()}


def damage(rng, data):
    b = bytearray(data)
    r = rng.random()
    if r < 0.25 and len(b) > 1:
        return bytes(b[:rng.randrange(1, len(b))]), 'truncate'
    k = rng.choice([1, 1, 2, 3])
    for _ in range(k):
        if not b:
            break
        i = rng.randrange(len(b))
        b[i] = rng.choice([0, 1, 0xff, 0x7f, 0x80, b[i] ^ (1 << rng.randrange(8)), rng.randrange(256)])
    return bytes(b), 'edit%d' % k


def run_raw(ctx, keep):
    rng = ctx.rng('raw')
    n = ctx.budget(500, 10000)
    reqs, metas = [], []
    pool = [(s, r) for s, r in keep if r['wf'] and len(r['bytes']) >= 16]
    if not pool:
        return
    for _ in range(n):
        s, r = rng.choice(pool)
        data, how = damage(rng, bytes.fromhex(r['bytes']))
        reqs.append({'p': 'C06', 'k': 'raw', 'eh': s['eh'], 'le': s['le'], 'asz': s['asz'], 'address': s['address'], 'hex': hx(data)})
        metas.append(how)
    replies = ask_all(ctx, reqs)
    for rq, how, r in zip(reqs, metas, replies):
        if 'fatal' in r:
            raise RuntimeError('driver: %s on %r' % (r['fatal'], rq))
        impl = run_impl(lambda: impl_section(bytes.fromhex(rq['hex']), rq['eh'], rq['le'], rq['asz'], rq['address']))
        model = r['model']
        ctx.out.count('raw:' + how)
        if impl.get('err') == 'other:RecursionError' or model.get('err') == 'outOfFuel':
            ctx.out.count('raw:unbounded-recursion-aside')
            continue
        ctx.out.count('raw:' + ('ok' if 'ok' in impl else impl['err']))
        case = {k: rq[k] for k in ('eh', 'le', 'asz', 'address', 'hex')}
        ctx.out.case(case)
        if impl != model:
            ctx.out.violation('correspondence', 'raw', case, got=impl, model=model)


def make_dwarfinfo_both(dbg, eh, le, asz):
    """one DWARFInfo holding a .debug_frame AND an .eh_frame section (the observation point the property names)"""
    from elftools.dwarf.dwarfinfo import DWARFInfo, DebugSectionDescriptor, DwarfConfig
    kw = dict(debug_info_sec=None, debug_aranges_sec=None, debug_abbrev_sec=None, debug_frame_sec=None, eh_frame_sec=None,
              debug_str_sec=None, debug_loc_sec=None, debug_ranges_sec=None, debug_line_sec=None, debug_pubtypes_sec=None,
              debug_pubnames_sec=None, debug_addr_sec=None, debug_str_offsets_sec=None, debug_line_str_sec=None,
              debug_loclists_sec=None, debug_rnglists_sec=None, debug_sup_sec=None, gnu_debugaltlink_sec=None,
              debug_types_sec=None)
    kw['debug_frame_sec'] = DebugSectionDescriptor(io.BytesIO(dbg[0]), '.debug_frame', 0, len(dbg[0]), dbg[1])
    kw['eh_frame_sec'] = DebugSectionDescriptor(io.BytesIO(eh[0]), '.eh_frame', 0, len(eh[0]), eh[1])
    return DWARFInfo(config=DwarfConfig(little_endian=le, machine_arch='x64', default_address_size=asz), **kw)


def impl_both(dbg, eh, le, asz, order):
    """the accessors called in the given order ('d' = CFI_entries, 'e' = EH_CFI_entries) on ONE object"""
    di = make_dwarfinfo_both(dbg, eh, le, asz)
    out = []
    for o in order:
        es = di.CFI_entries() if o == 'd' else di.EH_CFI_entries()
        out.append([canon_entry(e) for e in es])
    return out


def run_both(ctx, keep):
    """one file normally carries both sections: each accessor must return ITS section's entries whatever was asked before"""
    rng = ctx.rng('both')
    dbg = [(s, r) for s, r in keep if r.get('wf') and not s['eh']]
    ehs = [(s, r) for s, r in keep if r.get('wf') and s['eh']]
    for _ in range(ctx.budget(120, 2500)):
        if not dbg or not ehs:
            return
        sd, rd = rng.choice(dbg)
        cands = [(s, r) for s, r in ehs if s['le'] == sd['le'] and s['asz'] == sd['asz']]
        if not cands:
            continue
        se, re_ = rng.choice(cands)
        order = rng.choice(['de', 'ed', 'dde', 'eed', 'ded', 'ede'])
        d = (bytes.fromhex(rd['bytes']), sd['address'])
        e = (bytes.fromhex(re_['bytes']), se['address'])
        single = {'d': run_impl(lambda: impl_section(d[0], False, sd['le'], sd['asz'], sd['address'])),
                  'e': run_impl(lambda: impl_section(e[0], True, se['le'], se['asz'], se['address']))}
        impl = run_impl(lambda: impl_both(d, e, sd['le'], sd['asz'], order))
        case = {'dbg': {'sec': sd, 'bytes': rd['bytes']}, 'eh': {'sec': se, 'bytes': re_['bytes']}, 'order': order}
        ctx.out.count('both:' + order)
        ctx.out.case(case)
        if 'ok' not in single['d'] or 'ok' not in single['e']:
            continue                      # judged by the 'sec' stream
        want = {'ok': [single[o]['ok'] for o in order]}
        if impl != want:
            ctx.out.violation('property', 'both', case, expect=want, got=impl)


def run(ctx):
    keep = run_sec(ctx)
    run_both(ctx, keep)
    run_instrs(ctx)
    run_raw(ctx, keep)


def replay(ctx, payload):
    v = payload['violation']
    case = v['case']
    res = {'stream': v['stream'], 'case': case}
    if v['stream'] == 'sec':
        sec = case['sec']
        r = ctx.driver.ask({'p': 'C06', 'k': 'ast', 'sec': sec})
        data = bytes.fromhex(r['bytes'])
        impl = run_impl(lambda: impl_section(data, sec['eh'], sec['le'], sec['asz'], sec['address']))
        if r['wf']:
            got = {'ok': strip_order(impl['ok'], r['expect'])} if 'ok' in impl else impl
            want = {'ok': strip_order(r['expect'], r['expect'])}
            res.update(impl=got, expect=want, model=r['model'], fails=(got != want or impl != r['model']),
                       property_fails=(got != want))
        else:
            res.update(impl=impl, model=r['model'], fails=(impl != r['model']))
    elif v['stream'] == 'both':
        sd, se, order = case['dbg']['sec'], case['eh']['sec'], case['order']
        d = (bytes.fromhex(case['dbg']['bytes']), sd['address'])
        e = (bytes.fromhex(case['eh']['bytes']), se['address'])
        single = {'d': run_impl(lambda: impl_section(d[0], False, sd['le'], sd['asz'], sd['address'])),
                  'e': run_impl(lambda: impl_section(e[0], True, se['le'], se['asz'], se['address']))}
        impl = run_impl(lambda: impl_both(d, e, sd['le'], sd['asz'], order))
        want = {'ok': [single[o].get('ok') for o in order]}
        res.update(impl=impl, expect=want, fails=(impl != want))
    elif v['stream'] == 'instrs':
        rq = case['req']
        r = ctx.driver.ask(rq)
        impl = run_impl(lambda: impl_instrs(rq, r))
        res.update(impl=impl, expect=r['expect'], model=r['model'], fails=(impl != {'ok': r['expect']} or impl != r['model']))
    else:
        rq = dict(case, p='C06', k='raw')
        r = ctx.driver.ask(rq)
        impl = run_impl(lambda: impl_section(bytes.fromhex(case['hex']), case['eh'], case['le'], case['asz'], case['address']))
        res.update(impl=impl, model=r['model'], fails=(impl != r['model']))
    return res


FINDINGS = {}
