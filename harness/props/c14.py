"""C14 — note sections / segments yield every note exactly once; stab records likewise.  Streams:

  ast    : abstract note lists (0..12 notes; owners None/''/GNU/CORE/unknown; name and descriptor sizes over every
           residue mod 4; GNU ABI tag / build id / gold version / multi-property lists; core prpsinfo / NT_FILE; unknown
           types) → Lean *Spec encoder* → wrapped in an ELF container as an SHT_NOTE section AND a PT_NOTE segment over the
           same bytes → the real library through ELFFile(...).iter_sections()/iter_segments() → compared with the
           observation the Spec prescribes (property), section view vs segment view (property), and the model run on the
           whole file image with the generated bundle (correspondence)
  raw    : the same extents corrupted (byte flips, declared size shorter / longer than the extent, random bytes) and
           the note sections / segments of the repository's test binaries → real library vs model, errors included
  stabs  : abstract stab records → Spec encoder → `.stab` section → StabSection.iter_stabs vs Spec and model; raw sizes
           that are not a multiple of 12
  file   : (fourth wave) abstract ELF descriptions (C01's `ElfDesc`: tables and bodies anywhere, any sh_addralign / p_align)
           holding 1..3 note sections, PT_NOTE headers over one section, over several sections laid end to end and over a
           slice of a PROGBITS body → bytes by the Lean Spec assembler → `ELFFile(BytesIO(bytes)).get_section(i).iter_notes()`
           / `.get_segment(j).iter_notes()` vs the observation the whole-file theorems prescribe (the hypotheses of
           `file_section_notes_exact` / `file_segment_notes_exact` / `file_segment_notes_over_sections` are decided by the
           driver on every case) and vs the file-level model (ELFFile mirror + notes mirror); sections / segments of other
           classes (AttributeError) by correspondence
  edge   : (fourth wave) the edge of the domain, again through whole files: a last note whose padding / descriptor / name runs past
           the extent end (or a final note without padding ending exactly at the extent end and at EOF), a header the extent
           promises but the file does not hold (ELFParseError), a name field without NUL (construct error) — vs the result the
           theorems `last_note_past_extent_end`, `truncated_header_error`, `unterminated_name_error`,
           `descriptor_cut_by_end_of_file` state, and vs the model
"""
import io, os, glob
from common import run_impl, canon, hx, rnd_uint, rnd_bytes, REPO
import elfbuild
from elfbuild import ElfImage, SHT_NOTE, SHT_PROGBITS, PT_NOTE, ET_REL, ET_EXEC, ET_DYN, ET_CORE

RULE = ('ast: cfg = (byte order, class, machine in 9 incl. the 16-bit-uid set, ET_CORE or not) x list of 0..12 notes; each note '
        'draws owner from {none, "", GNU, CORE, LINUX, random NUL-free 1..21 bytes} and a descriptor grammar consistent with '
        '(owner, type, core) — raw bytes of length 0..40 (every residue mod 4), ABI tag, build id, gold version, 0..6 properties '
        '(stack size of native / foreign width, no-copy, x86 / aarch64 feature words, unknown types with 0..13 data bytes), '
        'prpsinfo, NT_FILE with 0..4 maps — optional 0..11 trailing bytes, extent at an arbitrary file offset; encoded by the Lean '
        'Spec encoder. raw: byte flips / size overrides of such extents, random extents, and all note sections and segments of '
        'test/testfiles_for_unittests. stabs: 0..20 records. file: ElfDesc with null section, 0..2 filler sections, 1..3 SHT_NOTE '
        'sections (each 0..5 notes as in ast, optional 0..11-byte tail), optional PROGBITS body holding an extent at an inner '
        'offset, `.shstrtab` anywhere; PT_NOTE per note section, one over all note sections when laid end to end, one into the '
        'PROGBITS body, PT_LOAD fillers; regions in random order with random gaps, sh_addralign / p_align from {0,1,4,8,16}, '
        'entry sizes padded by 0/8; assembled by the Lean Spec assembler. edge: 0..3 well-formed notes followed by (bare) a last '
        'note without padding + 0..20 more bytes with the extent ending anywhere from its header end to just before the next '
        'header would fit, (trunc) 0..11 bytes then EOF with an extent claiming 12+ more, (nonul) a header with n_namesz 1..16 and '
        'a NUL-free name field, complete or cut by EOF, (cut) a raw-kind note declaring 0..2^31 more descriptor bytes than '
        'the file holds. Non-trivial = distinct (cfg, notes, layout); '
        'empty note lists are counted as trivial.')
ASSUMPTIONS = ['io.BytesIO read/seek/tell semantics', 'bytes.decode("latin-1") is the code-point identity',
               'bytes.hex() is lower-case base 16',
               'the ELF container (header, section/program header tables) is parsed as C01/C02 state; here it only carries offset and size']

MACHINES = [('EM_386', elfbuild.EM_386), ('EM_X86_64', elfbuild.EM_X86_64), ('EM_ARM', elfbuild.EM_ARM),
            ('EM_AARCH64', elfbuild.EM_AARCH64), ('EM_MIPS', elfbuild.EM_MIPS), ('EM_PPC64', elfbuild.EM_PPC64),
            ('EM_S390', elfbuild.EM_S390), ('EM_RISCV', elfbuild.EM_RISCV), ('EM_SPARC', 2)]
NT_FILE = 0x46494c45
FEATURE_TYPES = [0xc0000002, 0xc0008002, 0xc0010001, 0xc0010002, 0xc0000000]
SECNAME = '.note.c14'


# ----------------------------------------------------------------------------- generators
def gen_cfg(rng):
    name, num = rng.choice(MACHINES)
    core = rng.random() < 0.4
    return {'le': rng.random() < 0.5, 'cls': rng.choice([32, 64]), 'machine': name, 'core': core,
            'e_machine': num, 'e_type': ET_CORE if core else rng.choice([ET_REL, ET_EXEC, ET_DYN])}


def nonul(rng, n):
    return bytes(rng.randrange(1, 256) for _ in range(n))


def gen_owner(rng):
    r = rng.random()
    if r < 0.12: return None
    if r < 0.2: return b''
    if r < 0.5: return b'GNU'
    if r < 0.65: return b'CORE'
    if r < 0.72: return b'LINUX'
    if r < 0.76: return rng.choice([b'GN', b'GNUX', b'gnu', b'GNU '])
    return nonul(rng, rng.choice([1, 2, 3, 4, 5, 6, 7, 8, 9, 11, 16, 21]))


def gen_type(rng):
    r = rng.random()
    if r < 0.5: return rng.choice([0, 1, 2, 3, 4, 5, 6, 7])
    if r < 0.65: return rng.choice([NT_FILE, 0x53494749, 0x46494c44, 0x100, 0x202, 0xffffffff])
    return rnd_uint(rng, 32)


def gen_prop(rng, cfg, allow_bad):
    w = cfg['cls'] // 8
    r = rng.random()
    if r < 0.2:
        ln = w if rng.random() < 0.7 else rng.choice([0, 4, 8, 3, 12])
        return {'type': 1, 'data': hx(rnd_bytes(rng, ln))}
    if r < 0.3:
        return {'type': 2, 'data': hx(rnd_bytes(rng, rng.choice([0, 0, 0, 1, 4])))}
    if r < 0.65:
        ln = 4
        if allow_bad and rng.random() < 0.15:
            ln = rng.choice([0, 1, 3, 5, 8])
        return {'type': rng.choice(FEATURE_TYPES), 'data': hx(rnd_bytes(rng, ln))}
    t = rng.choice([0, 3, 0xc0000001, 0xc0000003, 0xb0000000, 0xfffffffe, rnd_uint(rng, 32)])
    return {'type': t, 'data': hx(rnd_bytes(rng, rng.randrange(0, 14)))}


def gen_prps(rng, cfg):
    w = cfg['cls'] // 8
    ug = 2 if (cfg['cls'] == 32 and cfg['machine'] in ('EM_386', 'EM_ARM', 'EM_S390', 'EM_SPARC')) else 4
    return {'k': 'prps', 'state': rnd_uint(rng, 8), 'sname': rng.randrange(256), 'zomb': rnd_uint(rng, 8), 'nice': rnd_uint(rng, 8),
            'flag': rnd_uint(rng, 8 * w), 'uid': rnd_uint(rng, 8 * ug), 'gid': rnd_uint(rng, 8 * ug), 'pid': rnd_uint(rng, 32),
            'ppid': rnd_uint(rng, 32), 'pgrp': rnd_uint(rng, 32), 'sid': rnd_uint(rng, 32),
            'fname': hx((nonul(rng, rng.randrange(0, 17)) + bytes(16))[:16]),
            'psargs': hx((nonul(rng, rng.randrange(0, 81)) + bytes(80))[:80])}


def gen_file(rng, cfg):
    w = cfg['cls'] // 8
    maps = [{'s': rnd_uint(rng, 8 * w), 'e': rnd_uint(rng, 8 * w), 'o': rnd_uint(rng, 8 * w),
             'name': hx(nonul(rng, rng.choice([0, 1, 2, 3, 4, 5, 9, 17])))} for _ in range(rng.choice([0, 1, 1, 2, 3, 4]))]
    return {'k': 'file', 'page': rng.choice([1, 4096, 0x10000, rnd_uint(rng, 8 * w)]), 'maps': maps}


def gen_desc_for(rng, cfg, owner, typ, allow_bad):
    """A descriptor of the grammar that (owner, type, core) call for."""
    raw = lambda: {'k': 'raw', 'd': hx(rnd_bytes(rng, rng.choice([0, 0, 1, 2, 3, 4, 5, 6, 7, 8, 13, 16, 20, 31, 40])))}
    if allow_bad and rng.random() < 0.06:
        return raw()                                            # wrong grammar on purpose (not wf)
    if cfg['core']:
        if typ == 3: return gen_prps(rng, cfg)
        if typ == NT_FILE: return gen_file(rng, cfg)
        return raw()
    if owner == b'GNU':
        if typ == 1:
            return {'k': 'abi', 'os': rng.choice([0, 1, 2, 3, 4, 5, 6, rnd_uint(rng, 32)]), 'major': rnd_uint(rng, 32),
                    'minor': rnd_uint(rng, 32), 'tiny': rnd_uint(rng, 32)}
        if typ == 3: return {'k': 'build', 'd': hx(rnd_bytes(rng, rng.choice([0, 1, 3, 8, 16, 20, 20, 21, 32])))}
        if typ == 4: return {'k': 'gold', 'd': hx(rnd_bytes(rng, rng.choice([0, 1, 5, 8, 9, 10, 11])))}
        if typ == 5: return {'k': 'props', 'ps': [gen_prop(rng, cfg, allow_bad) for _ in range(rng.choice([0, 1, 1, 2, 3, 4, 6]))]}
    return raw()


def gen_note(rng, cfg, allow_bad=True):
    owner = gen_owner(rng)
    r = rng.random()
    if cfg['core']:
        if r < 0.25: typ, owner = 3, (b'CORE' if rng.random() < 0.8 else owner)
        elif r < 0.45: typ, owner = NT_FILE, (b'CORE' if rng.random() < 0.8 else owner)
        else: typ = gen_type(rng)
    else:
        if r < 0.45: typ, owner = rng.choice([1, 3, 4, 5, 5]), b'GNU'
        else: typ = gen_type(rng)
    return {'owner': None if owner is None else hx(owner), 'type': typ, 'desc': gen_desc_for(rng, cfg, owner, typ, allow_bad)}


def gen_notes(rng, cfg):
    n = rng.choice([0, 1, 1, 2, 2, 3, 4, 5, 8, 12])
    notes = [gen_note(rng, cfg) for _ in range(n)]
    if n and rng.random() < 0.3:                                   # a header-only final note
        notes[-1] = {'owner': None, 'type': gen_type(rng), 'desc': {'k': 'raw', 'd': ''}}
    return notes


def lean_cfg(cfg):
    return {'le': cfg['le'], 'cls': cfg['cls'], 'machine': cfg['machine'], 'core': cfg['core']}


# ----------------------------------------------------------------------------- the real library
def build_image(cfg, extent, layout, secname=SECNAME, sectype=SHT_NOTE, segment=True):
    """ELF container: an optional filler section (moves the extent to any offset), the extent as a section and,
    for notes, a PT_NOTE segment over the same bytes.  `layout['size']` overrides the declared size."""
    img = ElfImage(cls=cfg['cls'], le=cfg['le'], e_type=cfg['e_type'], e_machine=cfg['e_machine'])
    if layout.get('filler'):
        img.add_section('.fill', SHT_PROGBITS, data=bytes.fromhex(layout['filler']), addralign=1)
    i = img.add_section(secname, sectype, data=extent, addralign=layout.get('align', 1), size=layout.get('size'))
    if layout.get('after'):
        img.add_section('.after', SHT_PROGBITS, data=bytes.fromhex(layout['after']), addralign=1)
    if segment:
        img.add_segment(PT_NOTE, section=i)
    data = img.build()
    size = layout['size'] if layout.get('size') is not None else len(extent)
    return data, img.offsets[i], size


def canon_notes(it):
    return [canon(n) for n in it]


def prewalk(obj, data):
    """Before the observed walk, partially consume iter_notes() on the SAME object (0, 1 or 2 notes, chosen from a hash of the
    image so that a replay does the same): every walk must yield every note, whatever an earlier walk consumed or abandoned."""
    import hashlib
    k = hashlib.sha1(data).digest()[0] % 3
    try:
        it = obj.iter_notes()
        for _ in range(k):
            next(it)
    except Exception:      # noqa: BLE001 — errors are judged on the observed walk
        pass


def impl_views(data, secname=SECNAME):
    """(section view, segment view) of the real library on a file image."""
    from elftools.elf.elffile import ELFFile
    from elftools.elf.sections import NoteSection
    from elftools.elf.segments import NoteSegment

    def sec():
        ef = ELFFile(io.BytesIO(data))
        s = ef.get_section_by_name(secname)
        assert isinstance(s, NoteSection)
        prewalk(s, data)
        return canon_notes(s.iter_notes())

    def seg():
        ef = ELFFile(io.BytesIO(data))
        segs = [s for s in ef.iter_segments() if isinstance(s, NoteSegment)]
        assert len(segs) == 1
        prewalk(segs[0], data)
        return canon_notes(segs[0].iter_notes())
    return run_impl(sec), run_impl(seg)


def impl_stabs(data):
    from elftools.elf.elffile import ELFFile
    from elftools.elf.sections import StabSection

    def f():
        ef = ELFFile(io.BytesIO(data))
        s = ef.get_section_by_name('.stab')
        assert isinstance(s, StabSection)
        return [canon(x) for x in s.iter_stabs()]
    return run_impl(f)


def gen_layout(rng):
    lay = {}
    if rng.random() < 0.5:
        lay['filler'] = hx(rnd_bytes(rng, rng.choice([1, 2, 3, 5, 8, 13])))
    if rng.random() < 0.5:
        lay['align'] = rng.choice([4, 8])
    if rng.random() < 0.3:
        lay['after'] = hx(rnd_bytes(rng, rng.choice([1, 4, 12, 40])))
    return lay


def ask_all(ctx, reqs, limit=24000):
    """ask_many in batches small enough never to fill both pipes (requests here carry whole file images)."""
    out, batch, size = [], [], 0
    for r in reqs:
        n = len(r.get('hex', '')) + 2000
        if batch and size + n > limit:
            out += ctx.driver.ask_many(batch)
            batch, size = [], 0
        batch.append(r)
        size += n
    if batch:
        out += ctx.driver.ask_many(batch)
    return out


def fatal(r, rq):
    if 'fatal' in r:
        raise RuntimeError('driver: %s on %r' % (r['fatal'], {k: v for k, v in rq.items() if k != 'hex'}))


# ----------------------------------------------------------------------------- streams
def judge(ctx, stream, case, file_hex, impl_sec, impl_seg, r, wf):
    """property: both views == expect (only when wf); views agree; correspondence: impl == model."""
    out = ctx.out
    full = dict(case, file=file_hex)
    if wf:
        exp = {'ok': r['expect']}
        if impl_sec != exp:
            out.violation('property', stream, full, view='section', expect=r['expect'], got=impl_sec, model=r['model'])
            return
        if impl_seg != exp:
            out.violation('property', stream, full, view='segment', expect=r['expect'], got=impl_seg, model=r['model_seg'])
            return
    if impl_sec != impl_seg:
        out.violation('property', stream, full, view='section-vs-segment', expect=impl_sec, got=impl_seg, model=r['model'])
        return
    if impl_sec != r['model']:
        out.violation('correspondence', stream, full, view='section', got=impl_sec, model=r['model'])
    elif impl_seg != r['model_seg']:
        out.violation('correspondence', stream, full, view='segment', got=impl_seg, model=r['model_seg'])


def run_ast(ctx):
    rng = ctx.rng('ast')
    n = ctx.budget(1500, 40000)
    cases = []
    for _ in range(n):
        cfg = gen_cfg(rng)
        notes = gen_notes(rng, cfg)
        tail = rnd_bytes(rng, rng.choice([0, 0, 0, 1, 3, 4, 7, 8, 11])) if rng.random() < 0.35 else b''
        cases.append({'cfg': cfg, 'notes': notes, 'tail': hx(tail), 'layout': gen_layout(rng)})
    encs = ask_all(ctx, [{'p': 'C14', 'k': 'enc', 'cfg': lean_cfg(c['cfg']), 'notes': c['notes'], 'tail': c['tail']} for c in cases])
    runs, imgs = [], []
    for c, e in zip(cases, encs):
        fatal(e, c)
        data, off, size = build_image(c['cfg'], bytes.fromhex(e['bytes']), c['layout'])
        imgs.append((data, off, size))
        runs.append({'p': 'C14', 'k': 'run', 'cfg': lean_cfg(c['cfg']), 'notes': c['notes'], 'hex': hx(data), 'offset': off, 'size': size})
    replies = ask_all(ctx, runs)
    for c, e, (data, off, size), rq, r in zip(cases, encs, imgs, runs, replies):
        fatal(r, rq)
        impl_sec, impl_seg = impl_views(data)
        ctx.out.case(c, nontrivial=bool(c['notes']))
        ctx.out.count('ast:wf' if e['wf'] else 'ast:not-wf')
        ctx.out.count('ast:notes=%d' % len(c['notes']))
        ctx.out.count('ast:%s/%d/%s' % ('LE' if c['cfg']['le'] else 'BE', c['cfg']['cls'], 'core' if c['cfg']['core'] else 'noncore'))
        for nt in c['notes']:
            ctx.out.count('ast:desc:' + nt['desc']['k'])
            own = nt['owner']
            ctx.out.count('ast:namesz%%4=%s' % ('none' if own is None else (len(own) // 2 + 1) % 4))
            if nt['desc']['k'] in ('raw', 'build', 'gold'):
                ctx.out.count('ast:descsz%%4=%d' % ((len(nt['desc']['d']) // 2) % 4))
        if c['notes'] and c['notes'][-1]['owner'] is None and c['notes'][-1]['desc'] == {'k': 'raw', 'd': ''} and not c['tail']:
            ctx.out.count('ast:final-header-only-at-end')
        judge(ctx, 'ast', c, hx(data), impl_sec, impl_seg, r, e['wf'])


def corpus_items():
    """(path, cfg, [(offset, size)]) for the note sections / segments of the repository's test binaries."""
    from elftools.elf.elffile import ELFFile
    from elftools.elf.sections import NoteSection
    from elftools.elf.segments import NoteSegment
    num2name = {n: nm for nm, n in MACHINES}
    for path in sorted(glob.glob(os.path.join(REPO, 'test', 'testfiles_for_*', '*'))):
        try:
            if os.path.getsize(path) > 600000:
                continue
            with open(path, 'rb') as f:
                data = f.read()
            ef = ELFFile(io.BytesIO(data))
            m = ef['e_machine']
            if not isinstance(m, str):
                continue
            cfg = {'le': ef.little_endian, 'cls': ef.elfclass, 'machine': m, 'core': ef['e_type'] == 'ET_CORE'}
            ext = []
            for s in ef.iter_sections():
                if isinstance(s, NoteSection):
                    ext.append(('sec', s['sh_offset'], s['sh_size']))
            for s in ef.iter_segments():
                if isinstance(s, NoteSegment):
                    ext.append(('seg', s['p_offset'], s['p_filesz']))
            if ext:
                yield path, data, cfg, ext
        except Exception:
            continue


def impl_direct(data, cfg_unused, off, size):
    """iter_notes on a real file at a given extent (the function both front ends delegate to)."""
    from elftools.elf.elffile import ELFFile
    from elftools.elf.notes import iter_notes

    def f():
        ef = ELFFile(io.BytesIO(data))
        return canon_notes(iter_notes(ef, off, size))
    return run_impl(f)


def run_raw(ctx):
    rng = ctx.rng('raw')
    n = ctx.budget(700, 20000)
    cases = []
    for _ in range(n):
        cfg = gen_cfg(rng)
        notes = [gen_note(rng, cfg) for _ in range(rng.choice([1, 1, 2, 3, 5]))]
        cases.append({'cfg': cfg, 'notes': notes, 'layout': gen_layout(rng)})
    encs = ask_all(ctx, [{'p': 'C14', 'k': 'enc', 'cfg': lean_cfg(c['cfg']), 'notes': c['notes'], 'tail': ''} for c in cases])
    reqs, imgs = [], []
    for c, e in zip(cases, encs):
        fatal(e, c)
        ext = bytearray(bytes.fromhex(e['bytes']))
        mode = rng.choice(['flip', 'flip', 'hdrflip', 'short', 'long', 'random', 'truncfile'])
        lay = c['layout']
        if mode == 'flip' and ext:
            for _ in range(rng.choice([1, 1, 2, 4])):
                ext[rng.randrange(len(ext))] = rng.choice([0, 1, 3, 4, 5, 0xff, rng.randrange(256)])
        elif mode == 'hdrflip' and ext:
            # corrupt a size / type field of the first header with a small or boundary value
            fld = rng.choice([0, 4, 8])
            v = rng.choice([0, 1, 2, 3, 4, 5, 7, 8, 12, 16, 17, 0x7fffffff, 0xffffffff, len(ext), len(ext) - 12, len(ext) + 1]) & 0xffffffff
            ext[fld:fld + 4] = v.to_bytes(4, 'little' if c['cfg']['le'] else 'big')
        elif mode == 'short':
            lay['size'] = max(0, len(ext) - rng.choice([1, 2, 3, 4, 8, 11, 12, 13, 16]))
        elif mode == 'long':
            lay['size'] = len(ext) + rng.choice([1, 3, 4, 11, 12, 13, 24, 100, 5000])
        elif mode == 'random':
            ext = bytearray(rnd_bytes(rng, rng.choice([0, 1, 11, 12, 13, 24, 40])))
            if len(ext) >= 12 and rng.random() < 0.7:           # plausible sizes so that the walk gets somewhere
                ext[0:4] = rng.choice([0, 1, 4, 5]).to_bytes(4, 'little' if c['cfg']['le'] else 'big')
                ext[4:8] = rng.choice([0, 1, 4, 9]).to_bytes(4, 'little' if c['cfg']['le'] else 'big')
        elif mode == 'truncfile':
            lay['size'] = len(ext) + 100000                          # extent runs past the end of the file
        c['mode'] = mode
        c['extent'] = hx(ext)
        data, off, size = build_image(c['cfg'], bytes(ext), lay)
        imgs.append((data, off, size))
        reqs.append({'p': 'C14', 'k': 'raw', 'cfg': lean_cfg(c['cfg']), 'hex': hx(data), 'offset': off, 'size': size})
    replies = ask_all(ctx, reqs)
    for c, (data, off, size), rq, r in zip(cases, imgs, reqs, replies):
        fatal(r, rq)
        impl_sec, impl_seg = impl_views(data)
        case = {'cfg': c['cfg'], 'extent': c['extent'], 'layout': c['layout'], 'mode': c['mode']}
        ctx.out.case(case)
        ctx.out.count('raw:' + c['mode'])
        ctx.out.count('raw:result:' + ('ok' if 'ok' in impl_sec else impl_sec['err']))
        judge(ctx, 'raw', case, hx(data), impl_sec, impl_seg, dict(r, expect=None), False)
    # the repository's own binaries
    items = list(corpus_items())
    reqs, meta = [], []
    for path, data, cfg, ext in items:
        for kind, off, size in ext:
            reqs.append({'p': 'C14', 'k': 'raw', 'cfg': cfg, 'hex': hx(data), 'offset': off, 'size': size})
            meta.append((path, data, cfg, kind, off, size))
    replies = ask_all(ctx, reqs)
    for (path, data, cfg, kind, off, size), rq, r in zip(meta, reqs, replies):
        fatal(r, rq)
        impl = impl_direct(data, cfg, off, size)
        case = {'corpus': os.path.relpath(path, REPO), 'cfg': cfg, 'offset': off, 'size': size}
        ctx.out.case(case)
        ctx.out.count('raw:corpus')
        if impl != r['model']:
            ctx.out.violation('correspondence', 'corpus', case, got=impl, model=r['model'])


def gen_stab(rng):
    return {'strx': rnd_uint(rng, 32), 'type': rnd_uint(rng, 8), 'other': rnd_uint(rng, 8), 'desc': rnd_uint(rng, 16),
            'value': rnd_uint(rng, 32)}


def run_stabs(ctx):
    rng = ctx.rng('stabs')
    n = ctx.budget(300, 8000)
    cases = []
    for _ in range(n):
        cfg = gen_cfg(rng)
        lay = gen_layout(rng)
        stabs = [gen_stab(rng) for _ in range(rng.choice([0, 1, 1, 2, 3, 7, 20]))]
        c = {'cfg': cfg, 'stabs': stabs, 'layout': lay}
        if rng.random() < 0.25:
            c['resize'] = rng.choice([-11, -1, 1, 5, 11, 13])           # not a whole number of records: outside the property
        cases.append(c)
    encs = ask_all(ctx, [{'p': 'C14', 'k': 'stabs_enc', 'cfg': lean_cfg(c['cfg']), 'stabs': c['stabs']} for c in cases])
    reqs, imgs = [], []
    for c, e in zip(cases, encs):
        fatal(e, c)
        ext = bytes.fromhex(e['bytes'])
        lay = dict(c['layout'])
        if 'resize' in c:
            lay['size'] = max(0, len(ext) + c['resize'])
        data, off, size = build_image(c['cfg'], ext, lay, secname='.stab', sectype=SHT_PROGBITS, segment=False)
        imgs.append(data)
        reqs.append({'p': 'C14', 'k': 'stabs_run', 'cfg': lean_cfg(c['cfg']), 'stabs': c['stabs'], 'hex': hx(data), 'offset': off, 'size': size})
    replies = ask_all(ctx, reqs)
    for c, e, data, rq, r in zip(cases, encs, imgs, reqs, replies):
        fatal(r, rq)
        impl = impl_stabs(data)
        wf = e['wf'] and 'resize' not in c
        ctx.out.case(c, nontrivial=bool(c['stabs']))
        ctx.out.count('stabs:wf' if wf else 'stabs:not-wf')
        full = dict(c, file=hx(data))
        if wf and impl != {'ok': r['expect']}:
            ctx.out.violation('property', 'stabs', full, expect=r['expect'], got=impl, model=r['model'])
        elif impl != r['model']:
            ctx.out.violation('correspondence', 'stabs', full, got=impl, model=r['model'])


# ----------------------------------------------------------------------------- whole files (fourth wave)
MCLASS = {'EM_386': 'EM_SPARC', 'EM_S390': 'EM_SPARC', 'EM_SPARC': 'EM_SPARC', 'EM_PPC64': 'default'}


def Rec(**kw):
    return {'r': [[k, v] for k, v in kw.items()]}


def make_ast(rng, cfg, secs, segs, last=None, glue=()):
    """An `ElfDesc` (JSON form of Driver/C01.lean) for `cfg`.
    secs: dicts name(bytes) type body(bytes) [size] [flags] in section-table order (index 0 = null and a `.shstrtab`
    are added; returns the index map); segs: dicts p_type p_offset/p_filesz or sec=<index into secs> [pre] [filesz].
    `glue`: indices (into secs) of sections whose body follows the previous section's body immediately;
    `last`: index (into secs) of the section whose body is the last region of the file."""
    cls, le = cfg['cls'], cfg['le']
    w = cls // 8
    shsz, phsz, ehsize = (40, 32, 52) if cls == 32 else (64, 56, 64)
    allsecs = [dict(name=b'', type=0, body=None, size=0, align=0)]
    strpos = rng.randrange(1, len(secs) + 2)
    idx = {}
    for k, sc in enumerate(secs):
        if len(allsecs) == strpos:
            allsecs.append(dict(name=b'.shstrtab', type=3, body=None, align=1))
        idx[k] = len(allsecs)
        allsecs.append(dict(sc))
    if len(allsecs) == strpos or not any(x['name'] == b'.shstrtab' for x in allsecs):
        strpos = len(allsecs)
        allsecs.append(dict(name=b'.shstrtab', type=3, body=None, align=1))
    tab = bytearray(b'\0')
    name_off = {b'': 0}
    for sc in allsecs:
        if sc['name'] not in name_off:
            name_off[sc['name']] = len(tab)
            tab += sc['name'] + b'\0'
    allsecs[strpos]['body'] = bytes(tab)
    shentsize = shsz + rng.choice([0, 0, 8])
    phentsize = phsz + rng.choice([0, 0, 8])
    # regions: groups of bodies (glued ones stay together), the two tables; `last` group at the end
    groups = []
    for k in range(len(secs)):
        if k in glue and groups and groups[-1][-1] == idx[k - 1]:
            groups[-1].append(idx[k])
        else:
            groups.append([idx[k]])
    groups.append([strpos])
    regions = [('body', g) for g in groups] + [('sh', None)] + ([('ph', None)] if segs else [])
    rng.shuffle(regions)
    if last is not None:
        lastg = next(r for r in regions if r[0] == 'body' and idx[last] in r[1])
        regions.remove(lastg)
        regions.append(lastg)
    pos = ehsize + rng.choice([0, 0, 4, 12])
    shoff = phoff = 0
    for kind, g in regions:
        pos += rng.choice([0, 0, 0, 1, 3, 4, 8, 17])
        if kind == 'sh':
            shoff = pos
            pos += shentsize * len(allsecs)
        elif kind == 'ph':
            phoff = pos
            pos += phentsize * len(segs)
        else:
            for si in g:
                allsecs[si]['offset'] = pos
                pos += len(allsecs[si]['body'] or b'')
    sections = []
    for sc in allsecs:
        body = sc.get('body')
        size = sc['size'] if sc.get('size') is not None else len(body or b'')
        sections.append({'name': hx(sc['name']), 'nameOff': name_off[sc['name']],
                         'hdr': Rec(sh_type=sc['type'], sh_flags=sc.get('flags', rng.choice([0, 2, 3, 0x30])), sh_addr=rnd_uint(rng, 32),
                                    sh_offset=sc.get('offset', 0), sh_size=size, sh_link=0, sh_info=0,
                                    sh_addralign=sc.get('align', rng.choice([0, 1, 4, 8, 16])), sh_entsize=0),
                         'body': hx(body) if body is not None else None})
    segments = []
    for sg in segs:
        if 'sec' in sg:
            sc = allsecs[idx[sg['sec']]]
            off = sc['offset'] + sg.get('pre', 0)
            fsz = sg['filesz'] if sg.get('filesz') is not None else (sc['size'] if sc.get('size') is not None else len(sc['body'] or b''))
        else:
            off, fsz = sg['p_offset'], sg['p_filesz']
        f = dict(p_type=sg['p_type'], p_offset=off, p_vaddr=rnd_uint(rng, 32), p_paddr=rnd_uint(rng, 32), p_filesz=fsz,
                 p_memsz=rng.choice([fsz, 0, fsz + 4, rnd_uint(rng, 32)]) % (1 << 32), p_flags=rng.choice([4, 5, 6]),
                 p_align=sg.get('align', rng.choice([0, 1, 4, 8, 16])))
        order = (['p_type', 'p_offset', 'p_vaddr', 'p_paddr', 'p_filesz', 'p_memsz', 'p_flags', 'p_align'] if cls == 32 else
                 ['p_type', 'p_flags', 'p_offset', 'p_vaddr', 'p_paddr', 'p_filesz', 'p_memsz', 'p_align'])
        segments.append({'r': [[k, f[k]] for k in order]})
    ast = {'cls': cls, 'le': le, 'mclass': MCLASS.get(cfg['machine'], cfg['machine']), 'solaris': False, 'core': cfg['core'],
           'ehdr': Rec(EI_VERSION=1, EI_OSABI=0, EI_ABIVERSION=0, e_type=cfg['e_type'], e_machine=cfg['e_machine'], e_version=1,
                       e_entry=0, e_flags=0, e_ehsize=ehsize),
           'shoff': shoff, 'phoff': phoff if segs else 0, 'shentsize': shentsize, 'phentsize': phentsize if segs else 0,
           'sections': sections, 'segments': segments, 'shstrndx': strpos}
    return ast, idx


def impl_file(data, kind, n):
    """`ELFFile(BytesIO(data)).get_section(n).iter_notes()` / `.get_segment(n).iter_notes()`, drained."""
    from elftools.elf.elffile import ELFFile

    def f():
        ef = ELFFile(io.BytesIO(data))
        obj = ef.get_section(n) if kind == 'sec' else ef.get_segment(n)
        prewalk(obj, data)
        return canon_notes(obj.iter_notes())
    return run_impl(f)


def gen_wf_notes(rng, cfg, choices=(0, 1, 1, 2, 3, 5)):
    bad = rng.random() < 0.08
    return [gen_note(rng, cfg, allow_bad=bad) for _ in range(rng.choice(choices))]


def run_file(ctx):
    rng = ctx.rng('file')
    n = ctx.budget(260, 9000)
    cases = []
    for _ in range(n):
        cfg = gen_cfg(rng)
        k = rng.choice([1, 1, 2, 3])
        glued = k > 1 and rng.random() < 0.6
        lists = []
        for t in range(k):
            notes = gen_wf_notes(rng, cfg)
            tail = b''
            if rng.random() < 0.25 and not (glued and t < k - 1 and rng.random() < 0.85):
                tail = rnd_bytes(rng, rng.choice([1, 3, 4, 7, 8, 11]))
            lists.append({'notes': notes, 'tail': hx(tail)})
        inner = {'notes': gen_wf_notes(rng, cfg, (1, 2, 3)), 'tail': hx(rnd_bytes(rng, rng.choice([0, 0, 5])))} if rng.random() < 0.35 else None
        cases.append({'cfg': cfg, 'lists': lists, 'glued': glued, 'inner': inner})
    # phase 1: the extents (Spec encoder)
    reqs, where = [], []
    for ci, c in enumerate(cases):
        for li, l in enumerate(c['lists'] + ([c['inner']] if c['inner'] else [])):
            reqs.append({'p': 'C14', 'k': 'enc', 'cfg': lean_cfg(c['cfg']), 'notes': l['notes'], 'tail': l['tail']})
            where.append((ci, li))
    encs = ask_all(ctx, reqs)
    for (ci, li), rq, e in zip(where, reqs, encs):
        fatal(e, rq)
        cases[ci].setdefault('enc', {})[li] = bytes.fromhex(e['bytes'])
    # phase 2: the descriptions
    freqs = []
    for c in cases:
        cfg, k = c['cfg'], len(c['lists'])
        secs, qs = [], []
        for _ in range(rng.choice([0, 0, 1, 2])):
            secs.append(dict(name=rng.choice([b'.text', b'.data', b'.fill']), type=1, body=rnd_bytes(rng, rng.choice([1, 5, 16, 33]))))
        first = len(secs)
        for t in range(k):
            secs.append(dict(name=rng.choice([b'.note.c14', b'.note.gnu.build-id', b'.note.ABI-tag', b'.note']), type=7, body=c['enc'][t]))
        glue = tuple(range(first + 1, first + k)) if c['glued'] else ()
        inner_at = None
        if c['inner']:
            pre, post = rnd_bytes(rng, rng.choice([0, 1, 4, 13])), rnd_bytes(rng, rng.choice([0, 0, 3, 12, 40]))
            inner_at = len(secs)
            secs.append(dict(name=b'.rodata', type=1, body=pre + c['enc'][k] + post))
        if rng.random() < 0.3:
            secs.append(dict(name=b'.bss', type=8, body=None, size=rnd_uint(rng, 16)))
        segs = []
        if rng.random() < 0.5:
            segs.append(dict(p_type=1, p_offset=rnd_uint(rng, 16), p_filesz=rnd_uint(rng, 16)))
        for t in range(k):
            qs.append({'t': 'sec', 'i': ('s', first + t), 'notes': c['lists'][t]['notes'], 'tail': c['lists'][t]['tail']})
            if rng.random() < 0.8:
                segs.append(dict(p_type=4, sec=first + t))
                qs.append({'t': 'segin', 'j': len(segs) - 1, 'i': ('s', first + t), 'pre': 0, 'notes': c['lists'][t]['notes'], 'tail': c['lists'][t]['tail']})
        if c['glued']:
            segs.append(dict(p_type=4, sec=first, filesz=sum(len(c['enc'][t]) for t in range(k))))
            qs.append({'t': 'segadj', 'j': len(segs) - 1, 'is': [('s', first + t) for t in range(k)],
                       'notes': sum((l['notes'] for l in c['lists']), []), 'tail': c['lists'][-1]['tail']})
        if c['inner']:
            segs.append(dict(p_type=4, sec=inner_at, pre=len(pre), filesz=len(c['enc'][k])))
            qs.append({'t': 'segin', 'j': len(segs) - 1, 'i': ('s', inner_at), 'pre': len(pre), 'notes': c['inner']['notes'], 'tail': c['inner']['tail']})
        if rng.random() < 0.5:
            segs.insert(rng.randrange(len(segs) + 1), None)             # a non-note segment somewhere in the table
        # resolve: insertion shifts the segment indices after it
        shift_at = segs.index(None) if None in segs else None
        if shift_at is not None:
            segs[shift_at] = dict(p_type=rng.choice([1, 6, 0x6474e551]), p_offset=rnd_uint(rng, 12), p_filesz=rnd_uint(rng, 12))
            for q in qs:
                if 'j' in q and q['j'] >= shift_at:
                    q['j'] += 1
        ast, idx = make_ast(rng, cfg, secs, segs, glue=glue)
        for q in qs:
            if 'i' in q: q['i'] = idx[q['i'][1]]
            if 'is' in q: q['is'] = [idx[x[1]] for x in q['is']]
        # objects without `iter_notes`, indices out of range: correspondence only
        r = rng.random()
        if r < 0.25:
            qs.append({'t': 'any', 'i': rng.choice([0, ast['shstrndx'], len(ast['sections']), len(ast['sections']) + 3]), 'notes': [], 'tail': ''})
        elif r < 0.4 and shift_at is not None:
            qs.append({'t': 'any', 'j': shift_at, 'notes': [], 'tail': ''})
        freqs.append({'p': 'C14', 'k': 'file', 'ast': ast, 'tail': rng.choice([0, 0, 7]), 'q': qs})
    replies = ask_all(ctx, freqs)
    for c, rq, r in zip(cases, freqs, replies):
        fatal(r, rq)
        if 'bytes' not in r:
            ctx.out.count('file:not-encodable')
            continue
        data = bytes.fromhex(r['bytes'])
        ctx.out.case({'cfg': c['cfg'], 'lists': c['lists'], 'inner': c['inner'], 'n': len(data), 'sha': hx(data[-48:])},
                     nontrivial=any(l['notes'] for l in c['lists']))
        ctx.out.count('file:wfZ' if r['wf'] else 'file:not-wf')
        ctx.out.count('file:notesecs=%d%s' % (len(c['lists']), '/glued' if c['glued'] else ''))
        for sc in rq['ast']['sections']:
            h = dict(sc['hdr']['r'])
            if h['sh_type'] == 7:
                ctx.out.count('file:sh_addralign=%d' % h['sh_addralign'])
        for sg in rq['ast']['segments']:
            h = dict(sg['r'])
            if h['p_type'] == 4:
                ctx.out.count('file:p_align=%d' % h['p_align'])
        for qi, (q, a) in enumerate(zip(rq['q'], r['q'])):
            kind, nn = ('sec', q['i']) if 'i' in q and q['t'] in ('sec', 'any') else ('seg', q['j'])
            impl = impl_file(data, kind, nn)
            dom = bool(r['wf'] and a['dom'])
            ctx.out.count('file:%s:%s' % (q['t'], 'theorem-domain' if dom else 'model-only'))
            if q['t'] == 'any':
                ctx.out.count('file:any:' + ('ok' if 'ok' in impl else impl['err']))
            full = {'req': rq, 'qi': qi, 'file': r['bytes']}
            if dom and impl != {'ok': a['expect']}:
                ctx.out.violation('property', 'file', full, view=q['t'], expect=a['expect'], got=impl, model=a['model'])
            elif impl != a['model']:
                ctx.out.violation('correspondence', 'file', full, view=q['t'], got=impl, model=a['model'])


def gen_edge(rng, cfg):
    notes = [gen_note(rng, cfg, allow_bad=False) for _ in range(rng.choice([0, 1, 1, 2, 3]))]
    mode = rng.choice(['bare', 'bare', 'trunc', 'nonul', 'cut'])
    e = {'notes': notes, 'mode': mode}
    if mode == 'bare':
        e['last'] = gen_note(rng, cfg, allow_bad=False)
        e['rest'] = hx(rnd_bytes(rng, rng.choice([0, 0, 0, 1, 3, 8, 20])))
        # 0: the extent ends with the unpadded note; 1: right after the header; k: header + k-1 bytes
        e['extra'] = rng.choice([0, 0, 0, 1, 2, 4, 5, 9, 13, 17, 30, 60, 200])
        e['eof'] = e['rest'] == '' and rng.random() < 0.7
    elif mode == 'trunc':
        e['rest'] = hx(rnd_bytes(rng, rng.choice([0, 1, 3, 4, 7, 8, 11, 11])))
        e['extra'] = rng.choice([0, 0, 1, 5, 12, 100])
        e['eof'] = True
    elif mode == 'cut':
        owner = gen_owner(rng)
        typ = gen_type(rng)
        if cfg['core'] and typ in (3, NT_FILE): typ = 1
        if not cfg['core'] and owner == b'GNU' and typ in (1, 3, 4, 5): typ = rng.choice([2, 6, 0x100])
        have = rng.choice([0, 1, 3, 4, 7, 16])
        e.update(owner=None if owner is None else hx(owner), type=typ, descsz=have + rng.choice([0, 1, 2, 3, 4, 5, 100, 0x7fffffff]),
                 rest=hx(rnd_bytes(rng, have)), eof=True)
        e['extra'] = rng.choice([0, 0, 1, 4, 12, 13, 20, 24, 40])
    else:
        nsz = rng.choice([1, 2, 3, 4, 5, 8, 9, 16])
        disk = (nsz + 3) & ~3
        e.update(namesz=nsz, descsz=rng.choice([0, 1, 4, 9, rnd_uint(rng, 32)]), type=gen_type(rng))
        if rng.random() < 0.5:                                          # the name runs into the end of the file
            e['rest'] = hx(nonul(rng, rng.randrange(0, disk)))
            e['eof'] = True
        else:                                                           # complete field, no terminator
            e['rest'] = hx(nonul(rng, disk) + rnd_bytes(rng, rng.choice([0, 4, 16])))
            e['eof'] = False
        e['extra'] = rng.choice([0, 0, 3, 8, 40])
    return e


def edge_req(cfg, e, **kw):
    rq = {'p': 'C14', 'k': 'edge', 'cfg': lean_cfg(cfg)}
    rq.update({k: v for k, v in e.items() if k != 'eof'})
    rq.update(kw)
    return rq


def run_edge(ctx):
    rng = ctx.rng('edge')
    n = ctx.budget(320, 10000)
    cases = [{'cfg': gen_cfg(rng)} for _ in range(n)]
    for c in cases:
        c['edge'] = gen_edge(rng, c['cfg'])
    encs = ask_all(ctx, [edge_req(c['cfg'], c['edge']) for c in cases])
    runs = []
    for c, e in zip(cases, encs):
        fatal(e, c)
        secs = []
        if rng.random() < 0.5:
            secs.append(dict(name=b'.fill', type=1, body=rnd_bytes(rng, rng.choice([1, 5, 16]))))
        at = len(secs)
        secs.append(dict(name=b'.note.c14', type=7, body=bytes.fromhex(e['bytes']), size=e['size']))
        if rng.random() < 0.3:
            secs.append(dict(name=b'.after', type=1, body=rnd_bytes(rng, rng.choice([1, 12, 40]))))
        segs = [dict(p_type=4, sec=at, filesz=e['size'])]
        if rng.random() < 0.4:
            segs.insert(0, dict(p_type=1, p_offset=0, p_filesz=rnd_uint(rng, 12)))
        ast, idx = make_ast(rng, c['cfg'], secs, segs, last=at if c['edge']['eof'] else None)
        rq = edge_req(c['cfg'], c['edge'], k='edge_run', ast=ast, tail=0, i=idx[at], j=len(segs) - 1)
        del rq['cfg']
        runs.append(rq)
    replies = ask_all(ctx, runs)
    for c, rq, r in zip(cases, runs, replies):
        fatal(r, rq)
        if 'bytes' not in r:
            ctx.out.count('edge:not-encodable')
            continue
        data = bytes.fromhex(r['bytes'])
        impl_sec, impl_seg = impl_file(data, 'sec', rq['i']), impl_file(data, 'seg', rq['j'])
        dom = bool(r['wf'] and r['dom'])
        ctx.out.case({'cfg': c['cfg'], 'edge': c['edge'], 'n': len(data)})
        ctx.out.count('edge:%s:%s' % (c['edge']['mode'], 'theorem-domain' if dom else 'model-only'))
        ctx.out.count('edge:result:' + ('ok' if 'ok' in impl_sec else impl_sec['err']))
        if c['edge']['mode'] == 'bare' and dom:
            ctx.out.count('edge:bare:' + ('ends-with-unpadded-note' if c['edge']['extra'] == 0 else 'header+%s' % min(c['edge']['extra'] - 1, 16)))
        full = {'req': rq, 'file': r['bytes']}
        exp = r['expect']
        if dom and impl_sec != exp:
            ctx.out.violation('property', 'edge', full, view='section', expect=exp, got=impl_sec, model=r['model'])
        elif dom and impl_seg != exp:
            ctx.out.violation('property', 'edge', full, view='segment', expect=exp, got=impl_seg, model=r['model_seg'])
        elif impl_sec != r['model']:
            ctx.out.violation('correspondence', 'edge', full, view='section', got=impl_sec, model=r['model'])
        elif impl_seg != r['model_seg']:
            ctx.out.violation('correspondence', 'edge', full, view='segment', got=impl_seg, model=r['model_seg'])


def run(ctx):
    run_ast(ctx)
    run_raw(ctx)
    run_stabs(ctx)
    run_file(ctx)
    run_edge(ctx)


# ----------------------------------------------------------------------------- replay
def replay(ctx, payload):
    v = payload['violation']
    case = v['case']
    stream = v['stream']
    res = {'stream': stream, 'kind': v['kind'], 'view': v.get('view')}
    if stream == 'corpus':
        with open(os.path.join(REPO, case['corpus']), 'rb') as f:
            data = f.read()
        impl = impl_direct(data, case['cfg'], case['offset'], case['size'])
        r = ctx.driver.ask({'p': 'C14', 'k': 'raw', 'cfg': case['cfg'], 'hex': hx(data), 'offset': case['offset'], 'size': case['size']})
        res.update(impl=impl, model=r.get('model'), fails=(impl != r.get('model')))
        return res
    if stream == 'file':
        rq = case['req']
        r = ctx.driver.ask(rq)
        data = bytes.fromhex(r['bytes'])
        q, a = rq['q'][case['qi']], r['q'][case['qi']]
        kind, nn = ('sec', q['i']) if 'i' in q and q['t'] in ('sec', 'any') else ('seg', q['j'])
        impl = impl_file(data, kind, nn)
        fails = (impl != {'ok': a['expect']}) if v['kind'] == 'property' else (impl != a['model'])
        res.update(impl=impl, expect=a.get('expect'), model=a.get('model'), same_bytes=(r['bytes'] == case['file']), fails=fails)
        return res
    if stream == 'edge':
        rq = case['req']
        r = ctx.driver.ask(rq)
        data = bytes.fromhex(r['bytes'])
        impl_sec, impl_seg = impl_file(data, 'sec', rq['i']), impl_file(data, 'seg', rq['j'])
        if v['kind'] == 'property':
            fails = impl_sec != r['expect'] or impl_seg != r['expect']
        else:
            fails = impl_sec != r['model'] or impl_seg != r['model_seg']
        res.update(impl_section=impl_sec, impl_segment=impl_seg, expect=r.get('expect'), model=r.get('model'), fails=fails)
        return res
    data = bytes.fromhex(case['file'])
    cfg = lean_cfg(case['cfg'])
    if stream == 'stabs':
        from elftools.elf.elffile import ELFFile
        ef = ELFFile(io.BytesIO(data))
        s = ef.get_section_by_name('.stab')
        impl = impl_stabs(data)
        r = ctx.driver.ask({'p': 'C14', 'k': 'stabs_run', 'cfg': cfg, 'stabs': case['stabs'], 'hex': case['file'],
                            'offset': s['sh_offset'], 'size': s['sh_size']})
        if v['kind'] == 'property':
            fails = impl != {'ok': r['expect']}
        else:
            fails = impl != r['model']
        res.update(impl=impl, expect=r.get('expect'), model=r.get('model'), fails=fails)
        return res
    from elftools.elf.elffile import ELFFile
    ef = ELFFile(io.BytesIO(data))
    s = ef.get_section_by_name(SECNAME)
    off, size = s['sh_offset'], s['sh_size']
    impl_sec, impl_seg = impl_views(data)
    if stream == 'ast':
        r = ctx.driver.ask({'p': 'C14', 'k': 'run', 'cfg': cfg, 'notes': case['notes'], 'hex': case['file'], 'offset': off, 'size': size})
    else:
        r = ctx.driver.ask({'p': 'C14', 'k': 'raw', 'cfg': cfg, 'hex': case['file'], 'offset': off, 'size': size})
    if v['kind'] == 'property' and v.get('view') == 'section-vs-segment':
        fails = impl_sec != impl_seg
    elif v['kind'] == 'property':
        exp = {'ok': r['expect']}
        fails = impl_sec != exp or impl_seg != exp
    else:
        fails = impl_sec != r['model'] or impl_seg != r['model_seg']
    res.update(impl_section=impl_sec, impl_segment=impl_seg, expect=r.get('expect'), model=r.get('model'), fails=fails)
    return res


FINDINGS = {}
