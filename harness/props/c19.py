"""C19 — opening arbitrary bytes fails only with ELFError; header enumeration terminates.

Streams
  ctor  : byte strings (random, every truncation of small seed images, single-byte substitutions of the 64-byte header
          region with {0x00,0xff,+1,^0x80}, multi-field corruptions of header-table records) → exception class of the real
          `ELFFile(stream)`: must be success / ELFError family (property); must equal the Lean model's `openElf` (correspondence)
  enum  : the same fault classes applied to header, section-header, program-header, dynamic, note, hash and version records →
          a fixed enumeration battery (headers, sections, segments, symbol counts, dynamic tags, notes) run in worker
          processes under RLIMIT_AS and a wall-clock limit: must terminate (by returning or raising)
"""
import io, os, sys, time, signal, resource, random, struct, multiprocessing
from common import run_impl, hx, rnd_bytes, REPO

RULE = ('ctor/enum: seeds = ELF images from the C01 generator (all section kinds, both classes/orders) and the small shipped binaries; '
        'faults = every truncation length (quick: sampled + every header-table boundary), single-byte substitutions {00,ff,+1,^80} over the '
        '64-byte header region (exhaustive per seed in thorough), 1-4 simultaneous field corruptions inside Shdr/Phdr/dyn/note/hash/version '
        'records, plus pure random byte strings. Non-trivial = distinct byte string that passes the magic check or is a truncation of one that does.')
ASSUMPTIONS = ['wall-clock limit %ds per case and RLIMIT_AS %d MiB stand for "time and memory bounded by a small multiple of the file size" on files <= 8 KiB',
               'CPython recursion limit unchanged']
TIME_LIMIT = 10
MEM_LIMIT_MB = 1024
ELF_ERRS = ('elfError', 'elfParseError', 'elfRelocError', 'elfCompressionError')


def seed_images(ctx, n):
    from props import c01
    rng = ctx.rng('seeds')
    out = []
    tries = 0
    while len(out) < n and tries < 20 * n:
        tries += 1
        a, q, meta = c01.gen_desc(rng)
        if meta['nsec'] < 2:
            continue
        r = ctx.driver.ask({'p': 'C01', 'k': 'ast', 'ast': a, 'queries': [], 'tail': 0, 'nomodel': True})
        if r.get('wf') and len(r['bytes']) < 16000:
            out.append((bytes.fromhex(r['bytes']), a))
    d = os.path.join(REPO, 'test', 'testfiles_for_unittests')
    for fn in ('section_link_to_self.elf', 'section_header_bogus_size.elf'):
        p = os.path.join(d, fn)
        if os.path.exists(p):
            out.append((open(p, 'rb').read(), None))
    # compiler-made files with REAL hash tables, dynamic tables, notes and version sections (the generated descriptions
    # carry such sections with arbitrary bodies only): both byte orders and classes; described from the file itself so
    # that the directed faults can aim at their records
    for fn in SHIPPED_SEEDS[:ctx.budget(6, len(SHIPPED_SEEDS))]:
        p = os.path.join(d, fn)
        if os.path.exists(p):
            data = open(p, 'rb').read()
            out.append((data, describe_file(data)))
    return out


SHIPPED_SEEDS = ['dwarf_lineprog_data16.elf', 'aarch64_be_gnu_hash.so.elf', 'exe_solaris32_cc.sparc.elf', 'lib_versioned64.so.1.elf',
                 'simple_mipsel.elf', 'unicode_symbols.elf', 'exe_solaris64_cc.sparc.elf', 'lib_with_two_dynstr_sections.so.1.elf',
                 'exe_solaris32_cc.elf', 'lib_relro.so.elf']


def describe_file(data):
    """the subset of a C01 description that `record_spans` / `amplify` use, read off a well-formed file with the library"""
    from elftools.elf.elffile import ELFFile
    try:
        f = ELFFile(io.BytesIO(data))
        hdr = f.header
        TAB = ('SHT_HASH', 'SHT_GNU_HASH', 'SHT_DYNAMIC', 'SHT_NOTE', 'SHT_SYMTAB', 'SHT_DYNSYM', 'SHT_GNU_verdef', 'SHT_GNU_verneed',
               'SHT_GNU_versym', 'SHT_REL', 'SHT_RELA')
        NUM = {'SHT_HASH': 5, 'SHT_GNU_HASH': 0x6ffffff6}
        secs = []
        for i in range(f.num_sections()):
            h = f._get_section_header(i)
            t = h['sh_type']
            body = ''
            if t in TAB and h['sh_offset'] + h['sh_size'] <= len(data):
                body = data[h['sh_offset']:h['sh_offset'] + h['sh_size']].hex()
            secs.append({'hdr': {'r': [['sh_type', NUM.get(t, t)], ['sh_offset', h['sh_offset']], ['sh_size', h['sh_size']]]}, 'body': body})
        return {'cls': f.elfclass, 'le': f.little_endian, 'shoff': hdr['e_shoff'], 'shentsize': hdr['e_shentsize'],
                'phoff': hdr['e_phoff'], 'phentsize': hdr['e_phentsize'], 'sections': secs, 'segments': [None] * f.num_segments()}
    except Exception:       # noqa: BLE001
        return None


def record_spans(data, a):
    """(start, length) of the structured records of an image: header tables and the bodies of table-like sections."""
    if a is None:
        return [(0, min(64, len(data)))]
    spans = [(0, 52 if a['cls'] == 32 else 64)]
    spans.append((a['shoff'], a['shentsize'] * len(a['sections'])))
    if a['segments']:
        spans.append((a['phoff'], a['phentsize'] * len(a['segments'])))
    for s in a['sections']:
        if s.get('body'):
            off = dict(s['hdr']['r'])['sh_offset']
            spans.append((off, len(s['body']) // 2))
    return [(o, l) for o, l in spans if l > 0 and o < len(data)]


def faults(rng, data, a, n, exhaustive_header=False):
    out = []
    L = len(data)
    spans = record_spans(data, a)
    if exhaustive_header:
        for pos in range(min(64, L)):
            for f in (lambda b: 0, lambda b: 0xff, lambda b: (b + 1) & 0xff, lambda b: b ^ 0x80):
                m = bytearray(data)
                m[pos] = f(m[pos])
                out.append(bytes(m))
        for cut in range(0, L + 1):
            out.append(data[:cut])
    boundaries = set()
    for o, l in spans:
        boundaries |= {o, o + 1, o + l, o + l - 1}
    for cut in sorted(b for b in boundaries if 0 <= b <= L):
        out.append(data[:cut])
    for _ in range(n):
        kind = rng.choice(['trunc', 'hdr', 'hdr', 'multi', 'multi', 'multi', 'amp', 'amp'])
        m = bytearray(data)
        if kind == 'amp':
            x = amplify(rng, data, a)
            if x is not None:
                out.append(x)
            continue
        if kind == 'trunc':
            m = m[:rng.randrange(0, L + 1)]
        elif kind == 'hdr':
            pos = rng.randrange(0, min(64, L))
            m[pos] = rng.choice([0, 0xff, (m[pos] + 1) & 0xff, m[pos] ^ 0x80])
        else:
            for _ in range(rng.choice([1, 2, 3, 4])):
                o, l = rng.choice(spans)
                pos = o + rng.randrange(0, l)
                if pos < len(m):
                    w = rng.choice([1, 1, 2, 4, 8])
                    val = rng.choice([b'\0' * w, b'\xff' * w, rnd_bytes(rng, w), (1).to_bytes(w, 'little'), (0x7f).to_bytes(w, 'big')])
                    m[pos:pos + w] = val[:max(0, len(m) - pos)]
        out.append(bytes(m))
    return out


def amplify(rng, data, a):
    """Directed multi-field corruption: blow one count up and, with probability 1/2 each, zero the strides /
    offsets that would otherwise bound the loop over it (the shape of every "corrupt count => endless loop" defect)."""
    if a is None or len(data) < 64:
        return None
    m = bytearray(data)
    le = 'little' if a['le'] else 'big'
    c32 = a['cls'] == 32
    F = dict(e_phoff=(28, 4), e_shoff=(32, 4), e_phentsize=(42, 2), e_phnum=(44, 2), e_shentsize=(46, 2), e_shnum=(48, 2), e_shstrndx=(50, 2)) if c32 else \
        dict(e_phoff=(32, 8), e_shoff=(40, 8), e_phentsize=(54, 2), e_phnum=(56, 2), e_shentsize=(58, 2), e_shnum=(60, 2), e_shstrndx=(62, 2))
    S0 = dict(sh_size=(20, 4), sh_link=(24, 4), sh_info=(28, 4)) if c32 else dict(sh_size=(32, 8), sh_link=(40, 4), sh_info=(44, 4))

    def put(off, n, v):
        if off + n <= len(m):
            m[off:off + n] = (v & ((1 << (8 * n)) - 1)).to_bytes(n, le)
    shoff = a['shoff']
    target = rng.choice(['ph', 'ph', 'sh', 'str', 'nobits', 'size', 'hash', 'hash'])
    if target == 'hash':
        # a word of a hash section (bucket, chain, nbuckets, symoffset, bloom size) blown up: the symbol-count walks
        # must stop at the end of the file whatever the table claims (a stored seeded change — an unterminated GNU
        # chain walk — depended on a random byte fault landing in the right word)
        hs = []
        for s_ in a['sections']:
            h = dict(s_['hdr']['r'])
            if h.get('sh_type') in ('SHT_HASH', 'SHT_GNU_HASH', 5, 0x6ffffff6) and s_.get('body'):
                hs.append((h['sh_offset'], len(s_['body']) // 2))
        if not hs:
            target = 'sh'
        else:
            off, ln = rng.choice(hs)
            nwords = max(1, ln // 4)
            for _ in range(rng.choice([1, 1, 2])):
                wpos = off + 4 * rng.randrange(nwords)
                kind = rng.choice(['msb', 'all', 'half', 'zero'])
                if kind == 'msb':
                    put(wpos + (3 if a['le'] else 0), 1, 0xff)
                elif kind == 'all':
                    put(wpos, 4, 0xffffffff)
                elif kind == 'half':
                    put(wpos, 4, 0x7ffffffe)
                else:
                    put(wpos, 4, 0)
            return bytes(m)
    if target in ('nobits', 'size') and a['sections']:
        # a section (the name table half of the time) claims a huge size, as SHT_NOBITS or under its own type:
        # nothing the battery enumerates may allocate or loop according to that claim
        H = dict(sh_type=(4, 4), sh_size=(20, 4)) if c32 else dict(sh_type=(4, 4), sh_size=(32, 8))
        n = len(a['sections'])
        try:
            strndx = int.from_bytes(m[F['e_shstrndx'][0]:F['e_shstrndx'][0] + 2], le)
        except Exception:      # noqa: BLE001
            strndx = 0
        i = strndx if (rng.random() < 0.5 and 0 < strndx < n) else rng.randrange(n)
        base = shoff + i * a['shentsize']
        if target == 'nobits':
            put(base + H['sh_type'][0], 4, 8)
        put(base + H['sh_size'][0], H['sh_size'][1], rng.choice([0x10000000, 0x40000000, 0x7fffffff, 0xffffffff] + ([] if c32 else [1 << 40, (1 << 63) - 1])))
        return bytes(m)
    big = rng.choice([0xffffffff, 0xffffffff, 0x7fffffff, 0x10000, 0xffff])
    if target == 'ph':
        put(*F['e_phnum'], 0xffff)
        put(shoff + S0['sh_info'][0], S0['sh_info'][1], big)
        if rng.random() < 0.5: put(*F['e_phoff'], 0)
        if rng.random() < 0.5: put(*F['e_phentsize'], rng.choice([0, 0, 1]))
    elif target == 'sh':
        put(*F['e_shnum'], 0)
        put(shoff + S0['sh_size'][0], S0['sh_size'][1], rng.choice([big, big, (1 << (8 * S0['sh_size'][1])) - 1 - rng.randrange(256)]))
        # entry size 0 / 1: every claimed header overlaps the file; entry size huge: every header but #0 lies beyond the end
        # (cheap to reject one by one — a seeded walk over range(num_sections()) that skipped them never ended)
        if rng.random() < 0.6: put(*F['e_shentsize'], rng.choice([0, 0, 1, 0xff00, 0xffff, 0xff40]))
        if rng.random() < 0.3: put(*F['e_shoff'], rng.choice([0, 1]))
    else:
        put(*F['e_shstrndx'], 0xffff)
        put(shoff + S0['sh_link'][0], S0['sh_link'][1], big)
        if rng.random() < 0.5: put(*F['e_shentsize'], rng.choice([0, 0, 1]))
    return bytes(m)


# ----------------------------------------------------------------------------- ctor stream
def impl_ctor(data):
    from elftools.elf.elffile import ELFFile
    ELFFile(io.BytesIO(data))
    return 'ok'


def run_ctor(ctx, seeds):
    rng = ctx.rng('ctor')
    inputs = []
    for _ in range(ctx.budget(300, 5000)):
        ln = rng.choice([0, 1, 3, 4, 5, 6, 16, 40, 52, 64, 100, 300])
        b = bytearray(rnd_bytes(rng, ln))
        if rng.random() < 0.8 and ln >= 4:
            b[:4] = b'\x7fELF'
            if ln >= 6 and rng.random() < 0.8:
                b[4] = rng.choice([1, 2])
                b[5] = rng.choice([1, 2])
        inputs.append(bytes(b))
    per = ctx.budget(60, 600)
    for i, (data, a) in enumerate(seeds):
        inputs += faults(rng, data, a, per, exhaustive_header=(ctx.tier == 'thorough' and i < 12) or i < 2)
    reqs = [{'p': 'C01', 'k': 'open', 'hex': hx(d)} for d in inputs]
    replies = ctx.driver.ask_many(reqs)
    for d, r in zip(inputs, replies):
        if 'fatal' in r:
            raise RuntimeError('driver: %s' % r['fatal'])
        impl = run_impl(lambda: impl_ctor(d))
        m = r['model']
        key = 'ok' if 'ok' in impl else impl['err']
        ctx.out.count('ctor:' + key)
        ctx.out.case({'hex': hx(d[:80]), 'n': len(d)}, nontrivial=d[:4] == b'\x7fELF' or len(d) < 4)
        case = {'hex': hx(d)}
        if 'err' in impl and impl['err'] not in ELF_ERRS:
            ctx.out.violation('property', 'ctor', case, expect='ok | ELFError', got=impl, model=m)
        elif impl != m:
            ctx.out.violation('correspondence', 'ctor', case, got=impl, model=m)


# ----------------------------------------------------------------------------- enum stream
class _Timeout(Exception):
    pass


def _alarm(signum, frame):
    raise _Timeout()


def battery(data):
    """Enumerate headers, sections, segments, symbol counts, dynamic tags and notes; count the steps."""
    from elftools.elf.elffile import ELFFile
    from elftools.elf.sections import SymbolTableSection, NoteSection
    from elftools.elf.dynamic import DynamicSection, DynamicSegment
    from elftools.elf.segments import NoteSegment
    from elftools.elf.hash import ELFHashSection, GNUHashSection
    steps = 0
    f = ELFFile(io.BytesIO(data))
    _ = f.header

    def guarded(fn):
        nonlocal steps
        try:
            for _x in fn():
                steps += 1
        except _Timeout:
            raise
        except MemoryError:
            raise
        except Exception:      # noqa: BLE001 — terminating by raising is allowed
            pass

    def one(fn):
        def g():
            fn()
            yield 1
        guarded(g)

    secs = []

    def sections():
        for s in f.iter_sections():
            secs.append(s)
            yield s
    guarded(sections)
    for s in secs:
        if isinstance(s, SymbolTableSection):
            one(s.num_symbols)
        if isinstance(s, DynamicSection):
            guarded(s.iter_tags)
            one(s.num_tags)
        if isinstance(s, NoteSection):
            guarded(s.iter_notes)
        if isinstance(s, (ELFHashSection, GNUHashSection)):
            one(s.get_number_of_symbols)
    segs = []

    def segments():
        for s in f.iter_segments():
            segs.append(s)
            yield s
    guarded(segments)
    for s in segs:
        if isinstance(s, DynamicSegment):
            guarded(s.iter_tags)
            one(s.num_tags)
            one(s.num_symbols)
        if isinstance(s, NoteSegment):
            guarded(s.iter_notes)
    return steps


def mem_budget(n):
    """Python-heap bytes the enumeration battery may allocate beyond its starting point for an n-byte input: a small
    multiple of the file size plus a constant for the parser's own objects (the unchanged library peaks far below it
    on every seed; a claim-sized allocation of 256 MiB and more does not)"""
    return 64 * n + (32 << 20)


def _worker(args):
    idx, data = args
    sys.path.insert(0, REPO)
    try:
        resource.setrlimit(resource.RLIMIT_AS, (MEM_LIMIT_MB << 20, MEM_LIMIT_MB << 20))
    except Exception:
        pass
    signal.signal(signal.SIGALRM, _alarm)
    signal.alarm(TIME_LIMIT)
    t0 = time.time()
    import tracemalloc
    try:
        try:
            tracemalloc.start()
            tracemalloc.reset_peak()
            base = tracemalloc.get_traced_memory()[0]
            steps = battery(data)
            peak = tracemalloc.get_traced_memory()[1] - base
            if peak > mem_budget(len(data)):
                res = ('memory', peak)
            else:
                res = ('ok', steps)
        except _Timeout:
            res = ('timeout', 0)
        except MemoryError:
            res = ('memory', 0)
        except Exception as e:      # noqa: BLE001  (constructor failure: judged by the ctor stream)
            res = ('raised', type(e).__name__)
    finally:
        signal.alarm(0)
        try:
            tracemalloc.stop()
        except Exception:      # noqa: BLE001
            pass
    return idx, res, time.time() - t0


def run_enum(ctx, seeds):
    rng = ctx.rng('enum')
    inputs = []
    per = ctx.budget(40, 500)
    for i, (data, a) in enumerate(seeds):
        inputs.append(data)
        inputs += faults(rng, data, a, per, exhaustive_header=(ctx.tier == 'thorough' and i < 6))
    nproc = min(12, os.cpu_count() or 4)
    pool = multiprocessing.Pool(nproc, maxtasksperchild=400)
    try:
        for idx, res, dt in pool.imap_unordered(_worker, list(enumerate(inputs)), chunksize=8):
            d = inputs[idx]
            ctx.out.count('enum:' + res[0])
            ctx.out.case({'hex': hx(d[:80]), 'n': len(d), 'steps': res[1]}, nontrivial=True)
            if res[0] in ('timeout', 'memory'):
                # confirm alone, twice (machine load must not raise an alarm); stop at the first confirmed case
                confirmed = 0
                for _ in range(2):
                    with multiprocessing.Pool(1) as p1:
                        _, r2, _dt = p1.apply(_worker, ((idx, d),))
                    if r2[0] in ('timeout', 'memory'):
                        confirmed += 1
                if confirmed == 2:
                    ctx.out.violation('property', 'enum', {'hex': hx(d)},
                                      expect='terminates within %ds, address space %d MiB, heap 64*len + 32 MiB' % (TIME_LIMIT, MEM_LIMIT_MB),
                                      got={'limit': res[0], 'peak': res[1]})
                    break
                ctx.out.count('enum:limit-not-confirmed')
            elif res[0] == 'ok' and res[1] > 4 * len(d) + 64:
                # more enumeration steps than a small multiple of the file size
                ctx.out.violation('property', 'enum', {'hex': hx(d)}, expect='steps <= 4*len+64', got={'steps': res[1], 'len': len(d)})
                break
    finally:
        pool.terminate()
        pool.join()


def run(ctx):
    seeds = seed_images(ctx, ctx.budget(25, 120))
    run_ctor(ctx, seeds)
    run_enum(ctx, seeds)


def replay(ctx, payload):
    v = payload['violation']
    data = bytes.fromhex(v['case']['hex'])
    if v['stream'] == 'ctor':
        impl = run_impl(lambda: impl_ctor(data))
        m = ctx.driver.ask({'p': 'C01', 'k': 'open', 'hex': v['case']['hex']})['model']
        bad = ('err' in impl and impl['err'] not in ELF_ERRS) or impl != m
        return {'stream': 'ctor', 'impl': impl, 'model': m, 'fails': bad}
    _, res, dt = _worker((0, data))
    return {'stream': 'enum', 'result': res, 'wall': dt, 'len': len(data),
            'fails': res[0] in ('timeout', 'memory') or (res[0] == 'ok' and res[1] > 4 * len(data) + 64)}


FINDINGS = {}
