"""C15 — symbol-version sections resolve each symbol to its encoded version.

Streams
  ver     : abstract version-requirement / version-definition contents (0..many entries, 1..many auxiliaries each,
            records laid out non-contiguously: gaps, padding, aux chains interleaved with the entry chain or gathered
            behind it, repeated records via displacement 0, arbitrary indexes incl. the hidden bit, names at arbitrary
            string-table offsets) → section bytes by the Lean Spec assembler → wrapped in an ELF container
            (harness/elfbuild.py) → real `ELFFile(...).get_section(i)`; compared with the Spec's expectation
            (property, only where the Spec layout predicate holds on the file) and with the Lean model of
            elffile.py + gnuversions.py run on the same file (correspondence)
  versym  : version-symbol tables of any length (padded entry sizes, sizes with a remainder) next to a dynamic
            symbol table (padded entries) — same three-way comparison
  file    : the same abstract contents inside an abstract ELF image (C01's ElfDesc: sections in random order, random
            gaps, optional fillers, a second section bearing the version section's name before or after it, name table
            shared with .dynstr or separate, padded header-table entry sizes, 0..2 program headers) → bytes by the Lean
            Spec assemblers (section body AND image) → real `ELFFile(...).get_section(i)` and
            `.get_section_by_name(name)`; the property is checked wherever the Spec's well-formedness predicate of the
            DESCRIPTION holds (needFileWf / defFileWf / versymFileWf ∧ imageFits: the hypotheses of the
            `*_assembled_exact` theorems; no layout predicate is evaluated on the bytes), correspondence always
  trunc   : chains that leave the file: the declared count exceeds the chain and the last `next` displacement leads
            beyond the end (far beyond, or so that the next record straddles the end of the file by 1..size bytes), and
            entries whose auxiliary count exceeds their auxiliary chain in the same two ways; expectation from the
            `*_truncated` theorems (ELFParseError for the enumeration and has_indexes; get_version: the carrier if it is
            chained, ELFParseError otherwise), checked where the driver finds their hypotheses on the file
  raw     : damaged images (truncation, byte substitution inside the version / string / symbol sections, wrong
            sh_info, zero counts, wrong link targets, zero entry sizes) → model vs real, errors included
"""
import io
from common import run_impl, canon, hx, rnd_uint, rnd_bytes
import elfbuild
from elfbuild import ElfImage

RULE = ('ver: kind∈{need,def} × cls∈{32,64} × LSB/MSB × 7 machines; 0..8 (thorough ..24) entries × 1..5 auxiliaries; record positions '
        'drawn by a monotone allocator with gaps {0,1,2,3,4,8,16,40} in three interleavings (aux after its entry / all entries '
        'first / random), final next-displacements random, optional repetition of the last entry through next=0, sh_info ≤ number '
        'of records (the prefix is expected), integers from boundary pools, indexes with and without bit 15, name offsets at '
        'string starts and inside strings, names crossing the 64-byte chunk of the string reader, multi-byte UTF-8. '
        'versym: 0..64 (thorough ..400) rows, entsize 2/4/6, symbol entsize natural/+8, sh_size with remainder, SHT_DYNSYM/SHT_SYMTAB. '
        'file: ver/versym contents as above × ElfDesc container (section order shuffled, gaps {0,1,3,8,17}, sh/ph entry sizes +0/8, '
        'duplicate-name section, shared/separate name table, SHF_COMPRESSED flag on the version section, tail padding), by index and by name. '
        'trunc: ver contents with ≥1 entry, no repetition; last vn_next/vd_next (or last vna_next/vda_next with cnt raised by 1/2/4) ∈ '
        '{0x10000, 0x7fffffff, 0x80000000, 0xffffffff} or chosen so that the next record starts 0/1/size÷2/size−1 bytes before the end of the file. '
        'raw: one damage per valid image. Non-trivial = distinct (file image, section, queries); every ver case walks ≥ 0 entries, '
        'trivial (0-entry) cases are counted apart.')
ASSUMPTIONS = ['io.BytesIO read/seek/tell semantics', 'names are compared after bytes.decode("utf-8", "replace") (applied to the '
               'model/spec bytes exactly as the library applies it)',
               'the ELF container (header tables, section dispatch) is covered by C01; here it is exercised through the model of elffile.py '
               '(ver/versym/trunc/raw streams: Python-built containers, the layout predicate evaluated on the file) and composed with '
               'C01\'s theorems in the whole-file theorems (file stream: Spec-assembled images, only the description\'s well-formedness evaluated)']

NAMES = [b'GLIBC_2.2.5', b'GLIBC_2.17', b'libc.so.6', b'libm.so.6', b'VERS_1.0', b'', b'x', 'vërsïon_ü'.encode('utf-8'),
         b'a' * 62, b'b' * 63, b'c' * 64, b'd' * 65, b'e' * 130, b'LIBFOO_PRIVATE', b'ld-linux-x86-64.so.2']
MACHINES = [elfbuild.EM_X86_64, elfbuild.EM_386, elfbuild.EM_ARM, elfbuild.EM_AARCH64, elfbuild.EM_MIPS, elfbuild.EM_PPC64,
            elfbuild.EM_RISCV]
IDX_POOL = [0, 1, 2, 3, 4, 5, 0x7fff, 0x8000, 0x8001, 0x8002, 0x8003, 0xff00, 0xff01, 0xffff, 0x7ffe]
GAPS = [0, 0, 0, 0, 1, 2, 3, 4, 8, 16, 40]


# --------------------------------------------------------------------------- canonical forms
def nm(name):
    if name is None:
        return None
    return {'b': name.encode('utf-8').hex()}


def norm(j):
    """Apply the library's bytes→str decoding to every byte string of a model/spec observation."""
    if isinstance(j, dict):
        if set(j.keys()) == {'b'}:
            return {'b': bytes.fromhex(j['b']).decode('utf-8', 'replace').encode('utf-8').hex()}
        return {k: norm(v) for k, v in j.items()}
    if isinstance(j, list):
        return [norm(x) for x in j]
    return j


def aux_list(it):
    return [[canon(a.entry), nm(a.name)] for a in it]


def _mode(data):
    """consumption order of the auxiliary iterators, derived from the file content (replays identically)"""
    return (sum(data[-64:]) + sum(data[:24]) + len(data) // 8) % 3


def versions_obs(s, mode):
    """`iter_versions()` hands out one auxiliary iterator per entry.  The property is about what they yield, not about
    when the caller drains them: mode 0 drains each inside the loop, mode 1 collects the pairs first and drains
    afterwards, mode 2 drains them in reverse order (a seeded late-binding closure was missed by mode 0 alone)."""
    if mode == 0:
        return [[canon(v.entry), nm(v.name), aux_list(it)] for v, it in s.iter_versions()]
    pairs = list(s.iter_versions())
    auxs = [None] * len(pairs)
    order = range(len(pairs)) if mode == 1 else range(len(pairs) - 1, -1, -1)
    for i in order:
        auxs[i] = aux_list(pairs[i][1])
    return [[canon(v.entry), nm(v.name), a] for (v, _), a in zip(pairs, auxs)]


def observe_section(fresh, queries, mode=0):
    """Everything the property observes of the section object `fresh()` returns (a new object per call)."""
    s = fresh()
    if s is None:
        return {'kind': None}
    kind = type(s).__name__
    out = {'kind': kind}
    if kind in ('GNUVerNeedSection', 'GNUVerDefSection'):
        out['num'] = run_impl(lambda: s.num_versions())
        def versions():
            if mode == 0:
                return versions_obs(s, 0)
            try:
                return versions_obs(s, mode)
            except Exception:
                # on a damaged table the in-order walk defines WHICH error is raised; a deferred walk may meet another
                # one first.  Report the in-order error of a fresh object; if that walk succeeds, the deferred failure stands.
                versions_obs(fresh(), 0)
                raise
        out['versions'] = run_impl(versions)
        if kind == 'GNUVerNeedSection':
            out['has_indexes'] = run_impl(lambda: fresh().has_indexes())
            # three calls on ONE object: the cached answer must be the fresh object's every time, and a walk that raises
            # must raise again (`_has_indexes` used to be set to False BEFORE the walk: ELFParseError, then False)
            s3 = fresh()
            out['has_indexes_hist'] = [run_impl(lambda: s3.has_indexes()) for _ in range(3)]

            def get(q):
                r = s.get_version(q)
                return None if r is None else [canon(r[0].entry), nm(r[0].name), canon(r[1].entry), nm(r[1].name)]
        else:
            def get(q):
                r = s.get_version(q)
                return None if r is None else [canon(r[0].entry), aux_list(r[1])]
        out['get'] = [run_impl(lambda q=q: get(q)) for q in queries]
    elif kind == 'GNUVerSymSection':
        out['num'] = run_impl(lambda: s.num_symbols())
        out['symbols'] = run_impl(lambda: [[canon(x.entry), nm(x.name)] for x in s.iter_symbols()])

        def gets(q):
            x = s.get_symbol(q)
            return [canon(x.entry), nm(x.name)]
        out['get'] = [run_impl(lambda q=q: gets(q)) for q in queries]
    return out


def observe(data, sec, queries):
    """Section `sec`, through the public API: ELFFile(BytesIO(data)).get_section(sec)."""
    from elftools.elf.elffile import ELFFile
    elf = ELFFile(io.BytesIO(data))
    return observe_section(lambda: elf.get_section(sec), queries, _mode(data))


def observe_by_name(data, name, queries):
    """ELFFile(BytesIO(data)).get_section_by_name(name) on a fresh file object."""
    from elftools.elf.elffile import ELFFile
    elf = ELFFile(io.BytesIO(data))
    return observe_section(lambda: elf.get_section_by_name(name.decode('utf-8')), queries, _mode(data))


# --------------------------------------------------------------------------- generators
def make_strtab(rng):
    pool = list(NAMES)
    rng.shuffle(pool)
    pool = pool[:rng.randrange(3, len(pool) + 1)]
    tab = b'\0' + b''.join(n + b'\0' for n in pool)
    return tab


def pick_name(rng, tab):
    """(offset, name) — mostly at a string start, sometimes inside a string, sometimes the empty string at 0."""
    r = rng.random()
    if r < 0.1:
        off = 0
    elif r < 0.8:
        starts = [0] + [i + 1 for i, b in enumerate(tab[:-1]) if b == 0]
        off = rng.choice(starts)
    else:
        off = rng.randrange(len(tab))
    end = tab.index(b'\0', off)
    return off, tab[off:end]


def rnd_idx(rng):
    return rng.choice(IDX_POOL) if rng.random() < 0.6 else rnd_uint(rng, 16)


def gen_ver(rng, thorough=False):
    kind = rng.choice(['need', 'def'])
    cls = rng.choice([32, 64])
    le = rng.random() < 0.5
    need = kind == 'need'
    esz, asz = (16, 16) if need else (20, 8)
    tab = make_strtab(rng)
    n = rng.choice([0, 1, 1, 2, 2, 3, 3, 5, 8] + ([13, 24] if thorough else []))
    cnts = [rng.choice([1, 1, 1, 2, 2, 3, 5]) for _ in range(n)]
    mode = rng.choice(['aux-after', 'entries-first', 'random'])
    epos, apos = [None] * n, [[None] * c for c in cnts]
    ne, na, ptr = 0, [0] * n, 0
    while ne < n or any(na[i] < cnts[i] for i in range(ne)):
        open_aux = [i for i in range(ne) if na[i] < cnts[i]]
        if mode == 'aux-after':
            pick = ('a', open_aux[-1]) if open_aux else ('e',)
        elif mode == 'entries-first':
            pick = ('e',) if ne < n else ('a', open_aux[0])
        else:
            cands = ([('e',)] if ne < n else []) + [('a', i) for i in open_aux]
            pick = rng.choice(cands)
        gap = rng.choice(GAPS) if ptr else 0
        if pick[0] == 'e':
            epos[ne] = ptr + gap
            ptr = epos[ne] + esz
            ne += 1
        else:
            i = pick[1]
            apos[i][na[i]] = ptr + gap
            ptr = apos[i][na[i]] + asz
            na[i] += 1
    zero_idx = rng.random() < 0.25        # has_indexes() == False cases
    entries = []
    for i in range(n):
        auxs = []
        for j in range(cnts[i]):
            off, name = pick_name(rng, tab)
            nxt = apos[i][j + 1] - apos[i][j] if j + 1 < cnts[i] else rng.choice([0, 0, asz, rnd_uint(rng, 32)])
            if need:
                auxs.append(dict(hash=rnd_uint(rng, 32), flags=rnd_uint(rng, 16), other=0 if zero_idx else rnd_idx(rng),
                                 name=off, next=nxt, nameBytes=hx(name)))
            else:
                auxs.append(dict(name=off, next=nxt, nameBytes=hx(name)))
        nxt = epos[i + 1] - epos[i] if i + 1 < n else rng.choice([0, 0, esz, rnd_uint(rng, 32)])
        e = dict(version=rng.choice([1, 1, 1, 0, 2, rnd_uint(rng, 16)]), aux=apos[i][0] - epos[i], next=nxt, auxs=auxs)
        if need:
            off, name = pick_name(rng, tab)
            e.update(file=off, fileName=hx(name))
        else:
            e.update(flags=rnd_uint(rng, 16), ndx=rnd_idx(rng), hash=rnd_uint(rng, 32))
        entries.append(e)
    if n and rng.random() < 0.1:
        # cnt larger than the number of distinct auxiliaries: the last one repeated through a zero displacement
        e = entries[rng.randrange(n)]
        e['auxs'][-1]['next'] = 0
        e['auxs'] = e['auxs'] + [dict(e['auxs'][-1]) for _ in range(rng.choice([1, 2, 4]))]
        e['rep_aux'] = True
    if n and rng.random() < 0.12:
        # the last record repeated through a zero displacement
        entries[-1]['next'] = 0
        entries += [dict(entries[-1]) for _ in range(rng.choice([1, 2, 4]))]
    size = ptr + rng.choice(GAPS)
    ast = dict(kind=kind, cls=cls, le=le, entries=entries, size=size, fill=rng.choice([0, 0, 0xAA, 0xFF, 0x01]))
    sh_info = len(entries)
    if entries and rng.random() < 0.15:
        sh_info = rng.randrange(0, len(entries))           # only a prefix is declared
    idxs = [a['other'] for e in entries for a in e['auxs']] if need else [e['ndx'] for e in entries]
    queries = []
    for _ in range(4):
        r = rng.random()
        if idxs and r < 0.55:
            queries.append(rng.choice(idxs))
        elif idxs and r < 0.7:
            queries.append(rng.choice(idxs) ^ 0x8000)
        else:
            queries.append(rnd_idx(rng))
    return dict(ast=ast, strtab=hx(tab), sh_info=sh_info, queries=queries, machine=rng.choice(MACHINES),
                order=rng.choice(['str-first', 'ver-first']), filler=rng.choice([0, 0, 1, 7, 33]),
                align=rng.choice([1, 1, 2, 4, 8, 16]), e_type=rng.choice([2, 3]))


def gen_versym(rng, thorough=False):
    cls = rng.choice([32, 64])
    le = rng.random() < 0.5
    tab = make_strtab(rng)
    n = rng.choice([0, 1, 2, 3, 5, 9, 17, 64] + ([200, 400] if thorough else []))
    rows = []
    for _ in range(n):
        off, name = pick_name(rng, tab)
        sym = dict(name=off, value=rnd_uint(rng, cls), size=rnd_uint(rng, cls), bind=rng.randrange(16), type=rng.randrange(16),
                   local=rng.randrange(8), visibility=rng.randrange(8), shndx=rnd_uint(rng, 16))
        rows.append(dict(ndx=rnd_idx(rng), symName=hx(name), sym=sym))
    natural = 16 if cls == 32 else 24
    ast = dict(kind='versym', cls=cls, le=le, rows=rows, entsize=rng.choice([2, 2, 2, 2, 4, 6]),
               symentsize=natural + rng.choice([0, 0, 0, 8]), fill=rng.choice([0, 0, 0xAA, 0xFF]))
    rem = rng.randrange(0, ast['entsize']) if rng.random() < 0.3 else 0
    queries = [rng.randrange(0, n) for _ in range(3)] if n else []
    queries.append(n + rng.choice([0, 1, 5]))               # beyond the table (outside the property)
    return dict(ast=ast, strtab=hx(tab), rem=rem, queries=queries, machine=rng.choice(MACHINES),
                symtype=rng.choice([elfbuild.SHT_DYNSYM, elfbuild.SHT_DYNSYM, elfbuild.SHT_SYMTAB]),
                filler=rng.choice([0, 0, 1, 7, 33]), align=rng.choice([1, 2, 2, 4, 8]), e_type=rng.choice([2, 3]))


# --------------------------------------------------------------------------- container
def build_ver(c, content, tweak=None):
    """Wrap a version-requirement/-definition section and its string table.  Returns (file, check-request fields)."""
    ast = c['ast']
    tweak = tweak or {}
    img = ElfImage(cls=ast['cls'], le=ast['le'], e_type=c['e_type'], e_machine=c['machine'])
    if c['filler']:
        img.add_section('.filler', elfbuild.SHT_PROGBITS, data=bytes(range(1, c['filler'] + 1)), addralign=1)
    need = ast['kind'] == 'need'
    vtype = elfbuild.SHT_GNU_verneed if need else elfbuild.SHT_GNU_verdef
    vname = '.gnu.version_r' if need else '.gnu.version_d'
    tab = bytes.fromhex(c['strtab'])

    def add_str():
        return img.add_section('.dynstr', tweak.get('strtype', elfbuild.SHT_STRTAB), data=tab, addralign=1)

    def add_ver():
        return img.add_section(vname, vtype, data=content, flags=elfbuild.SHF_ALLOC, info=tweak.get('sh_info', c['sh_info']),
                               addralign=c['align'])
    if c['order'] == 'str-first':
        si = add_str(); vi = add_ver()
    else:
        vi = add_ver(); si = add_str()
    img.sections[vi]['link'] = tweak.get('link', si)
    # a trailing section so that nothing under test is last in the file
    img.add_section('.tail', elfbuild.SHT_PROGBITS, data=b'\x01\x02\x03', addralign=1)
    data = img.build()
    return data, dict(sec=vi, off=img.offsets[vi], strOff=img.offsets[si], shInfo=c['sh_info']), img


def build_versym(c, content, symtab, tweak=None):
    ast = c['ast']
    tweak = tweak or {}
    img = ElfImage(cls=ast['cls'], le=ast['le'], e_type=c['e_type'], e_machine=c['machine'])
    if c['filler']:
        img.add_section('.filler', elfbuild.SHT_PROGBITS, data=bytes(range(1, c['filler'] + 1)), addralign=1)
    tab = bytes.fromhex(c['strtab'])
    si = img.add_section('.dynstr', elfbuild.SHT_STRTAB, data=tab, addralign=1)
    yi = img.add_section('.dynsym', tweak.get('symtype', c['symtype']), data=symtab, link=si, info=1, addralign=c['align'],
                         entsize=tweak.get('symentsize', ast['symentsize']))
    body = content + bytes(c['rem'])
    vi = img.add_section('.gnu.version', elfbuild.SHT_GNU_versym, data=body, link=tweak.get('link', yi), addralign=c['align'],
                         entsize=tweak.get('entsize', ast['entsize']))
    img.add_section('.tail', elfbuild.SHT_PROGBITS, data=b'\x01\x02\x03', addralign=1)
    data = img.build()
    return data, dict(sec=vi, off=img.offsets[vi], symOff=img.offsets[yi], symStrOff=img.offsets[si], shSize=len(body)), img


# --------------------------------------------------------------------------- comparison
def judge(ctx, stream, case, wf, expect, model, impl):
    """property (only on well-formed cases) and correspondence verdicts for one case"""
    out = ctx.out
    model, expect = norm(model), norm(expect)
    if wf:
        bad = None
        if 'err' in impl:
            bad = ('open', expect, impl)
        else:
            exp, got = expect['ok'], impl['ok']
            for key in exp:
                if key in ('get', 'carriers'):
                    continue
                if got.get(key) != exp[key]:
                    bad = (key, exp[key], got.get(key))
                    break
            if bad is None and 'has_indexes' in exp and got.get('has_indexes_hist') != [exp['has_indexes']] * 3:
                bad = ('has_indexes_hist', [exp['has_indexes']] * 3, got.get('has_indexes_hist'))
            if bad is None and 'get' in exp:
                for i, g in enumerate(got.get('get', [])):
                    if isinstance(exp['get'][i], dict) and 'err' in exp['get'][i]:
                        ok = g == exp['get'][i]       # truncated chains: no carrier is chained, the walk must raise
                    elif 'carriers' in exp:
                        cands = exp['carriers'][i]
                        ok = ('ok' in g) and ((g['ok'] is None and not cands) or (g['ok'] is not None and g['ok'] in cands))
                    else:
                        e = exp['get'][i]
                        ok = e is None or g == e
                    if not ok:
                        bad = ('get[%d]' % i, exp['get'][i], g)
                        break
        if bad is not None:
            out.violation('property', stream, case, what=bad[0], expect=bad[1], got=bad[2], model=model)
            return
    if impl != model:
        out.violation('correspondence', stream, case, got=impl, model=model)


def assemble(ctx, cases):
    replies = ctx.driver.ask_many([{'p': 'C15', 'k': 'asm', 'ast': c['ast']} for c in cases])
    for c, r in zip(cases, replies):
        if 'fatal' in r:
            raise RuntimeError('driver: %s on %r' % (r['fatal'], str(c)[:300]))
    return replies


def check_req(c, data, f):
    rq = {'p': 'C15', 'k': 'check', 'ast': c['ast'], 'hex': hx(data), 'queries': c['queries']}
    rq.update(f)
    return rq


def run_checks(ctx, stream, items):
    """items: (case dict, file bytes, check fields, expected-entries ast override)"""
    reqs = []
    for c, data, f in items:
        reqs.append(check_req(c, data, f))
    replies = ctx.driver.ask_many(reqs)
    for (c, data, f), rq, r in zip(items, reqs, replies):
        if 'fatal' in r:
            raise RuntimeError('driver: %s on %r' % (r['fatal'], str(c)[:300]))
        impl = run_impl(lambda: observe(data, f['sec'], c['queries']))
        case = {'req': rq}
        n = len(c['ast'].get('entries', c['ast'].get('rows', [])))
        ctx.out.case({'hex': rq['hex'], 'sec': f['sec'], 'q': c['queries']}, nontrivial=n > 0)
        ctx.out.count('%s:%s' % (stream, 'wf' if r['wf'] else 'not-wf'))
        judge(ctx, stream, case, r['wf'], r['expect'], r['model'], impl)


CHUNK = 500      # cases per driver round trip (bounds the memory held in hex strings)


def run_ver(ctx):
    rng = ctx.rng('ver')
    total = ctx.budget(900, 20000)
    for start in range(0, total, CHUNK):
        cases = [gen_ver(rng, ctx.tier == 'thorough') for _ in range(min(CHUNK, total - start))]
        contents = assemble(ctx, cases)
        items = []
        for c, r in zip(cases, contents):
            data, f, _ = build_ver(c, bytes.fromhex(r['content']))
            # only the declared prefix is expected
            cc = dict(c, ast=dict(c['ast'], entries=c['ast']['entries'][:c['sh_info']]))
            items.append((cc, data, f))
            a = c['ast']
            ctx.out.count('ver:%s:%d:%s' % (a['kind'], a['cls'], 'le' if a['le'] else 'be'))
            ctx.out.count('ver:entries=%s' % (len(a['entries']) if len(a['entries']) < 4 else '4+'))
            if c['sh_info'] != len(a['entries']):
                ctx.out.count('ver:prefix-only')
            if any(e['next'] == 0 for e in a['entries'][:-1]):
                ctx.out.count('ver:repeated-record')
            if any(e.get('rep_aux') for e in a['entries']):
                ctx.out.count('ver:repeated-aux')
        run_checks(ctx, 'ver', items)


def run_versym(ctx):
    rng = ctx.rng('versym')
    total = ctx.budget(250, 4000)
    for start in range(0, total, CHUNK):
        cases = [gen_versym(rng, ctx.tier == 'thorough') for _ in range(min(CHUNK, total - start))]
        contents = assemble(ctx, cases)
        items = []
        for c, r in zip(cases, contents):
            data, f, _ = build_versym(c, bytes.fromhex(r['content']), bytes.fromhex(r['symtab']))
            items.append((c, data, f))
            a = c['ast']
            ctx.out.count('versym:%d:%s:entsize=%d' % (a['cls'], 'le' if a['le'] else 'be', a['entsize']))
        run_checks(ctx, 'versym', items)


# --------------------------------------------------------------------------- whole abstract images (C01's ElfDesc)
CLASS_MACHINES = {
    'EM_SPARC': ['EM_SPARC', 'EM_386', 'EM_68K', 'EM_S390', 'EM_SH', 'EM_CRIS', 'EM_M32R', 'EM_MN10300'],
    'EM_MIPS': ['EM_MIPS'], 'EM_MIPS_RS3_LE': ['EM_MIPS_RS3_LE'], 'EM_ARM': ['EM_ARM'], 'EM_X86_64': ['EM_X86_64'],
    'EM_AARCH64': ['EM_AARCH64'], 'EM_RISCV': ['EM_RISCV'],
}


def mclass_of(e_machine):
    from elftools.elf.enums import ENUM_E_MACHINE
    names = [k for k, v in ENUM_E_MACHINE.items() if v == e_machine and k != '_default_']
    for cl, ms in CLASS_MACHINES.items():
        if any(n in ms for n in names):
            return cl
    return 'default'


def R(**kw):
    return {'r': [[k, v] for k, v in kw.items()]}


def build_desc(rng, c, content, symtab):
    """An abstract ELF image (the JSON of Spec.ElfDesc) holding the assembled contents.  Returns the `file` request."""
    ast = c['ast']
    cls, le, kind = ast['cls'], ast['le'], ast['kind']
    shsz, phsz, ehsize = (40, 32, 52) if cls == 32 else (64, 56, 64)

    def X():
        return rnd_uint(rng, cls)
    tab = bytes.fromhex(c['strtab'])
    share = rng.random() < 0.2                 # .dynstr is also the section-name table
    null = dict(name=b'', type=0, flags=0, link=None, info=0, entsize=0, body=None)
    dynstr = dict(name=b'.dynstr', type=3, flags=2, link=None, info=0, entsize=0, body=tab)
    items = [dynstr]
    slack = more = b''
    if kind == 'versym':
        more = rnd_bytes(rng, rng.choice([0, 0, 1, 3]) * ast['symentsize'])
        slack = rnd_bytes(rng, c['rem'])
        dynsym = dict(name=b'.dynsym', type=c['symtype'], flags=2, link=dynstr, info=1, entsize=ast['symentsize'],
                      body=symtab + more)
        ver = dict(name=b'.gnu.version', type=0x6fffffff, flags=2, link=dynsym, info=0, entsize=ast['entsize'],
                   body=content + slack)
        items += [dynsym, ver]
    else:
        need = kind == 'need'
        ver = dict(name=b'.gnu.version_r' if need else b'.gnu.version_d', type=0x6ffffffe if need else 0x6ffffffd,
                   flags=rng.choice([2, 2, 0, 0x22]), link=dynstr, info=c['sh_info'], entsize=rng.choice([0, 0, 16]),
                   body=content)
        items.append(ver)
    if len(ver['body']) >= 24 and rng.random() < 0.06:
        ver['flags'] |= 0x800                   # SHF_COMPRESSED: the version classes read the raw bytes regardless
    if c['filler']:
        items.append(dict(name=b'.filler', type=1, flags=0, link=None, info=0, entsize=0, body=bytes(range(1, c['filler'] + 1))))
    dup = rng.random() < 0.2
    if dup:                                     # another section bearing the version section's name
        items.append(dict(name=ver['name'], type=rng.choice([1, 7]), flags=0, link=None, info=0, entsize=0, body=b'\x05\x06\x07'))
    if not share:
        items.append(dict(name=b'.shstrtab', type=3, flags=0, link=None, info=0, entsize=0, body=b''))
    rng.shuffle(items)
    secs = [null] + items
    # the name table
    names = bytearray(b'\0')
    noff = {b'': 0}
    for t in secs:
        if t['name'] not in noff:
            noff[t['name']] = len(names)
            names += t['name'] + b'\0'
    if share:
        base = len(dynstr['body'])
        dynstr['body'] = dynstr['body'] + bytes(names)
        noff = {k: v + base for k, v in noff.items()}
        shstr = dynstr
    else:
        shstr = [t for t in secs if t['name'] == b'.shstrtab'][0]
        shstr['body'] = bytes(names)
    index = {id(t): i for i, t in enumerate(secs)}
    nseg = rng.choice([0, 0, 1, 2])
    shentsize = shsz + rng.choice([0, 0, 8])
    phentsize = phsz + rng.choice([0, 0, 8])
    regions = ['sh', 'ph'] + [('body', i) for i, t in enumerate(secs) if t['body']]
    rng.shuffle(regions)
    pos = ehsize + rng.choice([0, 0, 4])
    shoff = phoff = 0
    for r in regions:
        pos += rng.choice([0, 0, 0, 1, 3, 8, 17])
        if r == 'sh':
            shoff = pos
            pos += shentsize * len(secs)
        elif r == 'ph':
            phoff = pos
            pos += phentsize * nseg
        else:
            secs[r[1]]['offset'] = pos
            pos += len(secs[r[1]]['body'])
    for t in secs:
        t.setdefault('offset', 0 if t is null else rng.choice([pos, 0, ehsize, pos + 5]))
    segs = []
    for _ in range(nseg):
        f = dict(p_type=rng.choice([1, 1, 4, 6, 0x6474e551]), p_offset=X(), p_vaddr=X(), p_paddr=X(), p_filesz=X(), p_memsz=X(),
                 p_flags=rnd_uint(rng, 32), p_align=X())
        order = (['p_type', 'p_offset', 'p_vaddr', 'p_paddr', 'p_filesz', 'p_memsz', 'p_flags', 'p_align'] if cls == 32 else
                 ['p_type', 'p_flags', 'p_offset', 'p_vaddr', 'p_paddr', 'p_filesz', 'p_memsz', 'p_align'])
        segs.append(R(**{k: f[k] for k in order}))
    # the OS/ABI byte selects per-ABI tables in the struct factory (Solaris dynamic tags today): version sections must be
    # found and decoded under every ABI (a seeded Solaris section-type table shadowed SHT_GNU_verdef under EI_OSABI = 6)
    solaris = rng.random() < 0.2
    osabi = 6 if solaris else rng.choice([0, 0, 0, 3, 9, 97])
    desc = {
        'cls': cls, 'le': le, 'mclass': mclass_of(c['machine']), 'solaris': solaris, 'core': False,
        'ehdr': R(EI_VERSION=1, EI_OSABI=osabi, EI_ABIVERSION=0, e_type=c['e_type'], e_machine=c['machine'], e_version=1,
                  e_entry=X(), e_flags=rnd_uint(rng, 32), e_ehsize=ehsize),
        'shoff': shoff, 'phoff': phoff, 'shentsize': shentsize, 'phentsize': phentsize,
        'sections': [{'name': hx(t['name']), 'nameOff': noff[t['name']],
                      'hdr': R(sh_type=t['type'], sh_flags=t['flags'], sh_addr=0 if t is null else X(), sh_offset=t['offset'],
                               sh_size=len(t['body'] or b''), sh_link=index[id(t['link'])] if t['link'] is not None else 0,
                               sh_info=t['info'], sh_addralign=0 if t is null else rng.choice([1, 2, 4, 8]),
                               sh_entsize=t['entsize']),
                      'body': hx(t['body']) if t['body'] is not None else None} for t in secs],
        'segments': segs, 'shstrndx': index[id(shstr)],
    }
    vi = index[id(ver)]
    qnames = [ver['name'], ver['name'] + b'x', rng.choice([b'.dynstr', b'.filler', b'', b'.gnu.version'])]
    rq = {'p': 'C15', 'k': 'file', 'desc': desc, 'ast': ast, 'sec': vi, 'tail': rng.choice([0, 0, 5]),
          'queries': c['queries'], 'names': [hx(n) for n in qnames], 'slack': hx(slack), 'moreSyms': hx(more)}
    if kind != 'versym':
        rq['declared'] = c['sh_info']
    return rq, dict(dup=dup, share=share, compressed=bool(ver['flags'] & 0x800))


def judge_file(out, stream, rq, r):
    """All verdicts of one `file` case (by index, then by every queried name), on a reply of the driver."""
    data = bytes.fromhex(r['bytes'])
    sec, queries = rq['sec'], rq['queries']

    class _C:
        pass
    _C.out = out
    impl = run_impl(lambda: observe(data, sec, queries))
    judge(_C, stream, {'req': rq, 'via': 'index'}, r['wf'], r['expect'], r['model'], impl)
    for k, h in enumerate(rq['names']):
        name = bytes.fromhex(h)
        got = run_impl(lambda: observe_by_name(data, name, queries))
        idx = r['indexOfName'][k]
        case = {'req': rq, 'via': 'name', 'name': h}
        wfn = r['wf'] and r['observable']          # the hypotheses of the `by_name` theorems
        if wfn and idx is None:
            if got != {'ok': {'kind': None}}:
                out.violation('property', stream, case, what='absent name', expect=None, got=got)
                continue
            judge(_C, stream, case, False, None, r['modelByName'][k], got)
        else:
            # the name designates the version section: the same expectation as by index; another section: correspondence
            judge(_C, stream, case, wfn and idx == sec, r['expect'], r['modelByName'][k], got)


def run_file(ctx):
    rng = ctx.rng('file')
    total = ctx.budget(450, 12000)
    nwf = 0
    for start in range(0, total, CHUNK):
        cases = [(gen_versym(rng, ctx.tier == 'thorough') if rng.random() < 0.3 else gen_ver(rng, ctx.tier == 'thorough'))
                 for _ in range(min(CHUNK, total - start))]
        contents = assemble(ctx, cases)
        reqs, metas = [], []
        for c, r in zip(cases, contents):
            rq, meta = build_desc(rng, c, bytes.fromhex(r['content']), bytes.fromhex(r.get('symtab', '')))
            reqs.append(rq)
            metas.append(meta)
        replies = ctx.driver.ask_many(reqs)
        for c, rq, meta, r in zip(cases, reqs, metas, replies):
            if 'fatal' in r:
                raise RuntimeError('driver: %s on %r' % (r['fatal'], str(c)[:300]))
            a = c['ast']
            n = len(a.get('entries', a.get('rows', [])))
            if 'bytes' not in r:
                ctx.out.count('file:not-encodable')
                continue
            ctx.out.case({'hex': r['bytes'], 'sec': rq['sec'], 'q': rq['queries']}, nontrivial=n > 0)
            ctx.out.count('file:%s:%s' % (a['kind'], 'wf' if r['wf'] else 'not-wf'))
            nwf += bool(r['wf'])
            if r['wf'] and not r['observable']:
                ctx.out.count('file:wf-but-not-observable')
            for k, v in meta.items():
                if v:
                    ctx.out.count('file:%s' % k)
            for k, idx in enumerate(r['indexOfName']):
                ctx.out.count('file:by-name:%s' % ('absent' if idx is None else 'version-section' if idx == rq['sec'] else 'other-section'))
            judge_file(ctx.out, 'file', rq, r)
    if nwf == 0:
        raise RuntimeError('file stream: no description satisfied the Spec well-formedness predicate (vacuous run)')


# --------------------------------------------------------------------------- chains that leave the file
FAR = [0x10000, 0x7fffffff, 0x80000000, 0xffffffff]


def run_trunc(ctx):
    rng = ctx.rng('trunc')
    total = ctx.budget(300, 8000)
    for start in range(0, total, CHUNK):
        cases = []
        while len(cases) < min(CHUNK, total - start):
            c = gen_ver(rng, ctx.tier == 'thorough')
            es = c['ast']['entries']
            if not es or any(e['next'] == 0 for e in es[:-1]) or any(e.get('rep_aux') for e in es):
                continue
            c['tmode'] = rng.choice(['entry-far', 'entry-near', 'aux-far', 'aux-near'])
            if c['tmode'].startswith('entry'):
                es[-1]['next'] = rng.choice(FAR)
                c['sh_info'] = len(es) + rng.choice([1, 2, 5])
            else:
                es[-1]['auxs'][-1]['next'] = rng.choice(FAR)
                es[-1]['cnt'] = len(es[-1]['auxs']) + rng.choice([1, 2, 4])
                c['sh_info'] = len(es) + rng.choice([0, 0, 1])
            cases.append(c)
        contents = assemble(ctx, cases)
        redo = []
        for c, r in zip(cases, contents):
            if not c['tmode'].endswith('near'):
                continue
            # aim the next record at the last bytes of the file (the layout does not depend on the displacement)
            data, f, _ = build_ver(c, bytes.fromhex(r['content']))
            es = c['ast']['entries']
            need = c['ast']['kind'] == 'need'
            last = f['off'] + sum(e['next'] for e in es[:-1])
            if c['tmode'] == 'entry-near':
                size = 16 if need else 20
                nxt = len(data) - rng.choice([0, 1, size // 2, size - 1]) - last
                if 0 <= nxt < 2 ** 32:
                    es[-1]['next'] = nxt
                    redo.append(c)
            else:
                size = 16 if need else 8
                last += es[-1]['aux'] + sum(a['next'] for a in es[-1]['auxs'][:-1])
                nxt = len(data) - rng.choice([0, 1, size // 2, size - 1]) - last
                if 0 <= nxt < 2 ** 32:
                    es[-1]['auxs'][-1]['next'] = nxt
                    redo.append(c)
        if redo:
            again = assemble(ctx, redo)
            byid = {id(c): r for c, r in zip(redo, again)}
            contents = [byid.get(id(c), r) for c, r in zip(cases, contents)]
        reqs, items = [], []
        for c, r in zip(cases, contents):
            data, f, _ = build_ver(c, bytes.fromhex(r['content']))
            rq = check_req(c, data, f)
            rq['mode'] = 'trunc' if c['tmode'].startswith('entry') else 'auxtrunc'
            reqs.append(rq)
            items.append((c, data, f))
        replies = ctx.driver.ask_many(reqs)
        for (c, data, f), rq, r in zip(items, reqs, replies):
            if 'fatal' in r:
                raise RuntimeError('driver: %s on %r' % (r['fatal'], str(c)[:300]))
            impl = run_impl(lambda: observe(data, f['sec'], c['queries']))
            ctx.out.case({'hex': rq['hex'], 'sec': f['sec'], 'q': c['queries']})
            ctx.out.count('trunc:%s:%s' % (c['tmode'], 'wf' if r['wf'] else 'not-wf'))
            judge(ctx, 'trunc', {'req': rq}, r['wf'], r['expect'], r['model'], impl)


# --------------------------------------------------------------------------- damaged images
def damage(rng, c, r):
    """One damaged image from a valid case: (file bytes, section index, description)."""
    versym = c['ast']['kind'] == 'versym'
    content = bytes.fromhex(r['content'])

    def build(tweak=None, content=content):
        if versym:
            return build_versym(c, content, bytes.fromhex(r['symtab']), tweak)
        return build_ver(c, content, tweak)
    what = rng.choice(['trunc', 'trunc', 'subst', 'subst', 'subst', 'info', 'link', 'zero', 'strsubst'])
    if what == 'info' and not versym:
        n = len(c['ast']['entries'])
        data, f, img = build({'sh_info': n + rng.choice([1, 2, 3])})
    elif what == 'link':
        data, f, img = build()
        nsec = len(img.sections) + 1
        data, f, img = build({'link': rng.randrange(0, nsec + 2)})
    elif what == 'zero' and versym:
        data, f, img = build({'entsize': 0} if rng.random() < 0.5 else {'symentsize': rng.choice([0, 5, 7])})
    elif what == 'zero' and c['ast']['entries']:
        # a zero auxiliary count in one entry
        ast = dict(c['ast'])
        es = [dict(e) for e in ast['entries']]
        es[rng.randrange(len(es))]['cnt'] = 0
        ast['entries'] = es
        return ('reasm', ast, what)
    else:
        data, f, img = build()
        sec = f['sec']
        lo = img.offsets[sec]
        if what.startswith('trunc'):
            cut = rng.choice([lo, lo + 1, lo + max(0, len(content) - 1), lo + len(content) // 2, rng.randrange(0, len(data))])
            cut = min(cut, len(data))
            data = data[:cut]
        else:
            target = sec
            if what == 'strsubst':
                target = [i for i, s in enumerate(img.sections) if s['name'] == '.dynstr'][0]
            if versym and rng.random() < 0.4:
                target = [i for i, s in enumerate(img.sections) if s['name'] == '.dynsym'][0]
            tlo = img.offsets[target]
            tlen = len(img.sections[target]['data'])
            if tlen:
                b = bytearray(data)
                for _ in range(rng.choice([1, 1, 2, 4])):
                    p = tlo + rng.randrange(tlen)
                    b[p] = rng.choice([0, 1, 0xff, rng.randrange(256), b[p] ^ 0x80])
                data = bytes(b)
    return ('file', data, f['sec'], what)


def run_raw(ctx):
    rng = ctx.rng('raw')
    total = ctx.budget(500, 12000)
    for start in range(0, total, CHUNK):
        run_raw_chunk(ctx, rng, min(CHUNK, total - start))


def run_raw_chunk(ctx, rng, n):
    cases = []
    for _ in range(n):
        cases.append(gen_versym(rng) if rng.random() < 0.3 else gen_ver(rng))
    contents = assemble(ctx, cases)
    todo = []
    reasm = []
    for c, r in zip(cases, contents):
        d = damage(rng, c, r)
        if d[0] == 'reasm':
            reasm.append((c, d[1], d[2]))
        else:
            todo.append((c, d[1], d[2], d[3]))
    if reasm:
        rs = ctx.driver.ask_many([{'p': 'C15', 'k': 'asm', 'ast': ast} for _, ast, _ in reasm])
        for (c, ast, what), r in zip(reasm, rs):
            data, f, _ = build_ver(c, bytes.fromhex(r['content']))
            todo.append((c, data, f['sec'], what))
    reqs = [{'p': 'C15', 'k': 'raw', 'hex': hx(data), 'sec': sec, 'queries': c['queries']} for c, data, sec, _ in todo]
    replies = ctx.driver.ask_many(reqs)
    for (c, data, sec, what), rq, r in zip(todo, reqs, replies):
        if 'fatal' in r:
            raise RuntimeError('driver: %s' % r['fatal'])
        impl = run_impl(lambda: observe(data, sec, c['queries']))
        ctx.out.case({'hex': rq['hex'], 'sec': sec, 'q': c['queries']})
        ctx.out.count('raw:%s' % what)
        model = norm(r['model'])
        if 'err' in impl:
            ctx.out.count('raw:open-error')
        elif any('err' in v for v in impl['ok'].values() if isinstance(v, dict)):
            ctx.out.count('raw:walk-error')
        if impl != model:
            ctx.out.violation('correspondence', 'raw', {'req': rq}, got=impl, model=model)


def run(ctx):
    run_ver(ctx)
    run_versym(ctx)
    run_file(ctx)
    run_trunc(ctx)
    run_raw(ctx)


def replay(ctx, payload):
    v = payload['violation']
    rq = v['case']['req']
    r = ctx.driver.ask(rq)
    if rq['k'] == 'file':
        class _O:
            def __init__(self): self.violations = []
            def violation(self, kind, stream, case, **kw): self.violations.append(dict(kind=kind, via=case.get('via'), **kw))
        o = _O()
        judge_file(o, v['stream'], rq, r)
        return {'stream': v['stream'], 'wf': r['wf'], 'verdict': o.violations, 'fails': bool(o.violations)}
    data = bytes.fromhex(rq['hex'])
    impl = run_impl(lambda: observe(data, rq['sec'], rq.get('queries', [])))
    res = {'stream': v['stream'], 'impl': impl, 'model': norm(r.get('model'))}
    if rq['k'] == 'check':
        class _O:       # a throw-away outcome to re-run the verdict
            def __init__(self): self.violations = []
            def violation(self, kind, stream, case, **kw): self.violations.append(dict(kind=kind, **kw))

        class _C:
            out = _O()
        judge(_C, v['stream'], v['case'], r['wf'], r['expect'], r['model'], impl)
        res.update(wf=r['wf'], expect=norm(r['expect']), verdict=_C.out.violations, fails=bool(_C.out.violations))
    else:
        res.update(fails=(impl != norm(r.get('model'))))
    return res


FINDINGS = {}
