"""C13 — address-range and name lookup tables, unit lookup.  Streams:

  ar      : abstract .debug_aranges (1-6 sets, address size 4/8, both byte orders, padding to tuple alignment with
            arbitrary fill, empty sets, unsorted / adjacent / duplicate-begin / zero-length tuples, trailing bytes)
            -> Lean spec encoder -> DWARFInfo.get_aranges(): `.entries` and `cu_offset_at_addr` at every boundary
            class of every tuple (begin-1, begin, inside, last byte, end, gaps, 0, below, above)
  ar_raw  : mutated encodings and random bytes, model vs code including every error class and need_empty=True
  nm      : abstract .debug_pubnames/.debug_pubtypes (0-5 sets, empty sets, non-ASCII names, names repeated within a set and
            across sets) -> spec encoder -> DWARFInfo.get_pubnames()/get_pubtypes(): mapping interface and get_cu_headers;
            repeated names are compared with the declarative content (first-occurrence order, last value) as well
  nm_raw  : mutated / random name tables, model vs code
  cu      : abstract multi-unit .debug_info (32/64-bit units, versions 2-5, all v5 unit types) + an operation history
            (get_CU_containing at every offset 0..size-1, get_CU_at at unit starts, get_DIE_from_lut_entry) on ONE
            DWARFInfo object; histories = every permutation/subset prefix of the unit starts followed by every
            offset, so every reachable cache state is queried
  cu_raw  : mutated sections and arbitrary offsets (including non-unit offsets and out-of-range), model vs code
  res     : address -> range table -> unit on ONE DWARFInfo: get_aranges() (section absent / no sets / only empty sets /
            disjoint ranges naming unit starts), cu_offset_at_addr at every boundary class, then get_CU_containing or
            get_CU_at of the offset found; with a table that gives nothing, get_CU_containing at every offset of the
            section (the scan a consumer falls back to); .debug_info absent in every tenth case
  die     : lookups that END IN AN ENTRY, on a C04 forest (abbreviation tables, units of versions 2-5 with trees of entries,
            string / address / list sections: C04's generator and Spec encoder) + an encoded name table naming entries of the
            forest + an encoded range table naming its units, one operation history on ONE DWARFInfo:
            get_DIE_from_refaddr at entry offsets of every unit (and mid-entry, header, negative, beyond-the-end offsets),
            get_DIE_from_lut_entry, get_pubnames()/get_pubtypes()[name] -> get_DIE_from_lut_entry, address -> aranges -> unit ->
            get_top_DIE(), interleaved with get_CU_containing / get_CU_at so that the unit cache is in every kind of state;
            the entry (offset, size, code, tag, attributes with forms and values) is compared with the forest's entry
            (Props.C13.ref_addr_resolution_exact, name_to_die_exact, addr_to_top_die), with the model, and the model's answer
            with C04's linear scan (ref_addr_scan_agrees)
"""
import io, itertools
from common import run_impl, canon, hx, rnd_uint, rnd_bytes

RULE = ('ar: sets/tuples from boundary pools (adjacent, unsorted, equal begins, zero length, max address), all addresses '
        'derived from every tuple boundary; nm: names from ASCII/multi-byte UTF-8 pools, half of the tables with forced repetitions within a set and across sets (different values); cu: up to 4 '
        '(quick 3) units of versions 2-5 (v5: all six unit types; both DWARF formats; four fixed sections per run contain every v5 '
        'unit type in both formats), every permutation and subset of unit starts as cache-priming prefix then every offset of the section; '
        'res: range tables absent / without sets / with empty sets only / with disjoint ranges naming unit starts, .debug_info absent in '
        'every tenth case, addresses from every tuple boundary resolved by get_CU_containing or get_CU_at, then every offset of the section; '
        'die: C04 forests (its generator) with name tables (1-3 sets, repeated names, 90% of the entries naming entries of the forest) and '
        'disjoint range tables naming unit starts; 25-60 operations per case: refaddr lookups at entry offsets (all units), entry offset+1, '
        'unit header offsets, -1, size, size+5; lut entries; every name of the table and one absent name; addresses at tuple boundaries; '
        'shuffled with unit-level lookups; '
        'raw streams: single-byte substitutions, truncations, extensions of valid encodings plus random bytes. '
        'Non-trivial = distinct (request); every ast case decodes at least one header.')
ASSUMPTIONS = ['io.BytesIO read/seek/tell semantics', 'bisect.bisect_right, list.sort stability, list.insert, dict order',
               'math.ceil(fp/float(ts))*ts equals integer ceil-division below 2**53 (section offsets)',
               "bytes.decode('utf-8') accepts exactly well-formed UTF-8 (Unicode table 3-7)",
               'DIE decoding behind get_DIE_from_lut_entry is C04; observed through die.offset and die.cu in the cu streams, and entry by '
               'entry (tag, attributes, values) in the die stream, where the model is C04\'s pure parse-on-miss entry model '
               '(the per-unit DIE cache is C10) behind C13\'s unit cache',
               'a present section descriptor is truthy (non-empty namedtuple), so `if self.debug_x_sec:` is `is not None`',
               'res: address resolution is the composition get_aranges().cu_offset_at_addr(a) ; get_CU_containing/get_CU_at written in the '
               'harness and in Model.Lookup.unitForAddr (the library has no function for it)']

def ask_many(ctx, reqs, n=6):
    """Driver.ask_many writes a whole batch before reading any reply; with replies of several KB both pipes fill and the two
    processes block on each other.  Keep each batch well under the 64 KiB pipe capacity in both directions."""
    out = []
    for i in range(0, len(reqs), n):
        out += ctx.driver.ask_many(reqs[i:i + n])
    return out


ABBREV = bytes([1, 0x11, 0, 0, 0, 0])       # code 1: DW_TAG_compile_unit, no children, no attributes


def mk_dwarfinfo(le, dasz, **secs):
    from elftools.dwarf.dwarfinfo import DWARFInfo, DwarfConfig, DebugSectionDescriptor

    def d(name):
        b = secs.get(name)
        if b is None:
            return None
        return DebugSectionDescriptor(stream=io.BytesIO(b), name='.debug_' + name, global_offset=0, size=len(b), address=0)
    return DWARFInfo(
        config=DwarfConfig(little_endian=le, machine_arch='x64', default_address_size=dasz),
        debug_info_sec=d('info'), debug_aranges_sec=d('aranges'), debug_abbrev_sec=d('abbrev'), debug_frame_sec=None,
        eh_frame_sec=None, debug_str_sec=None, debug_loc_sec=None, debug_ranges_sec=None, debug_line_sec=None,
        debug_pubtypes_sec=d('pubtypes'), debug_pubnames_sec=d('pubnames'), debug_addr_sec=None,
        debug_str_offsets_sec=None, debug_line_str_sec=None, debug_loclists_sec=None, debug_rnglists_sec=None,
        debug_sup_sec=None, gnu_debugaltlink_sec=None, debug_types_sec=None)


def mk_dwarfinfo_elf(le, dasz, **secs):
    """The same sections inside an ELF container, through ELFFile.get_dwarf_info()."""
    import elfbuild
    from elftools.elf.elffile import ELFFile
    img = elfbuild.ElfImage(cls=32 if dasz == 4 else 64, le=le, e_type=elfbuild.ET_EXEC,
                            e_machine=elfbuild.EM_386 if dasz == 4 else elfbuild.EM_X86_64)
    if 'info' not in secs:
        secs = dict(secs, info=b'')
    for name, b in secs.items():
        if b is not None:
            img.add_section('.debug_' + name, elfbuild.SHT_PROGBITS, data=b)
    return ELFFile(io.BytesIO(img.build())).get_dwarf_info(relocate_dwarf_sections=False, follow_links=False)


# ----------------------------------------------------------------------------------------------- aranges
def entry_canon(e):
    return [e.begin_addr, e.length, e.info_offset, e.unit_length, e.version, e.address_size, e.segment_size]


def impl_aranges(le, dasz, data, addrs, via_elf=False):
    """same shape as the driver's runAranges"""
    def init():
        di = (mk_dwarfinfo_elf if via_elf else mk_dwarfinfo)(le, dasz, aranges=data)
        return di.get_aranges()
    try:
        ar = init()
    except Exception as e:      # noqa: BLE001
        from common import classify_exception
        return {'init': {'err': classify_exception(e)}, 'lookups': []}
    if ar is None:
        return {'init': {'ok': None}, 'lookups': []}
    return {'init': {'ok': [entry_canon(e) for e in ar.entries]},
            'lookups': [run_impl(lambda: ar.cu_offset_at_addr(a)) for a in addrs]}


def gen_sets(rng):
    nsets = rng.choice([1, 1, 2, 2, 3, 4, 5, 6])
    sets = []
    # a shared pool of interval end points makes adjacency, nesting and equal begins likely
    base = rng.choice([0, 1, 0x1000, 0x7ffffff0, 0xfffffff0, 0xffffffff00])
    pts = sorted({base + rng.randrange(0, 64) for _ in range(8)})
    mode = rng.choice(['disjoint', 'disjoint', 'adjacent', 'free', 'free0'])
    used = []
    for _ in range(nsets):
        asz = rng.choice([4, 8])
        lim = 1 << (8 * asz)
        nt = rng.choice([0, 0, 1, 1, 2, 3, 5])
        tuples = []
        for _ in range(nt):
            if mode in ('disjoint', 'adjacent'):
                # carve a fresh interval that does not intersect the used ones
                for _try in range(20):
                    if mode == 'adjacent' and used and rng.random() < 0.7:
                        u = rng.choice(used)
                        a = u[0] + u[1] if rng.random() < 0.5 else max(0, u[0] - rng.randrange(1, 9))
                        ln = rng.randrange(1, 9) if a >= u[0] + u[1] else u[0] - a
                    else:
                        a = base + rng.randrange(0, 400)
                        ln = rng.randrange(1, 20)
                    if a + ln <= lim and a < lim and ln < lim and ln > 0 and all(a + ln <= b or b + l <= a for b, l in used):
                        used.append((a, ln))
                        tuples.append([a, ln])
                        break
            else:
                a = rng.choice(pts)
                ln = rng.choice([0, 1, 2, 5, 17]) if mode == 'free0' else rng.choice([1, 2, 5, 17, 64])
                if rng.random() < 0.1:
                    a, ln = rnd_uint(rng, 8 * asz), rnd_uint(rng, 8 * asz)
                if a < lim and ln < lim and (a, ln) != (0, 0):
                    tuples.append([a, ln])
        rng.shuffle(tuples)
        s = {'version': rng.choice([2, 2, 2, 3, 0, 0xffff]), 'info_off': rnd_uint(rng, 32), 'asz': asz, 'tuples': tuples,
             'fill': rng.choice([0, 0, 0xff, 0xaa, 1])}
        if rng.random() < 0.15:
            s['trail'] = hx(rnd_bytes(rng, rng.choice([1, 3, 8, 16])))
        sets.append(s)
    return sets


def addrs_for(rng, sets):
    out = {0, 1}
    for s in sets:
        for a, ln in s['tuples']:
            out.update({a - 1, a, a + 1, a + ln - 1, a + ln, a + ln + 1, a + ln // 2})
    out.update({(1 << 32) - 1, (1 << 32), (1 << 64) - 1, 1 << 64, rng.randrange(0, 1 << 33)})
    return sorted(x for x in out if x >= 0)


def check_ar(ctx, stream, req, r, via_elf=False):
    data = bytes.fromhex(r['bytes'])
    impl = impl_aranges(req['le'], req['dasz'], data, req['addrs'], via_elf)
    case = {'req': req, 'via_elf': via_elf}
    ctx.out.case(case)
    model = r['model']
    if r['wf']:
        # the property asks for every encoded tuple with its set header, not for an order of `.entries`:
        # compared as a multiset here; the exact (stable, by begin address) order is part of the correspondence below
        exp_entries = {'ok': r['expect']['entries']}
        if 'ok' not in impl['init'] or impl['init']['ok'] is None or sorted(impl['init']['ok']) != sorted(exp_entries['ok']):
            ctx.out.violation('property', stream, case, expect=exp_entries, got=impl['init'], model=model['init'])
            return
        if r['wf_lookup']:
            exp_l = [{'ok': v} for v in r['expect']['lookups']]
            if impl['lookups'] != exp_l:
                bad = [(a, e, g) for a, e, g in zip(req['addrs'], exp_l, impl['lookups']) if e != g][:3]
                ctx.out.violation('property', stream, case, expect=exp_l, got=impl['lookups'], first_bad=bad, model=model['lookups'])
                return
        else:
            ctx.out.count(stream + ':shadowed-lookup-not-compared')
    else:
        ctx.out.count(stream + ':not-wf')
    if impl != model:
        ctx.out.violation('correspondence', stream, case, got=impl, model=model)


def run_ar(ctx):
    rng = ctx.rng('ar')
    reqs = []
    for _ in range(ctx.budget(500, 12000)):
        sets = gen_sets(rng)
        reqs.append({'p': 'C13', 'k': 'ar', 'le': rng.random() < 0.5, 'dasz': rng.choice([4, 8]), 'sets': sets,
                     'addrs': addrs_for(rng, sets)})
    # the all-empty and no-set tables (the defect class fixed by C13-aranges-empty-lookup)
    for le in (True, False):
        for sets in ([], [{'version': 2, 'info_off': 0, 'asz': 4, 'tuples': []}],
                     [{'version': 2, 'info_off': 0, 'asz': 8, 'tuples': []}, {'version': 2, 'info_off': 9, 'asz': 4, 'tuples': []}]):
            reqs.append({'p': 'C13', 'k': 'ar', 'le': le, 'dasz': 4, 'sets': sets, 'addrs': [0, 1, 5, 1 << 32]})
    replies = ask_many(ctx, reqs)
    for i, (rq, r) in enumerate(zip(reqs, replies)):
        if 'fatal' in r:
            raise RuntimeError('driver: %s on %r' % (r['fatal'], rq))
        ctx.out.count('ar:sets=%d' % len(rq['sets']))
        ctx.out.count('ar:tuples=%d' % min(8, sum(len(s['tuples']) for s in rq['sets'])))
        ctx.out.count('ar:' + ('disjoint' if r['disjoint'] else 'noshadow' if r['wf_lookup'] else 'shadowed'))
        if not rq['sets']:
            # an empty section: get_aranges() is None only when the section is absent; size 0 is a present section
            pass
        check_ar(ctx, 'ar', rq, r, via_elf=(i % 8 == 0 and len(bytes.fromhex(r['bytes'])) > 0))


def mutate(rng, data):
    data = bytearray(data)
    m = rng.choice(['sub', 'sub', 'sub', 'trunc', 'ext', 'rand', 'none'])
    if m == 'sub' and data:
        for _ in range(rng.choice([1, 1, 2])):
            i = rng.randrange(len(data))
            data[i] = rng.choice([0, 1, 4, 8, 0xff, 0xfe, rng.randrange(256)])
    elif m == 'trunc' and data:
        del data[rng.randrange(len(data)):]
    elif m == 'ext':
        data += rnd_bytes(rng, rng.choice([1, 3, 4, 11, 12, 16, 30]))
    elif m == 'rand':
        data = bytearray(rnd_bytes(rng, rng.choice([0, 1, 4, 11, 12, 20, 40])))
    return bytes(data)


def run_ar_raw(ctx):
    rng = ctx.rng('ar_raw')
    seeds = []
    for _ in range(ctx.budget(400, 15000)):
        sets = gen_sets(rng)
        seeds.append({'p': 'C13', 'k': 'ar', 'le': rng.random() < 0.5, 'dasz': rng.choice([4, 8]), 'sets': sets, 'addrs': []})
    reps = ask_many(ctx, seeds)
    reqs = []
    for s, r in zip(seeds, reps):
        data = mutate(rng, bytes.fromhex(r['bytes']))
        reqs.append({'p': 'C13', 'k': 'ar_raw', 'le': s['le'], 'dasz': s['dasz'], 'hex': hx(data), 'addrs': addrs_for(rng, s['sets'])[:12]})
    replies = ask_many(ctx, reqs)
    for rq, r in zip(reqs, replies):
        if 'fatal' in r:
            raise RuntimeError('driver: %s on %r' % (r['fatal'], rq))
        data = bytes.fromhex(rq['hex'])
        impl = impl_aranges(rq['le'], rq['dasz'], data, rq['addrs'])

        def ne():
            from elftools.dwarf.aranges import ARanges
            from elftools.dwarf.structs import DWARFStructs
            st = DWARFStructs(little_endian=rq['le'], dwarf_format=32, address_size=rq['dasz'])
            ar = ARanges.__new__(ARanges)
            ar.stream, ar.size, ar.structs = io.BytesIO(data), len(data), st
            return [entry_canon(e) for e in ar._get_entries(need_empty=True)]
        impl_ne = run_impl(ne)
        ctx.out.case(rq)
        ctx.out.count('ar_raw:' + ('ok' if 'ok' in impl['init'] else impl['init']['err']))
        if impl != r['model']:
            ctx.out.violation('correspondence', 'ar_raw', rq, got=impl, model=r['model'])
        elif impl_ne != r['need_empty']:
            ctx.out.violation('correspondence', 'ar_raw', rq, got=impl_ne, model=r['need_empty'], what='need_empty')


# ----------------------------------------------------------------------------------------------- name tables
NAMES = [b'a', b'main', b'x', b'ns::f', 'é'.encode(), 'λx'.encode(), '日本語'.encode(), '𝔘nicode'.encode(), b'', b'operator<<',
         b'a' * 70, '߿'.encode(), '￿'.encode(), '\U0010ffff'.encode(), b'\x7f']


def gen_name_sets(rng):
    """names from the pools; with probability ~1/2 a table gets FORCED repetitions: an entry re-uses a name of an earlier entry
    of the same set (dup-within) or of an earlier set (dup-across), with a different offset, so that first-occurrence order
    and last-value-wins are both observable"""
    sets = []
    force = rng.random() < 0.5
    seen_before = []            # names of earlier sets
    for _ in range(rng.choice([0, 1, 1, 2, 2, 3, 5])):
        ents = []
        here = []
        for _ in range(rng.choice([0, 0, 1, 2, 3, 6])):
            r = rng.random()
            if force and here and r < 0.25:
                nm = rng.choice(here)
            elif force and seen_before and r < 0.5:
                nm = rng.choice(seen_before)
            elif r < 0.7:
                nm = rng.choice(NAMES)
            elif r < 0.92:
                nm = bytes(rng.randrange(1, 128) for _ in range(rng.randrange(0, 6)))
            else:
                nm = ''.join(chr(rng.choice([rng.randrange(1, 0x80), rng.randrange(0x80, 0x800), rng.randrange(0x800, 0xd800),
                                             rng.randrange(0xe000, 0x10000), rng.randrange(0x10000, 0x110000)]))
                             for _ in range(rng.randrange(1, 4))).encode('utf-8')
            here.append(nm)
            ents.append([max(1, rnd_uint(rng, 32)), hx(nm)])
        seen_before += here
        sets.append({'version': rng.choice([2, 2, 2, 0, 0xffff]), 'info_off': rnd_uint(rng, 32), 'info_len': rnd_uint(rng, 32), 'entries': ents})
    return sets


def dup_classes(sets):
    """which kinds of repetition a table has: (within one set, across sets)"""
    within = across = False
    earlier = set()
    for s in sets:
        here = [e[1] for e in s['entries']]
        within = within or len(set(here)) != len(here)
        across = across or bool(earlier & set(here))
        earlier |= set(here)
    return within, across


def declared_content(sets):
    """the property's reading for repeated names, computed here without any dict: the distinct names ordered by the index
    of their FIRST occurrence, each with (unit offset, unit offset + entry offset) of its LAST occurrence"""
    pairs = [(e[1], s['info_off'], s['info_off'] + e[0]) for s in sets for e in s['entries']]
    names = [p[0] for p in pairs]
    firsts = sorted(set(names), key=names.index)
    return [[n] + list([p for p in pairs if p[0] == n][-1][1:]) for n in firsts]


def impl_names(le, dasz, data, which, via_elf=False):
    def f():
        # both name tables present on the one object (the other one holds the same bytes), and — chosen by the content,
        # so that a replay is exact — the OTHER table asked for first, or the observed one asked for twice: the two
        # accessors must not share state (a seeded copy-paste slip made get_pubnames() answer None after get_pubtypes())
        other = 'pubtypes' if which == 'pubnames' else 'pubnames'
        di = (mk_dwarfinfo_elf if via_elf else mk_dwarfinfo)(le, dasz, **{which: data, other: data})
        get = {'pubnames': di.get_pubnames, 'pubtypes': di.get_pubtypes}
        mode = 0 if data is None else (len(data) + sum(data[:8])) % 3
        if mode == 1:
            try:
                get[other]()
            except Exception:       # noqa: BLE001
                pass
        elif mode == 2:
            try:
                get[which]()
            except Exception:       # noqa: BLE001
                pass
        lut = get[which]()
        if lut is None:
            return None
        items = [[k.encode('utf-8').hex(), v.cu_ofs, v.die_ofs] for k, v in lut.items()]
        via_iter = [[k.encode('utf-8').hex(), lut[k].cu_ofs, lut[k].die_ofs] for k in lut]
        hdrs = [canon(h) for h in lut.get_cu_headers()]
        if via_iter != items or len(lut) != len(items) or lut.get('\0no such name') is not None \
                or any(lut.get(k) != v for k, v in lut.items()) or ('\0no such name' in lut):
            return {'inconsistent-mapping-interface': [items, via_iter, len(lut)]}
        return {'items': items, 'headers': hdrs}
    return run_impl(f)


def run_nm(ctx):
    rng = ctx.rng('nm')
    reqs = []
    for _ in range(ctx.budget(600, 12000)):
        reqs.append({'p': 'C13', 'k': 'nm', 'le': rng.random() < 0.5, 'dasz': rng.choice([4, 8]), 'sets': gen_name_sets(rng),
                     'which': rng.choice(['pubnames', 'pubtypes'])})
    replies = ask_many(ctx, reqs)
    for i, (rq, r) in enumerate(zip(reqs, replies)):
        if 'fatal' in r:
            raise RuntimeError('driver: %s on %r' % (r['fatal'], rq))
        data = bytes.fromhex(r['bytes'])
        via_elf = (i % 8 == 0 and len(data) > 0)
        impl = impl_names(rq['le'], rq['dasz'], data, rq['which'], via_elf)
        case = {'req': rq, 'via_elf': via_elf}
        ctx.out.case(case)
        ctx.out.count('nm:sets=%d' % len(rq['sets']))
        ctx.out.count('nm:' + ('distinct' if r['distinct'] else 'duplicate-names'))
        within, across = dup_classes(rq['sets'])
        if within:
            ctx.out.count('nm:dup-within-set')
        if across:
            ctx.out.count('nm:dup-across-sets')
        if within and across:
            ctx.out.count('nm:dup-within-and-across')
        if within or across:
            nvals = {}
            for st in rq['sets']:
                for e in st['entries']:
                    nvals.setdefault(e[1], set()).add((st['info_off'], e[0]))
            if any(len(v) > 1 for v in nvals.values()):
                ctx.out.count('nm:dup-with-different-values')
        if not r['wf']:
            ctx.out.count('nm:not-wf')
        else:
            # the Spec's declarative content (Lean `orderedLastWins`, theorem names_exact_ordered) against an independent
            # computation here: a disagreement is a defect of the check, not of the code
            if r['expect']['items'] != declared_content(rq['sets']):
                raise RuntimeError('C13 nm: Spec content and harness content disagree on %r' % (rq,))
            # repeated names: keys in order of first occurrence, each with the value of its last occurrence
            if impl != {'ok': r['expect']}:
                ctx.out.violation('property', 'nm', case, expect=r['expect'], got=impl, model=r['model'])
                continue
        if impl != r['model']:
            ctx.out.violation('correspondence', 'nm', case, got=impl, model=r['model'])


def run_nm_raw(ctx):
    rng = ctx.rng('nm_raw')
    seeds = [{'p': 'C13', 'k': 'nm', 'le': rng.random() < 0.5, 'dasz': 4, 'sets': gen_name_sets(rng)} for _ in range(ctx.budget(400, 15000))]
    reps = ask_many(ctx, seeds)
    reqs = []
    for s, r in zip(seeds, reps):
        data = bytearray(mutate(rng, bytes.fromhex(r['bytes'])))
        if data and rng.random() < 0.3:       # ill-formed UTF-8 inside names
            data[rng.randrange(len(data))] = rng.choice([0x80, 0xc0, 0xc1, 0xe0, 0xed, 0xf4, 0xf5, 0xff, 0xa0, 0xbf])
        reqs.append({'p': 'C13', 'k': 'nm_raw', 'le': s['le'], 'dasz': 4, 'hex': hx(data), 'which': rng.choice(['pubnames', 'pubtypes'])})
    # every two-byte and selected three/four-byte sequences as a name: the UTF-8 acceptance boundary
    import struct
    seqs = [bytes([a, b]) for a in (0x7f, 0x80, 0xc0, 0xc1, 0xc2, 0xdf, 0xe0, 0xed, 0xef, 0xf0, 0xf4, 0xf5) for b in (0x41, 0x7f, 0x80, 0x9f, 0xa0, 0xbf, 0xc0)]
    seqs += [bytes([a, b, 0x80]) for a in (0xe0, 0xe1, 0xec, 0xed, 0xee, 0xef) for b in (0x7f, 0x80, 0x9f, 0xa0, 0xbf, 0xc0)]
    seqs += [bytes([a, b, 0x80, 0xbf]) for a in (0xf0, 0xf1, 0xf3, 0xf4) for b in (0x7f, 0x80, 0x8f, 0x90, 0xbf, 0xc0)]
    seqs += [bytes([0xe1, 0x80]), bytes([0xf1, 0x80, 0x80]), bytes([0xe1, 0x80, 0x41]), bytes([0xf1, 0x80, 0x80, 0x41])]
    for sq in seqs:
        body = struct.pack('<HII', 2, 0, 100) + struct.pack('<I', 5) + sq + b'\0' + struct.pack('<I', 0)
        reqs.append({'p': 'C13', 'k': 'nm_raw', 'le': True, 'dasz': 4, 'hex': hx(struct.pack('<I', len(body)) + body), 'which': 'pubnames'})
    # the section absent: get_pubnames() / get_pubtypes() answer None (Model.Lookup.getNameLUT)
    for which in ('pubnames', 'pubtypes'):
        for le in (True, False):
            reqs.append({'p': 'C13', 'k': 'nm_raw', 'le': le, 'dasz': 4, 'hex': None, 'which': which})
    replies = ask_many(ctx, reqs)
    for rq, r in zip(reqs, replies):
        if 'fatal' in r:
            raise RuntimeError('driver: %s on %r' % (r['fatal'], rq))
        impl = impl_names(rq['le'], rq['dasz'], None if rq['hex'] is None else bytes.fromhex(rq['hex']), rq['which'])
        ctx.out.case(rq)
        ctx.out.count('nm_raw:' + ('section-absent' if rq['hex'] is None else 'ok' if 'ok' in impl else impl['err']))
        if impl != r['model']:
            ctx.out.violation('correspondence', 'nm_raw', rq, got=impl, model=r['model'])


# ----------------------------------------------------------------------------------------------- unit lookup
def cu_canon(cu):
    return [cu.cu_offset, cu.cu_die_offset, cu.size, cu.dwarf_format(), canon(cu.header)]


class _StubDIE:
    def __init__(self, cu, offset):
        self.cu, self.offset = cu, offset


def impl_ops(le, dasz, data, ops, stub_die=False):
    """stub_die (raw stream only): CompileUnit._get_cached_DIE — the DIE decoder, C04's subject — is replaced by a recorder
    of (unit, offset), so that malformed DIE bytes / abbreviation offsets do not enter the comparison."""
    from elftools.dwarf.namelut import NameLUTEntry
    from elftools.dwarf.compileunit import CompileUnit
    if stub_die:
        orig = CompileUnit._get_cached_DIE
        CompileUnit._get_cached_DIE = lambda self, offset: _StubDIE(self, offset)
        try:
            return impl_ops(le, dasz, data, ops, False)
        finally:
            CompileUnit._get_cached_DIE = orig
    di = mk_dwarfinfo(le, dasz, info=data, abbrev=ABBREV)
    return {'answers': answers_for(di, ops), 'offsets': list(di._cu_offsets_map)}


def answers_for(di, ops):
    from elftools.dwarf.namelut import NameLUTEntry
    answers = []
    for op in ops:
        if op[0] == 'c':
            answers.append(run_impl(lambda: cu_canon(di.get_CU_containing(op[1]))))
        elif op[0] == 'a':
            answers.append(run_impl(lambda: cu_canon(di.get_CU_at(op[1]))))
        else:
            def f():
                die = di.get_DIE_from_lut_entry(NameLUTEntry(cu_ofs=op[1], die_ofs=op[2]))
                return [cu_canon(die.cu), die.offset]
            answers.append(run_impl(f))
    return answers


def impl_res(le, dasz, ar, info, queries, ops, via_elf=False):
    """get_aranges(), then per address `cu_offset_at_addr` followed by get_CU_containing / get_CU_at of the offset found, then
    unit operations: all on ONE DWARFInfo; `ar` / `info` None = the section is absent.  Same shape as the driver's runRes."""
    from common import classify_exception
    if via_elf:
        secs = {'abbrev': ABBREV}
        if ar is not None:
            secs['aranges'] = ar
        if info is not None:
            secs['info'] = info
        di = mk_dwarfinfo_elf(le, dasz, **secs)
    else:
        di = mk_dwarfinfo(le, dasz, aranges=ar, info=info, abbrev=ABBREV)
    try:
        t = di.get_aranges()
    except Exception as e:      # noqa: BLE001
        return {'aranges': {'err': classify_exception(e)}}
    resolved = []
    for a, byc in queries:
        def f():
            off = t.cu_offset_at_addr(a) if t is not None else None
            if off is None:
                return None
            return cu_canon(di.get_CU_containing(off) if byc else di.get_CU_at(off))
        resolved.append(run_impl(f))
    return {'aranges': {'ok': None if t is None else [entry_canon(e) for e in t.entries]}, 'resolved': resolved,
            'answers': answers_for(di, ops), 'offsets': list(di._cu_offsets_map)}


def gen_units(rng, n):
    units = []
    for _ in range(n):
        ver = rng.choice([2, 3, 4, 4, 5, 5])
        u = {'fmt64': rng.random() < 0.3, 'version': ver, 'abbrev_off': 0, 'asz': rng.choice([4, 8]),
             'body': hx(bytes(rng.choice([0, 1, 1]) for _ in range(rng.choice([0, 1, 1, 2, 3, 7]))))}
        if ver == 5:
            u['utype'] = rng.choice([1, 1, 2, 3, 4, 5, 6])
            u['id8'] = rnd_uint(rng, 64)
            u['type_off'] = rnd_uint(rng, 32)
        units.append(u)
    return units


def histories(rng, starts, size, exhaustive):
    """operation lists: a cache-priming prefix (ordered subset of unit starts, by get_CU_at or get_CU_containing) followed by
    every offset of the section"""
    idx = list(range(len(starts)))
    prefixes = [()]
    for k in range(1, len(idx) + 1):
        prefixes += list(itertools.permutations(idx, k))
    if not exhaustive and len(prefixes) > 6:
        prefixes = [()] + rng.sample(prefixes[1:], 5)
    out = []
    for p in prefixes:
        ops = []
        for i in p:
            o, sz, die = starts[i]
            r = rng.random()
            if r < 0.4:
                ops.append(['a', o])
            elif r < 0.8:
                ops.append(['c', o + rng.randrange(sz)])
            elif die < o + sz:
                ops.append(['l', o, rng.randrange(die, o + sz)])
            else:
                ops.append(['a', o])
        order = list(range(size))
        m = rng.choice(['asc', 'desc', 'shuffle', 'shuffle'])
        if m == 'desc':
            order.reverse()
        elif m == 'shuffle':
            rng.shuffle(order)
        ops += [['c', x] for x in order]
        out.append(ops)
    return out


def check_cu(ctx, stream, rq, r, data):
    impl = impl_ops(rq['le'], rq['dasz'], data, rq['ops'], stub_die=(stream == 'cu_raw'))
    ctx.out.case(rq)
    model = r['model']
    if r.get('wf'):
        for i, (op, e, g) in enumerate(zip(rq['ops'], r['expect'], impl['answers'])):
            if e is None:
                ctx.out.count(stream + ':op-outside-quantifier')
            elif e != g:
                ctx.out.violation('property', stream, rq, op_index=i, op=op, expect=e, got=g, model=model['answers'][i])
                return
    elif 'wf' in r:
        ctx.out.count(stream + ':not-wf')
    if impl != model:
        bad = [(i, o, g, m) for i, (o, g, m) in enumerate(zip(rq['ops'], impl['answers'], model['answers'])) if g != m][:2]
        ctx.out.violation('correspondence', stream, rq, got=impl if not bad else bad, model=model if not bad else None)


UT_NAMES = {1: 'compile', 2: 'type', 3: 'partial', 4: 'skeleton', 5: 'split_compile', 6: 'split_type'}


def v5_unit(rng, fmt64, utype):
    return {'fmt64': fmt64, 'version': 5, 'utype': utype, 'abbrev_off': 0, 'asz': rng.choice([4, 8]), 'id8': rnd_uint(rng, 64),
            'type_off': rnd_uint(rng, 64 if fmt64 else 32),
            'body': hx(bytes(rng.choice([0, 1, 1]) for _ in range(rng.choice([0, 1, 2, 3]))))}


def fixed_v5_sections(rng):
    """every DWARF 5 unit type that may appear in .debug_info (DW_UT_compile, type, partial, skeleton, split_compile,
    split_type), in both DWARF formats, on every run: three units per section, mixed with a version 2-4 unit"""
    out = []
    for fmt64 in (False, True):
        for types in ((1, 2, 3), (4, 5, 6)):
            us = [v5_unit(rng, fmt64, t) for t in types]
            old = gen_units(rng, 1)[0]
            old['version'] = rng.choice([2, 3, 4])
            for k in ('utype', 'id8', 'type_off'):
                old.pop(k, None)
            us.insert(rng.randrange(len(us) + 1), old)
            out.append(us)
    return out


def count_units(ctx, units):
    for u in units:
        ctx.out.count('cu:unit v%d %s' % (u['version'], 'dwarf64' if u['fmt64'] else 'dwarf32'))
        if u['version'] == 5:
            ctx.out.count('cu:unit v5 DW_UT_%s' % UT_NAMES[u.get('utype', 1)])
            ctx.out.count('cu:unit v5 DW_UT_%s %s' % (UT_NAMES[u.get('utype', 1)], 'dwarf64' if u['fmt64'] else 'dwarf32'))


def run_cu(ctx):
    rng = ctx.rng('cu')
    exhaustive = ctx.tier == 'thorough'
    ncases = ctx.budget(36, 600)
    fixed = fixed_v5_sections(rng)
    for ci in range(ncases + len(fixed)):
        le = rng.random() < 0.5
        if ci < len(fixed):
            units = fixed[ci]
            n = len(units)
        else:
            n = rng.choice([1, 2, 2, 3, 3, 4] if exhaustive else [1, 2, 2, 3, 3])
            units = gen_units(rng, n)
        probe = ctx.driver.ask({'p': 'C13', 'k': 'cu', 'le': le, 'dasz': 4, 'units': units, 'ops': []})
        if 'fatal' in probe:
            raise RuntimeError('driver: %s' % probe['fatal'])
        if not probe['wf']:
            raise RuntimeError('C13 cu: generated units are not well-formed: %r' % (units,))
        count_units(ctx, units)
        data = bytes.fromhex(probe['bytes'])
        starts = probe['starts']
        hs = histories(rng, starts, len(data), exhaustive and ci >= len(fixed))
        # plus random lut lookups and exact lookups interleaved
        for h in hs[:]:
            extra = []
            for o, sz, die in starts:
                if die < o + sz:
                    extra.append(['l', o, rng.randrange(die, o + sz)])
                extra.append(['a', o])
            rng.shuffle(extra)
            hs.append(extra + h[:rng.randrange(0, len(h) + 1)] + extra)
        reqs = [{'p': 'C13', 'k': 'cu', 'le': le, 'dasz': rng.choice([4, 8]), 'units': units, 'ops': h} for h in hs]
        replies = ask_many(ctx, reqs, 1)
        for rq, r in zip(reqs, replies):
            if 'fatal' in r:
                raise RuntimeError('driver: %s on %r' % (r['fatal'], rq))
            ctx.out.count('cu:units=%d' % n)
            ctx.out.count('cu:ops', len(rq['ops']))
            check_cu(ctx, 'cu', rq, r, data)
        if ctx.time_left() < 20:
            ctx.out.notes.append('cu: stopped after %d of %d cases (time budget)' % (ci + 1, ncases + len(fixed)))
            break


def run_cu_raw(ctx):
    rng = ctx.rng('cu_raw')
    seeds = [{'p': 'C13', 'k': 'cu', 'le': rng.random() < 0.5, 'dasz': 4, 'units': gen_units(rng, rng.choice([1, 2, 3])), 'ops': []}
             for _ in range(ctx.budget(300, 10000))]
    reps = ask_many(ctx, seeds)
    reqs = []
    for s, r in zip(seeds, reps):
        data = mutate(rng, bytes.fromhex(r['bytes']))
        n = len(data)
        ops = []
        for _ in range(rng.choice([1, 3, 6, 12])):
            k = rng.choice(['c', 'c', 'a', 'a', 'l'])
            x = rng.choice([0, n, n - 1, n + 5, rng.randrange(0, n + 2)] + [st[0] for st in r['starts']])
            x = max(0, x)
            ops.append([k, x] if k != 'l' else [k, x, max(0, x + rng.choice([0, 4, 10, 11, 12, 13, 20, 24, rng.randrange(0, 40)]))])
        reqs.append({'p': 'C13', 'k': 'cu_raw', 'le': s['le'], 'dasz': 4, 'hex': hx(data), 'ops': ops})
    replies = ask_many(ctx, reqs)
    for rq, r in zip(reqs, replies):
        if 'fatal' in r:
            raise RuntimeError('driver: %s on %r' % (r['fatal'], rq))
        for a in r['model']['answers']:
            ctx.out.count('cu_raw:' + ('ok' if 'ok' in a else a['err']))
        check_cu(ctx, 'cu_raw', rq, r, bytes.fromhex(rq['hex']))


def gen_res_sets(rng, starts, total, kind):
    """range sets whose unit offsets are (mostly) unit starts of the section; `kind`: 'absent' -> None, 'nosets' -> [],
    'emptysets' -> only sets without tuples, 'normal' -> disjoint ranges"""
    if kind == 'absent':
        return None
    if kind == 'nosets':
        return []
    sets = []
    used = []
    base = rng.choice([0, 1, 0x1000, 0xfffff000])
    for _ in range(rng.choice([1, 2, 2, 3, 4])):
        asz = rng.choice([4, 8])
        r = rng.random()
        if starts and r < 0.8:
            off = rng.choice(starts)[0]
        elif r < 0.9:
            off = rng.randrange(0, total + 3)              # maybe inside a unit / just outside the section
        else:
            off = rnd_uint(rng, 32)
        tuples = []
        if kind != 'emptysets':
            for _ in range(rng.choice([0, 1, 1, 2, 3])):
                for _try in range(20):
                    a = base + rng.randrange(0, 300)
                    ln = rng.randrange(1, 20)
                    if a + ln <= (1 << 32) and all(a + ln <= b or b + l <= a for b, l in used):
                        used.append((a, ln))
                        tuples.append([a, ln])
                        break
        rng.shuffle(tuples)
        sets.append({'version': 2, 'info_off': off, 'asz': asz, 'tuples': tuples, 'fill': rng.choice([0, 0, 0xff])})
    return sets


def run_res(ctx):
    """address -> range table -> unit (Props.C13.addr_to_unit) and the tables that give nothing: section absent, no sets, only
    empty sets (aranges_absent, aranges_empty_resolves_nothing), .debug_info absent (cu_lookup_no_info); with a table that gives
    nothing, get_CU_containing over every offset of the section (cu_containing_without_table)"""
    rng = ctx.rng('res')
    reqs, metas = [], []
    for ci in range(ctx.budget(160, 4000)):
        le = rng.random() < 0.5
        kind = ['absent', 'nosets', 'emptysets', 'normal'][ci % 4] if ci < 40 else rng.choice(['absent', 'nosets', 'emptysets', 'normal', 'normal', 'normal'])
        info_absent = (ci % 10 == 9)
        units = None if info_absent else gen_units(rng, rng.choice([1, 2, 2, 3]))
        starts, total = [], 0
        if units is not None:
            probe = ctx.driver.ask({'p': 'C13', 'k': 'cu', 'le': le, 'dasz': 4, 'units': units, 'ops': []})
            if 'fatal' in probe:
                raise RuntimeError('driver: %s' % probe['fatal'])
            starts, total = probe['starts'], len(probe['bytes']) // 2
        sets = gen_res_sets(rng, starts, total, kind)
        addrs = [a for a in addrs_for(rng, sets or []) if a < (1 << 33)]
        rng.shuffle(addrs)
        queries = [[a, rng.random() < 0.5] for a in addrs[:24]]
        # the scan a consumer falls back to when the table gives nothing: every offset of the section, any order; plus
        # exact lookups, also interleaved before the queries' cache effects
        order = list(range(total))
        rng.shuffle(order)
        ops = [['c', x] for x in (order if kind != 'normal' else order[:6])] + [['a', o] for o, _, _ in starts] \
            + [['c', total], ['a', total + 1]]
        reqs.append({'p': 'C13', 'k': 'res', 'le': le, 'dasz': rng.choice([4, 8]), 'sets': sets, 'units': units,
                     'queries': queries, 'ops': ops})
        metas.append((kind, info_absent))
    replies = ask_many(ctx, reqs, 2)
    for i, (rq, r, (kind, info_absent)) in enumerate(zip(reqs, replies, metas)):
        if 'fatal' in r:
            raise RuntimeError('driver: %s on %r' % (r['fatal'], rq))
        ar = None if r['ar_bytes'] is None else bytes.fromhex(r['ar_bytes'])
        info = None if r['info_bytes'] is None else bytes.fromhex(r['info_bytes'])
        via_elf = bool(i % 3 == 0 and info and (ar is None or len(ar) > 0))      # through ELFFile.get_dwarf_info()
        impl = impl_res(rq['le'], rq['dasz'], ar, info, rq['queries'], rq['ops'], via_elf)
        case = {'req': rq, 'via_elf': bool(via_elf)}
        ctx.out.case(case)
        ctx.out.count('res:table=' + kind)
        ctx.out.count('res:info=' + ('absent' if info_absent else 'present'))
        model = r['model']
        if r['wf'] and r['poisoned']:
            # get_CU_at at an offset where no unit starts caches whatever parses there (by design): model vs code only
            ctx.out.count('res:get_CU_at-of-non-start-poisons-cache-model-only')
        elif r['wf'] and 'resolved' in impl:
            bad = None
            if kind == 'absent':
                if impl['aranges'] != {'ok': None}:
                    bad = ('aranges', {'ok': None}, impl['aranges'])
            elif impl['aranges'] != {'ok': r['table_entries']}:
                bad = ('aranges', {'ok': r['table_entries']}, impl['aranges'])
            for what, exps, gots in (('resolved', r['expect_resolved'], impl['resolved']), ('answers', r['expect_answers'], impl['answers'])):
                for j, (e, g) in enumerate(zip(exps, gots)):
                    if e is None:
                        ctx.out.count('res:%s-outside-quantifier' % what)
                    else:
                        if what == 'resolved':
                            ctx.out.count('res:resolved=' + ('unit' if e.get('ok') is not None else 'nothing'))
                        if e != g and bad is None:
                            bad = (what, j, e, g)
            if bad is not None:
                ctx.out.violation('property', 'res', case, first_bad=bad, got=impl, model=model)
                continue
        elif not r['wf']:
            ctx.out.count('res:info-absent-model-only' if info_absent else 'res:not-wf')
        if impl != model:
            ctx.out.violation('correspondence', 'res', case, got=impl, model=model)


# ----------------------------------------------------------------------------------------------- lookups that end in an entry
def mk_dwarfinfo_die(le, dasz, info, abbrev, secs, pubnames=None, pubtypes=None, aranges=None):
    """a DWARFInfo over the sections of a C04 forest plus the lookup tables"""
    from elftools.dwarf.dwarfinfo import DWARFInfo, DwarfConfig, DebugSectionDescriptor

    def d(name, b):
        if b is None:
            return None
        return DebugSectionDescriptor(stream=io.BytesIO(b), name=name, global_offset=0, size=len(b), address=0)

    def sx(k):
        v = secs.get(k)
        return None if v is None else bytes.fromhex(v)
    return DWARFInfo(
        config=DwarfConfig(little_endian=le, machine_arch='x64', default_address_size=dasz),
        debug_info_sec=d('.debug_info', info), debug_aranges_sec=d('.debug_aranges', aranges),
        debug_abbrev_sec=d('.debug_abbrev', abbrev), debug_frame_sec=None, eh_frame_sec=None,
        debug_str_sec=d('.debug_str', sx('str')), debug_loc_sec=None, debug_ranges_sec=None, debug_line_sec=None,
        debug_pubtypes_sec=d('.debug_pubtypes', pubtypes), debug_pubnames_sec=d('.debug_pubnames', pubnames),
        debug_addr_sec=d('.debug_addr', sx('addr')), debug_str_offsets_sec=d('.debug_str_offsets', sx('str_offsets')),
        debug_line_str_sec=d('.debug_line_str', sx('line_str')), debug_loclists_sec=d('.debug_loclists', sx('loclists')),
        debug_rnglists_sec=d('.debug_rnglists', sx('rnglists')), debug_sup_sec=None, gnu_debugaltlink_sec=None,
        debug_types_sec=None)


def die_obs(d):
    """an entry as the driver's dieObsJson: no parent link (an entry reached by offset has no recorded parent)"""
    return [d.offset, d.size, d.abbrev_code, canon(d.tag), d.has_children,
            [[canon(a.name), canon(a.form), canon(a.value), canon(a.raw_value), a.offset] for a in d.attributes.values()]]


def impl_die(le, dasz, info, abbrev, secs, names, which, ar, ops):
    """same shape as the driver's handleDie model: every operation on ONE DWARFInfo"""
    from common import classify_exception
    from elftools.dwarf.namelut import NameLUTEntry
    di = mk_dwarfinfo_die(le, dasz, info, abbrev, secs, aranges=ar, **{which: names})
    try:
        t = di.get_aranges()
    except Exception as e:      # noqa: BLE001
        return {'aranges': {'err': classify_exception(e)}}
    answers = []
    for op in ops:
        k = op[0]
        if k in ('c', 'a'):
            answers += answers_for(di, [op])
            continue
        if k == 'r':
            def f():
                die = di.get_DIE_from_refaddr(op[1])
                return [cu_canon(die.cu), die_obs(die)]
        elif k == 'L':
            def f():
                die = di.get_DIE_from_lut_entry(NameLUTEntry(cu_ofs=op[1], die_ofs=op[2]))
                return [cu_canon(die.cu), die_obs(die)]
        elif k == 'n':
            def f():
                lut = di.get_pubnames() if which == 'pubnames' else di.get_pubtypes()
                if lut is None:
                    return None
                die = di.get_DIE_from_lut_entry(lut[bytes.fromhex(op[1]).decode('utf-8')])
                return [cu_canon(die.cu), die_obs(die)]
        elif k == 't':
            def f():
                off = t.cu_offset_at_addr(op[1]) if t is not None else None
                if off is None:
                    return None
                cu = di.get_CU_containing(off) if op[2] else di.get_CU_at(off)
                return [cu_canon(cu), die_obs(cu.get_top_DIE())]
        else:
            raise RuntimeError('bad op %r' % (op,))
        answers.append(run_impl(f))
    return {'aranges': {'ok': None}, 'answers': answers, 'offsets': list(di._cu_offsets_map)}


def gen_die_names(rng, layout):
    """name sets whose entries (mostly) name entries of the forest: info_off = a unit start, die_ofs = entry offset - unit start"""
    sets = []
    used = []
    for _ in range(rng.choice([1, 1, 2, 3])):
        r = rng.random()
        if r < 0.9:
            uoff, offs, dieoff, size = rng.choice(layout)
        else:
            uoff, offs, dieoff, size = rng.randrange(0, layout[-1][0] + layout[-1][3] + 2), [], 0, 0
        ents = []
        for _ in range(rng.choice([0, 1, 2, 3, 5])):
            r = rng.random()
            if used and r < 0.3:
                nm = rng.choice(used)                      # repeated name: the last occurrence wins
            elif r < 0.8:
                nm = rng.choice(NAMES)
            else:
                nm = bytes(rng.randrange(1, 128) for _ in range(rng.randrange(1, 6)))
            r = rng.random()
            if offs and r < 0.9:
                do = rng.choice(offs) - uoff
            elif offs and r < 0.95:
                do = rng.choice(offs) - uoff + 1           # inside an entry
            else:
                do = max(1, rnd_uint(rng, 8))
            used.append(nm)
            ents.append([do, hx(nm)])
        sets.append({'version': 2, 'info_off': uoff, 'info_len': size, 'entries': ents})
    return sets


def gen_die_ops(rng, layout, total, name_sets, ar_sets):
    ops = []
    entries = [(l[0], o) for l in layout for o in l[1]]
    pick = entries if len(entries) <= 24 else rng.sample(entries, 24)
    for uoff, o in pick:
        ops.append(['r', o])
    for uoff, o in rng.sample(entries, min(6, len(entries))):
        ops.append(['L', uoff, o])
    for l in layout:
        ops.append(['L', l[0], l[2]])                       # the top entry through a lut entry
        ops.append(['r', l[2]])                             # ... and by reference
    extra = [['r', rng.choice(entries)[1] + 1], ['r', rng.choice(layout)[0]], ['r', rng.choice(layout)[2] - 1], ['r', -1], ['r', total],
             ['r', total + 5], ['r', total - 1], ['r', rng.randrange(0, total)],
             ['L', rng.choice(layout)[0], rng.choice(entries)[1]], ['L', rng.choice(layout)[0], total + 3]]
    if rng.random() < 0.08:
        extra.append(['L', rng.choice(entries)[1], rng.choice(entries)[1]])   # get_CU_at at a non-start: poisons the cache
    ops += rng.sample(extra, rng.choice([2, 4, 6]))
    names = sorted({e[1] for s in name_sets for e in s['entries']})
    for nm in names:
        ops.append(['n', nm])
    ops.append(['n', hx(b'\x01no such name')])
    addrs = [a for a in addrs_for(rng, ar_sets) if a < (1 << 33)]
    rng.shuffle(addrs)
    for a in addrs[:10]:
        ops.append(['t', a, rng.random() < 0.5])
    for l in layout:
        r = rng.random()
        if r < 0.4:
            ops.append(['a', l[0]])
        elif r < 0.8:
            ops.append(['c', l[0] + rng.randrange(l[3])])
    rng.shuffle(ops)
    return ops


def die_case(ctx, rng):
    from props import c04 as H4
    le, dasz, tables, units, tus, w = H4.gen_case(rng, True)
    rq = dict(H4.request(le, dasz, tables, units, [], w), p='C13', k='die', probe=True)
    rq.pop('tus', None)
    r0 = ctx.driver.ask(rq)
    if 'fatal' in r0 or 'layout' not in r0:
        raise RuntimeError('driver: %r on %r' % (r0, str(rq)[:300]))
    layout = r0['layout']
    # second pass of C04's generator: sibling attributes and references from the layout (operand widths are fixed before)
    H4.patch(rng, {'info': [[l[0], l[1]] for l in layout], 'types': []}, units, [])
    rq = dict(H4.request(le, dasz, tables, units, [], w), p='C13', k='die')
    rq.pop('tus', None)
    total = len(r0['info']) // 2
    starts = [[l[0], l[3], l[2]] for l in layout]
    rq['names'] = gen_die_names(rng, layout)
    rq['which'] = rng.choice(['pubnames', 'pubtypes'])
    rq['sets'] = gen_res_sets(rng, starts, total, 'normal')
    rq['ops'] = gen_die_ops(rng, layout, total, rq['names'], rq['sets'])
    return rq


def eval_die(rq, r):
    """(impl, first property difference or None, compared?)"""
    info, abbrev = bytes.fromhex(r['info']), bytes.fromhex(r['abbrev'])
    names = None if r['names_bytes'] is None else bytes.fromhex(r['names_bytes'])
    ar = None if r['ar_bytes'] is None else bytes.fromhex(r['ar_bytes'])
    impl = impl_die(rq['le'], rq['dasz'], info, abbrev, rq['secs'], names, rq['which'], ar, rq['ops'])
    bad = None
    judged = []
    if r['wf'] and not r['poisoned'] and 'answers' in impl:
        for j, (op, e, g) in enumerate(zip(rq['ops'], r['expect'], impl['answers'])):
            ok_tables = r['wf_names'] if op[0] == 'n' else r['wf_ar'] if op[0] == 't' else True
            if e is None or not ok_tables:
                judged.append(None)
                continue
            judged.append(op[0])
            if e != g and bad is None:
                bad = (j, op, e, g)
    return impl, bad, judged


def run_die(ctx):
    rng = ctx.rng('die')
    n = ctx.budget(90, 2500)
    for ci in range(n):
        rq = die_case(ctx, rng)
        r = ctx.driver.ask(rq)
        if 'fatal' in r:
            raise RuntimeError('driver: %s on %r' % (r['fatal'], str(rq)[:300]))
        impl, bad, judged = eval_die(rq, r)
        ctx.out.case(rq)
        out = ctx.out
        out.count('die:units=%d' % len(rq['units']))
        out.count('die:' + ('wf' if r['wf'] else 'forest-not-wf-model-only'))
        if r['poisoned']:
            out.count('die:get_CU_at-of-non-start-poisons-cache-model-only')
        for op, j in zip(rq['ops'], judged):
            out.count('die:op %s %s' % (op[0], 'judged' if j else 'outside-quantifier'))
        model = r['model']
        if 'answers' in model:
            for op, a in zip(rq['ops'], model['answers']):
                out.count('die:answer %s %s' % (op[0], 'nothing' if a.get('ok', 0) is None else 'ok' if 'ok' in a else a['err']))
            # ref_addr_scan_agrees: C13's model of get_DIE_from_refaddr against C04's linear scan, every reference
            refs = [a for op, a in zip(rq['ops'], model['answers']) if op[0] == 'r']
            for a, sc in zip(refs, r['scan']):
                a2 = {'ok': [a['ok'][0][0], a['ok'][1]]} if 'ok' in a else a
                if a2 != sc:
                    if r['wf'] and not r['poisoned']:
                        raise RuntimeError('C13 die: the model and the linear scan disagree on a well-formed forest (ref_addr_scan_agrees): %r vs %r' % (a2, sc))
                    out.count('die:scan-differs(not-wf-or-poisoned)')
                else:
                    out.count('die:scan-agrees')
        if bad is not None:
            out.violation('property', 'die', rq, first_bad=bad, model=model.get('answers', [None] * (bad[0] + 1))[bad[0]])
            continue
        if impl != model:
            diff = None
            if 'answers' in impl and 'answers' in model:
                diff = [(i, o, g, m) for i, (o, g, m) in enumerate(zip(rq['ops'], impl['answers'], model['answers'])) if g != m][:2]
            out.violation('correspondence', 'die', rq, got=diff or impl, model=None if diff else model)
        if ctx.time_left() < 25:
            out.notes.append('die: stopped after %d of %d cases (time budget)' % (ci + 1, n))
            break


def run(ctx):
    run_ar(ctx)
    run_ar_raw(ctx)
    run_nm(ctx)
    run_nm_raw(ctx)
    run_cu_raw(ctx)
    run_res(ctx)
    run_die(ctx)
    run_cu(ctx)


def replay(ctx, payload):
    v = payload['violation']
    case, stream = v['case'], v['stream']
    res = {'stream': stream, 'case': case}
    if stream == 'ar':
        rq = case['req']
        r = ctx.driver.ask(rq)
        impl = impl_aranges(rq['le'], rq['dasz'], bytes.fromhex(r['bytes']), rq['addrs'], case.get('via_elf', False))
        fails = False
        if r['wf']:
            fails = 'ok' not in impl['init'] or impl['init']['ok'] is None or sorted(impl['init']['ok']) != sorted(r['expect']['entries'])
            if not fails and r['wf_lookup']:
                fails = impl['lookups'] != [{'ok': x} for x in r['expect']['lookups']]
        res.update(impl=impl, expect=r['expect'], model=r['model'], fails=fails or impl != r['model'])
    elif stream == 'ar_raw':
        r = ctx.driver.ask(case)
        impl = impl_aranges(case['le'], case['dasz'], bytes.fromhex(case['hex']), case['addrs'])
        res.update(impl=impl, model=r['model'], fails=impl != r['model'])
    elif stream == 'nm':
        rq = case['req']
        r = ctx.driver.ask(rq)
        impl = impl_names(rq['le'], rq['dasz'], bytes.fromhex(r['bytes']), rq['which'], case.get('via_elf', False))
        res.update(impl=impl, expect=r['expect'], model=r['model'],
                   fails=(r['wf'] and impl != {'ok': r['expect']}) or impl != r['model'])
    elif stream == 'nm_raw':
        r = ctx.driver.ask(case)
        impl = impl_names(case['le'], case['dasz'], None if case['hex'] is None else bytes.fromhex(case['hex']), case['which'])
        res.update(impl=impl, model=r['model'], fails=impl != r['model'])
    elif stream == 'die':
        r = ctx.driver.ask(case)
        impl, bad, _ = eval_die(case, r)
        res.update(impl=impl, expect=r['expect'], model=r['model'], first_bad=bad, fails=bad is not None or impl != r['model'])
    elif stream == 'res':
        rq = case['req']
        r = ctx.driver.ask(rq)
        ar = None if r['ar_bytes'] is None else bytes.fromhex(r['ar_bytes'])
        info = None if r['info_bytes'] is None else bytes.fromhex(r['info_bytes'])
        impl = impl_res(rq['le'], rq['dasz'], ar, info, rq['queries'], rq['ops'], case.get('via_elf', False))
        fails = impl != r['model']
        if r['wf'] and not r['poisoned'] and 'resolved' in impl:
            fails = fails or impl['aranges'] != {'ok': r['table_entries']} \
                or any(e is not None and e != g for e, g in zip(r['expect_resolved'], impl['resolved'])) \
                or any(e is not None and e != g for e, g in zip(r['expect_answers'], impl['answers']))
        res.update(impl=impl, expect={'resolved': r['expect_resolved'], 'answers': r['expect_answers']}, model=r['model'], fails=fails)
    else:
        r = ctx.driver.ask(case)
        data = bytes.fromhex(r['bytes'] if stream == 'cu' else case['hex'])
        impl = impl_ops(case['le'], case['dasz'], data, case['ops'], stub_die=(stream == 'cu_raw'))
        fails = impl != r['model']
        if stream == 'cu' and r['wf']:
            fails = fails or any(e is not None and e != g for e, g in zip(r['expect'], impl['answers']))
        res.update(impl=impl, expect=r.get('expect'), model=r['model'], fails=fails)
    return res


FINDINGS = {}
