"""C02 — section and segment contents, string tables, address mapping, section-in-segment.

Streams
  ast/geom   : abstract ELF descriptions whose segments are derived from their sections by a systematic enumeration of
               geometry classes (file extent × address extent × segment type × section flags/type/emptiness) → bytes
               by the Lean assembler (Spec.ElfDesc.assemble, compression headers by Spec.C02.encChdr) → real ELFFile.
  ast/data   : sections of every size class (0, 1, 63/64/65, large), SHT_NOBITS, SHF_COMPRESSED under ELF32/ELF64
               headers with streams at several zlib levels, trailing garbage, wrong ch_size, unknown ch_type,
               truncated / invalid streams; string tables with string lengths 0..300 (terminator on every residue of
               64); PT_INTERP paths; address ranges abutting / straddling / outside PT_LOADs.
               Everything observed (Section.data/data_size/data_alignment/compressed, get_string, Segment.data,
               get_interp_name, address_offsets, section_in_segment for every segment × section pair) is compared with
               the Spec's answer computed from the description (property) and with the Lean model run on the bytes
               (correspondence).
               Fourth wave: the model side answers through the whole-file functions of Model/ContentsFile.lean
               (ELFFile(BytesIO(bytes)) → get_section(i) / get_segment(j) → accessor: the functions the `file_*` theorems of
               Props/C02.lean speak about); besides the image-derived expectation every item carries the
               DESCRIPTION-derived one (`desc`: the stored body / zero block / inflated stream, the string of the stored
               table, the part of a section body a segment extent covers, the path stored at a PT_INTERP segment's start)
               and, on the error side, the error the theorems name (`err`: OverflowError for extents no seek/read reaches —
               sh_offset / sh_size / p_offset / p_filesz / string offsets >= 2^63 —, ELFParseError for an interpreter path
               that is unreachable or unterminated); both are compared with the real library on every case.
               Sections 'w:*' and wild segments / string offsets put 2^63-1, 2^63, 2^63+5, 2^64-1 there.
               `macro-full:*` counts, over all segment × section pairs where nothing wraps, where the rule the code
               computes agrees with the WHOLE binutils macro and where the two clauses it does not implement (.tbss size
               rule; empty section at the edge of PT_DYNAMIC / PT_NOTE) make it differ (a view of the Spec, not a check of
               the code: the property enumerates the four condition groups).
  raw        : truncated / byte-substituted images → model vs real (errors included), zlib calls recorded from the run.
zlib is an external call: the harness supplies `inflate` (Spec side) and the answers of
`decompressobj().decompress(data, max_length)` (model side) with each case.
"""
import io, zlib, itertools, struct
from common import run_impl, canon, hx, rnd_uint, rnd_bytes
from props import c01

RULE = ('geom: every (file d1,d2) × segment type and every (vma d1,d2) × segment type with d1 = sec.start - seg.start, '
        'd2 = seg.end - sec.end ∈ {-1,0,1,5}, plus empty segments, against 9 section variants '
        '(empty/non-empty × PROGBITS/NOBITS × ALLOC/TLS/none), 22 segment types (named, SFRAME, MBIND lo/hi/hi+1, unnamed), '
        'cls∈{32,64} × LSB/MSB × 8 machine classes, addresses up to 2^cls; all pairs of every image are compared. '
        'data: body sizes {0,1,2,63,64,65,127..129,300,4096,65536,10^5}, zlib levels {0,1,6,9}, ch_size ∈ {right, ±1, 0, 10, huge}, '
        'ch_type ∈ {1, 0, 2, 0x60000000, 0x7fffffff, 0x12345}, string lengths 0..300 cyclic, ranges at every PT_LOAD boundary ±1. '
        'error side: sections / segments / string offsets at {2^63-1, 2^63, 2^63+5, 2^64-1} (masked to the class), NOBITS and PROGBITS '
        'sizes >= 2^63; every item is compared with the image-derived AND the description-derived expectation. '
        'raw: truncations at region boundaries and substitutions in header tables / compression headers. '
        'Non-trivial = distinct image with ≥ 1 non-null section or segment.')
ASSUMPTIONS = ['io.BytesIO semantics (seek/read convert to Py_ssize_t)',
               'zlib.decompressobj().decompress(data, max_length) is a parameter: the harness supplies its answers; '
               'the theorems assume it returns the first max_length bytes of the inflated payload',
               'strings / interpreter paths are valid UTF-8 (the library decodes; the model compares bytes)',
               'SHT_NOBITS sizes ≤ 2^20 are materialised (MemoryError is not modelled)']
FINDINGS = {}

R = c01.R
SHF_WRITE, SHF_ALLOC, SHF_EXEC, SHF_MERGE, SHF_STRINGS, SHF_TLS, SHF_COMPRESSED = 1, 2, 4, 0x10, 0x20, 0x400, 0x800
PT_NAMED = [0, 1, 2, 3, 4, 5, 6, 7, 0x6474e550, 0x6474e551, 0x6474e552, 0x6474e553]
PT_ALL = PT_NAMED + [0x6474e554, 0x6474e555, 0x6474e555 + 4095, 0x6474e555 + 4096, 0x70000000, 0x70000001, 0x70000003,
                     0x12345, 0x60000000, 0x6fffffff]
NOBITS_CAP = 1 << 20


# --------------------------------------------------------------------------- description builder
def pick_machine(rng):
    M = c01.machine_choices()
    mclass = rng.choice(['default', 'default', 'default'] + list(c01.CLASS_MACHINES))
    if mclass == 'default':
        e_machine = M[rng.choice(sorted(k for k in M if k not in c01.SPECIAL))]
    else:
        e_machine = M[rng.choice(c01.CLASS_MACHINES[mclass])]
    return mclass, e_machine


def sec(name, type=1, flags=0, addr=0, body=b'', size=None, addralign=1, chdr=None, zbody=None, kind='raw', **kw):
    d = dict(name=name, type=type, flags=flags, addr=addr, body=body, size=size, link=0, info=0, addralign=addralign,
             entsize=0, chdr=chdr, zbody=zbody, kind=kind)
    d.update(kw)
    return d


def chdr_size(cls):
    return 24 if cls == 64 else 12


def layout(rng, cls, secs, nseg, gaps=(0, 0, 0, 1, 3, 8, 17)):
    """Assign file offsets: ELF header at 0, then tables and bodies in random order with random gaps."""
    shsz = 40 if cls == 32 else 64
    phsz = 32 if cls == 32 else 56
    ehsize = 52 if cls == 32 else 64
    shentsize = shsz + rng.choice([0, 0, 0, 8])
    phentsize = phsz + rng.choice([0, 0, 0, 8])
    regions = ['sh', 'ph'] + [('body', i) for i, s in enumerate(secs) if i > 0]
    rng.shuffle(regions)
    pos = ehsize + rng.choice([0, 0, 4])
    shoff = phoff = 0
    for r in regions:
        pos += rng.choice(gaps)
        if r == 'sh':
            shoff = pos
            pos += shentsize * len(secs)
        elif r == 'ph':
            phoff = pos
            pos += phentsize * nseg
        else:
            s = secs[r[1]]
            s['offset'] = pos
            if s['type'] != 8 or s.get('chdr') is not None:
                pos += stored_len(cls, s)
    secs[0]['offset'] = 0
    return shoff, phoff, shentsize, phentsize, pos


def stored_len(cls, s):
    if s.get('chdr') is not None:
        return chdr_size(cls) + len(s['zbody'])
    return len(s['body'] or b'')


def make_ast(rng, cls, le, mclass, e_machine, secs, segs, shoff, phoff, shentsize, phentsize, shstrndx, name_off):
    ehsize = 52 if cls == 32 else 64
    m = (1 << cls) - 1
    out_secs = []
    for s in secs:
        stored = stored_len(cls, s)
        size = s['size'] if s['size'] is not None else stored
        j = {'name': hx(s['name']), 'nameOff': name_off.get(s['name'], 0),
             'hdr': R(sh_type=s['type'], sh_flags=s['flags'], sh_addr=s['addr'], sh_offset=s['offset'], sh_size=size,
                      sh_link=s['link'], sh_info=s['info'], sh_addralign=s['addralign'], sh_entsize=s['entsize']),
             'body': None}
        if s.get('chdr') is not None:
            j['chdr'] = s['chdr']
            j['zbody'] = hx(s['zbody'])
        elif s['type'] != 8 and s['body']:
            j['body'] = hx(s['body'])
        out_secs.append(j)
    out_segs = []
    for p in segs:
        if cls == 32:
            out_segs.append(R(p_type=p['p_type'], p_offset=p['p_offset'], p_vaddr=p['p_vaddr'], p_paddr=p['p_paddr'],
                              p_filesz=p['p_filesz'], p_memsz=p['p_memsz'], p_flags=p['p_flags'], p_align=p['p_align']))
        else:
            out_segs.append(R(p_type=p['p_type'], p_flags=p['p_flags'], p_offset=p['p_offset'], p_vaddr=p['p_vaddr'],
                              p_paddr=p['p_paddr'], p_filesz=p['p_filesz'], p_memsz=p['p_memsz'], p_align=p['p_align']))
    return {'cls': cls, 'le': le, 'mclass': mclass, 'solaris': False, 'core': False,
            'ehdr': R(EI_VERSION=1, EI_OSABI=0, EI_ABIVERSION=0, e_type=rng.choice([1, 2, 3]), e_machine=e_machine, e_version=1,
                      e_entry=0, e_flags=0, e_ehsize=ehsize),
            'shoff': shoff, 'phoff': phoff, 'shentsize': shentsize, 'phentsize': phentsize,
            'sections': out_secs, 'segments': out_segs, 'shstrndx': shstrndx,
            'xShnum': False, 'xShstrndx': False, 'xPhnum': False}


def add_shstrtab(rng, secs):
    tab = bytearray(b'\0')
    name_off = {b'': 0}
    for s in secs:
        if s['name'] not in name_off:
            name_off[s['name']] = len(tab)
            tab += s['name'] + b'\0'
    name_off[b'.shstrtab'] = len(tab)
    tab += b'.shstrtab\0'
    secs.append(sec(b'.shstrtab', type=3, body=bytes(tab), kind='strtab'))
    return len(secs) - 1, name_off


def seg(p_type, off, vaddr, filesz, memsz, flags=4, align=1):
    return dict(p_type=p_type, p_offset=off, p_vaddr=vaddr, p_paddr=vaddr, p_filesz=filesz, p_memsz=memsz, p_flags=flags,
                p_align=align)


# --------------------------------------------------------------------------- zlib side information
def zlib_full(z):
    """(inflated bytes or None when zlib raises, complete?)"""
    d = zlib.decompressobj()
    try:
        out = d.decompress(z)
        return out, d.eof
    except zlib.error:
        return None, True


def zlib_call(z, n):
    d = zlib.decompressobj()
    try:
        return d.decompress(z, n)
    except zlib.error:
        return None


def zinfo(cls, secs):
    """Spec-side inflate table, model-side oracle, per-section 'is a complete zlib stream' flags."""
    inflate, oracle, zvalid = [], [], []
    for s in secs:
        if s.get('chdr') is None:
            zvalid.append(True)
            continue
        stored = stored_len(cls, s)
        size = s['size'] if s['size'] is not None else stored
        used = s['zbody'][:max(0, size - chdr_size(cls))]
        full, complete = zlib_full(used)
        inflate.append([hx(used), None if full is None else hx(full)])
        zvalid.append(complete)
        n = s['chdr']['ch_size'] + 1
        if n < (1 << 63):
            out = zlib_call(used, n)
            if out is not None:
                oracle.append([hx(used), n, hx(out)])
    return inflate, oracle, zvalid


# --------------------------------------------------------------------------- generators
SECTION_VARIANTS = [
    # (name, type, flags, size)
    (b'.text', 1, SHF_ALLOC | SHF_EXEC, 24), (b'.empty', 1, SHF_ALLOC, 0), (b'.tbss', 8, SHF_ALLOC | SHF_WRITE | SHF_TLS, 16),
    (b'.comment', 1, SHF_MERGE | SHF_STRINGS, 9), (b'.tdata', 1, SHF_ALLOC | SHF_WRITE | SHF_TLS, 8),
    (b'.empty_na', 1, 0, 0), (b'.bss', 8, SHF_ALLOC | SHF_WRITE, 32), (b'.bss0', 8, SHF_ALLOC | SHF_WRITE, 0),
    (b'.tls_na', 14, SHF_TLS, 4),
]
DELTAS = [-1, 0, 1, 5]


def geom_recipes():
    """(file (d1, d2) | 'empty@k', vma (d1, d2) | 'empty@k', ptype): the systematic part first."""
    out = []
    inside = (1, 1)
    for pt in PT_ALL:
        for d in itertools.product(DELTAS, DELTAS):
            out.append((d, inside, pt))
            out.append((inside, d, pt))
        for e in ('empty@0', 'empty@1', 'empty@end', 'empty@-1'):
            out.append((e, inside, pt))
            out.append((inside, e, pt))
            out.append((e, e, pt))
    return out


def extent_for(d, start, size, maxv):
    """Segment (base, len) from a section extent and a recipe; None when it does not exist in range."""
    if isinstance(d, str):
        k = {'empty@0': 0, 'empty@1': 1, 'empty@end': size, 'empty@-1': -1}[d]
        base, ln = start + k, 0
    else:
        d1, d2 = d
        base = start - d1
        ln = (start + size + d2) - base
    if base < 0 or ln < 0 or base > maxv or ln > maxv:
        return None
    return base, ln


def gen_geom(rng, recipes):
    cls = rng.choice([32, 64])
    le = rng.random() < 0.5
    mclass, e_machine = pick_machine(rng)
    maxv = (1 << cls) - 1
    secs = [sec(b'', type=0, addralign=0, kind='null')]
    hi = rng.random() < 0.25
    base_addr = (maxv + 1 - 0x1000) if hi else rng.choice([0, 0x1000, 0x400000, 0x8000_0000 % (maxv + 1)])
    for (name, ty, fl, size) in SECTION_VARIANTS:
        if rng.random() < 0.15:
            size = rng.choice([0, 1, 64])
        secs.append(sec(name, type=ty, flags=fl, body=rnd_bytes(rng, size) if ty != 8 else None,
                        size=size if ty == 8 else None, kind='nobits' if ty == 8 else 'raw'))
    shstrndx, name_off = add_shstrtab(rng, secs)
    shoff, phoff, shentsize, phentsize, end = layout(rng, cls, secs, len(recipes))
    for i, s in enumerate(secs):
        if i == 0:
            continue
        # addresses follow the offsets or not
        s['addr'] = (base_addr + s['offset'] * rng.choice([1, 1, 2])) & maxv if (s['flags'] & SHF_ALLOC or rng.random() < 0.3) else 0
        if hi and s['addr'] + (s['size'] if s['size'] is not None else len(s['body'] or b'')) > maxv + 1:
            s['addr'] = maxv + 1 - 64
    segs = []
    for k, (fd, vd, pt) in enumerate(recipes):
        t = secs[1 + (k % len(SECTION_VARIANTS))]
        size = t['size'] if t['size'] is not None else len(t['body'] or b'')
        fe = extent_for(fd, t['offset'], size, maxv)
        ve = extent_for(vd, t['addr'], size, maxv)
        if fe is None:
            fe = (t['offset'], size)
        if ve is None:
            ve = (t['addr'], size)
        segs.append(seg(pt, fe[0], ve[0], fe[1], ve[1]))
    ast = make_ast(rng, cls, le, mclass, e_machine, secs, segs, shoff, phoff, shentsize, phentsize, shstrndx, name_off)
    addrq = addr_queries(rng, segs, maxv)
    return ast, secs, [], addrq, {'kind': 'geom', 'cls': cls, 'mclass': mclass}


def addr_queries(rng, segs, maxv, limit=24):
    q = [[0, 1], [maxv, 1]]
    loads = [p for p in segs if p['p_type'] == 1]
    rng.shuffle(loads)
    for p in loads[:6]:
        lo, hi_ = p['p_vaddr'], p['p_vaddr'] + p['p_filesz']
        for a in (lo - 1, lo, lo + 1):
            for b in (hi_ - 1, hi_, hi_ + 1):
                if 0 <= a <= b:
                    q.append([a, b - a])
        q.append([lo, 0]); q.append([hi_, 0]); q.append([hi_, 1])
        q.append([p['p_vaddr'] + p['p_memsz'], 0])
    rng.shuffle(q)
    return q[:limit]


BODY_SIZES = [0, 1, 2, 63, 64, 65, 127, 128, 129, 300, 4096, 65536, 100000]
NEXT_STRLEN = [0]


def gen_data(rng, thorough=False):
    cls = rng.choice([32, 64])
    le = rng.random() < 0.5
    mclass, e_machine = pick_machine(rng)
    maxv = (1 << cls) - 1
    secs = [sec(b'', type=0, addralign=0, kind='null')]
    strq = []
    n = rng.choice([2, 3, 5, 7])
    big_used = False
    for i in range(n):
        kind = rng.choice(['raw', 'raw', 'nobits', 'strtab', 'strtab', 'z', 'z', 'z', 'z'])
        flags = rng.choice([0, SHF_ALLOC, SHF_ALLOC | SHF_WRITE, SHF_TLS | SHF_ALLOC, SHF_MERGE | SHF_STRINGS, 0x80000000])
        align = rng.choice([0, 1, 4, 8, 16, 4096, rnd_uint(rng, cls)])
        name = rng.choice([b'.data', b'.debug_info', b'.zdebug_x', b'.rodata', b'.s%d' % i, '.ünï'.encode('utf-8')])
        size = rng.choice(BODY_SIZES)
        if size >= 4096:
            if big_used and not thorough:
                size = rng.choice([0, 1, 63, 64, 65, 300])
            big_used = True
        if kind == 'raw':
            secs.append(sec(name, type=rng.choice([1, 1, 7, 14, 15, 0x12345678]), flags=flags, addr=rnd_uint(rng, cls),
                            body=rnd_bytes(rng, size) if size < 5000 else bytes(rng.randrange(256) for _ in range(64)) * (size // 64) + bytes(size % 64),
                            addralign=align))
        elif kind == 'nobits':
            sz = rng.choice(BODY_SIZES + [1 << 16, NOBITS_CAP if rng.random() < 0.1 else 4096])
            secs.append(sec(name, type=8, flags=flags | SHF_ALLOC, addr=rnd_uint(rng, cls), body=None, size=sz, addralign=align,
                            kind='nobits'))
        elif kind == 'strtab':
            tab = bytearray(b'\0')
            offs = [0]
            for _ in range(rng.choice([3, 6, 12])):
                L = NEXT_STRLEN[0] % 301
                NEXT_STRLEN[0] += 1
                st = bytes(rng.choice(b'abcdefghijklmnopqrstuvwxyz_.0123456789$@') for _ in range(L))
                if L >= 2 and rng.random() < 0.2:
                    st = ('é' * (L // 2)).encode('utf-8') + b'x' * (L % 2)
                offs += [len(tab), len(tab) + L // 2, len(tab) + L]
                tab += st + b'\0'
            if rng.random() < 0.15:
                tab += b'unterminated'          # queries into it are outside the property's quantifier (wf = false)
                offs.append(len(tab) - 5)
            idx = len(secs)
            secs.append(sec(name, type=3, flags=flags, body=bytes(tab), addralign=align, kind='strtab'))
            offs += [len(tab) - 1, len(tab), len(tab) + 7]
            for o in sorted(set(offs)):
                strq.append([idx, o])
        else:
            psize = rng.choice(BODY_SIZES if thorough else BODY_SIZES[:-2] + [4096])
            mode = rng.choice(['rand', 'text', 'zeros'])
            P = rnd_bytes(rng, psize) if mode == 'rand' and psize < 5000 else (b'pyelftools ' * (psize // 11 + 1))[:psize] if mode != 'zeros' else bytes(psize)
            z = zlib.compress(P, rng.choice([0, 1, 6, 9]))
            zmode = rng.choice(['ok', 'ok', 'ok', 'garbage', 'truncated', 'invalid', 'empty'])
            if zmode == 'garbage':
                z += rnd_bytes(rng, rng.choice([1, 4, 64]))
            elif zmode == 'truncated':
                z = z[:rng.randrange(0, len(z))]
            elif zmode == 'invalid':
                z = rnd_bytes(rng, rng.choice([1, 2, 16]))
            elif zmode == 'empty':
                z = b''
            csz = rng.choice(['right', 'right', 'right', 'right', 'minus1', 'plus1', 'zero', 'ten', 'huge'])
            ch_size = {'right': psize, 'minus1': max(0, psize - 1), 'plus1': psize + 1, 'zero': 0, 'ten': 10,
                       'huge': rng.choice([maxv, (1 << 63) - 1, (1 << 63) - 2, 1 << 62]) & maxv}[csz]
            ch_type = rng.choice([1, 1, 1, 1, 1, 1, 0, 2, 0x60000000, 0x7fffffff, 0x12345])
            chdr = {'ch_type': ch_type, 'ch_size': ch_size, 'ch_addralign': rng.choice([0, 1, 8, 16, rnd_uint(rng, cls)])}
            size_override = None
            if rng.random() < 0.1 and len(z) > 2:
                size_override = chdr_size(cls) + rng.randrange(0, len(z))      # the section ends inside the stream
            ztype = rng.choice([1, 1, 1, 8 if rng.random() < 0.3 else 1])
            if ztype == 8 and NOBITS_CAP < chdr['ch_size'] < (1 << 63):
                chdr['ch_size'] = NOBITS_CAP            # a NOBITS section flagged compressed yields ch_size zero bytes
            secs.append(sec(name, type=ztype, flags=flags | SHF_COMPRESSED,
                            addr=0, body=None, size=size_override, addralign=align, chdr=chdr, zbody=z, kind='z',
                            meta='z:%s/%s/%s' % (zmode, csz, 'zlib' if ch_type == 1 else 'other')))
    # the error side: extents no seek/read reaches (sh_offset / sh_size >= 2^63; in ELF32 the same recipes stay reachable)
    wild = []
    for _ in range(rng.choice([0, 0, 1, 2])):
        big = rng.choice([(1 << 63) - 1, 1 << 63, (1 << 63) + 5, (1 << 64) - 1, 1 << 62]) & maxv
        wk = rng.choice(['empty@wild', 'empty@wild', 'nobits@wild', 'nobits-oversize', 'raw-oversize'])
        nm = b'.w%d' % len(wild)
        if wk == 'empty@wild':
            secs.append(sec(nm, type=rng.choice([1, 7, 0x12345678]), flags=rng.choice([0, SHF_ALLOC]), body=b'', kind='raw', meta='w:' + wk))
        elif wk == 'nobits@wild':
            secs.append(sec(nm, type=8, flags=SHF_ALLOC | SHF_WRITE, body=None, size=rng.choice([0, 1, 64]), kind='nobits', meta='w:' + wk))
        elif wk == 'nobits-oversize':
            # sizes between the cap and 2^63 would really be allocated (MemoryError is not modelled): never generated
            secs.append(sec(nm, type=8, flags=SHF_ALLOC | SHF_WRITE, body=None, size=big if big >= (1 << 63) else 64, kind='nobits',
                            meta='w:' + wk))
        else:
            secs.append(sec(nm, type=1, flags=0, body=rnd_bytes(rng, rng.choice([0, 3])), size=big, kind='raw', meta='w:' + wk))
        wild.append((len(secs) - 1, wk, big))
    # an interpreter path
    interp_idx = None
    if rng.random() < 0.6:
        L = rng.choice([0, 1, 10, 27, 63, 64, 65, 200])
        path = (b'/lib64/ld-linux-x86-64.so.2' * 9)[:L]
        if rng.random() < 0.2 and L >= 4:
            path = '/lib/ld-ünï.so'.encode('utf-8')
        interp_idx = len(secs)
        secs.append(sec(b'.interp', type=1, flags=SHF_ALLOC, body=path + b'\0' + rnd_bytes(rng, rng.choice([0, 3])), kind='raw'))
    shstrndx, name_off = add_shstrtab(rng, secs)
    strq += [[shstrndx, o] for o in sorted(set(name_off.values()))[:6]]
    nseg = rng.choice([0, 1, 2, 4, 6])
    nwildseg = rng.choice([0, 0, 1, 2])
    shoff, phoff, shentsize, phentsize, end = layout(rng, cls, secs, nseg + nwildseg + (1 if interp_idx is not None else 0))
    for (i, wk, big) in wild:
        if wk.endswith('@wild'):
            secs[i]['offset'] = big
    # string offsets around the last reachable stream position
    for idx in [i for i, t in enumerate(secs) if t['kind'] == 'strtab'][:2]:
        toff = secs[idx]['offset']
        strq += [[idx, (1 << 63) - toff], [idx, (1 << 63) - toff - 1], [idx, 1 << 64], [idx, (1 << 63) + 7]]
    segs = []
    for _ in range(nwildseg):
        big = rng.choice([(1 << 63) - 1, 1 << 63, (1 << 63) + 5, (1 << 64) - 1]) & maxv
        if rng.random() < 0.5:
            segs.append(seg(rng.choice([1, 3, 4, 0x12345]), big, rnd_uint(rng, cls), rng.choice([0, 1, 64]), 64))
        else:
            segs.append(seg(rng.choice([1, 4]), rng.choice([0, 52, end]), 0x1000, big, big))
    for _ in range(nseg):
        t = rng.choice(secs[1:])
        size = t['size'] if t['size'] is not None else stored_len(cls, t)
        off = max(0, t['offset'] - rng.choice([0, 0, 1, 16]))
        fs = rng.choice([size, size, size + 1, 0, 1, 63, 64, 65, end, end + 10, rnd_uint(rng, cls)])
        va = rng.choice([t['addr'], 0x1000, rnd_uint(rng, cls)])
        segs.append(seg(rng.choice([1, 1, 1, 1, 2, 4, 6, 7, 0x6474e552, 0x12345]), off, va, fs & maxv, rng.choice([fs, fs + 16, 0]) & maxv,
                        flags=rng.randrange(8), align=rng.choice([0, 1, 0x1000])))
    if interp_idx is not None:
        t = secs[interp_idx]
        segs.insert(rng.randrange(0, len(segs) + 1),
                    seg(3, t['offset'], t['addr'], rng.choice([len(t['body']), 0, 3]), len(t['body'])))
    ast = make_ast(rng, cls, le, mclass, e_machine, secs, segs, shoff, phoff, shentsize, phentsize, shstrndx, name_off)
    return ast, secs, strq, addr_queries(rng, segs, maxv, 16), {'kind': 'data', 'cls': cls, 'mclass': mclass}


# --------------------------------------------------------------------------- the real library
class ZRecorder:
    """Stands in for the `zlib` module inside elftools.elf.sections and records every decompress call."""
    error = zlib.error

    def __init__(self):
        self.calls = []

    def decompressobj(self, *a, **kw):
        rec = self

        class D:
            def __init__(self):
                self.d = zlib.decompressobj(*a, **kw)

            def decompress(self, data, max_length=0):
                out = self.d.decompress(data, max_length)
                rec.calls.append([hx(data), max_length, hx(out)])
                return out
        return D()

    def decompress(self, data, *a, **kw):
        return zlib.decompress(data, *a, **kw)


def impl_observe(data, strq, addrq, rec=None):
    from elftools.elf.elffile import ELFFile
    from elftools.elf.segments import InterpSegment
    from elftools.elf.sections import StringTableSection
    import elftools.elf.sections as S
    saved = S.zlib
    if rec is not None:
        S.zlib = rec
    try:
        f = ELFFile(io.BytesIO(data))
        secs = [f.get_section(i) for i in range(f.num_sections())]
        def data_of(i, s):
            # data() may be called again on one Section object — also after it raised.  For every second section
            # (content-derived) the OBSERVED answer is that of the second call: it must be what a first call gives
            # (a seeded cache filled before the size check made a retry return the wrong-sized bytes).
            first = run_impl(lambda: {'b': s.data().hex()})
            if (i + len(data)) % 2:
                return first
            return run_impl(lambda: {'b': s.data().hex()})
        sections = [{'compressed': bool(s.compressed), 'size': s.data_size, 'align': s.data_alignment,
                     'data': data_of(i, s)} for i, s in enumerate(secs)]
        strings = []
        for i, off in strq:
            if i >= len(secs):
                raise IndexError('query')
            s = secs[i]
            if not isinstance(s, StringTableSection):
                strings.append({'skip': 'not a string table'})
            else:
                strings.append(run_impl(lambda: {'b': s.get_string(off).encode('utf-8').hex()}))
        segs = list(f.iter_segments())
        segments = [{'data': run_impl(lambda: {'b': g.data().hex()}),
                     'interp': run_impl(lambda: {'b': g.get_interp_name().encode('utf-8').hex()}) if isinstance(g, InterpSegment) else None}
                    for g in segs]
        # address_offsets is a generator and the library's own callers abandon it after the first answer
        # (Dynamic.get_table_offset: next(elffile.address_offsets(ptr), None)); do the same on this object with
        # another query before every second observed one (a seeded cache filled by the abandoned walk was missed
        # while every generator was drained)
        def poke(k):
            if addrq and (k + len(data)) % 2 == 0:
                a0, n0 = addrq[(k * 7 + 3) % len(addrq)]
                try:
                    next(f.address_offsets(a0, n0), None)
                except Exception:       # noqa: BLE001
                    pass
        addr = []
        for k, (a, n) in enumerate(addrq):
            poke(k)
            addr.append(run_impl(lambda: list(f.address_offsets(a, n))))
        inseg = [[run_impl(lambda: bool(g.section_in_segment(s))) for s in secs] for g in segs]
        return {'sections': sections, 'strings': strings, 'segments': segments, 'addr': addr, 'inseg': inseg}
    finally:
        S.zlib = saved


# --------------------------------------------------------------------------- comparison
def is_err(x):
    return isinstance(x, dict) and 'err' in x


def expand(exp):
    """The driver abbreviates a description-derived expectation equal to the image-derived one next to it as "="."""
    for e in exp['sections']:
        if e.get('desc') == '=':
            e['desc'] = e['data']
    for e in exp['strings']:
        if e.get('desc') == '=':
            e['desc'] = e['ok']
    for e in exp['segments']:
        if e.get('desc') == '=':
            e['desc'] = e['data']['ok']
        if e['interp'] is not None and e['interp'].get('desc') == '=':
            e['interp']['desc'] = e['interp']['ok']
    return exp


def against_expect(impl, exp, zvalid):
    """List of (what, expect, got) where the implementation contradicts the property on a wf item."""
    bad = []
    expand(exp)
    if 'ok' not in impl:
        return [('open', 'ok', impl)]
    o = impl['ok']
    for i, (e, g) in enumerate(zip(exp['sections'], o['sections'])):
        # the error side, decided on the description alone (Props/C02 file_data_unreachable)
        if e.get('err') is not None and g['data'] != {'err': e['err']}:
            bad.append(('section %d must raise %s' % (i, e['err']), e['err'], summary(g['data'])))
        # what the DESCRIPTION assigns (Props/C02 file_data_raw / _nobits / _compressed)
        if e.get('desc') is not None and zvalid[i]:
            if 'reject' in e['desc']:
                if not is_err(g['data']):
                    bad.append(('section %d must be rejected (description)' % i, e['desc'], summary(g['data'])))
            elif g['data'] != e['desc']:
                bad.append(('section %d data (description)' % i, summary(e['desc']), summary(g['data'])))
        if not (e['wf'] and zvalid[i]):
            continue
        if (e['compressed'], e['size'], e['align']) != (g['compressed'], g['size'], g['align']):
            bad.append(('section %d size/align/compressed' % i, [e['compressed'], e['size'], e['align']], g))
        if 'reject' in e['data']:
            if not is_err(g['data']):
                bad.append(('section %d must be rejected' % i, e['data'], g['data']))
        elif g['data'] != e['data']:
            bad.append(('section %d data' % i, summary(e['data']), summary(g['data'])))
    for i, (e, g) in enumerate(zip(exp['strings'], o['strings'])):
        if e.get('wf') and is_utf8(e['ok']['b']) and g != {'ok': e['ok']}:
            bad.append(('string %d' % i, e['ok'], g))
        if e.get('err') is not None and g != {'err': e['err']}:
            bad.append(('string %d must raise %s' % (i, e['err']), e['err'], g))
        if e.get('desc') is not None and is_utf8(e['desc']['b']) and g != {'ok': e['desc']}:
            bad.append(('string %d (description)' % i, e['desc'], g))
    for i, (e, g) in enumerate(zip(exp['segments'], o['segments'])):
        if e['wf'] and g['data'] != e['data']:
            bad.append(('segment %d data' % i, summary(e['data']), summary(g['data'])))
        if e['interp'] is not None and e['interp'].get('wf') and is_utf8(e['interp']['ok']['b']) and g['interp'] != {'ok': e['interp']['ok']}:
            bad.append(('segment %d interp' % i, e['interp'], g['interp']))
        if (e['interp'] is None) != (g['interp'] is None):
            bad.append(('segment %d interp class' % i, e['interp'], g['interp']))
        if e.get('err') is not None and g['data'] != {'err': e['err']}:
            bad.append(('segment %d must raise %s' % (i, e['err']), e['err'], summary(g['data'])))
        if e.get('desc') is not None and g['data'] != {'ok': e['desc']}:
            bad.append(('segment %d data (description)' % i, summary(e['desc']), summary(g['data'])))
        ei = e['interp']
        if ei is not None and g['interp'] is not None:
            if ei.get('err') is not None and g['interp'] != {'err': ei['err']}:
                bad.append(('segment %d interp must raise %s' % (i, ei['err']), ei['err'], g['interp']))
            if ei.get('desc') is not None and is_utf8(ei['desc']['b']) and g['interp'] != {'ok': ei['desc']}:
                bad.append(('segment %d interp (description)' % i, ei['desc'], g['interp']))
    for i, (e, g) in enumerate(zip(exp['addr'], o['addr'])):
        if g != e:
            bad.append(('addr %d' % i, e, g))
    for i, (er, gr) in enumerate(zip(exp['inseg'], o['inseg'])):
        for j, (e, g) in enumerate(zip(er, gr)):
            if g != e:
                bad.append(('inseg seg %d sec %d' % (i, j), e, g))
    for k in ('sections', 'strings', 'segments', 'addr', 'inseg'):
        if len(exp[k]) != len(o[k]):
            bad.append(('count ' + k, len(exp[k]), len(o[k])))
    return bad


def is_utf8(h):
    try:
        bytes.fromhex(h).decode('utf-8')
        return True
    except UnicodeDecodeError:
        return False


def summary(x):
    s = str(x)
    return s if len(s) < 400 else s[:200] + '…' + s[-100:] + ' (%d chars)' % len(s)


def norm_for_model(impl, model):
    """Equalise the two things outside the model: zlib.error (the oracle has no entry: notImplemented) and
    strings that are not valid UTF-8 (decoded with replacement by the library)."""
    if 'ok' not in impl or 'ok' not in model:
        return impl, model, 0
    import copy
    a, b = copy.deepcopy(impl['ok']), copy.deepcopy(model['ok'])
    skipped = 0
    for x, y in zip(a['sections'], b['sections']):
        if x['data'] == {'err': 'other:error'} and y['data'] == {'err': 'notImplemented'}:
            y['data'] = x['data']
            skipped += 1
    repl = '�'.encode('utf-8').hex()
    for i, (x, y) in enumerate(zip(a['strings'], b['strings'])):
        if 'skip' in x or ('ok' in x and 'ok' in y and x != y and repl in x['ok']['b']):
            b['strings'][i] = x
            skipped += 1
    for x, y in zip(a['segments'], b['segments']):
        if x['interp'] == {'err': 'unicodeError'} and y['interp'] is not None and 'ok' in y['interp']:
            y['interp'] = x['interp']
            skipped += 1
    return {'ok': a}, {'ok': b}, skipped


def check_case(ctx, stream, case, r, impl, zvalid):
    bad = against_expect(impl, r['expect'], zvalid)
    if bad:
        ctx.out.violation('property', stream, case, expect=[b[:2] for b in bad[:5]], got=[b[2] for b in bad[:5]],
                          model=summary(r.get('model')))
        return False
    a, b, _ = norm_for_model(impl, r['model'])
    if a != b:
        ctx.out.violation('correspondence', stream, case, got=diff(a, b), model='see got')
        return False
    return True


def diff(a, b, path=''):
    """First few differing leaves of two JSON values."""
    out = []

    def go(x, y, p):
        if len(out) >= 5:
            return
        if isinstance(x, dict) and isinstance(y, dict) and set(x) == set(y):
            for k in x:
                go(x[k], y[k], p + '/' + str(k))
        elif isinstance(x, list) and isinstance(y, list) and len(x) == len(y):
            for i, (u, v) in enumerate(zip(x, y)):
                go(u, v, p + '/%d' % i)
        elif x != y:
            out.append({'at': p, 'impl': summary(x), 'model': summary(y)})
    go(a, b, path)
    return out


# --------------------------------------------------------------------------- streams
def run_ast(ctx, stream, gens):
    reqs, metas = [], []
    for g in gens:
        ast, secs, strq, addrq, meta = g
        inflate, oracle, zvalid = zinfo(ast['cls'], secs)
        reqs.append({'p': 'C02', 'k': 'ast', 'ast': ast, 'tail': meta.get('tail', 0), 'inflate': inflate,
                     'zlib': oracle, 'strq': strq, 'addrq': addrq})
        metas.append((meta, zvalid, secs))
    replies = ctx.driver.ask_many(reqs)
    seeds = []
    for rq, (meta, zvalid, secs), r in zip(reqs, metas, replies):
        if 'fatal' in r or 'error' in r:
            raise RuntimeError('driver: %s' % (r.get('fatal') or r.get('error')))
        if not r.get('wf'):
            ctx.out.count(stream + ':not-wf')
            continue
        data = bytes.fromhex(r['bytes'])
        impl = run_impl(lambda: impl_observe(data, rq['strq'], rq['addrq']))
        case = {k: rq[k] for k in ('ast', 'tail', 'inflate', 'zlib', 'strq', 'addrq')}
        case['zvalid'] = zvalid
        ctx.out.case({'sha': hx(data[:80]), 'n': len(data)}, nontrivial=len(rq['ast']['sections']) + len(rq['ast']['segments']) > 1)
        if len(ctx.out.samples) <= 3 and len(r['bytes']) > 6000:
            ctx.out.samples[-1] = {'stream': stream, 'sections': len(rq['ast']['sections']), 'segments': len(rq['ast']['segments'])}
        ctx.out.count('%s:carries(wfZ+layout+observe)' % stream)
        ctx.out.count('%s:cls=%d' % (stream, meta['cls']))
        ctx.out.count('%s:mclass=%s' % (stream, meta['mclass']))
        e = expand(r['expect'])
        for s, es, zv in zip(secs, e['sections'], zvalid):
            ok = 'wf' if es['wf'] and zv else 'aside'
            if es.get('err') is not None:
                ctx.out.count('err-side:section:%s' % es['err'])
            if es.get('desc') is not None and zv:
                ctx.out.count('desc:section:%s' % ('reject' if 'reject' in es['desc'] else s['kind']))
            if s.get('meta', '').startswith('w:'):
                ctx.out.count('sec:%s:%s' % (s['meta'], ok))
            elif s.get('meta'):
                zmode, csz, cty = s['meta'][2:].split('/')
                ctx.out.count('z:stream=%s:%s' % (zmode, ok))
                ctx.out.count('z:ch_size=%s:%s' % (csz, ok))
                ctx.out.count('z:ch_type=%s:%s' % (cty, ok))
                if 'reject' in es['data'] and ok == 'wf':
                    ctx.out.count('z:expected-rejections')
            else:
                ctx.out.count('sec:%s:%s' % (s['kind'], ok))
        ctx.out.count('desc:string', sum(1 for x in e['strings'] if x.get('desc') is not None))
        ctx.out.count('err-side:string', sum(1 for x in e['strings'] if x.get('err') is not None))
        ctx.out.count('desc:segment', sum(1 for x in e['segments'] if x.get('desc') is not None))
        ctx.out.count('err-side:segment', sum(1 for x in e['segments'] if x.get('err') is not None))
        ctx.out.count('desc:interp', sum(1 for x in e['segments'] if x['interp'] is not None and x['interp'].get('desc') is not None))
        ctx.out.count('err-side:interp', sum(1 for x in e['segments'] if x['interp'] is not None and x['interp'].get('err') is not None))
        ctx.out.count('strings:wf', sum(1 for x in e['strings'] if x.get('wf')))
        ctx.out.count('strings:aside', sum(1 for x in e['strings'] if not x.get('wf')))
        ctx.out.count('inseg:pairs', sum(len(row) for row in e['inseg']))
        ctx.out.count('inseg:true', sum(1 for row in e['inseg'] for x in row if x['ok']))
        ctx.out.count('addr:queries', len(e['addr']))
        ctx.out.count('addr:hits', sum(len(x['ok']) for x in e['addr']))
        # the Spec predicate against the C macro in 64-bit arithmetic (a check of the Spec, not of the code)
        for row, mrow in zip(e['inseg'], e['macro']):
            for x, (mac, plain, fits, full, inert, tbss, nowrap) in zip(row, mrow):
                if plain and fits and ast_cls_ok(rq) and x['ok'] != mac:
                    ctx.out.count('spec-vs-macro:differs-under-wrap')
                # the whole macro (with the .tbss size rule and the PT_DYNAMIC/PT_NOTE empty-section clause, which the
                # code does not implement): Props/C02 in_segment_eq_C_macro_iff says  rule == macro  <=>  inert
                if fits and nowrap:
                    if (x['ok'] == full) != inert:
                        raise RuntimeError('Spec inconsistency: in_segment_eq_C_macro_iff fails on %r' % ((x, mrow),))
                    ctx.out.count('macro-full:' + ('agrees' if inert else 'tbss-rule-differs' if tbss else 'empty-edge-clause-differs'))
        if check_case(ctx, stream, case, r, impl, zvalid) and len(r['bytes']) < 60000:
            seeds.append((rq, r))
    return seeds


def ast_cls_ok(rq):
    return True


def run_raw(ctx, seeds):
    rng = ctx.rng('raw')
    n = ctx.budget(500, 7000)
    items = []
    for _ in range(n):
        rq, r = rng.choice(seeds)
        data = bytearray(bytes.fromhex(r['bytes']))
        a = rq['ast']
        cls = a['cls']
        offs = [dict(s['hdr']['r'])['sh_offset'] for s in a['sections']]
        sizes = [dict(s['hdr']['r'])['sh_size'] for s in a['sections']]
        mode = rng.choice(['trunc', 'shdr', 'shdr', 'phdr', 'chdr', 'chdr', 'body'])
        if mode == 'trunc':
            i = rng.randrange(len(offs))
            cut = rng.choice([offs[i], offs[i] + 1, offs[i] + sizes[i], offs[i] + sizes[i] - 1, offs[i] + chdr_size(cls),
                              offs[i] + chdr_size(cls) - 1, rng.randrange(0, len(data) + 1), a['phoff'], a['shoff'] + a['shentsize'] * len(offs) - 1])
            data = data[:max(0, min(cut, len(data)))]
        elif mode in ('shdr', 'phdr'):
            if mode == 'shdr' or not a['segments']:
                base, span = a['shoff'], a['shentsize'] * len(a['sections'])
            else:
                base, span = a['phoff'], a['phentsize'] * len(a['segments'])
            for _ in range(rng.choice([1, 1, 2])):
                pos = base + rng.randrange(0, max(1, span))
                if pos < len(data):
                    data[pos] = rng.choice([0, 0xff, (data[pos] + 1) & 0xff, data[pos] ^ 0x80, data[pos] ^ 0x08, rng.randrange(256)])
        elif mode == 'chdr':
            zs = [i for i, s in enumerate(a['sections']) if s.get('chdr') is not None]
            if not zs:
                continue
            i = rng.choice(zs)
            pos = offs[i] + rng.randrange(0, chdr_size(cls))
            if pos < len(data):
                data[pos] = rng.choice([0, 1, 0xff, (data[pos] + 1) & 0xff, (data[pos] - 1) & 0xff, rng.randrange(256)])
        else:
            i = rng.randrange(len(offs))
            if sizes[i] and offs[i] + sizes[i] <= len(data) and dict(a['sections'][i]['hdr']['r'])['sh_type'] != 8:
                pos = offs[i] + rng.randrange(0, sizes[i])
                data[pos] = rng.choice([0, 0xff, rng.randrange(256)])
        data = bytes(data)
        if c01._too_many(data) or huge_nobits(data):
            ctx.out.count('raw:skipped-huge')
            continue
        rec = ZRecorder()
        impl = run_impl(lambda: impl_observe(data, rq['strq'], rq['addrq'], rec))
        items.append((data, rq, impl, rec.calls))
    reqs = [{'p': 'C02', 'k': 'raw', 'hex': hx(d), 'zlib': calls, 'strq': rq['strq'], 'addrq': rq['addrq']} for d, rq, impl, calls in items]
    replies = ctx.driver.ask_many(reqs)
    for (data, rq0, impl, calls), rq, r in zip(items, reqs, replies):
        if 'fatal' in r or 'error' in r:
            raise RuntimeError('driver: %s' % (r.get('fatal') or r.get('error')))
        ctx.out.count('raw:' + ('ok' if 'ok' in impl else impl['err']))
        ctx.out.case({'raw': hx(data[:64]), 'n': len(data), 'sha': hash(data) & 0xffffffff})
        a, b, _ = norm_for_model(impl, r['model'])
        if a != b:
            if 'err' in impl and impl['err'] == 'unicodeError':
                ctx.out.count('raw:skipped-non-utf8-name')
                continue
            if 'err' in impl and 'err' in r['model'] and impl['err'] in ('other:MemoryError',):
                continue
            ctx.out.violation('correspondence', 'raw', {'hex': rq['hex'], 'zlib': calls, 'strq': rq['strq'], 'addrq': rq['addrq']},
                              got=diff(a, b) if 'ok' in a and 'ok' in b else a if 'err' in a else 'ok', model=summary(b) if 'err' in b else 'see got')


def huge_nobits(data):
    """SHT_NOBITS sections larger than the cap would be materialised as zero blocks (memory is not modelled)."""
    from elftools.elf.elffile import ELFFile
    try:
        f = ELFFile(io.BytesIO(data))
        for i in range(f.num_sections()):
            s = f.get_section(i)
            if s['sh_type'] == 'SHT_NOBITS' and NOBITS_CAP < s.data_size < (1 << 63):
                return True
        return False
    except Exception:
        return False


def run(ctx):
    rng = ctx.rng('geom')
    recipes = geom_recipes()
    systematic = len(recipes)
    per = 16
    # quick: the whole systematic enumeration once; thorough: five passes with different section layouts + random mixes
    passes = 1 if ctx.tier == 'quick' else 5
    gens = []
    for _ in range(passes):
        rs = list(recipes)
        rng.shuffle(rs)
        for i in range(0, len(rs), per):
            gens.append(gen_geom(rng, rs[i:i + per]))
    for _ in range(ctx.budget(20, 600)):
        gens.append(gen_geom(rng, [(rng.choice(list(itertools.product(DELTAS, DELTAS)) + ['empty@0', 'empty@end']),
                                    rng.choice(list(itertools.product(DELTAS, DELTAS)) + ['empty@0', 'empty@end']),
                                    rng.choice(PT_ALL)) for _ in range(per)]))
    ctx.out.count('geom:recipes-systematic', systematic)
    seeds = run_ast(ctx, 'geom', gens)
    rng = ctx.rng('data')
    NEXT_STRLEN[0] = 0
    gens = [gen_data(rng, ctx.tier != 'quick') for _ in range(ctx.budget(260, 3500))]
    seeds += run_ast(ctx, 'data', gens)
    ctx.out.count('strings:lengths-covered', min(NEXT_STRLEN[0], 301))
    if seeds:
        run_raw(ctx, seeds)


def replay(ctx, payload):
    v = payload['violation']
    case = v['case']
    if v['stream'] in ('geom', 'data'):
        rq = {'p': 'C02', 'k': 'ast'}
        rq.update({k: case[k] for k in ('ast', 'tail', 'inflate', 'zlib', 'strq', 'addrq')})
        r = ctx.driver.ask(rq)
        data = bytes.fromhex(r['bytes'])
        impl = run_impl(lambda: impl_observe(data, case['strq'], case['addrq']))
        bad = against_expect(impl, r['expect'], case['zvalid'])
        a, b, _ = norm_for_model(impl, r['model'])
        return {'stream': v['stream'], 'bytes': r['bytes'] if len(r['bytes']) < 4000 else r['bytes'][:4000] + '…',
                'property_mismatches': [[x[0], summary(x[1]), summary(x[2])] for x in bad[:8]],
                'model_mismatches': diff(a, b) if a != b else [], 'fails': bool(bad) or a != b}
    data = bytes.fromhex(case['hex'])
    rec = ZRecorder()
    impl = run_impl(lambda: impl_observe(data, case['strq'], case['addrq'], rec))
    r = ctx.driver.ask({'p': 'C02', 'k': 'raw', 'hex': case['hex'], 'zlib': rec.calls, 'strq': case['strq'], 'addrq': case['addrq']})
    a, b, _ = norm_for_model(impl, r['model'])
    return {'stream': 'raw', 'model_mismatches': diff(a, b) if ('ok' in a and 'ok' in b) else [summary(a), summary(b)], 'fails': a != b}
