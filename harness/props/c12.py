"""C12 — DWARF expressions are split into exactly their operations and operands.  Streams:

  optable : every opcode of the standard's operation table (asked from the Lean Spec, never from the code) x boundary
          operand values x {byte order} x {DWARF32/64} x {address size 4/8}, alone and between two other operations
          (so a wrong consumed length shows up as wrong offsets / a wrong successor)
  seq   : random well-formed sequences (0..40 ops quick, 0..300 thorough), nested entry-value blocks (depth <= 3 quick,
          <= 5 thorough), padded LEB128s, typed-constant blobs 0..255 bytes, implicit_value blobs of any length
  raw   : arbitrary bytes, truncations and byte flips of valid encodings -> real parser vs model only (errors included);
          these inputs are outside the property's quantifier and are never compared with `expect`

For `table` and `seq` the bytes come from the Lean Spec assembler (`Spec.encodeOps`), `expect` is `Spec.annotate`
(opcode, name, operand values, byte offsets, recursively) and `model` is `Model.parseExpr` run with the regenerated
dispatch and name tables.
"""
import json
from common import run_impl, hx, rnd_uint, rnd_bytes, BOUNDARY

RULE = ('optable: for each of the 8 (byte order, format, address size) configurations, every row of the Spec operation '
        'table x per-kind boundary pools (0, 1, sign and width boundaries, max; LEB128 minimal and padded; blobs of length '
        '0/1/127/128/255/300; WASM kinds 0..3; nested bodies of depth 0..3), each alone and wrapped between two operations; '
        'seq: random operation sequences from the same pools plus uniform values; raw: random bytes, every truncation point '
        'and single-byte flips of valid encodings (correspondence only). Non-trivial = distinct (cfg, bytes).')
ASSUMPTIONS = ['io.BytesIO read/tell semantics', 'struct.unpack for <>BHIQbhiq',
               'CPython recursion limit: nesting deeper than ~300 entry_value blocks raises RecursionError (the model has no such limit)']
FINDINGS = {}

CFGS = [(le, fmt, asz) for le in (True, False) for fmt in (32, 64) for asz in (4, 8)]


def cfg_list(le, fmt, asz, ver):
    return [le, fmt, asz, ver]


_parsers = {}


def parser_for(cfg):
    key = tuple(cfg)
    if key not in _parsers:
        from elftools.dwarf.structs import DWARFStructs
        from elftools.dwarf.dwarf_expr import DWARFExprParser
        s = DWARFStructs(little_endian=cfg[0], dwarf_format=cfg[1], address_size=cfg[2], dwarf_version=cfg[3])
        _parsers[key] = DWARFExprParser(s)
    return _parsers[key]


def canon_ops(parsed):
    return [{'r': [['op', o.op], ['op_name', o.op_name], ['args', [canon_arg(a) for a in o.args]], ['offset', o.offset]]}
            for o in parsed]


def canon_arg(a):
    if isinstance(a, bool):
        raise TypeError('bool operand')
    if isinstance(a, int):
        return a
    if isinstance(a, list):
        if a and not isinstance(a[0], int):
            return canon_ops(a)
        if not all(isinstance(x, int) and not isinstance(x, bool) for x in a):
            raise TypeError('mixed list operand')
        return list(a)
    raise TypeError('operand %r' % type(a))


def impl_parse(cfg, data):
    # the documented argument type is a list of integers
    return canon_ops(parser_for(cfg).parse_expr(list(data)))


# ----------------------------------------------------------------------------- operand pools
def uleb_minlen(v):
    return max(1, (v.bit_length() + 6) // 7)


def sleb_minlen(v):
    n = 1
    while not (-(1 << (7 * n - 1)) <= v < (1 << (7 * n - 1))):
        n += 1
    return n


ULEB_POOL = [0, 1, 63, 64, 127, 128, 129, 255, 256, 16383, 16384, 0x7fffffff, 0xffffffff, 0x100000000,
             (1 << 63) - 1, 1 << 63, (1 << 64) - 1, 1 << 64, (1 << 70) + 5]
SLEB_POOL = [0, 1, -1, 63, 64, -64, -65, 127, 128, -128, -129, 8191, 8192, -8192, -8193, (1 << 31) - 1, -(1 << 31), 1 << 31,
             (1 << 63) - 1, -(1 << 63), 1 << 63, -(1 << 63) - 1, -(1 << 70)]
BLOB_LENS = [0, 1, 2, 127, 128, 255, 256, 300]
BLOB1_LENS = [0, 1, 2, 127, 128, 255]


def u_pool(n):
    b = 8 * n
    return sorted(set([0, 1, 0x7f, 0x80, 0xff, (1 << (b - 1)) - 1, 1 << (b - 1), (1 << b) - 2, (1 << b) - 1] +
                      [x for x in (0x100, 0x7fff, 0x8000, 0xffff, 0x12345678 % (1 << b), 0xfffffffe) if x < (1 << b)]))


def s_pool(n):
    b = 8 * n
    hi = 1 << (b - 1)
    return sorted(set([0, 1, -1, 127, -128, hi - 1, -hi, hi - 2, -hi + 1] + [x for x in (128, -129, 255, 256, -256, 0x7fff, -0x8000) if -hi <= x < hi]))


def body_pool(rng):
    """nested bodies of depth 0..3 (as op JSON lists)"""
    nop = {'o': 0x96, 'a': []}
    reg0 = {'o': 0x50, 'a': []}
    fbreg = {'o': 0x91, 'a': [{'t': 'sleb', 'n': 2, 'v': -5}]}
    inner = {'o': 0xf3, 'n': 1, 'body': [reg0]}
    inner2 = {'o': 0xa3, 'n': 2, 'body': [inner, fbreg]}
    inner3 = {'o': 0xa3, 'n': 1, 'body': [inner2, nop]}
    big = [nop] * 130                      # body length needs a two-byte ULEB128
    return [([], 1), ([], 3), ([nop], 1), ([reg0, fbreg], 1), ([inner], 1), ([inner2], 2), ([inner3, inner], 1), (big, 2), (big, 4)]


def arg_pool(kind, rng, small=False):
    """boundary operands for one kind, as Arg JSON objects"""
    out = []
    if kind[0] == 'u' and kind[1:].isdigit():
        out = [{'t': 'u', 'v': v} for v in u_pool(int(kind[1:]))]
    elif kind[0] == 's' and kind[1:].isdigit():
        out = [{'t': 's', 'v': v} for v in s_pool(int(kind[1:]))]
    elif kind == 'uleb':
        for v in ULEB_POOL:
            m = uleb_minlen(v)
            out.append({'t': 'uleb', 'n': m, 'v': v})
        out += [{'t': 'uleb', 'n': 2, 'v': 0}, {'t': 'uleb', 'n': 5, 'v': 127}, {'t': 'uleb', 'n': 3, 'v': 128}, {'t': 'uleb', 'n': 11, 'v': (1 << 64) - 1}]
    elif kind == 'sleb':
        for v in SLEB_POOL:
            out.append({'t': 'sleb', 'n': sleb_minlen(v), 'v': v})
        out += [{'t': 'sleb', 'n': 2, 'v': 0}, {'t': 'sleb', 'n': 2, 'v': -1}, {'t': 'sleb', 'n': 4, 'v': -64}, {'t': 'sleb', 'n': 3, 'v': 63}, {'t': 'sleb', 'n': 11, 'v': -(1 << 63)}]
    elif kind == 'block':
        for ln in BLOB_LENS:
            out.append({'t': 'block', 'n': uleb_minlen(ln), 'b': hx(rnd_bytes(rng, ln))})
        out += [{'t': 'block', 'n': 3, 'b': ''}, {'t': 'block', 'n': 2, 'b': hx(rnd_bytes(rng, 5))}, {'t': 'block', 'n': 1, 'b': 'ff80007f'}]
    elif kind == 'block1':
        for ln in BLOB1_LENS:
            out.append({'t': 'block1', 'b': hx(rnd_bytes(rng, ln))})
        out.append({'t': 'block1', 'b': '80ff00'})
    elif kind == 'wasm':
        for k in (0, 1, 2):
            for v in (0, 1, 127, 128, 0xffffffff, 1 << 40):
                out.append({'t': 'wasm', 'kind': k, 'n': uleb_minlen(v), 'v': v})
            out.append({'t': 'wasm', 'kind': k, 'n': 3, 'v': 5})
        for v in (0, 1, 0x7fffffff, 0x80000000, 0xffffffff, 0x01020304):
            out.append({'t': 'wasm', 'kind': 3, 'n': 0, 'v': v})
    else:
        raise KeyError(kind)
    if small:
        out = out[::3] + out[-1:]
    return out


def rnd_arg(kind, rng):
    """a random operand: boundary pool mixed with uniform values"""
    if rng.random() < 0.5:
        return rng.choice(arg_pool(kind, rng))
    if kind[0] == 'u' and kind[1:].isdigit():
        return {'t': 'u', 'v': rnd_uint(rng, 8 * int(kind[1:]))}
    if kind[0] == 's' and kind[1:].isdigit():
        b = 8 * int(kind[1:])
        return {'t': 's', 'v': rnd_uint(rng, b) - (1 << (b - 1))}
    if kind == 'uleb':
        v = rnd_uint(rng, rng.choice([7, 14, 32, 64, 70]))
        return {'t': 'uleb', 'n': uleb_minlen(v) + rng.choice([0, 0, 0, 1, 2]), 'v': v}
    if kind == 'sleb':
        b = rng.choice([7, 14, 32, 64, 70])
        v = rnd_uint(rng, b) - (1 << (b - 1))
        return {'t': 'sleb', 'n': sleb_minlen(v) + rng.choice([0, 0, 0, 1, 2]), 'v': v}
    if kind == 'block':
        ln = rng.choice([0, 1, 2, 3, 8, 16, 127, 128, 200, 255, 256, 400]) if rng.random() < 0.5 else rng.randrange(0, 300)
        return {'t': 'block', 'n': uleb_minlen(ln) + rng.choice([0, 0, 1]), 'b': hx(rnd_bytes(rng, ln))}
    if kind == 'block1':
        return {'t': 'block1', 'b': hx(rnd_bytes(rng, rng.randrange(0, 256)))}
    if kind == 'wasm':
        k = rng.randrange(0, 4)
        if k == 3:
            return {'t': 'wasm', 'kind': 3, 'n': 0, 'v': rnd_uint(rng, 32)}
        v = rnd_uint(rng, rng.choice([7, 32, 64]))
        return {'t': 'wasm', 'kind': k, 'n': uleb_minlen(v) + rng.choice([0, 0, 1]), 'v': v}
    raise KeyError(kind)


def op_len_estimate(op):
    """rough encoded size (only to keep random nested bodies bounded)"""
    if 'body' in op:
        return 2 + op['n'] + sum(op_len_estimate(o) for o in op['body'])
    n = 1
    for a in op['a']:
        n += {'u': 8, 's': 8}.get(a['t'], 0) + a.get('n', 0) + len(a.get('b', '')) // 2 + 1
    return n


def rnd_ops(rng, sig, count, depth, blob_cap=None):
    ops = []
    for _ in range(count):
        op, name, kinds = rng.choice(sig) if rng.random() < 0.6 else rng.choice([r for r in sig if r[2]])
        if kinds == ['expr']:
            if depth <= 0:
                ops.append({'o': 0x96, 'a': []})
                continue
            body = rnd_ops(rng, sig, rng.choice([0, 1, 1, 2, 3, 6]), depth - 1, blob_cap=40)
            ops.append({'o': op, 'body': body, 'n': None})
        else:
            args = [rnd_arg(k, rng) for k in kinds]
            if blob_cap is not None:
                for a in args:
                    if 'b' in a and len(a['b']) // 2 > blob_cap:
                        a['b'] = a['b'][:2 * blob_cap]
                        if a['t'] == 'block':
                            a['n'] = uleb_minlen(blob_cap) + 1
            ops.append({'o': op, 'a': args})
    return ops


def fix_entry_lengths(ops, rng):
    """choose the ULEB128 length-field width of every entry block (needs the encoded body size: over-estimate, any
    width whose capacity covers the estimate is well-formed because padding is allowed)"""
    for o in ops:
        if 'body' in o:
            fix_entry_lengths(o['body'], rng)
            if o.get('n') is None:
                est = sum(op_len_estimate(x) for x in o['body'])
                o['n'] = uleb_minlen(est) + (1 if rng.random() < 0.2 else 0)


def depth_of(ops):
    return max([0] + [1 + depth_of(o['body']) for o in ops if 'body' in o])


# ----------------------------------------------------------------------------- running
def ask_sized(ctx, reqs, cap=24000):
    """`Driver.ask_many` writes a whole batch before reading any reply; keep every batch well under the pipe buffer
    (a single over-sized request is safe: the driver answers only after it has read the whole line)."""
    out, batch, size = [], [], 0
    for r in reqs:
        n = len(json.dumps(r, separators=(',', ':'))) + 16
        if batch and size + n > cap:
            out += ctx.driver.ask_many(batch)
            batch, size = [], 0
        batch.append(r)
        size += n
    if batch:
        out += ctx.driver.ask_many(batch)
    return out


def check_ast(ctx, stream, cfg, reqs):
    """reqs: list of op lists.  Sends them to the Spec assembler / model, runs the real parser, compares."""
    out = ctx.out
    asks = [{'p': 'C12', 'k': 'ast', 'cfg': cfg, 'ops': ops} for ops in reqs]
    replies = ask_sized(ctx, asks)
    for ops, r in zip(reqs, replies):
        if 'fatal' in r:
            raise RuntimeError('driver: %s on %s' % (r['fatal'], json.dumps(ops)[:300]))
        if not r['wf']:
            out.count(stream + ':not-wf')
            continue
        data = bytes.fromhex(r['bytes'])
        impl = run_impl(lambda: impl_parse(cfg, data))
        case = {'cfg': cfg, 'ops': ops, 'bytes': r['bytes']}
        out.case({'cfg': cfg, 'bytes': r['bytes']})
        if impl != {'ok': r['expect']}:
            out.violation('property', stream, case, expect=r['expect'], got=impl, model=r['model'])
        elif impl != r['model']:
            out.violation('correspondence', stream, case, got=impl, model=r['model'])


def get_sig(ctx, cfg):
    r = ctx.driver.ask({'p': 'C12', 'k': 'sig', 'cfg': cfg})
    if 'fatal' in r:
        raise RuntimeError('driver: %s' % r['fatal'])
    if not r.get('sources_ok', False):
        ctx.out.notes.append('pinned sources of parse_expr/read_blob/struct_parse changed: the hand-written model may be stale')
    return r['sig']


def run_table(ctx):
    rng = ctx.rng('optable')
    nop = {'o': 0x96, 'a': []}
    for i, (le, fmt, asz) in enumerate(CFGS):
        cfg = cfg_list(le, fmt, asz, 2 + (i % 4))
        sig = get_sig(ctx, cfg)
        reqs = []
        for op, name, kinds in sig:
            if kinds == ['expr']:
                variants = [{'o': op, 'n': n, 'body': body} for body, n in body_pool(rng)]
            elif len(kinds) <= 1:
                variants = [{'o': op, 'a': [a]} for a in arg_pool(kinds[0], rng)] if kinds else [{'o': op, 'a': []}]
            else:
                p0 = arg_pool(kinds[0], rng, small=ctx.tier == 'quick')
                p1 = arg_pool(kinds[1], rng, small=ctx.tier == 'quick')
                variants = [{'o': op, 'a': [a, b]} for a in p0 for b in p1]
            ctx.out.count('optable:%s' % ('+'.join(kinds) if kinds else 'noargs'), len(variants))
            for v in variants:
                reqs.append([v])
            # between two other operations: offsets and the successor depend on the consumed length
            step = 1 if ctx.tier == 'thorough' else max(1, len(variants) // 4)
            for v in variants[::step]:
                reqs.append([{'o': 0x23, 'a': [{'t': 'uleb', 'n': 2, 'v': 300}]}, v, {'o': 0x0a, 'a': [{'t': 'u', 'v': 0x96a3}]}, nop])
        check_ast(ctx, 'optable', cfg, reqs)


def run_seq(ctx):
    rng = ctx.rng('seq')
    n = ctx.budget(700, 12000)
    maxlen = 40 if ctx.tier == 'quick' else 300
    maxdepth = 3 if ctx.tier == 'quick' else 5
    by_cfg = {}
    sigs = {}
    for _ in range(n):
        le, fmt, asz = rng.choice(CFGS)
        cfg = cfg_list(le, fmt, asz, rng.choice([2, 3, 4, 5]))
        key = tuple(cfg)
        if key not in sigs:
            sigs[key] = get_sig(ctx, cfg)
        r = rng.random()
        count = 0 if r < 0.02 else (rng.randrange(1, 6) if r < 0.4 else rng.randrange(1, maxlen + 1))
        ops = rnd_ops(rng, sigs[key], count, rng.randrange(0, maxdepth + 1), blob_cap=None if count < 60 else 64)
        if rng.random() < 0.15:
            # force a deep chain of nested blocks
            d = rng.randrange(1, maxdepth + 1)
            inner = rnd_ops(rng, sigs[key], rng.randrange(0, 3), 0, blob_cap=16)
            for _k in range(d):
                inner = [{'o': rng.choice([0xa3, 0xf3]), 'n': None, 'body': inner}] + rnd_ops(rng, sigs[key], rng.randrange(0, 2), 0, blob_cap=16)
            ops = ops[:len(ops) // 2] + inner + ops[len(ops) // 2:]
        fix_entry_lengths(ops, rng)
        ctx.out.count('seq:len<=%d' % (0 if not ops else 5 if len(ops) <= 5 else 40 if len(ops) <= 40 else 300))
        ctx.out.count('seq:depth=%d' % depth_of(ops))
        by_cfg.setdefault(key, []).append(ops)
    for key, reqs in by_cfg.items():
        check_ast(ctx, 'seq', list(key), reqs)


def run_raw(ctx):
    rng = ctx.rng('raw')
    items = []      # (cfg, data)
    n = ctx.budget(1500, 40000)
    sigs = {}
    for _ in range(n):
        le, fmt, asz = rng.choice(CFGS)
        cfg = cfg_list(le, fmt, asz, rng.choice([2, 3, 4, 5]))
        key = tuple(cfg)
        if key not in sigs:
            sigs[key] = get_sig(ctx, cfg)
        r = rng.random()
        if r < 0.3:
            data = rnd_bytes(rng, rng.choice([0, 1, 2, 3, 5, 8, 13, 30]))
            ctx.out.count('raw:random')
        else:
            ops = rnd_ops(rng, sigs[key], rng.randrange(1, 5), 2, blob_cap=20)
            fix_entry_lengths(ops, rng)
            rep = ctx.driver.ask({'p': 'C12', 'k': 'ast', 'cfg': cfg, 'ops': ops})
            data = bytes.fromhex(rep['bytes'])
            if r < 0.65 and data:
                data = data[:rng.randrange(0, len(data))]
                ctx.out.count('raw:truncated')
            elif data:
                i = rng.randrange(len(data))
                data = data[:i] + bytes([rng.choice([0, 1, 0x7f, 0x80, 0xff, rng.randrange(256)])]) + data[i + 1:]
                ctx.out.count('raw:flipped')
        items.append((cfg, data))
    # every opcode byte alone and followed by 0xff bytes (unknown opcodes, range markers, truncated operands)
    cfg0 = cfg_list(True, 64, 8, 5)
    for op in range(256):
        for tail in (b'', b'\x04', b'\xff\xff', b'\x83\x00\x96\x96\x96'):
            items.append((cfg0, bytes([op]) + tail))
            ctx.out.count('raw:opcode-sweep')
    replies = ask_sized(ctx, [{'p': 'C12', 'k': 'raw', 'cfg': cfg, 'hex': hx(data)} for cfg, data in items])
    for (cfg, data), m in zip(items, replies):
        if 'fatal' in m:
            raise RuntimeError('driver: %s' % m['fatal'])
        impl = run_impl(lambda: impl_parse(cfg, data))
        case = {'cfg': cfg, 'hex': hx(data)}
        ctx.out.case(case)
        if impl != m['model']:
            ctx.out.violation('correspondence', 'raw', case, got=impl, model=m['model'])


def run(ctx):
    run_table(ctx)
    run_seq(ctx)
    run_raw(ctx)


def replay(ctx, payload):
    v = payload['violation']
    case = v['case']
    cfg = case['cfg']
    res = {'stream': v['stream'], 'case': case}
    if v['stream'] == 'raw':
        data = bytes.fromhex(case['hex'])
        impl = run_impl(lambda: impl_parse(cfg, data))
        m = ctx.driver.ask({'p': 'C12', 'k': 'raw', 'cfg': cfg, 'hex': case['hex']})
        res.update(impl=impl, model=m.get('model'), fails=(impl != m.get('model')))
    else:
        r = ctx.driver.ask({'p': 'C12', 'k': 'ast', 'cfg': cfg, 'ops': case['ops']})
        data = bytes.fromhex(r['bytes'])
        impl = run_impl(lambda: impl_parse(cfg, data))
        bad = (impl != {'ok': r['expect']}) if r['wf'] else False
        res.update(bytes=r['bytes'], wf=r['wf'], impl=impl, expect=r['expect'], model=r['model'],
                   fails=bad or impl != r['model'])
    return res
