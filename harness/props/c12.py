"""C12 — DWARF expressions are split into exactly their operations and operands.  Streams:

  optable : every opcode of the standard's operation table (asked from the Lean Spec, never from the code) x boundary
          operand values x {byte order} x {DWARF32/64} x {address size 4/8}, alone and between two other operations
          (so a wrong consumed length shows up as wrong offsets / a wrong successor)
  seq   : random well-formed sequences (0..40 ops quick, 0..300 thorough), nested entry-value blocks (depth <= 3 quick,
          <= 5 thorough), padded LEB128s, typed-constant blobs 0..255 bytes, implicit_value blobs of any length
  raw   : arbitrary bytes, truncations and byte flips of valid encodings -> real parser vs model only (errors included);
          these inputs are outside the property's quantifier and are never compared with `expect`

  info  : EXPRESSIONS WHERE THEY OCCUR (seventh wave).  Forests of 1..4 units (+ 0..2 type units) of DIFFERENT configurations
          (format x address size x version 2..5, one byte order per file) sharing abbreviation tables, whose entries carry
          expression-class attributes (the standard's list, asked from the Lean Spec) in DW_FORM_exprloc / block / block1 /
          block2 / block4 (directly or through DW_FORM_indirect) next to decoys (blocks that are no expressions, expression
          names in constant forms, DWARF >= 4 blocks) — sections assembled by the Lean Spec encoders of C04, the real
          DWARFInfo built from section descriptors, walked with `iter_CUs()/iter_TUs()` x `iter_DIEs()` x `die.attributes`,
          each selected attribute parsed with (a) a fresh `DWARFExprParser(cu.structs)` and (b) the parser of the library's
          own per-structs cache (`describe_DWARF_expr`'s `_DWARF_EXPR_DUMPER_CACHE`, which persists over all cases of the
          run: earlier files' units of other configurations are the disturbance).  `expect` = Props/C12
          `debug_info_exprs_exact` / `debug_types_exprs_exact` (per unit, per entry, per selected attribute: offset and
          operations annotated with THAT unit's configuration), `model` = `Model.C12.sectionExprs` over C04's model, started
          from a parser cache pre-loaded with random other configurations.
  trunc : every proper prefix of generated well-formed expressions (every byte, not a sample): `expect` = the error class
          Props/C12 `truncated_*` prescribes, model and real parser compared with it and with each other.

For `table` and `seq` the bytes come from the Lean Spec assembler (`Spec.encodeOps`), `expect` is `Spec.annotate`
(opcode, name, operand values, byte offsets, recursively) and `model` is `Model.parseExpr` run with the regenerated
dispatch and name tables.
"""
import io
import json
from common import run_impl, hx, rnd_uint, rnd_bytes, BOUNDARY

RULE = ('trunc: every proper prefix (every byte) of [const1u, row-variant, nop] for the rows of the Spec operation table and of '
        'random nested sequences; info: forests of 1-4 units + 0-2 type units of mixed (format, address size, version) whose '
        'entries carry expression-class attributes in exprloc / block forms next to decoys, parser caches pre-loaded with '
        'random other configurations; optable: for each of the 8 (byte order, format, address size) configurations, every row of the Spec operation '
        'table x per-kind boundary pools (0, 1, sign and width boundaries, max; LEB128 minimal and padded; blobs of length '
        '0/1/127/128/255/300; WASM kinds 0..3; nested bodies of depth 0..3), each alone and wrapped between two operations; '
        'seq: random operation sequences from the same pools plus uniform values; raw: random bytes, every truncation point '
        'and single-byte flips of valid encodings (correspondence only). Non-trivial = distinct (cfg, bytes).')
ASSUMPTIONS = ['io.BytesIO read/tell semantics', 'struct.unpack for <>BHIQbhiq',
               'CPython recursion limit: nesting deeper than ~300 entry_value blocks raises RecursionError (the model has no such limit)']
FINDINGS = {}

CFGS = [(le, fmt, asz) for le in (True, False) for fmt in (32, 64) for asz in (4, 8)]


def cfg_list(le, fmt, asz, ver):
    return [le, fmt, asz, ver]


_parsers = {}


def parser_for(cfg):
    key = tuple(cfg)
    if key not in _parsers:
        from elftools.dwarf.structs import DWARFStructs
        from elftools.dwarf.dwarf_expr import DWARFExprParser
        s = DWARFStructs(little_endian=cfg[0], dwarf_format=cfg[1], address_size=cfg[2], dwarf_version=cfg[3])
        _parsers[key] = DWARFExprParser(s)
    return _parsers[key]


def canon_ops(parsed):
    return [{'r': [['op', o.op], ['op_name', o.op_name], ['args', [canon_arg(a) for a in o.args]], ['offset', o.offset]]}
            for o in parsed]


def canon_arg(a):
    if isinstance(a, bool):
        raise TypeError('bool operand')
    if isinstance(a, int):
        return a
    if isinstance(a, list):
        if a and not isinstance(a[0], int):
            return canon_ops(a)
        if not all(isinstance(x, int) and not isinstance(x, bool) for x in a):
            raise TypeError('mixed list operand')
        return list(a)
    raise TypeError('operand %r' % type(a))


def impl_parse(cfg, data):
    # the documented argument type is a list of integers
    return canon_ops(parser_for(cfg).parse_expr(list(data)))


# ----------------------------------------------------------------------------- operand pools
def uleb_minlen(v):
    return max(1, (v.bit_length() + 6) // 7)


def sleb_minlen(v):
    n = 1
    while not (-(1 << (7 * n - 1)) <= v < (1 << (7 * n - 1))):
        n += 1
    return n


ULEB_POOL = [0, 1, 63, 64, 127, 128, 129, 255, 256, 16383, 16384, 0x7fffffff, 0xffffffff, 0x100000000,
             (1 << 63) - 1, 1 << 63, (1 << 64) - 1, 1 << 64, (1 << 70) + 5]
SLEB_POOL = [0, 1, -1, 63, 64, -64, -65, 127, 128, -128, -129, 8191, 8192, -8192, -8193, (1 << 31) - 1, -(1 << 31), 1 << 31,
             (1 << 63) - 1, -(1 << 63), 1 << 63, -(1 << 63) - 1, -(1 << 70)]
BLOB_LENS = [0, 1, 2, 127, 128, 255, 256, 300]
BLOB1_LENS = [0, 1, 2, 127, 128, 255]


def u_pool(n):
    b = 8 * n
    return sorted(set([0, 1, 0x7f, 0x80, 0xff, (1 << (b - 1)) - 1, 1 << (b - 1), (1 << b) - 2, (1 << b) - 1] +
                      [x for x in (0x100, 0x7fff, 0x8000, 0xffff, 0x12345678 % (1 << b), 0xfffffffe) if x < (1 << b)]))


def s_pool(n):
    b = 8 * n
    hi = 1 << (b - 1)
    return sorted(set([0, 1, -1, 127, -128, hi - 1, -hi, hi - 2, -hi + 1] + [x for x in (128, -129, 255, 256, -256, 0x7fff, -0x8000) if -hi <= x < hi]))


def body_pool(rng):
    """nested bodies of depth 0..3 (as op JSON lists)"""
    nop = {'o': 0x96, 'a': []}
    reg0 = {'o': 0x50, 'a': []}
    fbreg = {'o': 0x91, 'a': [{'t': 'sleb', 'n': 2, 'v': -5}]}
    inner = {'o': 0xf3, 'n': 1, 'body': [reg0]}
    inner2 = {'o': 0xa3, 'n': 2, 'body': [inner, fbreg]}
    inner3 = {'o': 0xa3, 'n': 1, 'body': [inner2, nop]}
    big = [nop] * 130                      # body length needs a two-byte ULEB128
    return [([], 1), ([], 3), ([nop], 1), ([reg0, fbreg], 1), ([inner], 1), ([inner2], 2), ([inner3, inner], 1), (big, 2), (big, 4)]


def arg_pool(kind, rng, small=False):
    """boundary operands for one kind, as Arg JSON objects"""
    out = []
    if kind[0] == 'u' and kind[1:].isdigit():
        out = [{'t': 'u', 'v': v} for v in u_pool(int(kind[1:]))]
    elif kind[0] == 's' and kind[1:].isdigit():
        out = [{'t': 's', 'v': v} for v in s_pool(int(kind[1:]))]
    elif kind == 'uleb':
        for v in ULEB_POOL:
            m = uleb_minlen(v)
            out.append({'t': 'uleb', 'n': m, 'v': v})
        out += [{'t': 'uleb', 'n': 2, 'v': 0}, {'t': 'uleb', 'n': 5, 'v': 127}, {'t': 'uleb', 'n': 3, 'v': 128}, {'t': 'uleb', 'n': 11, 'v': (1 << 64) - 1}]
    elif kind == 'sleb':
        for v in SLEB_POOL:
            out.append({'t': 'sleb', 'n': sleb_minlen(v), 'v': v})
        out += [{'t': 'sleb', 'n': 2, 'v': 0}, {'t': 'sleb', 'n': 2, 'v': -1}, {'t': 'sleb', 'n': 4, 'v': -64}, {'t': 'sleb', 'n': 3, 'v': 63}, {'t': 'sleb', 'n': 11, 'v': -(1 << 63)}]
    elif kind == 'block':
        for ln in BLOB_LENS:
            out.append({'t': 'block', 'n': uleb_minlen(ln), 'b': hx(rnd_bytes(rng, ln))})
        out += [{'t': 'block', 'n': 3, 'b': ''}, {'t': 'block', 'n': 2, 'b': hx(rnd_bytes(rng, 5))}, {'t': 'block', 'n': 1, 'b': 'ff80007f'}]
    elif kind == 'block1':
        for ln in BLOB1_LENS:
            out.append({'t': 'block1', 'b': hx(rnd_bytes(rng, ln))})
        out.append({'t': 'block1', 'b': '80ff00'})
    elif kind == 'wasm':
        for k in (0, 1, 2):
            for v in (0, 1, 127, 128, 0xffffffff, 1 << 40):
                out.append({'t': 'wasm', 'kind': k, 'n': uleb_minlen(v), 'v': v})
            out.append({'t': 'wasm', 'kind': k, 'n': 3, 'v': 5})
        for v in (0, 1, 0x7fffffff, 0x80000000, 0xffffffff, 0x01020304):
            out.append({'t': 'wasm', 'kind': 3, 'n': 0, 'v': v})
    else:
        raise KeyError(kind)
    if small:
        out = out[::3] + out[-1:]
    return out


def rnd_arg(kind, rng):
    """a random operand: boundary pool mixed with uniform values"""
    if rng.random() < 0.5:
        return rng.choice(arg_pool(kind, rng))
    if kind[0] == 'u' and kind[1:].isdigit():
        return {'t': 'u', 'v': rnd_uint(rng, 8 * int(kind[1:]))}
    if kind[0] == 's' and kind[1:].isdigit():
        b = 8 * int(kind[1:])
        return {'t': 's', 'v': rnd_uint(rng, b) - (1 << (b - 1))}
    if kind == 'uleb':
        v = rnd_uint(rng, rng.choice([7, 14, 32, 64, 70]))
        return {'t': 'uleb', 'n': uleb_minlen(v) + rng.choice([0, 0, 0, 1, 2]), 'v': v}
    if kind == 'sleb':
        b = rng.choice([7, 14, 32, 64, 70])
        v = rnd_uint(rng, b) - (1 << (b - 1))
        return {'t': 'sleb', 'n': sleb_minlen(v) + rng.choice([0, 0, 0, 1, 2]), 'v': v}
    if kind == 'block':
        ln = rng.choice([0, 1, 2, 3, 8, 16, 127, 128, 200, 255, 256, 400]) if rng.random() < 0.5 else rng.randrange(0, 300)
        return {'t': 'block', 'n': uleb_minlen(ln) + rng.choice([0, 0, 1]), 'b': hx(rnd_bytes(rng, ln))}
    if kind == 'block1':
        return {'t': 'block1', 'b': hx(rnd_bytes(rng, rng.randrange(0, 256)))}
    if kind == 'wasm':
        k = rng.randrange(0, 4)
        if k == 3:
            return {'t': 'wasm', 'kind': 3, 'n': 0, 'v': rnd_uint(rng, 32)}
        v = rnd_uint(rng, rng.choice([7, 32, 64]))
        return {'t': 'wasm', 'kind': k, 'n': uleb_minlen(v) + rng.choice([0, 0, 1]), 'v': v}
    raise KeyError(kind)


def op_len_estimate(op):
    """rough encoded size (only to keep random nested bodies bounded)"""
    if 'body' in op:
        return 2 + op['n'] + sum(op_len_estimate(o) for o in op['body'])
    n = 1
    for a in op['a']:
        n += {'u': 8, 's': 8}.get(a['t'], 0) + a.get('n', 0) + len(a.get('b', '')) // 2 + 1
    return n


def rnd_ops(rng, sig, count, depth, blob_cap=None):
    ops = []
    for _ in range(count):
        op, name, kinds = rng.choice(sig) if rng.random() < 0.6 else rng.choice([r for r in sig if r[2]])
        if kinds == ['expr']:
            if depth <= 0:
                ops.append({'o': 0x96, 'a': []})
                continue
            body = rnd_ops(rng, sig, rng.choice([0, 1, 1, 2, 3, 6]), depth - 1, blob_cap=40)
            ops.append({'o': op, 'body': body, 'n': None})
        else:
            args = [rnd_arg(k, rng) for k in kinds]
            if blob_cap is not None:
                for a in args:
                    if 'b' in a and len(a['b']) // 2 > blob_cap:
                        a['b'] = a['b'][:2 * blob_cap]
                        if a['t'] == 'block':
                            a['n'] = uleb_minlen(blob_cap) + 1
            ops.append({'o': op, 'a': args})
    return ops


def fix_entry_lengths(ops, rng):
    """choose the ULEB128 length-field width of every entry block (needs the encoded body size: over-estimate, any
    width whose capacity covers the estimate is well-formed because padding is allowed)"""
    for o in ops:
        if 'body' in o:
            fix_entry_lengths(o['body'], rng)
            if o.get('n') is None:
                est = sum(op_len_estimate(x) for x in o['body'])
                o['n'] = uleb_minlen(est) + (1 if rng.random() < 0.2 else 0)


def depth_of(ops):
    return max([0] + [1 + depth_of(o['body']) for o in ops if 'body' in o])


# ----------------------------------------------------------------------------- running
def ask_sized(ctx, reqs, cap=24000):
    """`Driver.ask_many` writes a whole batch before reading any reply; keep every batch well under the pipe buffer
    (a single over-sized request is safe: the driver answers only after it has read the whole line)."""
    out, batch, size = [], [], 0
    for r in reqs:
        n = len(json.dumps(r, separators=(',', ':'))) + 16
        if batch and size + n > cap:
            out += ctx.driver.ask_many(batch)
            batch, size = [], 0
        batch.append(r)
        size += n
    if batch:
        out += ctx.driver.ask_many(batch)
    return out


def check_ast(ctx, stream, cfg, reqs):
    """reqs: list of op lists.  Sends them to the Spec assembler / model, runs the real parser, compares."""
    out = ctx.out
    asks = [{'p': 'C12', 'k': 'ast', 'cfg': cfg, 'ops': ops} for ops in reqs]
    replies = ask_sized(ctx, asks)
    for ops, r in zip(reqs, replies):
        if 'fatal' in r:
            raise RuntimeError('driver: %s on %s' % (r['fatal'], json.dumps(ops)[:300]))
        if not r['wf']:
            out.count(stream + ':not-wf')
            continue
        data = bytes.fromhex(r['bytes'])
        impl = run_impl(lambda: impl_parse(cfg, data))
        case = {'cfg': cfg, 'ops': ops, 'bytes': r['bytes']}
        out.case({'cfg': cfg, 'bytes': r['bytes']})
        if impl != {'ok': r['expect']}:
            out.violation('property', stream, case, expect=r['expect'], got=impl, model=r['model'])
        elif impl != r['model']:
            out.violation('correspondence', stream, case, got=impl, model=r['model'])


def get_sig(ctx, cfg):
    r = ctx.driver.ask({'p': 'C12', 'k': 'sig', 'cfg': cfg})
    if 'fatal' in r:
        raise RuntimeError('driver: %s' % r['fatal'])
    if not r.get('sources_ok', False):
        ctx.out.notes.append('pinned sources of parse_expr/read_blob/struct_parse changed: the hand-written model may be stale')
    return r['sig']


def run_table(ctx):
    rng = ctx.rng('optable')
    nop = {'o': 0x96, 'a': []}
    for i, (le, fmt, asz) in enumerate(CFGS):
        cfg = cfg_list(le, fmt, asz, 2 + (i % 4))
        sig = get_sig(ctx, cfg)
        reqs = []
        for op, name, kinds in sig:
            if kinds == ['expr']:
                variants = [{'o': op, 'n': n, 'body': body} for body, n in body_pool(rng)]
            elif len(kinds) <= 1:
                variants = [{'o': op, 'a': [a]} for a in arg_pool(kinds[0], rng)] if kinds else [{'o': op, 'a': []}]
            else:
                p0 = arg_pool(kinds[0], rng, small=ctx.tier == 'quick')
                p1 = arg_pool(kinds[1], rng, small=ctx.tier == 'quick')
                variants = [{'o': op, 'a': [a, b]} for a in p0 for b in p1]
            ctx.out.count('optable:%s' % ('+'.join(kinds) if kinds else 'noargs'), len(variants))
            for v in variants:
                reqs.append([v])
            # between two other operations: offsets and the successor depend on the consumed length
            step = 1 if ctx.tier == 'thorough' else max(1, len(variants) // 4)
            for v in variants[::step]:
                reqs.append([{'o': 0x23, 'a': [{'t': 'uleb', 'n': 2, 'v': 300}]}, v, {'o': 0x0a, 'a': [{'t': 'u', 'v': 0x96a3}]}, nop])
        check_ast(ctx, 'optable', cfg, reqs)


def run_unit_rows(ctx):
    """the rows whose operand widths depend on the unit (address; the DW_FORM_ref_addr-like reference of call_ref /
    implicit_pointer: address-sized in DWARF 2, format-sized later) for ALL 32 configurations, alone, wrapped, and cut at
    every byte"""
    rng = ctx.rng('unitrows')
    nop = {'o': 0x96, 'a': []}
    for le in (True, False):
        for fmt in (32, 64):
            for asz in (4, 8):
                for ver in (2, 3, 4, 5):
                    cfg = cfg_list(le, fmt, asz, ver)
                    sig = get_sig(ctx, cfg)
                    reqs, treqs = [], []
                    for op, name, kinds in sig:
                        if op not in (0x03, 0x9a, 0xa0, 0xf2):
                            continue
                        ctx.out.count('unitrows:%s ver%s asz=%d fmt=%d -> %s' % (name, '=2' if ver == 2 else '>=3', asz, fmt, kinds[0]))
                        pools = [arg_pool(k, rng, small=(k == 'sleb')) for k in kinds]
                        variants = [{'o': op, 'a': [a]} for a in pools[0]] if len(pools) == 1 else \
                            [{'o': op, 'a': [a, b]} for a in pools[0] for b in pools[1]]
                        for v in variants:
                            reqs.append([v])
                            reqs.append([{'o': 0x23, 'a': [{'t': 'uleb', 'n': 2, 'v': 300}]}, v, {'o': 0x0a, 'a': [{'t': 'u', 'v': 0x96a3}]}, nop])
                        treqs.append([nop, rng.choice(variants), nop])
                    check_ast(ctx, 'optable', cfg, reqs)
                    check_trunc(ctx, cfg, treqs)


def run_seq(ctx):
    rng = ctx.rng('seq')
    n = ctx.budget(700, 12000)
    maxlen = 40 if ctx.tier == 'quick' else 300
    maxdepth = 3 if ctx.tier == 'quick' else 5
    by_cfg = {}
    sigs = {}
    for _ in range(n):
        le, fmt, asz = rng.choice(CFGS)
        cfg = cfg_list(le, fmt, asz, rng.choice([2, 3, 4, 5]))
        key = tuple(cfg)
        if key not in sigs:
            sigs[key] = get_sig(ctx, cfg)
        r = rng.random()
        count = 0 if r < 0.02 else (rng.randrange(1, 6) if r < 0.4 else rng.randrange(1, maxlen + 1))
        ops = rnd_ops(rng, sigs[key], count, rng.randrange(0, maxdepth + 1), blob_cap=None if count < 60 else 64)
        if rng.random() < 0.15:
            # force a deep chain of nested blocks
            d = rng.randrange(1, maxdepth + 1)
            inner = rnd_ops(rng, sigs[key], rng.randrange(0, 3), 0, blob_cap=16)
            for _k in range(d):
                inner = [{'o': rng.choice([0xa3, 0xf3]), 'n': None, 'body': inner}] + rnd_ops(rng, sigs[key], rng.randrange(0, 2), 0, blob_cap=16)
            ops = ops[:len(ops) // 2] + inner + ops[len(ops) // 2:]
        fix_entry_lengths(ops, rng)
        ctx.out.count('seq:len<=%d' % (0 if not ops else 5 if len(ops) <= 5 else 40 if len(ops) <= 40 else 300))
        ctx.out.count('seq:depth=%d' % depth_of(ops))
        by_cfg.setdefault(key, []).append(ops)
    for key, reqs in by_cfg.items():
        check_ast(ctx, 'seq', list(key), reqs)


def run_raw(ctx):
    rng = ctx.rng('raw')
    items = []      # (cfg, data)
    n = ctx.budget(1500, 40000)
    sigs = {}
    for _ in range(n):
        le, fmt, asz = rng.choice(CFGS)
        cfg = cfg_list(le, fmt, asz, rng.choice([2, 3, 4, 5]))
        key = tuple(cfg)
        if key not in sigs:
            sigs[key] = get_sig(ctx, cfg)
        r = rng.random()
        if r < 0.3:
            data = rnd_bytes(rng, rng.choice([0, 1, 2, 3, 5, 8, 13, 30]))
            ctx.out.count('raw:random')
        else:
            ops = rnd_ops(rng, sigs[key], rng.randrange(1, 5), 2, blob_cap=20)
            fix_entry_lengths(ops, rng)
            rep = ctx.driver.ask({'p': 'C12', 'k': 'ast', 'cfg': cfg, 'ops': ops})
            data = bytes.fromhex(rep['bytes'])
            if r < 0.65 and data:
                data = data[:rng.randrange(0, len(data))]
                ctx.out.count('raw:truncated')
            elif data:
                i = rng.randrange(len(data))
                data = data[:i] + bytes([rng.choice([0, 1, 0x7f, 0x80, 0xff, rng.randrange(256)])]) + data[i + 1:]
                ctx.out.count('raw:flipped')
        items.append((cfg, data))
    # every opcode byte alone and followed by 0xff bytes (unknown opcodes, range markers, truncated operands)
    cfg0 = cfg_list(True, 64, 8, 5)
    for op in range(256):
        for tail in (b'', b'\x04', b'\xff\xff', b'\x83\x00\x96\x96\x96'):
            items.append((cfg0, bytes([op]) + tail))
            ctx.out.count('raw:opcode-sweep')
    replies = ask_sized(ctx, [{'p': 'C12', 'k': 'raw', 'cfg': cfg, 'hex': hx(data)} for cfg, data in items])
    for (cfg, data), m in zip(items, replies):
        if 'fatal' in m:
            raise RuntimeError('driver: %s' % m['fatal'])
        impl = run_impl(lambda: impl_parse(cfg, data))
        case = {'cfg': cfg, 'hex': hx(data)}
        ctx.out.case(case)
        if impl != m['model']:
            ctx.out.violation('correspondence', 'raw', case, got=impl, model=m['model'])


# ----------------------------------------------------------------------------- expressions where they occur (C12 x C04)
EXPR_BLOCK_FORMS = {0x18: 'DW_FORM_exprloc', 0x09: 'DW_FORM_block', 0x0a: 'DW_FORM_block1', 0x03: 'DW_FORM_block2',
                    0x04: 'DW_FORM_block4'}
BLOCK_CAP = {0x0a: 255, 0x03: 65535, 0x04: 1 << 20, 0x18: 1 << 20, 0x09: 1 << 20}
DECOY_AT = [0x1c, 0x03, 0x2300, 0x3fff, 0x58, 0x1234567]      # const_value, name, vendor / unknown numbers, call_file
LEAF_TAGS = [0x34, 0x05, 0x0d, 0x48, 0x4109, 0x21, 0x410a, 0x0b]
_exprclass = {}


def expr_class(ctx):
    if not _exprclass:
        r = ctx.driver.ask({'p': 'C12', 'k': 'exprclass'})
        if 'fatal' in r:
            raise RuntimeError('driver: %s' % r['fatal'])
        _exprclass['at'] = [n for n, _ in r['at']]
        _exprclass['names'] = set(s for _, s in r['at'])
        _exprclass['block_forms'] = set(r['block_forms'])
    return _exprclass


def is_expr_attr(ec, name, form, ver):
    """the client's selection, the standard's rule (Spec.C12.isExprAttr): DW_FORM_exprloc always; before DWARF 4 a
    block form on an attribute of class exprloc"""
    if form == 'DW_FORM_exprloc':
        return True
    return ver < 4 and form in ec['block_forms'] and isinstance(name, str) and name in ec['names']


def mk_dwarfinfo(le, dasz, info, abbrev, types):
    from elftools.dwarf.dwarfinfo import DWARFInfo, DwarfConfig, DebugSectionDescriptor

    def d(name, b):
        if b is None:
            return None
        return DebugSectionDescriptor(stream=io.BytesIO(b), name=name, global_offset=0, size=len(b), address=0)
    return DWARFInfo(
        config=DwarfConfig(little_endian=le, machine_arch='x64', default_address_size=dasz),
        debug_info_sec=d('.debug_info', info), debug_aranges_sec=None, debug_abbrev_sec=d('.debug_abbrev', abbrev),
        debug_frame_sec=None, eh_frame_sec=None, debug_str_sec=None, debug_loc_sec=None,
        debug_ranges_sec=None, debug_line_sec=None, debug_pubtypes_sec=None, debug_pubnames_sec=None,
        debug_addr_sec=None, debug_str_offsets_sec=None, debug_line_str_sec=None, debug_loclists_sec=None,
        debug_rnglists_sec=None, debug_sup_sec=None, gnu_debugaltlink_sec=None,
        debug_types_sec=d('.debug_types', types))


def fresh_parser(cu):
    from elftools.dwarf.dwarf_expr import DWARFExprParser
    return DWARFExprParser(cu.structs)


def cached_parser(cu):
    """the parser the library itself caches per structs object: `describe_DWARF_expr` creates / reuses the entry of
    `_DWARF_EXPR_DUMPER_CACHE` for `cu.structs` (the empty expression describes to '()'), whose `expr_parser` is the
    `DWARFExprParser` every later description of an expression of that unit is parsed with"""
    from elftools.dwarf import descriptions as D
    used = []
    orig = D.ExprDumper.dump_expr

    def recording(self, expr, cu_offset=None):
        used.append(self)
        return orig(self, expr, cu_offset)
    D.ExprDumper.dump_expr = recording
    try:
        D.describe_DWARF_expr([], cu.structs, cu.cu_offset)
    finally:
        D.ExprDumper.dump_expr = orig
    if len(used) != 1:
        raise RuntimeError('describe_DWARF_expr used %d dumpers' % len(used))
    return used[0].expr_parser        # the dumper the library's cache handed out for this structs object


def impl_walk(ec, le, dasz, info, abbrev, types, parser_of):
    """{'info': ..., 'types': ...}: per unit, per entry, [offset, ops] of the selected attributes"""
    di = mk_dwarfinfo(le, dasz, info, abbrev, types)
    out = {}
    for key, it in (('info', di.iter_CUs), ('types', di.iter_TUs)):
        def walk():
            units = []
            for cu in it():
                ver = cu['version']
                dies = list(cu.iter_DIEs())
                parser = parser_of(cu)
                rows = []
                for die in dies:
                    row = []
                    for attr in die.attributes.values():
                        if is_expr_attr(ec, attr.name, attr.form, ver):
                            row.append([attr.offset, canon_ops(parser.parse_expr(attr.value))])
                    rows.append(row)
                units.append(rows)
            return units
        out[key] = run_impl(walk)
    return out


def gen_specs(rng, ec):
    """attribute specifications of one declaration: distinct names; (name, form, role)"""
    n = rng.choice([1, 1, 2, 2, 3, 4])
    specs, used = [], set()
    for _ in range(n):
        r = rng.random()
        if r < 0.5:
            name = rng.choice(ec['at'])
            form = rng.choice([0x18, 0x18, 0x0a, 0x0a, 0x03, 0x04, 0x09, 0x16])
        elif r < 0.7:
            name = rng.choice(DECOY_AT)
            form = rng.choice([0x18, 0x0a, 0x03, 0x09, 0x16])
        elif r < 0.8:
            name = rng.choice(ec['at'])            # an expression-class NAME in a constant form: not an expression
            form = rng.choice([0x0b, 0x0f])
        else:
            name, form = rng.choice([(0x03, 0x08), (0x3e, 0x0b), (0x3a, 0x0f), (0x3b, 0x0b)])
        if name in used:
            continue
        used.add(name)
        specs.append({'name': name, 'form': form, 'nl': uleb_minlen(name) + rng.choice([0, 0, 1]), 'fl': rng.choice([1, 1, 2])})
    return specs


def gen_attr(rng, ec, spec, cfg, sig, exprs):
    """one attribute value; expression payloads are recorded in `exprs` as (cfg, ops) and filled in later"""
    form = spec['form']
    ind = None
    if form == 0x16:
        form = rng.choice([0x18, 0x0a, 0x09, 0x03])
        ind = [rng.choice([1, 1, 2])] if rng.random() < 0.8 else [1, rng.choice([1, 2])]
    a = {'form': form}
    if ind:
        a['ind'] = ind
    ver = cfg[3]
    if form in EXPR_BLOCK_FORMS:
        selected = form == 0x18 or (ver < 4 and spec['name'] in ec['at'])
        if selected or rng.random() < 0.3:
            r = rng.random()
            count = 0 if r < 0.05 else rng.randrange(1, 4) if r < 0.7 else rng.randrange(1, 9)
            ops = rnd_ops(rng, sig, count, rng.randrange(0, 3), blob_cap=24)
            if rng.random() < 0.5:
                # operands whose width depends on the unit: address, references (kinds from the Spec's signature)
                opc = rng.choice([0x03, 0x9a, 0xa0, 0xf2])
                kinds = next(r[2] for r in sig if r[0] == opc)
                ops.insert(rng.randrange(0, len(ops) + 1), {'o': opc, 'a': [rnd_arg(k, rng) for k in kinds]})
            fix_entry_lengths(ops, rng)
            a['_expr'] = len(exprs)
            exprs.append((cfg, ops))
        else:
            a['_bytes'] = rnd_bytes(rng, rng.choice([0, 1, 2, 5, 9]))
    elif form == 0x08:
        a['op'] = ['str', hx(bytes(rng.randrange(1, 256) for _ in range(rng.randrange(0, 6))))]
    elif form == 0x0b:
        a['op'] = ['nat', rng.randrange(256)]
    elif form == 0x0f:
        v = rnd_uint(rng, rng.choice([7, 14, 32]))
        a['op'] = ['uleb', uleb_minlen(v) + rng.choice([0, 0, 1]), v]
    else:
        raise KeyError(form)
    return a


def gen_node(rng, ec, decls, code, cfg, sig, exprs, depth):
    d = next(x for x in decls if x['code'] == code)
    node = {'code': code, 'attrs': [gen_attr(rng, ec, s, cfg, sig, exprs) for s in d['specs']], 'kids': []}
    if d['children'] and depth < 2:
        for _ in range(rng.choice([0, 1, 2])):
            node['kids'].append(gen_node(rng, ec, decls, rng.choice([x['code'] for x in decls if x['code'] != 1]), cfg, sig, exprs, depth + 1))
    if rng.random() < 0.1:
        node['nl'] = 2
    return node


def gen_info_case(ctx, rng, ec, sigs):
    le = rng.random() < 0.5
    tables = []
    for _t in range(rng.choice([1, 1, 2])):
        decls = [{'code': 1, 'tag': 0x11, 'children': True, 'specs': gen_specs(rng, ec) if rng.random() < 0.3 else []}]
        for code in range(2, 2 + rng.randrange(2, 6)):
            tag = rng.choice(LEAF_TAGS)
            decls.append({'code': code, 'tag': tag, 'tl': uleb_minlen(tag), 'children': rng.random() < 0.3, 'specs': gen_specs(rng, ec)})
        tables.append({'decls': decls, 'gap': hx(rnd_bytes(rng, rng.choice([0, 0, 3]))), 'end_len': rng.choice([1, 1, 2])})
    exprs = []
    units, tus = [], []
    shapes = [(f, a) for f in (32, 64) for a in (4, 8)]
    rng.shuffle(shapes)
    for which, lst, n in (('info', units, rng.choice([1, 2, 2, 3, 4])), ('types', tus, rng.choice([0, 0, 1, 2]))):
        for k in range(n):
            fmt, asz = shapes[(k + len(units)) % 4] if rng.random() < 0.8 else rng.choice(shapes)
            ver = rng.choice([2, 3, 4, 5]) if which == 'info' else rng.choice([4, 4, 3, 2, 5])
            cfg = cfg_list(le, fmt, asz, ver)
            key = tuple(cfg)
            if key not in sigs:
                sigs[key] = get_sig(ctx, cfg)
            ti = rng.randrange(len(tables))
            decls = tables[ti]['decls']
            top = {'code': 1, 'attrs': [gen_attr(rng, ec, s, cfg, sigs[key], exprs) for s in decls[0]['specs']], 'kids': []}
            for _ in range(rng.choice([1, 2, 3, 5])):
                top['kids'].append(gen_node(rng, ec, decls, rng.choice([x['code'] for x in decls[1:]]), cfg, sigs[key], exprs, 1))
            u = {'fmt64': fmt == 64, 'version': ver, 'asz': asz, 'table': ti, 'tree': top, 'id8': rnd_uint(rng, 64), 'type_off': 0}
            if which == 'info' and ver == 5:
                u['utype'] = rng.choice([1, 1, 1, 2, 3, 4, 5, 6])
            lst.append(u)
            ctx.out.count('info:unit fmt=%d asz=%d ver=%d' % (fmt, asz, ver))
    return {'le': le, 'dasz': rng.choice([4, 8]), 'abbrevs': tables, 'units': units, 'tus': tus, '_exprs': exprs}


def fill_exprs(case, enc):
    """replace the expression / garbage placeholders by operands; `enc[i]` = bytes of expression i.  An expression too
    long for its form's length field is replaced by the empty expression."""
    used = []

    def fill(node):
        for a in node['attrs']:
            if '_expr' in a or '_bytes' in a:
                if '_expr' in a:
                    i = a.pop('_expr')
                    b = enc[i]
                    if len(b) > BLOCK_CAP[a['form']]:
                        b = b''
                        used.append((case['_exprs'][i][0], []))
                    else:
                        used.append(case['_exprs'][i])
                else:
                    b = a.pop('_bytes')
                if a['form'] in (0x18, 0x09):
                    a['op'] = ['blocku', uleb_minlen(len(b)) + (1 if len(b) % 7 == 3 else 0), hx(b)]
                else:
                    a['op'] = ['block', hx(b)]
        for k in node['kids']:
            fill(k)
    for u in case['units'] + case['tus']:
        fill(u['tree'])
    del case['_exprs']
    case['exprs'] = [{'cfg': c, 'ops': o} for c, o in used]


def info_request(case, pc):
    rq = {'p': 'C12', 'k': 'info', 'pc': pc}
    rq.update(case)
    return rq


def preload_cache(pc):
    """disturbance, replayable: before the observed walk, let the library's per-structs cache serve units of the
    configurations `pc` (the same list the model's cache is pre-loaded with)"""
    from elftools.dwarf.structs import DWARFStructs
    from elftools.dwarf import descriptions as D
    for le, fmt, asz, ver in pc:
        D.describe_DWARF_expr([0x96], DWARFStructs(little_endian=le, dwarf_format=fmt, address_size=asz, dwarf_version=ver), 0)


def judge_info(ctx, stream, case, pc, r, ec):
    """run the real library on the sections of reply `r`; returns the list of violations (kind, parser, impl)"""
    info, abbrev = bytes.fromhex(r['info']), bytes.fromhex(r['abbrev'])
    types = bytes.fromhex(r['types']) if case['tus'] else None
    bad = []
    preload_cache(pc)
    for label, parser_of in (('cached', cached_parser), ('fresh', fresh_parser)):
        impl = impl_walk(ec, case['le'], case['dasz'], info, abbrev, types, parser_of)
        if r['wf'] and impl != r['expect']:
            bad.append(('property', label, impl))
        elif impl != r['model']:
            bad.append(('correspondence', label, impl))
    return bad


def run_info(ctx):
    rng = ctx.rng('info')
    ec = expr_class(ctx)
    n = ctx.budget(400, 8000)
    sigs = {}
    all_cfgs = [cfg_list(le, fmt, asz, ver) for le in (True, False) for fmt in (32, 64) for asz in (4, 8) for ver in (2, 3, 4, 5)]
    chunk = 20
    done = 0
    while done < n and ctx.time_left() > 12:
        cases = [gen_info_case(ctx, rng, ec, sigs) for _ in range(min(chunk, n - done))]
        done += len(cases)
        # encode every expression with the Spec assembler
        asks = [{'p': 'C12', 'k': 'ast', 'cfg': cfg, 'ops': ops} for c in cases for cfg, ops in c['_exprs']]
        reps = ask_sized(ctx, asks)
        k = 0
        for c in cases:
            m = len(c['_exprs'])
            for rep in reps[k:k + m]:
                if 'fatal' in rep:
                    raise RuntimeError('driver: %s' % rep['fatal'])
            fill_exprs(c, [bytes.fromhex(rep['bytes']) for rep in reps[k:k + m]])
            k += m
        pcs = [rng.sample(all_cfgs, rng.choice([0, 1, 3, 8])) for _ in cases]
        replies = ask_sized(ctx, [info_request(c, pc) for c, pc in zip(cases, pcs)])
        for c, pc, r in zip(cases, pcs, replies):
            if 'fatal' in r:
                raise RuntimeError('driver: %s on %s' % (r['fatal'], json.dumps(c)[:300]))
            ctx.out.count('info:selected-attrs', r['selected'])
            ctx.out.count('info:units', len(c['units']))
            ctx.out.count('info:type-units', len(c['tus']))
            if not r['wf']:
                ctx.out.count('info:not-wf' if r['wf_forest'] else 'info:not-wf-forest')
            ctx.out.case({'info': r['info'], 'abbrev': r['abbrev'], 'types': r['types']}, nontrivial=r['selected'] > 0)
            for kind, label, impl in judge_info(ctx, 'info', c, pc, r, ec):
                ctx.out.violation(kind, 'info', {'req': c, 'pc': pc, 'parser': label}, expect=r['expect'] if r['wf'] else None,
                                  got=impl, model=r['model'])
                break


# ----------------------------------------------------------------------------- truncated expressions
def check_trunc(ctx, cfg, reqs):
    """reqs: op lists; every proper prefix of the encoding against Props/C12 `truncated_expr` and the model"""
    out = ctx.out
    replies = ask_sized(ctx, [{'p': 'C12', 'k': 'trunc', 'cfg': cfg, 'ops': ops} for ops in reqs], cap=8000)
    for ops, r in zip(reqs, replies):
        if 'fatal' in r:
            raise RuntimeError('driver: %s on %s' % (r['fatal'], json.dumps(ops)[:300]))
        if not r['wf']:
            out.count('trunc:not-wf')
            continue
        data = bytes.fromhex(r['bytes'])
        for k, cut in enumerate(r['cuts']):
            impl = run_impl(lambda: impl_parse(cfg, data[:k]))
            out.case({'cfg': cfg, 'bytes': r['bytes'], 'k': k})
            out.count('trunc:cut-between-ops' if 'ok' in cut['expect'] else 'trunc:cut-inside-op')
            case = {'cfg': cfg, 'ops': ops, 'k': k}
            if impl != cut['expect']:
                out.violation('property', 'trunc', case, expect=cut['expect'], got=impl, model=cut['model'])
                break
            if impl != cut['model']:
                out.violation('correspondence', 'trunc', case, got=impl, model=cut['model'])
                break


def small_variant(rng, kinds, op):
    """one operand choice per kind that keeps the encoding short (every byte of it is a cut point)"""
    if kinds == ['expr']:
        body, n = rng.choice(body_pool(rng)[:7])
        return {'o': op, 'n': n, 'body': body}
    args = []
    for k in kinds:
        pool = [a for a in arg_pool(k, rng) if len(a.get('b', '')) <= 16]
        args.append(rng.choice(pool))
    return {'o': op, 'a': args}


def run_trunc(ctx):
    rng = ctx.rng('trunc')
    nop = {'o': 0x96, 'a': []}
    # every row of the operation table, cut at every byte, behind a complete operation
    for i, (le, fmt, asz) in enumerate(CFGS):
        if ctx.tier == 'quick' and i % 2 != ctx.seed % 2:
            continue
        cfg = cfg_list(le, fmt, asz, 2 + ((i + 1) % 4))
        sig = get_sig(ctx, cfg)
        reqs = []
        for op, name, kinds in sig:
            if not kinds and rng.random() < 0.8:
                continue
            ctx.out.count('trunc:row:%s' % ('+'.join(kinds) if kinds else 'noargs'))
            reqs.append([{'o': 0x08, 'a': [{'t': 'u', 'v': 0x96}]}, small_variant(rng, kinds, op), nop])
        check_trunc(ctx, cfg, reqs)
    # random sequences with nesting
    n = ctx.budget(300, 6000)
    by_cfg, sigs = {}, {}
    for _ in range(n):
        le, fmt, asz = rng.choice(CFGS)
        cfg = cfg_list(le, fmt, asz, rng.choice([2, 3, 4, 5]))
        key = tuple(cfg)
        if key not in sigs:
            sigs[key] = get_sig(ctx, cfg)
        ops = rnd_ops(rng, sigs[key], rng.randrange(1, 6), rng.randrange(0, 4), blob_cap=10)
        if rng.random() < 0.4:
            # a chain of nested blocks: cuts inside the length field and the body at every depth
            inner = rnd_ops(rng, sigs[key], rng.randrange(0, 3), 0, blob_cap=6)
            for _k in range(rng.randrange(1, 4)):
                inner = [{'o': rng.choice([0xa3, 0xf3]), 'n': None, 'body': inner}] + rnd_ops(rng, sigs[key], rng.randrange(0, 2), 0, blob_cap=6)
            ops = ops[:1] + inner + ops[1:3]
        fix_entry_lengths(ops, rng)
        if sum(op_len_estimate(o) for o in ops) > 120:
            ctx.out.count('trunc:skipped-long')
            continue
        ctx.out.count('trunc:seq depth=%d' % depth_of(ops))
        by_cfg.setdefault(key, []).append(ops)
    for key, reqs in by_cfg.items():
        check_trunc(ctx, list(key), reqs)


def run(ctx):
    run_table(ctx)
    run_unit_rows(ctx)
    run_seq(ctx)
    run_raw(ctx)
    run_trunc(ctx)
    run_info(ctx)


def replay(ctx, payload):
    v = payload['violation']
    case = v['case']
    if v['stream'] == 'info':
        ec = expr_class(ctx)
        r = ctx.driver.ask(info_request(case['req'], case['pc']))
        bad = judge_info(ctx, 'info', case['req'], case['pc'], r, ec)
        return {'stream': 'info', 'wf': r.get('wf'), 'expect': r.get('expect'), 'model': r.get('model'),
                'impl': [[k, l, i] for k, l, i in bad], 'fails': bool(bad)}
    cfg = case['cfg']
    res = {'stream': v['stream'], 'case': case}
    if v['stream'] == 'trunc':
        r = ctx.driver.ask({'p': 'C12', 'k': 'trunc', 'cfg': cfg, 'ops': case['ops']})
        data = bytes.fromhex(r['bytes'])
        cut = r['cuts'][case['k']]
        impl = run_impl(lambda: impl_parse(cfg, data[:case['k']]))
        res.update(bytes=r['bytes'][:2 * case['k']], wf=r['wf'], impl=impl, expect=cut['expect'], model=cut['model'],
                   fails=(r['wf'] and impl != cut['expect']) or impl != cut['model'])
        return res
    if v['stream'] == 'raw':
        data = bytes.fromhex(case['hex'])
        impl = run_impl(lambda: impl_parse(cfg, data))
        m = ctx.driver.ask({'p': 'C12', 'k': 'raw', 'cfg': cfg, 'hex': case['hex']})
        res.update(impl=impl, model=m.get('model'), fails=(impl != m.get('model')))
    else:
        r = ctx.driver.ask({'p': 'C12', 'k': 'ast', 'cfg': cfg, 'ops': case['ops']})
        data = bytes.fromhex(r['bytes'])
        impl = run_impl(lambda: impl_parse(cfg, data))
        bad = (impl != {'ok': r['expect']}) if r['wf'] else False
        res.update(bytes=r['bytes'], wf=r['wf'], impl=impl, expect=r['expect'], model=r['model'],
                   fails=bad or impl != r['model'])
    return res
