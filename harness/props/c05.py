"""C05 — DWARF line-number programs.  Streams:

  sec   : a whole .debug_line section as an abstract object (1..4 units: header v2..v5 with every parameter,
          tables / v5 entry formats, and an instruction list) -> bytes from the Lean SPEC ENCODER; a .debug_info with
          one CU per query whose DW_AT_stmt_list designates a unit (some CUs repeat a unit, some have no stmt_list);
          the REAL library is driven through DWARFInfo.iter_CUs / line_program_for_CU / LineProgram.get_entries
          (a fraction through ELFFile.get_dwarf_info on an ELF image).  Compared with what the standard's state machine
          (Lean Spec.Line.stdRun) and the encoded header prescribe (property) and with the Lean model (correspondence).
  edge  : the same, concentrated on what the fourth wave added: extension bytes between the header tables and the
          program (header_length larger than the known fields; the bytes look like opcodes), and the boundary values of
          minimum_instruction_length / maximum_operations_per_instruction / line_range (0, 1, 255) with short programs rich
          in special opcodes, advance_pc and const_add_pc.  With a zero divisor the unit is outside the property's domain:
          the Lean theorems (line_rows_eq_std_ext / line_zero_division) predict rows or ZeroDivisionError, the prediction
          is checked against the model and the model against the library.
  raw   : the same sections with bytes flipped / truncated -> real library vs model, errors included.
  info  : END TO END FROM SECTION BYTES (seventh wave).  A whole DWARF description: abbreviation tables and 1..5 units of
          .debug_info (versions 2..5, both formats, address sizes; a top entry with several attributes, children, DW_AT_stmt_list
          in DW_FORM_sec_offset / data4 / data8, also behind DW_FORM_indirect, at any position) as a C04 forest, and a .debug_line
          of 1..3 programs with gaps; .debug_info / .debug_abbrev / .debug_line all come from the Lean SPEC ENCODERS.  Units
          name programs in any order, share them, have no DW_AT_stmt_list, or (rarely) one beyond the section / in another
          form / of another address size.  The REAL library: DWARFInfo.iter_CUs x line_program_for_CU x get_entries, nothing
          handed in.  A quarter of the cases as a whole FILE: the sections stored in an ELF image plainly / gABI-compressed
          (random subset, levels 0..9) / in the legacy .zdebug framing, opened by ELFFile(...).get_dwarf_info(); there the
          library is also held to the whole-file model (C11's container model + Model/LineFile; Props/C05
          `line_programs_of_file`), zlib's answers recorded from the real module.  Compared with Props/C05 `line_programs_from_sections` (property, when the descriptions are well formed),
          `stmt_list_beyond_section` / `stmt_list_without_debug_line` (prediction about the model) and with the composed
          model Model/LineInfo (correspondence).
"""
import io, signal
from common import run_impl, canon, hx, rnd_uint, rnd_bytes, BOUNDARY
import elfbuild

RULE = ('sec: header parameters from boundary pools x uniform (opcode_base 1..255 incl. <10 and >13, line_range 0..255, '
        'line_base -128..127, min_inst 0..255, max_ops 0..255), version 2..5 x DWARF32/64 x address size 4/8 x byte order, '
        'header_length = known fields + 0..8 extension bytes, '
        'v5 entry formats over every (content type, allowed form) pair, programs of 0..400 instructions over all opcode kinds '
        'with padded LEB128 operands, several sequences, 1..4 units per section, repeated and absent stmt_list; '
        'edge: min_inst/max_ops/line_range in {0,1,255,...} x extension bytes x short dividing programs; '
        'raw: byte flips and truncations of those sections; '
        'info: forests of 1..5 units x 1..3 programs, DW_AT_stmt_list form sec_offset/data4/data8 (x indirect) at any attribute '
        'position, shared / absent / beyond-the-section / other-form / mismatching units, queried in iteration order or shuffled, '
        '25% through an ELF image (plain / gABI subset / .zdebug). '
        'Non-trivial = distinct (section bytes, query); every sec case '
        'parses a header and executes a program.')
ASSUMPTIONS = ['io.BytesIO read/seek/tell semantics (relative seek clamps at 0)', 'struct.unpack for <>BHIQbhiq',
               'sec/edge/raw: DIE/CU parsing (DWARFInfo.iter_CUs, CU.get_top_DIE, attribute .value) is only a fixture there; '
               'info: it is part of what is checked (model = C04\'s, theorem = Props/C05 line_programs_from_sections)',
               'copy.copy of a LineState is a snapshot',
               'info through a file: zlib.decompressobj().decompress is external, its answers are recorded from the real module '
               'during the run and handed to the model as a table (as in C11)']

KNOWN_LENS = [0, 1, 1, 1, 1, 0, 0, 0, 1, 0, 0, 1]
STD_NAMES = {1: 'copy', 2: 'advance_pc', 3: 'advance_line', 4: 'set_file', 5: 'set_column', 6: 'negate_stmt',
             7: 'set_basic_block', 8: 'const_add_pc', 9: 'fixed_advance_pc', 10: 'set_prologue_end',
             11: 'set_epilogue_begin', 12: 'set_isa'}
# content type -> allowed form codes (DWARF 5 §6.2.4.1)
LNCT_FORMS = {1: [0x08, 0x1f, 0x0e, 0x1d], 2: [0x0b, 0x05, 0x0f], 3: [0x0f, 0x06, 0x07, 0x09],
              4: [0x0f, 0x0b, 0x05, 0x06, 0x07], 5: [0x1e]}
FIXED = {0x0b: 1, 0x05: 2, 0x06: 4, 0x07: 8}


def ulen(v):
    return max(1, (v.bit_length() + 6) // 7)


def slen(v):
    n = 1
    while not (-(1 << (7 * n - 1)) <= v < (1 << (7 * n - 1))):
        n += 1
    return n


PAD = [0, 0, 0, 0, 1, 2, 4]


def leb(rng, bits=None, v=None):
    if v is None:
        v = rnd_uint(rng, bits if bits is not None else rng.choice([7, 7, 14, 32, 64]))
    return [v, ulen(v) + rng.choice(PAD)]


def name(rng, lo=1):
    ln = rng.choice([lo, 1, 2, 3, 5, 8, 63, 64, 65]) if rng.random() < 0.3 else rng.randrange(lo, 9)
    return bytes(rng.randrange(1, 256) for _ in range(max(ln, lo)))


# ----------------------------------------------------------------------------- generators
def gen_strsec(rng):
    """A string section and interesting offsets into it."""
    data = bytearray()
    offs = []
    for _ in range(rng.randrange(1, 6)):
        s = name(rng, 0) if rng.random() < 0.9 else b''
        offs.append(len(data))
        if s and rng.random() < 0.3:
            offs.append(len(data) + rng.randrange(len(s) + 1))     # mid-string / at the NUL
        data += s + b'\0'
    return bytes(data), offs


def gen_field(rng, fc, secs, fmt64, offs):
    if fc == 0x08:
        return ['str', hx(name(rng, 0))]
    if fc in (0x1f, 0x0e, 0x1d):
        key = {0x1f: 'line_str', 0x0e: 'str', 0x1d: 'sup_str'}[fc]
        pool = offs.get(key) or [0]
        return ['ref', rng.choice(pool)]
    if fc in FIXED:
        return ['fixed', rnd_uint(rng, 8 * FIXED[fc])]
    if fc == 0x0f:
        v, n = leb(rng)
        return ['udata', v, n]
    if fc == 0x1e:
        return ['data16', hx(rnd_bytes(rng, 16))]
    if fc == 0x09:
        b = rnd_bytes(rng, rng.choice([0, 1, 4, 8, 127, 128]))
        return ['block', ulen(len(b)) + rng.choice(PAD), hx(b)]
    raise KeyError(fc)


def gen_fmt(rng, is_dir):
    cts = [1]
    extra = [2, 3, 4, 5]
    rng.shuffle(extra)
    k = rng.choice([0, 0, 1]) if is_dir else rng.choice([0, 1, 2, 3, 4])
    cts += extra[:k]
    rng.shuffle(cts)
    return [[ct, rng.choice(LNCT_FORMS[ct])] for ct in cts]


def gen_header(rng, le, fmt64, asz, offs, out, edge=False):
    ver = rng.choice([2, 3, 4, 5]) if not edge else rng.choice([2, 4, 4, 5, 5])
    opcode_base = rng.choice([13, 13, 13, 13, 10, 1, 2, 4, 9, 12, 14, 17, 20, 255, rng.randrange(1, 256)])
    std_lens = (KNOWN_LENS + [rng.choice([0, 0, 1, 1, 2, 3]) for _ in range(opcode_base)])[:opcode_base - 1]
    if rng.random() < 0.03 and std_lens:
        std_lens[rng.randrange(len(std_lens))] = rng.randrange(0, 4)       # maybe non-standard: set aside by wf
    h = {
        'version': ver, 'fmt64': fmt64, 'le': le, 'asz': asz, 'seg_sel': rng.choice([0, 0, 0, 1, 4, 255]),
        'min_inst': rng.choice([1, 1, 1, 2, 4, 8, 0, 255, rng.randrange(256)]),
        'max_ops': (rng.choice([1, 1, 1, 2, 3, 4, 8, 255, rng.randrange(1, 256)]) if ver >= 4 else 1),
        'default_is_stmt': rng.choice([0, 1, 1, 1, 2, 255]),
        'line_base': rng.choice([-5, -5, -3, -1, 0, 1, -128, 127, rng.randrange(-128, 128)]),
        'line_range': rng.choice([14, 14, 12, 1, 255, 10, 4, rng.randrange(1, 256)]),
        'opcode_base': opcode_base, 'std_lens': std_lens,
        'include_dirs': [], 'files': [], 'dir_fmt': [], 'dirs': [], 'file_fmt': [], 'file_names': [],
    }
    if edge:
        h['min_inst'] = rng.choice([0, 0, 1, 255, 255, 2, rng.randrange(256)])
        if ver >= 4:
            h['max_ops'] = rng.choice([0, 0, 1, 1, 255, 255, 2, rng.randrange(256)])
        h['line_range'] = rng.choice([0, 0, 1, 255, 14, 14, rng.randrange(256)])
    else:
        # rarely a zero divisor in the ordinary stream too (outside the property's domain: prediction + correspondence)
        if ver >= 4 and rng.random() < 0.02:
            h['max_ops'] = 0
        if rng.random() < 0.02:
            h['line_range'] = 0
    if ver >= 5:
        h['dir_fmt'] = gen_fmt(rng, True)
        h['file_fmt'] = gen_fmt(rng, False)
        h['dirs'] = [[gen_field(rng, fc, None, fmt64, offs) for _, fc in h['dir_fmt']] for _ in range(rng.choice([1, 1, 2, 3]))]
        h['file_names'] = [[gen_field(rng, fc, None, fmt64, offs) for _, fc in h['file_fmt']] for _ in range(rng.choice([1, 1, 2, 4]))]
        if rng.random() < 0.03:
            h[rng.choice(['dirs', 'file_names'])] = []                      # not wf: the tables have a first entry
        for _, fc in h['dir_fmt'] + h['file_fmt']:
            out.count('form:%#x' % fc)
    else:
        h['include_dirs'] = [hx(name(rng)) for _ in range(rng.choice([0, 1, 1, 2, 3]))]
        h['files'] = [[hx(name(rng)), leb(rng), leb(rng), leb(rng)] for _ in range(rng.choice([0, 1, 1, 2, 4]))]
    out.count('ver:%d' % ver)
    out.count('opcode_base:%s' % ('<10' if opcode_base < 10 else '10..13' if opcode_base <= 13 else '>13'))
    out.count('max_ops:%s' % ('0' if h['max_ops'] == 0 else '1' if h['max_ops'] == 1 else '255' if h['max_ops'] == 255 else '>1'))
    out.count('min_inst:%s' % ('0' if h['min_inst'] == 0 else '255' if h['min_inst'] == 255 else 'other'))
    out.count('line_range:%s' % ('0' if h['line_range'] == 0 else '1' if h['line_range'] == 1 else '255' if h['line_range'] == 255 else 'other'))
    return h


def gen_instr(rng, h, kinds, out):
    k = rng.choice(kinds)
    out.count('op:' + k)
    ob = h['opcode_base']
    if k == 'special':
        return ['special', rng.randrange(ob, 256) if rng.random() < 0.8 else rng.choice([ob, 255])]
    if k in ('copy', 'negate_stmt', 'set_basic_block', 'const_add_pc', 'set_prologue_end', 'set_epilogue_begin'):
        return [k]
    if k in ('advance_pc', 'set_file', 'set_column', 'set_isa'):
        v, n = leb(rng, rng.choice([3, 7, 7, 14, 32, 64, 70]))
        return [k, v, n]
    if k == 'advance_line':
        bits = rng.choice([4, 7, 7, 14, 32, 64])
        v = rnd_uint(rng, bits) - (1 << (bits - 1))
        return [k, v, slen(v) + rng.choice(PAD)]
    if k == 'fixed_advance_pc':
        return [k, rnd_uint(rng, 16)]
    if k == 'unknown_std':
        op = rng.randrange(13, ob)
        return [k, op, [leb(rng) for _ in range(h['std_lens'][op - 1])]]
    if k == 'end_sequence':
        return [k, 1 + rng.choice(PAD)]
    if k == 'set_address':
        return [k, ulen(1 + h['asz']) + rng.choice(PAD), rnd_uint(rng, 8 * h['asz'])]
    if k == 'define_file':
        nm = name(rng)
        d, m, l = leb(rng), leb(rng), leb(rng)
        ln = 1 + len(nm) + 1 + d[1] + m[1] + l[1]
        return [k, ulen(ln) + rng.choice(PAD), hx(nm), d, m, l]
    if k == 'set_discriminator':
        v, n = leb(rng)
        return [k, ulen(1 + n) + rng.choice(PAD), v, n]
    if k == 'unknown_ext':
        op = rng.choice([0, 5, 6, 0x7f, 0x80, 0x81, 0xff, rng.randrange(5, 256)])
        payload = rnd_bytes(rng, rng.choice([0, 0, 1, 2, 3, 8, 126, 127, 128]))
        return [k, ulen(1 + len(payload)) + rng.choice(PAD), op, hx(payload)]
    raise KeyError(k)


def gen_program(rng, h, n, out, edge=False):
    ob = h['opcode_base']
    kinds = ['special'] * 6
    if edge:
        # few dividing instructions, so that programs that never divide (and prefixes that do not) are common
        kinds = ['special'] * rng.choice([0, 0, 1, 3])
        for code, nm in ((2, 'advance_pc'), (8, 'const_add_pc')):
            if code < ob:
                kinds += [nm] * rng.choice([0, 0, 1, 2])
        kinds += ['copy'] * (2 if ob > 1 else 0)
    for code, nm in STD_NAMES.items():
        if code < ob:
            kinds += [nm] * (2 if nm in ('copy', 'advance_pc', 'const_add_pc', 'fixed_advance_pc', 'advance_line') else 1)
    if ob > 13:
        kinds += ['unknown_std'] * 2
    kinds += ['end_sequence', 'set_address', 'set_address', 'set_discriminator', 'unknown_ext']
    if h['version'] <= 4:
        kinds += ['define_file']
    elif rng.random() < 0.02:
        kinds += ['define_file']          # reserved in v5: not wf
    prog = [gen_instr(rng, h, kinds, out) for _ in range(n)]
    if n and rng.random() < 0.8:
        prog.append(['end_sequence', 1])
    return prog


def gen_ext(rng, edge):
    """Bytes between the last header table and the program, covered by header_length (DWARF 6.2.4: the program starts
    header_length bytes past the field).  They look like opcodes, so executing them shows."""
    if rng.random() >= (0.6 if edge else 0.2):
        return b''
    n = rng.choice([1, 1, 2, 3, 4, 8])
    pool = [0x01, 0x01, 0x00, 0x02, 0x03, 0x08, 0x09, 0x0d, 0x4b, 0xff, 0x80]
    return bytes(rng.choice(pool) if rng.random() < 0.8 else rng.randrange(256) for _ in range(n))


def gen_section(ctx, rng, edge=False):
    out = ctx.out
    le = rng.random() < 0.5
    fmt64 = rng.random() < 0.3
    asz = rng.choice([4, 8])
    line_str, lo = gen_strsec(rng)
    strsec, so = gen_strsec(rng)
    sup_present = rng.random() < 0.85
    sup_str, uo = gen_strsec(rng)
    offs = {'line_str': lo, 'str': so, 'sup_str': uo}
    units = []
    for _ in range(rng.choice([1, 1, 2, 3, 4]) if not edge else rng.choice([1, 2])):
        h = gen_header(rng, le, fmt64, asz, offs, out, edge)
        r = rng.random()
        if edge:
            n = 0 if r < 0.08 else rng.randrange(1, 10)
        else:
            n = 0 if r < 0.05 else rng.randrange(1, 12) if r < 0.6 else rng.randrange(12, 60) if r < 0.93 else rng.randrange(60, 401)
        ext = gen_ext(rng, edge)
        out.count('ext:%s' % ('0' if not ext else '>0'))
        units.append({'header': h, 'instrs': gen_program(rng, h, n, out, edge), 'ext': hx(ext),
                      'gap': hx(rnd_bytes(rng, rng.choice([0, 0, 0, 1, 3, 8])))})
    nq = len(units)
    queries = list(range(nq))
    rng.shuffle(queries)
    # a decode that raises half-way (zero divisor) leaves DW_LNE_define_file appends behind in the cached header, which
    # the model (a function of the bytes) does not reproduce: no second query on such sections
    zero = any(u['header']['max_ops'] == 0 or u['header']['line_range'] == 0 for u in units)
    if rng.random() < 0.4 and not zero:
        queries.append(rng.randrange(nq))              # a second CU sharing a line table: _linetable_cache
    cu_ver = rng.choice([2, 3, 4, 5])
    req = {'p': 'C05', 'k': 'sec', 'cfg': [le, 64 if fmt64 else 32, asz, cu_ver], 'units': units, 'queries': queries,
           'tail': hx(rnd_bytes(rng, rng.choice([0, 0, 2, 7]))),
           'secs': {'line_str': hx(line_str), 'str': hx(strsec), 'sup_present': sup_present, 'sup_str': hx(sup_str)}}
    # fixture-only choices (not seen by Lean)
    fx = {'absent_at': rng.randrange(len(queries) + 1) if rng.random() < 0.2 else None,
          'stmt_form': rng.choice(['sec_offset', 'data']), 'via_elf': rng.random() < 0.15}
    return req, fx


# ----------------------------------------------------------------------------- fixture: .debug_info / .debug_abbrev
def build_info(le, fmt64, asz, cu_ver, stmt_offsets, stmt_form):
    """One CU per entry of stmt_offsets (None = a CU without DW_AT_stmt_list)."""
    bo = 'little' if le else 'big'
    osz = 8 if fmt64 else 4
    if stmt_form == 'sec_offset' and cu_ver >= 4:
        form = 0x17
    else:
        form = 0x07 if fmt64 else 0x06       # DW_FORM_data8 / data4 (the pre-v4 encoding of a lineptr)
    # abbrev 1: compile_unit with stmt_list; abbrev 2: compile_unit with only a name
    abbrev = bytes([1, 0x11, 0, 0x10, form, 0, 0, 2, 0x11, 0, 0x03, 0x08, 0, 0, 0])
    info = bytearray()
    for off in stmt_offsets:
        if off is None:
            die = bytes([2]) + b'x\0'
        else:
            die = bytes([1]) + off.to_bytes({0x17: osz, 0x06: 4, 0x07: 8}[form], bo)
        if cu_ver >= 5:
            body = cu_ver.to_bytes(2, bo) + bytes([1, asz]) + (0).to_bytes(osz, bo) + die
        else:
            body = cu_ver.to_bytes(2, bo) + (0).to_bytes(osz, bo) + bytes([asz]) + die
        if fmt64:
            info += (0xffffffff).to_bytes(4, bo) + len(body).to_bytes(8, bo) + body
        else:
            info += len(body).to_bytes(4, bo) + body
    return bytes(info), abbrev


def make_dwarfinfo(le, asz, sections, sup):
    from elftools.dwarf.dwarfinfo import DWARFInfo, DebugSectionDescriptor, DwarfConfig

    def d(nm):
        b = sections.get(nm)
        if b is None:
            return None
        return DebugSectionDescriptor(stream=io.BytesIO(b), name=nm, global_offset=0, size=len(b), address=0)

    def mk(secs):
        def dd(nm):
            b = secs.get(nm)
            return None if b is None else DebugSectionDescriptor(stream=io.BytesIO(b), name=nm, global_offset=0, size=len(b), address=0)
        return DWARFInfo(config=DwarfConfig(little_endian=le, machine_arch='x64', default_address_size=asz),
                         debug_info_sec=dd('.debug_info'), debug_aranges_sec=None, debug_abbrev_sec=dd('.debug_abbrev'),
                         debug_frame_sec=None, eh_frame_sec=None, debug_str_sec=dd('.debug_str'), debug_loc_sec=None,
                         debug_ranges_sec=None, debug_line_sec=dd('.debug_line'), debug_pubtypes_sec=None,
                         debug_pubnames_sec=None, debug_addr_sec=None, debug_str_offsets_sec=None,
                         debug_line_str_sec=dd('.debug_line_str'), debug_loclists_sec=None, debug_rnglists_sec=None,
                         debug_sup_sec=None, gnu_debugaltlink_sec=None, debug_types_sec=None)
    di = mk(sections)
    if sup is not None:
        di.supplementary_dwarfinfo = mk({'.debug_str': sup})
    return di


def make_dwarfinfo_elf(le, asz, sections):
    from elftools.elf.elffile import ELFFile
    img = elfbuild.ElfImage(cls=64 if asz == 8 else 32, le=le, e_type=elfbuild.ET_EXEC,
                            e_machine=elfbuild.EM_X86_64 if asz == 8 else elfbuild.EM_386)
    for nm, b in sections.items():
        if b is not None:
            img.add_section(nm, elfbuild.SHT_PROGBITS, data=b)
    return ELFFile(io.BytesIO(img.build())).get_dwarf_info()


STATE_ATTRS = ['address', 'op_index', 'file', 'line', 'column', 'is_stmt', 'basic_block', 'end_sequence',
               'prologue_end', 'epilogue_begin', 'isa', 'discriminator']


def obs_state(s):
    if s is None:
        return None
    return {a: canon(getattr(s, a)) for a in STATE_ATTRS}


def run_library(cfg, data, secs, fx, stmt_offsets):
    """What the harness observes for each query, in order: [{'parse':…, 'decode':…}]."""
    le, fmt, asz, cu_ver = cfg
    info, abbrev = build_info(le, fmt == 64, asz, cu_ver, stmt_offsets, fx['stmt_form'])
    sections = {'.debug_info': info, '.debug_abbrev': abbrev, '.debug_line': data,
                '.debug_str': secs.get('str'), '.debug_line_str': secs.get('line_str')}
    if fx.get('via_elf'):
        di = make_dwarfinfo_elf(le, asz, sections)
        if secs.get('sup_present'):
            di.supplementary_dwarfinfo = make_dwarfinfo(le, asz, {'.debug_str': secs.get('sup_str')}, None)
    else:
        di = make_dwarfinfo(le, asz, sections, secs.get('sup_str') if secs.get('sup_present') else None)
        if secs.get('sup_present') and secs.get('sup_str') is None:
            di.supplementary_dwarfinfo = make_dwarfinfo(le, asz, {}, None)
    cus = list(di.iter_CUs())
    assert len(cus) == len(stmt_offsets), 'fixture: CU count'
    return [observe_cu(di, cu) for cu in cus]


def observe_cu(di, cu):
    """line_program_for_CU(cu), then get_entries() on the object: {'parse':…, 'decode':…}"""
    box = {}

    def parse():
        lp = di.line_program_for_CU(cu)
        box['lp'] = lp
        if lp is None:
            return None
        return {'header': canon(lp.header), 'start': lp.program_start_offset, 'end': lp.program_end_offset}
    r = {'parse': run_impl(parse)}
    lp = box.get('lp')
    if lp is not None:
        def decode():
            first = lp._decoded_entries is None
            es = lp.get_entries()
            return {'entries': [{'command': e.command, 'is_extended': e.is_extended, 'args': canon(e.args),
                                 'state': obs_state(e.state)} for e in es],
                    'file_entry_after': canon(lp.header['file_entry']),
                    # compared only when the loop body ran (otherwise the stream stands where the header parse left it)
                    'tell': lp.stream.tell() if first and lp.program_start_offset < lp.program_end_offset else None}
        r['decode'] = run_impl(decode)
    return r


def rows_of(decode_ok):
    rows = []
    for e in decode_ok['entries']:
        s = e['state']
        if s is not None:
            s = dict(s)
            s['is_stmt'] = bool(s['is_stmt'])
            rows.append(s)
    return rows


def hdr_with_files(header, files):
    if files is None:
        return header
    return {'r': [[k, (files if k == 'file_entry' else v)] for k, v in header['r']]}


class _Timeout(BaseException):
    pass


def guarded(fn, seconds=1.0):
    """Run fn under a wall-clock guard (malformed counts can make the library loop 2**k times; the model would too)."""
    def handler(sig, frm):
        raise _Timeout()
    old = signal.signal(signal.SIGALRM, handler)
    signal.setitimer(signal.ITIMER_REAL, seconds)
    try:
        return fn()
    finally:
        signal.setitimer(signal.ITIMER_REAL, 0)
        signal.signal(signal.SIGALRM, old)


def impl_for(req, fx, data, offsets):
    secs = {k: (bytes.fromhex(v) if isinstance(v, str) else v) for k, v in req['secs'].items()}
    stmt = [offsets[q] for q in req['queries']]
    if fx.get('absent_at') is not None:
        stmt.insert(fx['absent_at'], None)
    return run_impl(lambda: run_library(req['cfg'], data, secs, fx, stmt))


def check_section(ctx, stream, req, fx, reply, compare_property=True, impl=None):
    """Run the library on reply's bytes and compare, query by query."""
    out = ctx.out
    secs = {k: (bytes.fromhex(v) if isinstance(v, str) else v) for k, v in req['secs'].items()}
    data = bytes.fromhex(reply['bytes']) if 'bytes' in reply else bytes.fromhex(req['hex'])
    offsets = reply.get('offsets') or req.get('unit_offsets')
    queries = req['queries']
    models = list(reply['model'])
    if impl is None:
        impl = impl_for(req, fx, data, offsets)
    case = {'req': req, 'fx': fx}
    if 'err' in impl:
        out.case(case)
        out.violation('correspondence', stream, case, got=impl, model='fixture failed')
        return
    results = impl['ok']
    if fx.get('absent_at') is not None:
        r = results.pop(fx['absent_at'])
        out.count('stmt_list:absent')
        if r != {'parse': {'ok': None}}:
            out.case(case)
            out.violation('property', stream, dict(case, query='absent'), expect={'parse': {'ok': None}}, got=r)
            return
    seen = {}
    for qi, (q, got, model) in enumerate(zip(queries, results, models)):
        c = dict(case, query=qi)
        out.case({'bytes': reply.get('bytes', req.get('hex')), 'q': q, 'n': seen.get(q, 0), 'cfg': req['cfg']})
        wf = compare_property and reply['wf'][q]
        if compare_property and not reply['wf'][q]:
            out.count('sec:not-wf')
        if wf:
            e = reply['expect'][q]
            files_after = e['file_entry_after']
            if files_after is None:
                files_after = dict(e['header']['r'])['file_entry']
            repeat = q in seen
            exp_parse = {'ok': {'header': hdr_with_files(e['header'], files_after if repeat else None),
                                'start': e['start'], 'end': e['end']}}
            bad = None
            if got['parse'] != exp_parse:
                bad = ('parse', exp_parse, got['parse'])
            elif 'ok' not in got.get('decode', {}):
                bad = ('decode', 'rows', got.get('decode'))
            else:
                d = got['decode']['ok']
                obs = {'rows': rows_of(d), 'file_entry_after': d['file_entry_after'], 'tell': d['tell']}
                exp = {'rows': e['rows'], 'file_entry_after': files_after, 'tell': None if repeat else e['tell']}
                if obs != exp:
                    # keep the report small: first differing row
                    k = next((i for i, (a, b) in enumerate(zip(obs['rows'], exp['rows'])) if a != b), None)
                    bad = ('decode', {'first_diff_row': k, 'expect': exp['rows'][k] if k is not None else None,
                                      'n_rows': len(exp['rows']), 'file_entry_after': exp['file_entry_after'], 'tell': exp['tell']},
                           {'row': obs['rows'][k] if k is not None else None, 'n_rows': len(obs['rows']),
                            'file_entry_after': obs['file_entry_after'], 'tell': obs['tell']})
            if bad is not None:
                out.violation('property', stream, c, stage=bad[0], expect=bad[1], got=bad[2])
                seen[q] = seen.get(q, 0) + 1
                continue
        kind = reply['kind'][q] if compare_property and 'kind' in reply else 'na'
        if compare_property and not wf and kind in ('rows', 'zerodiv') and q not in seen:
            # zero divisor: outside the property's domain, but the theorems predict what the MODEL does
            # (line_header_roundtrip_ext + line_rows_eq_std_ext / line_zero_division); the library is held to the model below
            e = reply['expect'][q]
            pred_parse = {'ok': {'header': e['header'], 'start': e['start'], 'end': e['end']}}
            bad = None
            if model.get('parse') != pred_parse:
                bad = ('parse', pred_parse, model.get('parse'))
            elif kind == 'zerodiv':
                out.count('predicted:ZeroDivisionError')
                if model.get('decode') != {'err': 'zeroDivision'}:
                    bad = ('decode', {'err': 'zeroDivision'}, model.get('decode'))
            else:
                out.count('predicted:rows-with-zero-divisor')
                if 'ok' not in model.get('decode', {}) or rows_of(model['decode']['ok']) != e['rows']:
                    bad = ('decode', 'rows of stdRun', _brief(model.get('decode')))
            if bad is not None:
                out.violation('correspondence', stream, c, stage='model-vs-theorem:' + bad[0], got=_brief(bad[2]), model=_brief(bad[1]))
        if got != model:
            out.violation('correspondence', stream, c, got=_brief(got), model=_brief(model))
        seen[q] = seen.get(q, 0) + 1


def _brief(x):
    s = repr(x)
    return x if len(s) < 3000 else s[:3000] + '…'


# ----------------------------------------------------------------------------- info: end to end from section bytes
class _NoCount:
    def count(self, *_a, **_k):
        pass


F_STRING, F_DATA1, F_DATA2, F_DATA4, F_DATA8, F_SDATA, F_UDATA, F_ADDR, F_STRP, F_INDIRECT, F_SEC_OFFSET = (
    0x08, 0x0b, 0x05, 0x06, 0x07, 0x0d, 0x0f, 0x01, 0x0e, 0x16, 0x17)
AT_NAME, AT_STMT_LIST, AT_LOW_PC, AT_LANGUAGE, AT_COMP_DIR, AT_PRODUCER = 0x03, 0x10, 0x11, 0x13, 0x1b, 0x25
BAD_KINDS = ['beyond', 'beyond', 'other_form', 'asz_mismatch', 'fmt_mismatch', 'duplicate']


def cstr(rng):
    return bytes(rng.randrange(1, 256) for _ in range(rng.choice([0, 1, 1, 3, 7])))


def gen_info_lines(ctx, rng):
    """phase 1: the sections of strings and the line programs (their offsets come back from the Spec encoder)"""
    le = rng.random() < 0.5
    line_str, lo = gen_strsec(rng)
    strsec, so = gen_strsec(rng)
    sup_present = rng.random() < 0.5
    sup_str, uo = gen_strsec(rng)
    offs = {'line_str': lo, 'str': so, 'sup_str': uo}
    lines = []
    for _ in range(rng.choice([1, 1, 2, 2, 3])):
        fmt64 = rng.random() < 0.3
        asz = rng.choice([4, 8])
        while True:
            h = gen_header(rng, le, fmt64, asz, offs, _NoCount())
            # zero divisors are the business of `edge` / `sec` (a decode that raises half-way leaves appends behind in a
            # shared cached header, which the model, a function of the bytes, does not reproduce)
            if h['max_ops'] and h['line_range']:
                break
        r = rng.random()
        n = 0 if r < 0.05 else rng.randrange(1, 10) if r < 0.7 else rng.randrange(10, 40)
        lines.append({'header': h, 'instrs': gen_program(rng, h, n, _NoCount()), 'ext': hx(gen_ext(rng, False)),
                      'gap': hx(rnd_bytes(rng, rng.choice([0, 0, 0, 1, 3, 8])))})
        ctx.out.count('info:prog:v%d:%s:asz%d' % (h['version'], 'fmt64' if fmt64 else 'fmt32', asz))
    secs = {}
    if rng.random() < 0.93:
        secs['str'] = hx(strsec)
    if rng.random() < 0.93:
        secs['line_str'] = hx(line_str)
    # a fraction as a whole FILE: ELFFile(...).get_dwarf_info() on an image storing the sections plainly, gABI-compressed
    # (a random subset) or in the legacy .zdebug framing (no supplementary object there: it would be attached by hand)
    store = rng.choice(['plain', 'gabi', 'gabi', 'zdebug']) if rng.random() < 0.25 else None
    if store:
        sup_present = False
    base = {'p': 'C05', 'k': 'info', 'le': le, 'dasz': rng.choice([4, 8]), 'secs': secs, 'lines': lines,
            'tail': hx(rnd_bytes(rng, rng.choice([0, 0, 2, 7]))), 'sup_present': sup_present,
            'sup_str': hx(sup_str) if rng.random() < 0.95 else None, 'line_present': rng.random() >= 0.03}
    return base, so, store


def gen_info_units(ctx, rng, base, str_offs, line_offs, line_len, store=None):
    """phase 2: abbreviation tables and units whose top entries name the programs by the offsets of phase 1"""
    out = ctx.out
    lines = base['lines']
    shared_table = rng.random() < 0.5
    tables = [{'decls': [], 'gap': hx(rnd_bytes(rng, rng.choice([0, 0, 2]))), 'end_len': rng.choice([1, 1, 2])}] if shared_table else []
    units = []
    code = [0]

    def new_decl(tag, children, specs, table):
        code[0] += rng.choice([1, 1, 1, 2, 130])
        c = code[0]
        tables[table]['decls'].append({'code': c, 'cl': ulen(c) + rng.choice([0, 0, 1]), 'tag': tag, 'children': children,
                                       'specs': specs})
        return c

    for ui in range(rng.choice([1, 2, 2, 3, 4, 5])):
        ver = rng.choice([2, 3, 4, 5])
        r = rng.random()
        kind = 'prog' if r < 0.74 else 'absent' if r < 0.88 else rng.choice(BAD_KINDS)
        fmt64, asz = rng.random() < 0.3, rng.choice([4, 8])
        value = None
        pi = rng.randrange(len(lines))
        ph = lines[pi]['header']
        if kind == 'fmt_mismatch' and ph['version'] >= 5:
            kind = 'asz_mismatch'           # (a version 5 header read in the other format ends in arbitrary entry formats)
        if kind in ('prog', 'asz_mismatch', 'fmt_mismatch', 'other_form', 'duplicate'):
            fmt64, asz, value = ph['fmt64'], ph['asz'], line_offs[pi]
            if kind == 'asz_mismatch':
                asz = 12 - asz
            if kind == 'fmt_mismatch':
                fmt64 = not fmt64
        elif kind == 'beyond':
            value = rng.choice([line_len, line_len, max(0, line_len - 1), max(0, line_len - 3), line_len + 1, line_len + 100,
                                2 ** 31, 2 ** 32 - 1, 2 ** 63 - 1, 2 ** 63, 2 ** 64 - 1])
        osz = 8 if fmt64 else 4
        # the form of DW_AT_stmt_list: class lineptr (sec_offset from version 4 on, data4 / data8 before)
        forms = [F_SEC_OFFSET, F_SEC_OFFSET, F_SEC_OFFSET, F_DATA4, F_DATA8] if ver >= 4 else [F_DATA4, F_DATA4, F_DATA8]
        if kind == 'other_form':
            forms = [F_UDATA, F_UDATA, F_SDATA, F_STRING, F_DATA1, F_DATA2]
        form = rng.choice(forms)
        if value is not None:
            cap = {F_SEC_OFFSET: 8 * osz, F_DATA4: 32, F_DATA8: 64, F_DATA1: 8, F_DATA2: 16}.get(form)
            if cap is not None and value >= 1 << cap:
                form = F_DATA8 if value < 1 << 64 else form
                if form == F_DATA8 and kind == 'other_form':
                    kind = 'prog'
        attrs = []          # (name, form, op)
        if rng.random() < 0.5:
            attrs.append((AT_PRODUCER, F_STRING, ['str', hx(cstr(rng))]))
        if rng.random() < 0.7:
            if 'str' in base['secs'] and rng.random() < 0.3:
                attrs.append((AT_NAME, F_STRP, ['nat', rng.choice(str_offs)]))
            else:
                attrs.append((AT_NAME, F_STRING, ['str', hx(cstr(rng))]))
        if rng.random() < 0.5:
            attrs.append((AT_COMP_DIR, F_STRING, ['str', hx(cstr(rng))]))
        if rng.random() < 0.5:
            attrs.append((AT_LANGUAGE, rng.choice([F_DATA1, F_DATA2]), ['nat', rng.randrange(256)]))
        if rng.random() < 0.4:
            attrs.append((AT_LOW_PC, F_ADDR, ['nat', rnd_uint(rng, 8 * asz)]))
        rng.shuffle(attrs)

        def stmt_attr(v, f):
            if f == F_STRING:
                return (AT_STMT_LIST, f, ['str', hx(cstr(rng))])
            if f == F_UDATA:
                return (AT_STMT_LIST, f, ['uleb', ulen(v) + rng.choice([0, 0, 1]), v])
            if f == F_SDATA:
                v = v if rng.random() < 0.5 else -1 - v
                return (AT_STMT_LIST, f, ['sleb', slen(v) + rng.choice([0, 0, 1]), v])
            if f in (F_DATA1, F_DATA2):
                v = v % (1 << (8 if f == F_DATA1 else 16))
            return (AT_STMT_LIST, f, ['nat', v])
        if kind != 'absent':
            attrs.insert(rng.randrange(len(attrs) + 1), stmt_attr(value, form))
            if kind == 'duplicate':
                # a second DW_AT_stmt_list (never in a well-formed entry): `attributes` is a dict, the last one counts
                other = rng.choice(line_offs + [line_len])
                attrs.insert(rng.randrange(len(attrs) + 1), stmt_attr(other, rng.choice([F_DATA4, F_DATA8])))
        table = 0
        if not shared_table:
            tables.append({'decls': [], 'gap': hx(rnd_bytes(rng, rng.choice([0, 0, 3]))), 'end_len': rng.choice([1, 1, 2])})
            table = len(tables) - 1
        specs, avs = [], []
        for an, fc, op in attrs:
            spec = {'name': an, 'form': fc, 'nl': ulen(an) + rng.choice([0, 0, 0, 1])}
            a = {'form': fc, 'op': op}
            if fc in (F_SEC_OFFSET, F_DATA4, F_DATA8, F_DATA1, F_DATA2, F_STRING) and rng.random() < 0.12:
                # DW_FORM_indirect: the final form stands in the entry, behind 0..1 further DW_FORM_indirect codes
                spec['form'] = F_INDIRECT
                a['ind'] = [1 + rng.choice([0, 0, 1])] * rng.choice([1, 1, 2])
                if an == AT_STMT_LIST:
                    out.count('info:stmt:indirect')
            specs.append(spec)
            avs.append(a)
        kids = []
        for _ in range(rng.choice([0, 0, 0, 1, 2])):
            # children; some carry a DW_AT_stmt_list of their own, which is nobody's business
            kspecs, kattrs = [{'name': AT_NAME, 'form': F_STRING}], [{'form': F_STRING, 'op': ['str', hx(cstr(rng))]}]
            if rng.random() < 0.3:
                kspecs.append({'name': AT_STMT_LIST, 'form': F_DATA4})
                kattrs.append({'form': F_DATA4, 'op': ['nat', rng.choice(line_offs + [line_len, 0])]})
            kc = new_decl(0x34, False, kspecs, table)
            kids.append({'code': kc, 'cl': ulen(kc) + rng.choice([0, 0, 1]), 'attrs': kattrs})
        tc = new_decl(0x11, bool(kids), specs, table)
        tree = {'code': tc, 'cl': ulen(tc) + rng.choice([0, 0, 2]), 'attrs': avs, 'kids': kids, 'nl': rng.choice([1, 1, 2])}
        units.append({'fmt64': fmt64, 'version': ver, 'asz': asz, 'table': table, 'tree': tree})
        out.count('info:unit:%s' % kind)
        out.count('info:unit:v%d:%s' % (ver, 'fmt64' if fmt64 else 'fmt32'))
        if kind != 'absent':
            out.count('info:stmt:form%#x' % form)
    order = list(range(len(units)))
    r = rng.random()
    if r < 0.25:
        rng.shuffle(order)
    elif r < 0.4:
        order += [rng.randrange(len(units)) for _ in range(rng.choice([1, 2]))]      # a unit asked again
    req = dict(base, abbrevs=tables, units=units, order=order)
    fx = {'via_elf': bool(store), 'store': store, 'level': rng.choice([0, 1, 6, 9]), 'zsubset': rng.getrandbits(8),
          'pre': [rng.choice(['', '', '', 'top', 'iter', 'abandon']) for _ in order]}
    return req, fx


def build_elf_stored(le, dasz, sections, store, level, zsubset):
    """an ELF image storing the sections plainly / gABI-compressed (SHF_COMPRESSED + Elf_Chdr, the subset `zsubset`) /
    in the legacy .zdebug framing ("ZLIB" + 8-byte big-endian size; every section, under its .zdebug_ name)"""
    import struct, zlib
    cls = 64 if dasz == 8 else 32
    img = elfbuild.ElfImage(cls=cls, le=le, e_type=elfbuild.ET_EXEC,
                            e_machine=elfbuild.EM_X86_64 if dasz == 8 else elfbuild.EM_386)
    bo = '<' if le else '>'
    for i, (nm, b) in enumerate((n, b) for n, b in sections.items() if b is not None):
        if store == 'gabi' and (zsubset >> i) & 1:
            z = zlib.compress(b, level)
            hdr = struct.pack(bo + 'IIQQ', 1, 0, len(b), 1) if cls == 64 else struct.pack(bo + 'III', 1, len(b), 1)
            img.add_section(nm, elfbuild.SHT_PROGBITS, data=hdr + z, flags=elfbuild.SHF_COMPRESSED, addralign=8 if cls == 64 else 4)
        elif store == 'zdebug':
            img.add_section('.z' + nm[1:], elfbuild.SHT_PROGBITS, data=b'ZLIB' + len(b).to_bytes(8, 'big') + zlib.compress(b, level))
        else:
            img.add_section(nm, elfbuild.SHT_PROGBITS, data=b)
    return img.build()


def info_impl(req, fx, reply):
    """the REAL library on the encoded sections: one observation per entry of req['order']"""
    le, dasz = req['le'], req['dasz']
    secs = req['secs']
    sections = {'.debug_info': bytes.fromhex(reply['info']), '.debug_abbrev': bytes.fromhex(reply['abbrev']),
                '.debug_line': bytes.fromhex(reply['line']) if req['line_present'] else None,
                '.debug_str': bytes.fromhex(secs['str']) if 'str' in secs else None,
                '.debug_line_str': bytes.fromhex(secs['line_str']) if 'line_str' in secs else None}
    sup = bytes.fromhex(req['sup_str']) if req['sup_str'] is not None else None
    elf, ztable = None, None
    if fx.get('via_elf'):
        from elftools.elf.elffile import ELFFile
        from props import c11
        elf = build_elf_stored(le, dasz, sections, fx['store'], fx['level'], fx['zsubset'])
        # zlib is external to the model: its answers are recorded from the real module (as C11 does)
        di, ztable = c11.with_zrec(lambda: ELFFile(io.BytesIO(elf)).get_dwarf_info())
    else:
        di = make_dwarfinfo(le, dasz, sections, sup if req['sup_present'] else None)
        if req['sup_present'] and sup is None:
            di.supplementary_dwarfinfo = make_dwarfinfo(le, dasz, {}, None)
    cus = list(di.iter_CUs())
    res = []
    for idx, pre in zip(req['order'], fx['pre']):
        cu = cus[idx]
        # disturbances of the unit object before the observed call: none of them may change what is observed
        if pre == 'top':
            cu.get_top_DIE()
        elif pre == 'iter':
            for _ in cu.iter_DIEs():
                pass
        elif pre == 'abandon':
            it = cu.iter_DIEs()
            next(it, None)
            next(it, None)
        res.append(observe_cu(di, cu))
    out = {'n_units': len(cus), 'results': res}
    if elf is not None:
        out['elf'] = elf.hex()
        out['zlib'] = [[hx(d), k, None if o is None else hx(o)] for (d, k), o in ztable.items()]
    return out


def check_info(ctx, req, fx, reply):
    out = ctx.out
    case = {'req': req, 'fx': fx}
    impl = run_impl(lambda: info_impl(req, fx, reply))
    if 'err' in impl:
        out.case(case)
        # the unit iteration itself failed: C04's business, but the model says it cannot on these inputs
        out.violation('correspondence', 'info', case, got=impl, model={'n_units': reply['n_units'], 'end': reply['end']})
        return
    if impl['ok']['n_units'] != reply['n_units']:
        out.violation('correspondence', 'info', case, got={'n_units': impl['ok']['n_units']}, model={'n_units': reply['n_units']})
        return
    if 'elf' in impl['ok']:
        # the whole-file model (C11's container model + dinfoOfView + the same unit loop) on the image's bytes
        out.count('info:file:%s' % fx['store'])
        fm = ctx.driver.ask({'p': 'C05', 'k': 'file', 'elf': impl['ok']['elf'], 'zlib': impl['ok']['zlib'], 'order': req['order']})
        if 'fatal' in fm:
            raise RuntimeError('driver: %s' % fm['fatal'])
        if 'view_err' in fm or fm.get('n_units') != impl['ok']['n_units']:
            out.violation('correspondence', 'info', dict(case, file=True), stage='file-model',
                          got={'n_units': impl['ok']['n_units']}, model=_brief({k: fm[k] for k in fm if k != 'model'}))
            return
        fmodels = fm['model']
    else:
        fmodels = None
    wf_forest = reply['wf_forest']
    wf_all = wf_forest and reply['lines_ok'] and reply['domain']
    out.count('info:%s' % ('wf' if wf_all else 'forest-wf-only' if wf_forest else 'not-wf'))
    seen = {}
    tainted = set()
    for pos, (idx, got, model) in enumerate(zip(req['order'], impl['ok']['results'], reply['model'])):
        e = reply['expect'][idx]
        kind = e['kind']
        c = dict(case, pos=pos, unit=idx)
        okp = got['parse'].get('ok') if isinstance(got.get('parse'), dict) else None
        objkey = (okp['start'], okp['end']) if okp else None       # identifies the (cached, shared) LineProgram object
        if objkey in tainted:
            # a get_entries() that raised half-way left DW_LNE_define_file appends behind in the cached, shared header;
            # the model (a function of the bytes) does not reproduce that (as in `sec` / `raw`): later looks at the same
            # object are not compared
            out.count('info:skipped-after-failed-decode')
            continue
        out.case({'info': reply['info'], 'abbrev': reply['abbrev'], 'line': reply['line'], 'pos': pos, 'order': req['order'],
                  'le': req['le'], 'secs': req['secs']})
        v = e.get('v')
        bad = None
        if kind == 'prog' and wf_all:
            out.count('info:property:prog%s' % (':shared' if v in seen else ''))
            files_after = e['file_entry_after']
            if files_after is None:
                files_after = dict(e['header']['r'])['file_entry']
            repeat = v in seen
            exp_parse = {'ok': {'header': hdr_with_files(e['header'], files_after if repeat else None),
                                'start': e['start'], 'end': e['end']}}
            if got['parse'] != exp_parse:
                bad = ('parse', exp_parse, got['parse'])
            elif 'ok' not in got.get('decode', {}):
                bad = ('decode', 'rows', got.get('decode'))
            else:
                d = got['decode']['ok']
                obs = {'rows': rows_of(d), 'file_entry_after': d['file_entry_after'], 'tell': d['tell']}
                exp = {'rows': e['rows'], 'file_entry_after': files_after, 'tell': None if repeat else e['tell']}
                if obs != exp:
                    k = next((i for i, (a, b) in enumerate(zip(obs['rows'], exp['rows'])) if a != b), None)
                    bad = ('decode', {'first_diff_row': k, 'expect': exp['rows'][k] if k is not None else None,
                                      'n_rows': len(exp['rows']), 'file_entry_after': exp['file_entry_after'], 'tell': exp['tell']},
                           {'row': obs['rows'][k] if k is not None else None, 'n_rows': len(obs['rows']),
                            'file_entry_after': obs['file_entry_after'], 'tell': obs['tell']})
        elif kind == 'absent' and wf_forest:
            out.count('info:property:absent')
            if got != {'parse': {'ok': None}}:
                bad = ('parse', {'parse': {'ok': None}}, got)
        if bad is not None:
            out.violation('property', 'info', c, stage=bad[0], expect=_brief(bad[1]), got=_brief(bad[2]))
        elif kind in ('beyond', 'noline') and wf_forest and v not in seen:
            # outside the property's quantifier; the theorems predict what the MODEL does (stmt_list_beyond_section /
            # stmt_list_without_debug_line), the library is held to the model below
            pred = {'parse': {'err': 'elfParseError' if kind == 'beyond' else 'attributeError'}}
            out.count('info:predicted:%s' % kind)
            if model != pred:
                out.violation('correspondence', 'info', c, stage='model-vs-theorem', got=_brief(model), model=pred)
        if bad is None and got != model:
            out.violation('correspondence', 'info', c, got=_brief(got), model=_brief(model))
        elif bad is None and fmodels is not None and got != fmodels[pos]:
            out.violation('correspondence', 'info', dict(c, file=True), stage='file-model', got=_brief(got), model=_brief(fmodels[pos]))
        if v is not None and 'ok' in got['parse'] and got['parse']['ok'] is not None:
            seen[v] = seen.get(v, 0) + 1
        if objkey is not None and ('err' in got.get('decode', {}) or 'err' in model.get('decode', {})):
            tainted.add(objkey)


def run_info(ctx):
    rng = ctx.rng('info')
    n = ctx.budget(450, 5000)
    for i in range(n):
        if ctx.time_left() < 20:
            ctx.out.notes.append('info: stopped early at %d cases (time budget)' % i)
            break
        base, so, store = gen_info_lines(ctx, rng)
        r1 = ctx.driver.ask(dict(base, abbrevs=[], units=[]))
        if 'fatal' in r1:
            raise RuntimeError('driver: %s' % r1['fatal'])
        req, fx = gen_info_units(ctx, rng, base, so, r1['line_offs'], len(r1['line']) // 2, store)
        rp = ctx.driver.ask(req)
        if 'fatal' in rp:
            raise RuntimeError('driver: %s on %r' % (rp['fatal'], str(req)[:600]))
        ctx.out.count('info')
        check_info(ctx, req, fx, rp)


# ----------------------------------------------------------------------------- streams
def run_sec(ctx, stream='sec', n=None, keep=None):
    rng = ctx.rng(stream)
    edge = stream == 'edge'
    n = ctx.budget(1500, 12000) if n is None else n
    keep = ctx.budget(500, 3000) if keep is None else keep
    B = 50
    kept = []
    for i in range(0, n, B):
        if ctx.time_left() < 25:
            ctx.out.notes.append('%s: stopped early at %d sections (time budget)' % (stream, i))
            break
        batch = [gen_section(ctx, rng, edge) for _ in range(min(B, n - i))]
        # one request at a time: requests and replies are large (whole sections), batching them can fill both pipes
        for rq, fx in batch:
            rp = ctx.driver.ask(rq)
            if 'fatal' in rp:
                raise RuntimeError('driver: %s' % rp['fatal'])
            ctx.out.count(stream)
            check_section(ctx, stream, rq, fx, rp)
            if len(kept) < keep:
                kept.append((rq, fx, rp))
    return kept


def mutate(rng, data, offsets):
    b = bytearray(data)
    kind = rng.choice(['flip', 'flip', 'flip', 'trunc', 'set'])
    if not b:
        return bytes(b)
    if kind == 'trunc':
        return bytes(b[:rng.randrange(len(b))])
    for _ in range(rng.choice([1, 1, 2, 4])):
        # bias towards unit starts (header fields) where the structure is decided
        base = rng.choice(offsets) if offsets and rng.random() < 0.6 else 0
        i = min(len(b) - 1, base + (rng.randrange(0, 40) if rng.random() < 0.7 else rng.randrange(len(b))))
        if kind == 'flip':
            b[i] ^= 1 << rng.randrange(8)
        else:
            b[i] = rng.choice([0, 1, 2, 3, 4, 5, 0x7f, 0x80, 0xff])
    return bytes(b)


def run_raw(ctx, kept):
    rng = ctx.rng('raw')
    items = []
    for rq, fx, rp in kept:
        data = bytes.fromhex(rp['bytes'])
        for _ in range(2):
            m = mutate(rng, data, rp['offsets'])
            if m == data:
                continue
            # keep declared lengths from making the decoder walk gigabytes: both sides would, identically
            # no repeated queries here: a decode that raises half-way leaves DW_LNE_define_file appends behind in the
            # cached header, which the model (a function of the bytes) does not reproduce
            qs = list(dict.fromkeys(rq['queries']))
            items.append(({'p': 'C05', 'k': 'raw', 'cfg': rq['cfg'], 'hex': hx(m), 'offsets': [rp['offsets'][q] for q in qs],
                           'unit_offsets': rp['offsets'], 'queries': qs, 'secs': rq['secs']},
                          dict(fx, absent_at=None, via_elf=False)))
    B = 100
    for i in range(0, len(items), B):
        if ctx.time_left() < 8:
            ctx.out.notes.append('raw: stopped early at %d (time budget)' % i)
            break
        batch = items[i:i + B]
        for rq, fx in batch:
            # the library first, under a guard: a mutated count with zero-size entries makes it (and the model) loop
            try:
                impl = guarded(lambda: impl_for(rq, fx, bytes.fromhex(rq['hex']), rq['unit_offsets']))
            except _Timeout:
                ctx.out.count('raw:skipped-runaway')
                continue
            rp = ctx.driver.ask(rq)
            if 'fatal' in rp:
                raise RuntimeError('driver: %s' % rp['fatal'])
            ctx.out.count('raw')
            check_section(ctx, 'raw', rq, fx, rp, compare_property=False, impl=impl)


# ----------------------------------------------------------------------------------------------- CU and TU on one object
def _cutu_sections(le, asz):
    """one DWARF 4 compile unit in .debug_info and one type unit in .debug_types, BOTH at offset 0 of their sections,
    each with its own DW_AT_stmt_list; two different minimal line programs"""
    import struct
    E = '<' if le else '>'

    def prog(fname, addr, adv):
        std = bytes([0, 1, 1, 1, 1, 0, 0, 0, 1, 0, 0, 1])
        tables = b'\0' + fname + b'\0\0\0\0' + b'\0'
        after = bytes([1, 1, 1, 0xfb, 14, 13]) + std + tables
        body = bytes([0, 1 + asz, 2]) + addr.to_bytes(asz, 'little' if le else 'big') + bytes([0x14 + adv]) + bytes([0, 1, 1])
        rest = struct.pack(E + 'H', 4) + struct.pack(E + 'I', len(after)) + after + body
        return struct.pack(E + 'I', len(rest)) + rest
    p1, p2 = prog(b'cu.c', 0x1000, 0), prog(b'type.h', 0x2000, 3)
    line = p1 + p2
    abbrev = bytes([1, 0x11, 0, 0x10, 0x17, 0, 0, 2, 0x41, 0, 0x10, 0x17, 0, 0, 0])
    cu_die = bytes([1]) + struct.pack(E + 'I', 0)
    cu_rest = struct.pack(E + 'H', 4) + struct.pack(E + 'I', 0) + bytes([asz]) + cu_die
    info = struct.pack(E + 'I', len(cu_rest)) + cu_rest
    tu_die = bytes([2]) + struct.pack(E + 'I', len(p1))
    tu_rest = struct.pack(E + 'H', 4) + struct.pack(E + 'I', 0) + bytes([asz]) + struct.pack(E + 'Q', 0x1122334455667788) + \
        struct.pack(E + 'I', 4 + 2 + 4 + 1 + 8 + 4) + tu_die
    types = struct.pack(E + 'I', len(tu_rest)) + tu_rest
    return {'.debug_info': info, '.debug_abbrev': abbrev, '.debug_line': line, '.debug_types': types}


def _cutu_observe(le, asz, order):
    from elftools.dwarf.dwarfinfo import DWARFInfo, DebugSectionDescriptor, DwarfConfig
    secs = _cutu_sections(le, asz)

    def mk():
        def dd(nm):
            b = secs.get(nm)
            return None if b is None else DebugSectionDescriptor(stream=io.BytesIO(b), name=nm, global_offset=0, size=len(b), address=0)
        return DWARFInfo(config=DwarfConfig(little_endian=le, machine_arch='x64', default_address_size=asz),
                         debug_info_sec=dd('.debug_info'), debug_aranges_sec=None, debug_abbrev_sec=dd('.debug_abbrev'),
                         debug_frame_sec=None, eh_frame_sec=None, debug_str_sec=None, debug_loc_sec=None,
                         debug_ranges_sec=None, debug_line_sec=dd('.debug_line'), debug_pubtypes_sec=None,
                         debug_pubnames_sec=None, debug_addr_sec=None, debug_str_offsets_sec=None,
                         debug_line_str_sec=None, debug_loclists_sec=None, debug_rnglists_sec=None,
                         debug_sup_sec=None, gnu_debugaltlink_sec=None, debug_types_sec=dd('.debug_types'))

    def unit(di, which):
        return next(iter(di.iter_CUs())) if which == 'cu' else next(iter(di.iter_TUs()))

    def look(di, which):
        lp = di.line_program_for_CU(unit(di, which))
        if lp is None:
            return None
        return {'files': [canon(f.name) for f in lp.header['file_entry']], 'start': lp.program_start_offset, 'end': lp.program_end_offset,
                'rows': [[e.state.address, e.state.line, e.state.end_sequence] for e in lp.get_entries() if e.state is not None]}
    live = mk()
    got = {w: run_impl(lambda w=w: look(live, w)) for w in order}
    want = {w: run_impl(lambda w=w: look(mk(), w)) for w in order}
    return got, want


def run_cutu(ctx):
    """A compile unit and a type unit at EQUAL offsets of their sections, asked for their line programs on one DWARFInfo in
    both orders: each must get the program its own DW_AT_stmt_list designates — what a fresh object answers (a seeded
    per-unit memo keyed by the unit offset alone handed the first unit's program to the second)."""
    for le in (True, False):
        for asz in (4, 8):
            for order in (['cu', 'tu'], ['tu', 'cu'], ['cu', 'tu', 'cu']):
                case = {'le': le, 'asz': asz, 'order': order}
                got, want = _cutu_observe(le, asz, order)
                ctx.out.case(case, nontrivial=True)
                ctx.out.count('cutu')
                if got != want or 'err' in want.get('cu', {}) or want.get('cu') == want.get('tu'):
                    ctx.out.violation('property', 'cutu', case, expect=want, got=got)


def run(ctx):
    import os
    if os.environ.get('VERIF_C05_ONLY') == 'info':         # development aid (mutation tests of the info stream alone)
        run_info(ctx)
        return
    kept_edge = run_sec(ctx, 'edge', n=ctx.budget(400, 4000), keep=ctx.budget(120, 800))
    kept = run_sec(ctx)
    run_info(ctx)
    run_cutu(ctx)
    run_raw(ctx, kept_edge + kept)


def replay(ctx, payload):
    v = payload['violation']
    case = v['case']
    if v['stream'] == 'cutu':
        got, want = _cutu_observe(case['le'], case['asz'], case['order'])
        return {'stream': 'cutu', 'impl': got, 'expect': want, 'fails': got != want}
    req, fx = case['req'], case['fx']
    if v['stream'] == 'cutu':
        got, want = _cutu_observe(case['le'], case['asz'], case['order'])
        return {'stream': 'cutu', 'impl': got, 'expect': want, 'fails': got != want}
    if v['stream'] == 'info':
        rp = ctx.driver.ask(req)
        if 'fatal' in rp:
            return {'fatal': rp['fatal'], 'fails': True}
        from common import Outcome
        saved = ctx.out
        ctx.out = Outcome(ctx.prop)
        try:
            check_info(ctx, req, fx, rp)
            vs = ctx.out.violations
        finally:
            ctx.out = saved
        return {'stream': 'info', 'violations': [{k: x[k] for k in x if k != 'case'} for x in vs[:3]],
                'n_violations': len(vs), 'fails': bool(vs)}
    if v['stream'] == 'raw':
        try:
            guarded(lambda: impl_for(req, fx, bytes.fromhex(req['hex']), req['unit_offsets']))
        except _Timeout:
            return {'stream': 'raw', 'note': 'library does not terminate within the guard on this input', 'fails': False}
    rp = ctx.driver.ask(req)
    if 'fatal' in rp:
        return {'fatal': rp['fatal'], 'fails': True}
    from common import Outcome
    saved = ctx.out
    ctx.out = Outcome(ctx.prop)
    try:
        check_section(ctx, v['stream'], req, fx, rp, compare_property=(v['stream'] in ('sec', 'edge')))
        vs = ctx.out.violations
    finally:
        ctx.out = saved
    return {'stream': v['stream'], 'violations': [{k: x[k] for k in x if k != 'case'} for x in vs[:3]],
            'n_violations': len(vs), 'fails': bool(vs)}


FINDINGS = {}
