"""C08 — relocation tables decode exactly; debug-section relocation follows the psABI.  Streams:

  rel    : abstract REL/RELA table (both classes, both byte orders, MIPS64 packed r_info, 0..many entries) → Lean
           spec encoder → wrapped as an SHT_REL/SHT_RELA section of a real ELF image → ELFFile → RelocationSection
           num_relocations / is_RELA / iter_relocations / get_relocation.  Malformed variants (wrong sh_entsize,
           ragged sh_size, truncated file) are compared with the model only.
  relr   : RELR word streams (anchors, bitmaps: all-ones, single-bit, random; bitmap first) → SHT_RELR section →
           RelrRelocationSection.iter_relocations / num_relocations vs the standard expansion and the model.
  dyn    : REL / RELA / RELR / JMPREL tables placed in a PT_LOAD'ed section and described by dynamic tags →
           Dynamic.get_relocation_tables (via the .dynamic section and via the PT_DYNAMIC segment).
  apply  : relocatable objects (x86, x86-64, ARM, AArch64, MIPS REL/RELA, PPC64, S390x, LoongArch, plus machines
           outside the list for correspondence) with .debug_info, .symtab and .rel[a].debug_info assembled by the
           Lean spec encoders → ELFFile.get_dwarf_info(relocate_dwarf_sections=True/False) → bytes of
           debug_info_sec.stream vs the psABI formula (S+A, S+A-P, in-place addend, add/sub; truncated to the
           field width; every other byte unchanged; rejected entries → ELFRelocationError) and the model.

  Fifth wave — WHOLE FILES.  Every image of the rel / relr / apply streams is, in addition, handed to the file-level
  model (`file_api`: the only input is the byte string; headers, names, sh_link, the machine and all contents are
  decoded by the mirror of elffile.py) and a second ELFFile object is driven through the public API in a
  content-derived order: get_section(i), get_section_by_name(name), RelocationHandler.find_relocations_for_section,
  RelocationHandler.apply_section_relocations on a caller-made copy of the section's bytes, get_dwarf_info.  Direct
  comparisons: the objects reached by index and by name present the encoded entries; the relocation section found is
  the standard's lookup by name (`spec_find`; = by sh_info when names follow the convention, counted); the
  caller-side apply gives the psABI fold.  apply also draws R_*_NONE at / beyond the section end, MIPS64 composite
  entries with any first type and flavour, and COMDAT-style duplicate section names (names not conventional: put aside
  for the direct comparison, correspondence only); dyn draws tables at virtual address 0 and missing DT_*SZ tags.
"""
import io, struct
from common import run_impl, canon, hx, rnd_uint, rnd_bytes
import elfbuild as EB

RULE = ('rel: (machine, class, byte order, flavour, 0..6 entries) with every entry field drawn from boundary pools '
        '(offset 0..2^cls-1, sym up to 24/32 bits, type up to 8/32 bits, MIPS64 ssym/type2/type3, addends at the signed '
        'limits), random section alignment/padding; relr: 0..8 words mixing anchors and bitmaps with all-ones, single-bit, '
        'top-bit and random patterns, 8% starting with a bitmap; dyn: each of REL/RELA/RELR/JMPREL present with prob. 1/2, '
        'JMPREL flavour by DT_PLTREL; apply: machine x flavour x 0..5 relocations with types from the union of all listed '
        'type numbers (plus unlisted ones), symbol values / addends / in-place values at wrap boundaries, offsets anywhere '
        'in the section incl. the last possible position, 12% out-of-range symbol indices, 15% wrong flavour, both '
        'relocate_dwarf_sections values; R_*_NONE at any offset (incl. the last bytes of the section and beyond it); MIPS64 '
        'composite entries (r_type2/r_type3/r_ssym) with any first type, REL and RELA; 8% COMDAT-style duplicate names. '
        'Every image also goes through the file-level model (bytes only) and a second ELFFile driven through get_section / '
        'get_section_by_name / find_relocations_for_section / apply_section_relocations / get_dwarf_info in a content-derived '
        'order; dyn: 6% tables at virtual address 0. '
        'Non-trivial = distinct generated case; every case parses at least the container and one table/section.')
ASSUMPTIONS = ['io.BytesIO read/seek/tell/write semantics', 'images are assembled by harness/elfbuild.py (container) around the '
               'Lean spec encoders\' contents; the file-level model decodes the container itself (C01\'s mirror), the '
               'argument-fed kinds (run_relsec, run_relr, run_dyn, run_apply) take header fields as the library reports them',
               'debug section address sh_addr = 0 in relocatable objects (P = r_offset)',
               'the dynamic section has a string table (DynamicTag construction)']

EM = {'x86': 3, 'mips': 8, 'ppc64': 21, 's390': 22, 'arm': 40, 'x64': 62, 'aarch64': 183, 'riscv': 243, 'bpf': 247,
      'loongarch': 258, 'sparc': 2, 'unknown': 0xfe01}
LISTED = ['x86', 'x64', 'arm', 'aarch64', 'mips', 'ppc64', 's390', 'loongarch']
TYPE_POOL = [0, 1, 2, 4, 5, 10, 11, 18, 22, 26, 38, 47, 48, 50, 51, 52, 53, 55, 56, 99, 109, 257, 258, 261, 28, 3, 49, 54, 255]
NATURAL_RELA = {'x86': False, 'arm': False, 'x64': True, 'aarch64': True, 'ppc64': True, 's390': True, 'loongarch': True}
SHT_NAME = {EB.SHT_REL: 'SHT_REL', EB.SHT_RELA: 'SHT_RELA', EB.SHT_RELR: 'SHT_RELR'}


def ask_safe(ctx, reqs, limit=40000):
    """ask_many in groups whose request text fits the pipe buffer: common.Driver writes a whole batch before it
    reads any reply, which deadlocks once both pipes fill up (ELF images make these requests large)"""
    import json
    out, group, size = [], [], 0
    for r in reqs:
        n = len(json.dumps(r, separators=(',', ':'))) + 16
        if group and size + n > limit:
            out += ctx.driver.ask_many(group)
            group, size = [], 0
        group.append(r)
        size += n
    if group:
        out += ctx.driver.ask_many(group)
    return out


def sint(rng, bits):
    r = rng.random()
    if r < 0.35:
        return rng.choice([0, 1, -1, 2, -2, 127, -128, (1 << (bits - 1)) - 1, -(1 << (bits - 1)), -(1 << (bits - 1)) + 1,
                           0x7fffffff, -0x80000000, 0x7fff, -0x8000]) if bits >= 32 else rng.randrange(-(1 << (bits - 1)), 1 << (bits - 1))
    return rnd_uint(rng, bits) - (1 << (bits - 1)) if r < 0.7 else rng.randrange(-300, 300)


def clamp_s(v, bits):
    return max(-(1 << (bits - 1)), min((1 << (bits - 1)) - 1, v))


def gen_entry(rng, cls, mips, rela):
    packed = cls == 64 and mips
    e = {'offset': rnd_uint(rng, cls)}
    if cls == 32:
        e['sym'], e['type'] = rnd_uint(rng, 24), rnd_uint(rng, 8)
    elif packed:
        e['sym'], e['type'] = rnd_uint(rng, 32), rnd_uint(rng, 8)
        e['ssym'], e['type2'], e['type3'] = rnd_uint(rng, 8), rnd_uint(rng, 8), rnd_uint(rng, 8)
    else:
        e['sym'], e['type'] = rnd_uint(rng, 32), rnd_uint(rng, 32)
    if rela:
        e['addend'] = clamp_s(sint(rng, cls), cls)
    return e


# --------------------------------------------------------------------------------------------- observing the library
def _poke(tab, n):
    """random access BEFORE counting / iterating on the same table object: answers must not depend on call order"""
    try:
        tab.get_relocation(n)
    except Exception:      # noqa: BLE001 — judged by the observed calls
        pass


def obs_table(tab, gets=()):
    if gets:
        _poke(tab, gets[0])
    return {'num': run_impl(lambda: tab.num_relocations()), 'is_rela': tab.is_RELA(),
            'entries': run_impl(lambda: [canon(r.entry) for r in tab.iter_relocations()]),
            'get': [run_impl(lambda n=n: canon(tab.get_relocation(n).entry)) for n in gets]}


def obs_relr(tab, poke=None):
    if poke is not None:
        _poke(tab, poke)
    offs = run_impl(lambda: [r['r_offset'] for r in tab.iter_relocations()])
    # num_relocations caches list(iter_relocations()); ask a fresh object state: the cache is only set on success
    return {'offsets': offs, 'num': run_impl(lambda: tab.num_relocations())}


def relr_queries(data):
    """a history of num_relocations() (None) / get_relocation(n) (int) queries derived from the image's content: in range,
    out of range, negative, repeated, count first or random access first"""
    hb = sum(data[-80:]) + len(data) // 8
    pool = [None, 0, 1, 2, 5, -1, -2, 9, 64, -70, None, 3]
    k = 2 + hb % 5
    return [pool[(hb // (i + 1) + 3 * i) % len(pool)] for i in range(k)]


def hist_relr(tab, qs):
    """the queries on ONE table object, and whether `_cached_relocations` has been published at the end: compared with
    the model of the cache (Model/RelrCache relrHist; Props/C08 relr_cache_history_independent, relr_cache_published_iff)"""
    ans = [run_impl((lambda: tab.num_relocations()) if q is None else (lambda q=q: tab.get_relocation(q)['r_offset'])) for q in qs]
    return {'answers': ans, 'cached': tab._cached_relocations is not None}


def ilwalk_relr(tab):
    """one walk of iter_relocations() on a fresh table object with ordinary use of the file's stream between two advances
    of the suspended generator (a read elsewhere in the file, a count query on the same table): the property does not let
    the expansion depend on where the shared stream was left, so this must be the plain walk's answer (a seeded
    "seek once, then read sequentially" rewrite was missed while every walk was drained in one go)"""
    stream = tab._elffile.stream if hasattr(tab, '_elffile') else tab.stream
    out = []
    for k, r in enumerate(tab.iter_relocations()):
        out.append(r['r_offset'])
        if len(out) > 70000:
            break
        stream.seek((7 * k) % 48)
        stream.read(3)
        if k % 3 == 1:
            try:
                tab.num_relocations()
            except Exception:       # noqa: BLE001
                pass
    return out


def py_index(xs, n):
    return {'ok': xs[n]} if -len(xs) <= n < len(xs) else {'err': 'indexError'}


def open_elf(data):
    from elftools.elf.elffile import ELFFile
    return ELFFile(io.BytesIO(data))


# --------------------------------------------------------------------------------------------- whole files
def content_bit(data, k=0):
    """a choice derived from the image's content (replays must make the same one)"""
    return ((sum(data[-96:]) + len(data) // 8) >> k) & 1


def section_index_of(ef, sec):
    """index of a section object: the first header equal to its header (names are compared too: sh_name is in it)"""
    for i in range(ef.num_sections()):
        if ef._get_section_header(i) == sec.header:
            return i
    return None


def impl_file_ops(data, ops):
    """ONE ELFFile object, the operations in the order given, each answered in the driver's `file_api` format"""
    from elftools.elf.relocation import RelocationSection, RelrRelocationSection, RelocationHandler
    state = {}

    def ef():
        if 'ef' not in state:
            try:
                state['ef'] = open_elf(data)
            except Exception as e:      # noqa: BLE001 — re-raised by every operation, as the model does
                state['ef'] = e
        if isinstance(state['ef'], Exception):
            raise state['ef']
        return state['ef']

    def obj_obs(sec, gets):
        if sec is None:
            return None
        if isinstance(sec, RelocationSection):
            return {'rel': obs_table(sec, gets)}
        if isinstance(sec, RelrRelocationSection):
            return {'relr': obs_relr(sec, gets[0] if gets else None)}
        return {'other': type(sec).__name__}

    def do(op):
        f = ef()
        what = op['op']
        if what == 'sec':
            return obj_obs(f.get_section(op['i']), op.get('get', []))
        if what == 'byname':
            return obj_obs(f.get_section_by_name(bytes.fromhex(op['name']).decode('utf-8')), op.get('get', []))
        if what in ('find', 'apply'):
            # the section object whose relocations are wanted: any section bearing the name will do (only .name is used)
            class Named:
                name = bytes.fromhex(op['target']).decode('utf-8')
            h = RelocationHandler(f)
            rs = h.find_relocations_for_section(Named)
            if rs is None:
                return None
            if what == 'find':
                return [section_index_of(f, rs), canon(rs.name.encode('utf-8')), run_impl(lambda: rs['sh_offset'])]
            stream = io.BytesIO()
            stream.write(bytes.fromhex(op['section']))
            h.apply_section_relocations(stream, rs)
            return canon(stream.getvalue())
        if what == 'dwarf':
            di = f.get_dwarf_info(relocate_dwarf_sections=op['relocate'], follow_links=False)
            d = getattr(di, op['kw'])
            return None if d is None else canon(d.stream.getvalue())
        raise KeyError(what)

    return [run_impl(lambda op=op: do(op)) for op in ops]


def ask_files(ctx, fruns, out):
    """second phase: the file-level model for every case of the chunk"""
    models = ask_safe(ctx, fruns)
    for o, m in zip(out, models):
        if 'fatal' in m:
            raise RuntimeError('driver: %s' % m['fatal'])
        o['fmodel'] = m['model']


# --------------------------------------------------------------------------------------------- rel stream
def gen_rel(rng):
    mname = rng.choice(['mips', 'mips', 'x64', 'x86', 'arm', 'aarch64', 'ppc64', 'sparc', 'unknown', 'loongarch'])
    cls = rng.choice([32, 64])
    rela = rng.random() < 0.5
    n = rng.choice([0, 1, 1, 2, 3, 6])
    req = {'p': 'C08', 'k': 'enc_rel', 'le': rng.random() < 0.5, 'cls': cls, 'machine': EM[mname], 'rela': rela,
           'entries': [gen_entry(rng, cls, mname == 'mips', rela) for _ in range(n)]}
    r = rng.random()
    variant = 'ok'
    if r < 0.06:
        variant = 'entsize'
    elif r < 0.12:
        variant = 'ragged'
    elif r < 0.16:
        variant = 'truncated'
    elif r < 0.19:
        variant = 'shtype-swapped'      # RELA bytes in an SHT_REL section and vice versa: entsize assert
    req['variant'] = variant
    req['align'] = rng.choice([1, 1, 4, 8, 16])
    req['extra'] = rng.choice([1, 3, 7]) if variant == 'ragged' else 0
    req['gets'] = sorted({0, n - 1 if n else 0, n, rng.randrange(0, n + 2)})
    return req


def patch_sh_size(data, cls, le, shoff, idx, size):
    """overwrite sh_size of section `idx` (used by the truncated variant)"""
    E = '<' if le else '>'
    if cls == 32:
        pos = shoff + idx * 40 + 20
        return data[:pos] + struct.pack(E + 'I', size & 0xffffffff) + data[pos + 4:]
    pos = shoff + idx * 64 + 32
    return data[:pos] + struct.pack(E + 'Q', size) + data[pos + 8:]


def eval_rel(ctx, reqs):
    encs = ask_safe(ctx, [{k: v for k, v in r.items() if k not in ('variant', 'align', 'extra', 'gets')} for r in reqs])
    out, runs, fruns = [], [], []
    for req, enc in zip(reqs, encs):
        if 'fatal' in enc:
            raise RuntimeError('driver: %s on %r' % (enc['fatal'], req))
        cls, le = req['cls'], req['le']
        table = bytes.fromhex(enc['bytes'])
        entsize = enc['entsize']
        rela = req['rela']
        shtype = EB.SHT_RELA if rela else EB.SHT_REL
        v = req['variant']
        if v == 'entsize':
            entsize += 1
        if v == 'ragged':
            table += b'\xee' * req['extra']
        if v == 'shtype-swapped':
            shtype = EB.SHT_REL if rela else EB.SHT_RELA
        img = EB.ElfImage(cls=cls, le=le, e_type=EB.ET_REL, e_machine=req['machine'])
        istr = img.add_section('.strtab', EB.SHT_STRTAB, data=b'\0')
        isym = img.add_section('.symtab', EB.SHT_SYMTAB, data=bytes(16 if cls == 32 else 24), link=istr,
                               entsize=16 if cls == 32 else 24)
        i = img.add_section('.rela.foo' if rela else '.rel.foo', shtype, data=table, link=isym, entsize=entsize,
                            addralign=req['align'])
        data = img.build()
        off, size = img.offsets[i], len(table)
        if v == 'truncated':
            size = len(data) - off + entsize * 2        # the table claims to run past the end of the file
            data = patch_sh_size(data, cls, le, img.shoff, i, size)

        def impl_fn(data=data, i=i, gets=req['gets']):
            sec = open_elf(data).get_section(i)
            return obs_table(sec, gets)
        impl = run_impl(impl_fn)
        runs.append({'p': 'C08', 'k': 'run_relsec', 'hex': hx(data), 'le': le, 'cls': cls, 'machine': req['machine'],
                     'sh_type': SHT_NAME[shtype], 'sh_offset': off, 'sh_size': size, 'sh_entsize': entsize, 'get': req['gets']})
        wf = enc['wf'] and v == 'ok'
        expect = None
        if wf:
            ex = enc['expect']
            expect = {'num': {'ok': ex['num']}, 'is_rela': ex['is_rela'], 'entries': {'ok': ex['entries']}}
        # whole file: the same section by index and by name on ONE fresh object, in a content-derived order
        fops = [{'op': 'sec', 'i': i, 'get': req['gets']},
                {'op': 'byname', 'name': hx(('.rela.foo' if rela else '.rel.foo').encode()), 'get': req['gets']},
                {'op': 'byname', 'name': hx(b'.nothing')}]
        if content_bit(data):
            fops.reverse()
        fruns.append({'p': 'C08', 'k': 'file_api', 'hex': hx(data), 'ops': fops})
        out.append({'impl': impl, 'expect': expect, 'wf': wf, 'fops': fops, 'fimpl': impl_file_ops(data, fops)})
    models = ask_safe(ctx, runs)
    for o, m in zip(out, models):
        if 'fatal' in m:
            raise RuntimeError('driver: %s' % m['fatal'])
        o['model'] = m['model']
    ask_files(ctx, fruns, out)
    return out


def check_rel_gets(req, o):
    """get_relocation(n) == n-th encoded entry for every requested n below the count"""
    if o['expect'] is None or 'ok' not in o['impl']:
        return True
    ents = o['expect']['entries']['ok']
    for n, g in zip(req['gets'], o['impl']['ok']['get']):
        if n < len(ents) and g != {'ok': ents[n]}:
            return False
    return True


# --------------------------------------------------------------------------------------------- relr stream
def gen_relr(rng):
    cls = rng.choice([32, 64])
    w = cls // 8
    n = rng.choice([0, 1, 2, 3, 5, 8])
    words = []
    for j in range(n):
        r = rng.random()
        if (j == 0 and rng.random() < 0.92) or r < 0.3:
            words.append((rnd_uint(rng, cls) >> 1) << 1)                    # anchor
        else:
            k = rng.random()
            if k < 0.2:
                b = (1 << cls) - 1
            elif k < 0.4:
                b = (1 << rng.randrange(1, cls)) | 1
            elif k < 0.5:
                b = 1                                                       # empty bitmap
            elif k < 0.6:
                b = (1 << (cls - 1)) | 1
            else:
                b = rng.getrandbits(cls) | 1
            words.append(b)
    return {'p': 'C08', 'k': 'enc_relr', 'le': rng.random() < 0.5, 'cls': cls, 'words': words,
            'machine': rng.choice([EM['x64'], EM['aarch64'], EM['arm'], EM['mips'], EM['x86']]),
            'variant': 'entsize' if rng.random() < 0.05 else ('ragged' if rng.random() < 0.05 else 'ok'),
            'align': rng.choice([1, 8, 16])}


def eval_relr(ctx, reqs):
    encs = ask_safe(ctx, [{k: v for k, v in r.items() if k not in ('variant', 'align', 'machine')} for r in reqs])
    out, runs, fruns = [], [], []
    for req, enc in zip(reqs, encs):
        if 'fatal' in enc:
            raise RuntimeError('driver: %s on %r' % (enc['fatal'], req))
        cls, le = req['cls'], req['le']
        table = bytes.fromhex(enc['bytes'])
        entsize = enc['entsize']
        if req['variant'] == 'entsize':
            entsize = entsize * 2
        if req['variant'] == 'ragged':
            table += b'\x02\x00\x00'
        img = EB.ElfImage(cls=cls, le=le, e_type=EB.ET_DYN, e_machine=req['machine'])
        i = img.add_section('.relr.dyn', EB.SHT_RELR, data=table, flags=EB.SHF_ALLOC, entsize=entsize, addralign=req['align'])
        data = img.build()

        def impl_fn(data=data, i=i):
            # in one case out of two, a random-access get_relocation(k) precedes the count / iteration
            hb = sum(data[-64:]) + len(data) // 8          # images are 8-byte padded: derive the choice from content
            poke = (hb % 4) if hb % 2 else None
            return obs_relr(open_elf(data).get_section(i), poke)
        impl = run_impl(impl_fn)
        qs = relr_queries(data)
        himpl = run_impl(lambda data=data, i=i, qs=qs: hist_relr(open_elf(data).get_section(i), qs))
        ilimpl = run_impl(lambda data=data, i=i: ilwalk_relr(open_elf(data).get_section(i)))
        runs.append({'p': 'C08', 'k': 'run_relr', 'hex': hx(data), 'le': le, 'cls': cls, 'machine': req['machine'],
                     'offset': img.offsets[i], 'size': len(table), 'entsize': entsize, 'hist': qs})
        wf = enc['wf'] and req['variant'] == 'ok'
        expect = {'offsets': {'ok': enc['expect']['offsets']}, 'num': {'ok': enc['expect']['num']}} if wf else None
        # what the property prescribes for the history: every answer is the query evaluated on the standard's expansion
        hexpect = None
        if wf:
            xs = enc['expect']['offsets']
            hexpect = [{'ok': len(xs)} if q is None else py_index(xs, q) for q in qs]
        fops = [{'op': 'sec', 'i': i, 'get': [content_bit(data, 2)] if content_bit(data, 1) else []},
                {'op': 'byname', 'name': hx(b'.relr.dyn')}]
        if content_bit(data):
            fops.reverse()
        fruns.append({'p': 'C08', 'k': 'file_api', 'hex': hx(data), 'ops': fops})
        out.append({'impl': impl, 'expect': expect, 'wf': wf, 'fops': fops, 'fimpl': impl_file_ops(data, fops),
                    'himpl': himpl, 'hexpect': hexpect, 'hqs': qs, 'ilimpl': ilimpl})
    models = ask_safe(ctx, runs)
    for o, m in zip(out, models):
        if 'fatal' in m:
            raise RuntimeError('driver: %s' % m['fatal'])
        o['model'] = m['model']
        o['hmodel'] = m['hist']
    ask_files(ctx, fruns, out)
    return out


# --------------------------------------------------------------------------------------------- dyn stream
DT = {'NULL': 0, 'PLTRELSZ': 2, 'RELA': 7, 'RELASZ': 8, 'RELAENT': 9, 'REL': 17, 'RELSZ': 18, 'RELENT': 19,
      'PLTREL': 20, 'JMPREL': 23, 'RELRSZ': 35, 'RELR': 36, 'RELRENT': 37, 'NEEDED': 1, 'STRTAB': 5, 'SYMTAB': 6}


def gen_dyn(rng):
    mname = rng.choice(['x64', 'x86', 'arm', 'aarch64', 'mips', 'ppc64'])
    cls = rng.choice([32, 64])
    mips = mname == 'mips'
    req = {'le': rng.random() < 0.5, 'cls': cls, 'machine': EM[mname], 'tables': {}, 'base': rng.choice([0x1000, 0x400000, 0x10000]),
           'via': rng.choice(['section', 'section', 'segment']), 'variant': 'ok'}
    for nm in ('REL', 'RELA', 'RELR', 'JMPREL'):
        if rng.random() < 0.5:
            continue
        if nm == 'RELR':
            g = gen_relr(rng)
            req['tables'][nm] = {'words': [x % (1 << cls) for x in g['words']] if g['cls'] != cls else g['words']}
            if g['cls'] != cls:
                # regenerate for the right class
                g2 = gen_relr(rng)
                while g2['cls'] != cls:
                    g2 = gen_relr(rng)
                req['tables'][nm] = {'words': g2['words']}
        else:
            rela = {'REL': False, 'RELA': True, 'JMPREL': rng.random() < 0.5}[nm]
            n = rng.choice([0, 1, 2, 4])
            req['tables'][nm] = {'rela': rela, 'entries': [gen_entry(rng, cls, mips, rela) for _ in range(n)]}
    r = rng.random()
    if r < 0.05:
        req['variant'] = 'no-ent-tag'          # DT_RELENT / DT_RELAENT / DT_RELRENT missing → StopIteration
    elif r < 0.10:
        req['variant'] = 'bad-ent'             # DT_*ENT disagrees → ELFError
    elif r < 0.14:
        req['variant'] = 'unmapped'            # table address outside every PT_LOAD → offset None
    elif r < 0.20:
        req['variant'] = 'vaddr0'              # the PT_LOAD maps address 0 and the first table sits there (in the domain)
        req['base'] = 0
    elif r < 0.24:
        req['variant'] = 'no-size-tag'         # DT_*SZ / DT_PLTRELSZ missing → StopIteration
    return req


def eval_dyn(ctx, reqs):
    # phase 1: encode every table with the spec encoders
    encq, where = [], []
    for qi, req in enumerate(reqs):
        for nm, t in req['tables'].items():
            if nm == 'RELR':
                encq.append({'p': 'C08', 'k': 'enc_relr', 'le': req['le'], 'cls': req['cls'], 'words': t['words']})
            else:
                encq.append({'p': 'C08', 'k': 'enc_rel', 'le': req['le'], 'cls': req['cls'], 'machine': req['machine'],
                             'rela': t['rela'], 'entries': t['entries']})
            where.append((qi, nm))
    encs = ask_safe(ctx, encq)
    per = [dict() for _ in reqs]
    for (qi, nm), e in zip(where, encs):
        if 'fatal' in e:
            raise RuntimeError('driver: %s' % e['fatal'])
        per[qi][nm] = e
    out, runs = [], []
    for req, tabs in zip(reqs, per):
        cls, le = req['cls'], req['le']
        E = '<' if le else '>'
        w = cls // 8
        v = req['variant']
        blob = bytearray(b'' if v == 'vaddr0' else b'\xcc' * 8)
        addr = {}
        for nm in ('JMPREL', 'RELR', 'RELA', 'REL'):         # file order differs from dict order on purpose
            if nm in tabs:
                while len(blob) % 8:
                    blob.append(0xcc)
                addr[nm] = req['base'] + len(blob)
                blob += bytes.fromhex(tabs[nm]['bytes'])
        blob += b'\xcc' * 8
        tags = [(DT['NEEDED'], 1)]
        for nm in ('REL', 'RELA', 'RELR', 'JMPREL'):
            if nm not in tabs:
                continue
            size = len(bytes.fromhex(tabs[nm]['bytes']))
            ent = tabs[nm]['entsize']
            a = addr[nm] if v != 'unmapped' else req['base'] + 0x100000
            if v == 'bad-ent':
                ent += w
            if nm == 'JMPREL':
                tags += [(DT['JMPREL'], a), (DT['PLTREL'], DT['RELA'] if req['tables'][nm]['rela'] else DT['REL'])]
                if v != 'no-size-tag':
                    tags.append((DT['PLTRELSZ'], size))
            else:
                tags += [(DT[nm], a)]
                if v != 'no-size-tag':
                    tags.append((DT[nm + 'SZ'], size))
                if v != 'no-ent-tag':
                    tags.append((DT[nm + 'ENT'], ent))
        tags.append((DT['NULL'], 0))
        dyn = b''.join(struct.pack(E + ('iI' if cls == 32 else 'qQ'), t, x) for t, x in tags)
        img = EB.ElfImage(cls=cls, le=le, e_type=EB.ET_DYN, e_machine=req['machine'])
        idata = img.add_section('.data.rel', EB.SHT_PROGBITS, data=bytes(blob), flags=EB.SHF_ALLOC, addr=req['base'], addralign=8)
        istr = img.add_section('.dynstr', EB.SHT_STRTAB, data=b'\0libx.so\0', flags=EB.SHF_ALLOC, addr=req['base'] + 0x8000)
        idyn = img.add_section('.dynamic', EB.SHT_DYNAMIC, data=dyn, flags=EB.SHF_ALLOC | EB.SHF_WRITE, addr=req['base'] + 0x9000,
                               link=istr, entsize=2 * w, addralign=8)
        img.add_segment(EB.PT_LOAD, section=idata)
        img.add_segment(EB.PT_DYNAMIC, section=idyn)
        data = img.build()

        def impl_fn(data=data, idyn=idyn, via=req['via']):
            ef = open_elf(data)
            if via == 'section':
                d = ef.get_section(idyn)
            else:
                d = [s for s in ef.iter_segments() if s['p_type'] == 'PT_DYNAMIC'][0]
            res = d.get_relocation_tables()
            o = []
            for nm, t in res.items():
                o.append([nm, obs_relr(t, 0 if (sum(data[-64:]) + len(data) // 8) % 2 else None) if nm == 'RELR' else obs_table(t)])
            return o
        impl = run_impl(impl_fn)
        runs.append({'p': 'C08', 'k': 'run_dyn', 'hex': hx(data), 'le': le, 'cls': cls, 'machine': req['machine'],
                     'dyn_offset': img.offsets[idyn], 'empty': False,
                     'loads': [[req['base'], len(blob), img.offsets[idata]]]})
        wf = v in ('ok', 'vaddr0') and all(t['wf'] for t in tabs.values())
        expect = None
        if wf:
            expect = []
            for nm in ('REL', 'RELA', 'RELR', 'JMPREL'):
                if nm not in tabs:
                    continue
                ex = tabs[nm]['expect']
                if nm == 'RELR':
                    expect.append([nm, {'offsets': {'ok': ex['offsets']}, 'num': {'ok': ex['num']}}])
                else:
                    expect.append([nm, {'num': {'ok': ex['num']}, 'is_rela': ex['is_rela'], 'entries': {'ok': ex['entries']}, 'get': []}])
        out.append({'impl': impl, 'expect': expect, 'wf': wf})
    models = ask_safe(ctx, runs)
    for o, m in zip(out, models):
        if 'fatal' in m:
            raise RuntimeError('driver: %s' % m['fatal'])
        o['model'] = m['model']
    return out


# --------------------------------------------------------------------------------------------- apply stream
def gen_apply(rng):
    r = rng.random()
    mname = rng.choice(LISTED) if r < 0.93 else rng.choice(['riscv', 'bpf', 'sparc', 'unknown'])
    if mname == 'mips':
        rela = rng.random() < 0.5
        cls = rng.choice([32, 64])
    else:
        rela = NATURAL_RELA.get(mname, True)
        if rng.random() < 0.15:
            rela = not rela
        cls = {'x86': 32, 'arm': 32, 'aarch64': 64, 'ppc64': 64}.get(mname, rng.choice([32, 64]))
    le = rng.random() < 0.5
    seclen = rng.choice([8, 9, 12, 16, 24, 40])
    pat = rng.random()
    if pat < 0.25:
        section = bytes([0xff]) * seclen
    elif pat < 0.4:
        section = bytes(seclen)
    else:
        section = rnd_bytes(rng, seclen)
    nsyms = rng.choice([1, 2, 3, 5])
    syms = [0] + [rnd_uint(rng, cls) for _ in range(nsyms - 1)]
    n = rng.choice([0, 1, 1, 1, 2, 3, 5])
    relocs = []
    for _ in range(n):
        t = rng.choice(TYPE_POOL)
        if rng.random() < 0.9:
            # bias towards the types that exist for this machine so most cases relocate something
            t = rng.choice({'x86': [0, 1, 2], 'x64': [0, 1, 2, 10, 11], 'arm': [2, 2, 28], 'aarch64': [257, 258, 261],
                            'mips': [0, 2, 18], 'ppc64': [1, 26, 38], 's390': [4, 5, 22],
                            'loongarch': [0, 1, 2, 47, 48, 50, 51, 52, 53, 55, 56, 99, 109]}.get(mname, TYPE_POOL))
        if cls == 32 and t > 255 and rng.random() < 0.9:
            t = t & 0xff
        q = rng.random()
        if q < 0.7:
            off = rng.randrange(0, seclen - 7)
        elif q < 0.9:
            off = seclen - rng.choice([1, 2, 4, 8])
        else:
            off = rng.choice([seclen, seclen + 1, rnd_uint(rng, cls)])
        sym = rng.randrange(0, nsyms) if rng.random() < 0.88 else rng.choice([nsyms, nsyms + 1, 0xffffff])
        e = {'offset': off, 'sym': sym, 'type': t}
        if rela:
            e['addend'] = clamp_s(sint(rng, cls), cls)
        if cls == 64 and mname == 'mips' and rng.random() < 0.25:
            # MIPS64 composite entries: second / third type (R_MIPS_NONE, R_MIPS_32, R_MIPS_SUB, …) and the special symbol
            e['type2'], e['type3'], e['ssym'] = rng.choice([0, 0, 1, 2, 24]), rng.choice([0, 0, 0, 7, 24]), rng.choice([0, 0, 0, 3])
        relocs.append(e)
    return {'p': 'C08', 'k': 'enc_apply', 'le': le, 'cls': cls, 'machine': EM[mname], 'rela': rela, 'section': hx(section),
            'syms': syms, 'relocs': relocs, 'relocate': rng.random() < 0.85, 'decoy': rng.random() < 0.5,
            'secname': rng.choice(['.debug_info', '.debug_info', '.debug_info', '.debug_line', '.debug_aranges']),
            # COMDAT style: a second section of the same name with its own relocation section ('before': ahead of the pair
            # under test, 'after': behind it); names are then not conventional — lookup by name and by sh_info differ
            'dup': rng.choice(['before', 'after']) if rng.random() < 0.08 else None,
            # the relocation section ahead of the section it relocates (both orders occur in practice)
            'relfirst': rng.random() < 0.2,
            # a second symbol table with other values (same or another name, ahead of or behind the one sh_link designates)
            'symdecoy': rng.choice([None, None, ['.symtab', 'before'], ['.symtab', 'after'], ['.dynsym', 'before'],
                                    ['.dynsym', 'after']]),
            # malformed: sh_link designates the string table (AttributeError at the first entry, nothing with none) —
            # outside the domain, correspondence only
            'badlink': rng.random() < 0.04}


def section_headers(ef):
    secs, symtabs = [], []
    for i in range(ef.num_sections()):
        h = ef._get_section_header(i)
        secs.append({'name': ef._get_section_name(h), 'sh_type': canon(h['sh_type']), 'sh_offset': h['sh_offset'],
                     'sh_size': h['sh_size'], 'sh_entsize': h['sh_entsize'], 'sh_link': h['sh_link']})
        if h['sh_type'] in ('SHT_SYMTAB', 'SHT_DYNSYM'):
            symtabs.append([i, h['sh_offset'], h['sh_size'], h['sh_entsize']])
    return secs, symtabs


SEC_ATTR = {'.debug_info': 'debug_info_sec', '.debug_line': 'debug_line_sec', '.debug_aranges': 'debug_aranges_sec'}


def eval_apply(ctx, reqs):
    encs = ask_safe(ctx, [{k: v for k, v in r.items() if k not in ('relocate', 'decoy', 'secname', 'dup', 'relfirst', 'symdecoy', 'badlink')} for r in reqs])
    out, runs, fruns, sruns = [], [], [], []
    for req, enc in zip(reqs, encs):
        if 'fatal' in enc:
            raise RuntimeError('driver: %s on %r' % (enc['fatal'], req))
        cls, le, rela = req['cls'], req['le'], req['rela']
        section = bytes.fromhex(req['section'])
        relname = ('.rela' if rela else '.rel') + req['secname']
        reltype = EB.SHT_RELA if rela else EB.SHT_REL
        img = EB.ElfImage(cls=cls, le=le, e_type=EB.ET_REL, e_machine=req['machine'])
        istr = img.add_section('.strtab', EB.SHT_STRTAB, data=b'\0')
        sd = req.get('symdecoy')

        def add_symdecoy():
            # same layout, every st_value complemented: picking it (by name, by position, by type) shows in every S
            raw = bytes.fromhex(enc['symbytes'])
            es, vo, vw = enc['symentsize'], (4 if cls == 32 else 8), (4 if cls == 32 else 8)
            flipped = b''.join(raw[k:k + vo] + bytes(b ^ 0xff for b in raw[k + vo:k + vo + vw]) + raw[k + vo + vw:k + es]
                               for k in range(0, len(raw), es))
            img.add_section(sd[0], EB.SHT_DYNSYM if sd[0] == '.dynsym' else EB.SHT_SYMTAB, data=flipped, link=istr,
                            entsize=es, addralign=8)
        if sd and sd[1] == 'before':
            add_symdecoy()
        isym = img.add_section('.symtab', EB.SHT_SYMTAB, data=bytes.fromhex(enc['symbytes']), link=istr,
                               entsize=enc['symentsize'], addralign=8)
        if sd and sd[1] == 'after':
            add_symdecoy()
        if req['decoy']:
            # a relocation section for another section, listed first: must not be picked
            itxt = img.add_section('.text', EB.SHT_PROGBITS, data=bytes(16), flags=6)
            img.add_section(('.rela' if rela else '.rel') + '.text', reltype,
                            data=bytes(enc['relentsize']), link=isym, info=itxt, entsize=enc['relentsize'], addralign=8)

        def add_twin():
            # the other member of a COMDAT-style pair: same names, other contents, an empty relocation table
            j = img.add_section(req['secname'], EB.SHT_PROGBITS, data=bytes(len(section)))
            img.add_section(relname, reltype, data=b'', link=isym, info=j, entsize=enc['relentsize'], addralign=8)
        if req.get('dup') == 'before':
            add_twin()
        ilink = istr if req.get('badlink') else isym
        if req.get('relfirst'):
            # sh_info names the index the section under test is about to get
            irel = img.add_section(relname, reltype, data=bytes.fromhex(enc['relbytes']), link=ilink,
                                   info=len(img.sections) + 1, entsize=enc['relentsize'], addralign=8)
            idbg = img.add_section(req['secname'], EB.SHT_PROGBITS, data=section)
        else:
            idbg = img.add_section(req['secname'], EB.SHT_PROGBITS, data=section)
            irel = img.add_section(relname, reltype, data=bytes.fromhex(enc['relbytes']), link=ilink, info=idbg,
                                   entsize=enc['relentsize'], addralign=8)
        if req['secname'] != '.debug_info':
            img.add_section('.debug_info', EB.SHT_PROGBITS, data=b'')
        if req.get('dup') == 'after':
            add_twin()
        data = img.build()

        def impl_fn(data=data, relocate=req['relocate'], attr=SEC_ATTR[req['secname']]):
            ef = open_elf(data)
            # get_dwarf_info may be called again on one ELFFile, with either flag: an earlier call must not show in a
            # later one (a seeded per-file cache of the loaded sections, filled before relocation patches the stream in
            # place, was missed while every file object was asked once).  Content-derived, so a replay is exact.
            mode = (len(data) + sum(data[-16:])) % 3
            if mode:
                try:
                    ef.get_dwarf_info(relocate_dwarf_sections=(relocate if mode == 1 else not relocate), follow_links=False)
                except Exception:       # noqa: BLE001
                    pass
            di = ef.get_dwarf_info(relocate_dwarf_sections=relocate, follow_links=False)
            return canon(getattr(di, attr).stream.getvalue())
        impl = run_impl(impl_fn)
        secs, symtabs = section_headers(open_elf(data))
        # the argument-fed kind is handed the bytes of the section the loader reads: the LAST one bearing the name
        picked = hx(bytes(len(section))) if req.get('dup') == 'after' else req['section']
        runs.append({'p': 'C08', 'k': 'run_apply', 'hex': hx(data), 'le': le, 'cls': cls, 'machine': req['machine'], 'secs': secs,
                     'symtabs': symtabs, 'name': req['secname'], 'section': picked, 'relocate': req['relocate']})
        # whole file: lookup, caller-side apply on a copy, and the loader — one fresh object, content-derived order
        tname = hx(req['secname'].encode())
        fops = [{'op': 'find', 'target': tname},
                {'op': 'apply', 'target': tname, 'section': req['section']},
                {'op': 'dwarf', 'relocate': req['relocate'], 'kw': SEC_ATTR[req['secname']]},
                {'op': 'byname', 'name': hx(relname.encode()), 'get': [0]},
                {'op': 'find', 'target': hx(b'.nothing')}]
        k = content_bit(data) + 2 * content_bit(data, 1)
        fops = fops[k:] + fops[:k]
        fruns.append({'p': 'C08', 'k': 'file_api', 'hex': hx(data), 'ops': fops})
        sruns.append({'p': 'C08', 'k': 'spec_find', 'target': tname, 'tindex': idbg,
                      'secs': [[hx(x['name'].encode()), x['type'], x['info']] for x in img.sections]
                              + [[hx(b'.shstrtab'), EB.SHT_STRTAB, 0]]})
        if not req['relocate']:
            wf, expect = True, enc['expect_norelocate'] if 'expect_norelocate' in enc else {'ok': {'b': req['section']}}
        else:
            wf, expect = enc['wf'], enc['expect']
        out.append({'impl': impl, 'expect': expect if wf else None, 'wf': wf, 'fops': fops, 'fimpl': impl_file_ops(data, fops),
                    'enc_wf': enc['wf'], 'enc_expect': enc['expect'], 'irel': irel, 'idbg': idbg})
    models = ask_safe(ctx, runs)
    for o, m in zip(out, models):
        if 'fatal' in m:
            raise RuntimeError('driver: %s' % m['fatal'])
        o['model'] = m['model']
    ask_files(ctx, fruns, out)
    for o, m in zip(out, ask_safe(ctx, sruns)):
        if 'fatal' in m:
            raise RuntimeError('driver: %s' % m['fatal'])
        o['lookup'] = m
        # names not conventional (COMDAT twins): which table is applied to which section is not the pair under test —
        # outside the domain of the direct comparison, correspondence only
        if not (m['follows'] and m['last'] == o['idbg']):
            o['wf'], o['expect'], o['unconventional'] = False, None, True
    for req, o in zip(reqs, out):
        if req.get('badlink'):
            o['wf'], o['expect'], o['badlink'] = False, None, True
    return out


# --------------------------------------------------------------------------------------------- judging
def prop_holds(stream, req, o):
    """impl agrees with what the property prescribes (only called when wf)"""
    impl, ex = o['impl'], o['expect']
    if stream == 'apply':
        return impl == ex
    got = impl.get('ok')
    if got is None:
        return False
    if stream == 'rel':
        return all(got.get(k) == v for k, v in ex.items()) and check_rel_gets(req, o)
    if stream == 'relr':
        return got == ex
    if stream == 'dyn':
        return got == ex
    raise KeyError(stream)


def file_prop_holds(stream, req, o):
    """direct comparisons on the whole-file observations (only called when o['wf']): what the property prescribes for the
    objects reached by index / by name, for the lookup, and for the caller-side apply"""
    if 'fops' not in o:
        return True
    ex = o['expect']
    for op, got in zip(o['fops'], o['fimpl']):
        what = op['op']
        if what in ('byname', 'find') and bytes.fromhex(op.get('name', op.get('target'))) == b'.nothing':
            if got != {'ok': None}:
                return False
            continue
        if stream == 'rel':
            t = (got.get('ok') or {}).get('rel')
            if t is None or not all(t.get(k) == v for k, v in ex.items()):
                return False
            ents = ex['entries']['ok']
            for n, g in zip(op.get('get', []), t['get']):
                if n < len(ents) and g != {'ok': ents[n]}:
                    return False
        elif stream == 'relr':
            if got != {'ok': {'relr': ex}}:
                return False
        elif stream == 'apply':
            lk = o['lookup']
            if what == 'find':
                # the section found is the standard's: by name, which (names being conventional) is by sh_info
                if not (lk['byname'] == lk['byinfo'] == o['irel'] and 'ok' in got and got['ok'] is not None
                        and got['ok'][0] == lk['byname']):
                    return False
            elif what == 'apply':
                if o['enc_wf'] and got != ({'ok': o['enc_expect']['ok']} if 'ok' in o['enc_expect'] else o['enc_expect']):
                    return False
            elif what == 'dwarf':
                if got != ex:
                    return False
            elif what == 'byname':
                if o['enc_wf']:
                    t = (got.get('ok') or {}).get('rel')
                    if t is None or t['num'] != {'ok': len(req['relocs'])} or t['is_rela'] != req['rela']:
                        return False
    return True


def count_file_ops(ctx, stream, o):
    for op, got in zip(o.get('fops', []), o.get('fimpl', [])):
        res = 'err:' + got['err'] if 'err' in got else ('none' if got['ok'] is None else
              (next(iter(got['ok'])) if isinstance(got['ok'], dict) and op['op'] in ('sec', 'byname') else 'ok'))
        ctx.out.count('file:%s:%s:%s' % (stream, op['op'], res))


EVAL = {'rel': eval_rel, 'relr': eval_relr, 'dyn': eval_dyn, 'apply': eval_apply}
GEN = {'rel': gen_rel, 'relr': gen_relr, 'dyn': gen_dyn, 'apply': gen_apply}


def hist_key(stream, req, o):
    if stream == 'rel':
        return 'rel:%s:%d:%s:%s' % ('rela' if req['rela'] else 'rel', req['cls'],
                                    'mips' if req['machine'] == 8 else 'std', req['variant'])
    if stream == 'relr':
        return 'relr:%d:%s%s' % (req['cls'], req['variant'], '' if o['wf'] or req['variant'] != 'ok' else ':bitmap-first')
    if stream == 'dyn':
        return 'dyn:%s:%s:%s' % (req['via'], req['variant'], '+'.join(sorted(req['tables'])) or 'none')
    m = {v: k for k, v in EM.items()}[req['machine']]
    res = 'norelocate' if not req['relocate'] else ('notwf' if not o['wf'] else ('rejected' if 'err' in o['expect'] else 'relocated'))
    return 'apply:%s:%s:%s' % (m, 'rela' if req['rela'] else 'rel', res)


def run_stream(ctx, stream, n):
    rng = ctx.rng(stream)
    reqs = [GEN[stream](rng) for _ in range(n)]
    B = 400
    for s in range(0, len(reqs), B):
        chunk = reqs[s:s + B]
        res = EVAL[stream](ctx, chunk)
        for req, o in zip(chunk, res):
            case = {'req': req}
            ctx.out.case(case)
            ctx.out.count(hist_key(stream, req, o))
            count_file_ops(ctx, stream, o)
            if o.get('badlink'):
                ctx.out.count(stream + ':sh_link-not-a-symtab')
            if o.get('unconventional'):
                ctx.out.count(stream + ':names-not-conventional')
            elif stream == 'apply':
                ctx.out.count('apply:lookup:by-name==by-sh_info')
            if not o['wf']:
                ctx.out.count(stream + ':outside-domain')
            if 'ilimpl' in o:
                ctx.out.count('relr:interleaved-walk:' + ('ok' if 'ok' in o['ilimpl'] else o['ilimpl']['err']))
            if 'himpl' in o:
                ctx.out.count('relr:cache-history:queries', len(o['hqs']))
                ctx.out.count('relr:cache-history:' + ('published' if (o['himpl'].get('ok') or {}).get('cached') else 'not-published'))
                for a in (o['himpl'].get('ok') or {}).get('answers', []):
                    ctx.out.count('relr:cache-history:answer:' + ('ok' if 'ok' in a else a['err']))
            if o['wf'] and not prop_holds(stream, req, o):
                ctx.out.violation('property', stream, case, expect=o['expect'], got=o['impl'], model=o['model'])
            elif o['wf'] and not file_prop_holds(stream, req, o):
                ctx.out.violation('property', stream, case, expect=o['expect'], got=o['fimpl'], model=o.get('fmodel'),
                                  lookup=o.get('lookup'))
            elif o['wf'] and 'himpl' in o and (o['himpl'].get('ok') or {}).get('answers') != o['hexpect']:
                ctx.out.violation('property', stream, case, expect=o['hexpect'], got=o['himpl'], model=o.get('hmodel'), queries=o['hqs'])
            elif 'ilimpl' in o and 'ok' in o['impl'] and o['ilimpl'] != o['impl']['ok'].get('offsets'):
                # the interleaved walk must answer what the plain walk on a fresh object answers (itself compared with
                # the description and the model above)
                ctx.out.violation('property', stream, case, expect=o['impl']['ok'].get('offsets'), got=o['ilimpl'], model=o['model'],
                                  note='interleaved walk')
            elif o['impl'] != o['model']:
                ctx.out.violation('correspondence', stream, case, got=o['impl'], model=o['model'])
            elif 'himpl' in o and o['himpl'] != o['hmodel']:
                ctx.out.violation('correspondence', stream, case, got=o['himpl'], model=o['hmodel'], queries=o['hqs'])
            elif o.get('fimpl') != o.get('fmodel'):
                ctx.out.violation('correspondence', stream, case, got=o['fimpl'], model=o['fmodel'], ops=o['fops'])
        if ctx.time_left() < 5:
            ctx.out.notes.append('%s: stopped early at %d/%d (time budget)' % (stream, s + len(chunk), len(reqs)))
            break


def run(ctx):
    run_stream(ctx, 'rel', ctx.budget(900, 22000))
    run_stream(ctx, 'relr', ctx.budget(700, 18000))
    run_stream(ctx, 'dyn', ctx.budget(400, 12000))
    run_stream(ctx, 'apply', ctx.budget(2500, 55000))


def replay(ctx, payload):
    v = payload['violation']
    stream, req = v['stream'], v['case']['req']
    o = EVAL[stream](ctx, [req])[0]
    hist_prop = bool(o['wf'] and 'himpl' in o and (o['himpl'].get('ok') or {}).get('answers') != o['hexpect'])
    fails_prop = bool(o['wf'] and not (prop_holds(stream, req, o) and file_prop_holds(stream, req, o))) or hist_prop
    fails_corr = o['impl'] != o['model'] or o.get('fimpl') != o.get('fmodel') or o.get('himpl') != o.get('hmodel')
    if 'ilimpl' in o and 'ok' in o['impl'] and o['ilimpl'] != o['impl']['ok'].get('offsets'):
        hist_prop = fails_prop = True
    return {'stream': stream, 'case': v['case'], 'impl': o['impl'], 'expect': o['expect'], 'model': o['model'],
            'file_ops': o.get('fops'), 'file_impl': o.get('fimpl'), 'file_model': o.get('fmodel'), 'lookup': o.get('lookup'),
            'wf': o['wf'], 'fails': fails_prop or fails_corr, 'kind': 'property' if fails_prop else ('correspondence' if fails_corr else None)}


FINDINGS = {}
