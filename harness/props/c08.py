"""C08 — relocation tables decode exactly; debug-section relocation follows the psABI.  Streams:

  rel    : abstract REL/RELA table (both classes, both byte orders, MIPS64 packed r_info, 0..many entries) → Lean
           spec encoder → wrapped as an SHT_REL/SHT_RELA section of a real ELF image → ELFFile → RelocationSection
           num_relocations / is_RELA / iter_relocations / get_relocation.  Malformed variants (wrong sh_entsize,
           ragged sh_size, truncated file) are compared with the model only.
  relr   : RELR word streams (anchors, bitmaps: all-ones, single-bit, random; bitmap first) → SHT_RELR section →
           RelrRelocationSection.iter_relocations / num_relocations vs the standard expansion and the model.
  dyn    : REL / RELA / RELR / JMPREL tables placed in a PT_LOAD'ed section and described by dynamic tags →
           Dynamic.get_relocation_tables (via the .dynamic section and via the PT_DYNAMIC segment).
  apply  : relocatable objects (x86, x86-64, ARM, AArch64, MIPS REL/RELA, PPC64, S390x, LoongArch, plus machines
           outside the list for correspondence) with .debug_info, .symtab and .rel[a].debug_info assembled by the
           Lean spec encoders → ELFFile.get_dwarf_info(relocate_dwarf_sections=True/False) → bytes of
           debug_info_sec.stream vs the psABI formula (S+A, S+A-P, in-place addend, add/sub; truncated to the
           field width; every other byte unchanged; rejected entries → ELFRelocationError) and the model.
"""
import io, struct
from common import run_impl, canon, hx, rnd_uint, rnd_bytes
import elfbuild as EB

RULE = ('rel: (machine, class, byte order, flavour, 0..6 entries) with every entry field drawn from boundary pools '
        '(offset 0..2^cls-1, sym up to 24/32 bits, type up to 8/32 bits, MIPS64 ssym/type2/type3, addends at the signed '
        'limits), random section alignment/padding; relr: 0..8 words mixing anchors and bitmaps with all-ones, single-bit, '
        'top-bit and random patterns, 8% starting with a bitmap; dyn: each of REL/RELA/RELR/JMPREL present with prob. 1/2, '
        'JMPREL flavour by DT_PLTREL; apply: machine x flavour x 0..5 relocations with types from the union of all listed '
        'type numbers (plus unlisted ones), symbol values / addends / in-place values at wrap boundaries, offsets anywhere '
        'in the section incl. the last possible position, 12% out-of-range symbol indices, 15% wrong flavour, both '
        'relocate_dwarf_sections values. R_*_NONE is only checked with 8 bytes of room (the library reads a word there). '
        'Non-trivial = distinct generated case; every case parses at least the container and one table/section.')
ASSUMPTIONS = ['io.BytesIO read/seek/tell/write semantics', 'ELF container parsing (section headers, names, section data, '
               'symbol table lookup by sh_link, PT_LOAD lookup) is as built by harness/elfbuild.py — subject of other properties',
               'debug section address sh_addr = 0 in relocatable objects (P = r_offset)',
               'the dynamic section has a string table (DynamicTag construction)']

EM = {'x86': 3, 'mips': 8, 'ppc64': 21, 's390': 22, 'arm': 40, 'x64': 62, 'aarch64': 183, 'riscv': 243, 'bpf': 247,
      'loongarch': 258, 'sparc': 2, 'unknown': 0xfe01}
LISTED = ['x86', 'x64', 'arm', 'aarch64', 'mips', 'ppc64', 's390', 'loongarch']
TYPE_POOL = [0, 1, 2, 4, 5, 10, 11, 18, 22, 26, 38, 47, 48, 50, 51, 52, 53, 55, 56, 99, 109, 257, 258, 261, 28, 3, 49, 54, 255]
NATURAL_RELA = {'x86': False, 'arm': False, 'x64': True, 'aarch64': True, 'ppc64': True, 's390': True, 'loongarch': True}
SHT_NAME = {EB.SHT_REL: 'SHT_REL', EB.SHT_RELA: 'SHT_RELA', EB.SHT_RELR: 'SHT_RELR'}


def ask_safe(ctx, reqs, limit=40000):
    """ask_many in groups whose request text fits the pipe buffer: common.Driver writes a whole batch before it
    reads any reply, which deadlocks once both pipes fill up (ELF images make these requests large)"""
    import json
    out, group, size = [], [], 0
    for r in reqs:
        n = len(json.dumps(r, separators=(',', ':'))) + 16
        if group and size + n > limit:
            out += ctx.driver.ask_many(group)
            group, size = [], 0
        group.append(r)
        size += n
    if group:
        out += ctx.driver.ask_many(group)
    return out


def sint(rng, bits):
    r = rng.random()
    if r < 0.35:
        return rng.choice([0, 1, -1, 2, -2, 127, -128, (1 << (bits - 1)) - 1, -(1 << (bits - 1)), -(1 << (bits - 1)) + 1,
                           0x7fffffff, -0x80000000, 0x7fff, -0x8000]) if bits >= 32 else rng.randrange(-(1 << (bits - 1)), 1 << (bits - 1))
    return rnd_uint(rng, bits) - (1 << (bits - 1)) if r < 0.7 else rng.randrange(-300, 300)


def clamp_s(v, bits):
    return max(-(1 << (bits - 1)), min((1 << (bits - 1)) - 1, v))


def gen_entry(rng, cls, mips, rela):
    packed = cls == 64 and mips
    e = {'offset': rnd_uint(rng, cls)}
    if cls == 32:
        e['sym'], e['type'] = rnd_uint(rng, 24), rnd_uint(rng, 8)
    elif packed:
        e['sym'], e['type'] = rnd_uint(rng, 32), rnd_uint(rng, 8)
        e['ssym'], e['type2'], e['type3'] = rnd_uint(rng, 8), rnd_uint(rng, 8), rnd_uint(rng, 8)
    else:
        e['sym'], e['type'] = rnd_uint(rng, 32), rnd_uint(rng, 32)
    if rela:
        e['addend'] = clamp_s(sint(rng, cls), cls)
    return e


# --------------------------------------------------------------------------------------------- observing the library
def _poke(tab, n):
    """random access BEFORE counting / iterating on the same table object: answers must not depend on call order"""
    try:
        tab.get_relocation(n)
    except Exception:      # noqa: BLE001 — judged by the observed calls
        pass


def obs_table(tab, gets=()):
    if gets:
        _poke(tab, gets[0])
    return {'num': run_impl(tab.num_relocations), 'is_rela': tab.is_RELA(),
            'entries': run_impl(lambda: [canon(r.entry) for r in tab.iter_relocations()]),
            'get': [run_impl(lambda n=n: canon(tab.get_relocation(n).entry)) for n in gets]}


def obs_relr(tab, poke=None):
    if poke is not None:
        _poke(tab, poke)
    offs = run_impl(lambda: [r['r_offset'] for r in tab.iter_relocations()])
    # num_relocations caches list(iter_relocations()); ask a fresh object state: the cache is only set on success
    return {'offsets': offs, 'num': run_impl(tab.num_relocations)}


def open_elf(data):
    from elftools.elf.elffile import ELFFile
    return ELFFile(io.BytesIO(data))


# --------------------------------------------------------------------------------------------- rel stream
def gen_rel(rng):
    mname = rng.choice(['mips', 'mips', 'x64', 'x86', 'arm', 'aarch64', 'ppc64', 'sparc', 'unknown', 'loongarch'])
    cls = rng.choice([32, 64])
    rela = rng.random() < 0.5
    n = rng.choice([0, 1, 1, 2, 3, 6])
    req = {'p': 'C08', 'k': 'enc_rel', 'le': rng.random() < 0.5, 'cls': cls, 'machine': EM[mname], 'rela': rela,
           'entries': [gen_entry(rng, cls, mname == 'mips', rela) for _ in range(n)]}
    r = rng.random()
    variant = 'ok'
    if r < 0.06:
        variant = 'entsize'
    elif r < 0.12:
        variant = 'ragged'
    elif r < 0.16:
        variant = 'truncated'
    elif r < 0.19:
        variant = 'shtype-swapped'      # RELA bytes in an SHT_REL section and vice versa: entsize assert
    req['variant'] = variant
    req['align'] = rng.choice([1, 1, 4, 8, 16])
    req['extra'] = rng.choice([1, 3, 7]) if variant == 'ragged' else 0
    req['gets'] = sorted({0, n - 1 if n else 0, n, rng.randrange(0, n + 2)})
    return req


def patch_sh_size(data, cls, le, shoff, idx, size):
    """overwrite sh_size of section `idx` (used by the truncated variant)"""
    E = '<' if le else '>'
    if cls == 32:
        pos = shoff + idx * 40 + 20
        return data[:pos] + struct.pack(E + 'I', size & 0xffffffff) + data[pos + 4:]
    pos = shoff + idx * 64 + 32
    return data[:pos] + struct.pack(E + 'Q', size) + data[pos + 8:]


def eval_rel(ctx, reqs):
    encs = ask_safe(ctx, [{k: v for k, v in r.items() if k not in ('variant', 'align', 'extra', 'gets')} for r in reqs])
    out, runs = [], []
    for req, enc in zip(reqs, encs):
        if 'fatal' in enc:
            raise RuntimeError('driver: %s on %r' % (enc['fatal'], req))
        cls, le = req['cls'], req['le']
        table = bytes.fromhex(enc['bytes'])
        entsize = enc['entsize']
        rela = req['rela']
        shtype = EB.SHT_RELA if rela else EB.SHT_REL
        v = req['variant']
        if v == 'entsize':
            entsize += 1
        if v == 'ragged':
            table += b'\xee' * req['extra']
        if v == 'shtype-swapped':
            shtype = EB.SHT_REL if rela else EB.SHT_RELA
        img = EB.ElfImage(cls=cls, le=le, e_type=EB.ET_REL, e_machine=req['machine'])
        istr = img.add_section('.strtab', EB.SHT_STRTAB, data=b'\0')
        isym = img.add_section('.symtab', EB.SHT_SYMTAB, data=bytes(16 if cls == 32 else 24), link=istr,
                               entsize=16 if cls == 32 else 24)
        i = img.add_section('.rela.foo' if rela else '.rel.foo', shtype, data=table, link=isym, entsize=entsize,
                            addralign=req['align'])
        data = img.build()
        off, size = img.offsets[i], len(table)
        if v == 'truncated':
            size = len(data) - off + entsize * 2        # the table claims to run past the end of the file
            data = patch_sh_size(data, cls, le, img.shoff, i, size)

        def impl_fn(data=data, i=i, gets=req['gets']):
            sec = open_elf(data).get_section(i)
            return obs_table(sec, gets)
        impl = run_impl(impl_fn)
        runs.append({'p': 'C08', 'k': 'run_relsec', 'hex': hx(data), 'le': le, 'cls': cls, 'machine': req['machine'],
                     'sh_type': SHT_NAME[shtype], 'sh_offset': off, 'sh_size': size, 'sh_entsize': entsize, 'get': req['gets']})
        wf = enc['wf'] and v == 'ok'
        expect = None
        if wf:
            ex = enc['expect']
            expect = {'num': {'ok': ex['num']}, 'is_rela': ex['is_rela'], 'entries': {'ok': ex['entries']}}
        out.append({'impl': impl, 'expect': expect, 'wf': wf})
    models = ask_safe(ctx, runs)
    for o, m in zip(out, models):
        if 'fatal' in m:
            raise RuntimeError('driver: %s' % m['fatal'])
        o['model'] = m['model']
    return out


def check_rel_gets(req, o):
    """get_relocation(n) == n-th encoded entry for every requested n below the count"""
    if o['expect'] is None or 'ok' not in o['impl']:
        return True
    ents = o['expect']['entries']['ok']
    for n, g in zip(req['gets'], o['impl']['ok']['get']):
        if n < len(ents) and g != {'ok': ents[n]}:
            return False
    return True


# --------------------------------------------------------------------------------------------- relr stream
def gen_relr(rng):
    cls = rng.choice([32, 64])
    w = cls // 8
    n = rng.choice([0, 1, 2, 3, 5, 8])
    words = []
    for j in range(n):
        r = rng.random()
        if (j == 0 and rng.random() < 0.92) or r < 0.3:
            words.append((rnd_uint(rng, cls) >> 1) << 1)                    # anchor
        else:
            k = rng.random()
            if k < 0.2:
                b = (1 << cls) - 1
            elif k < 0.4:
                b = (1 << rng.randrange(1, cls)) | 1
            elif k < 0.5:
                b = 1                                                       # empty bitmap
            elif k < 0.6:
                b = (1 << (cls - 1)) | 1
            else:
                b = rng.getrandbits(cls) | 1
            words.append(b)
    return {'p': 'C08', 'k': 'enc_relr', 'le': rng.random() < 0.5, 'cls': cls, 'words': words,
            'machine': rng.choice([EM['x64'], EM['aarch64'], EM['arm'], EM['mips'], EM['x86']]),
            'variant': 'entsize' if rng.random() < 0.05 else ('ragged' if rng.random() < 0.05 else 'ok'),
            'align': rng.choice([1, 8, 16])}


def eval_relr(ctx, reqs):
    encs = ask_safe(ctx, [{k: v for k, v in r.items() if k not in ('variant', 'align', 'machine')} for r in reqs])
    out, runs = [], []
    for req, enc in zip(reqs, encs):
        if 'fatal' in enc:
            raise RuntimeError('driver: %s on %r' % (enc['fatal'], req))
        cls, le = req['cls'], req['le']
        table = bytes.fromhex(enc['bytes'])
        entsize = enc['entsize']
        if req['variant'] == 'entsize':
            entsize = entsize * 2
        if req['variant'] == 'ragged':
            table += b'\x02\x00\x00'
        img = EB.ElfImage(cls=cls, le=le, e_type=EB.ET_DYN, e_machine=req['machine'])
        i = img.add_section('.relr.dyn', EB.SHT_RELR, data=table, flags=EB.SHF_ALLOC, entsize=entsize, addralign=req['align'])
        data = img.build()

        def impl_fn(data=data, i=i):
            # in one case out of two, a random-access get_relocation(k) precedes the count / iteration
            hb = sum(data[-64:]) + len(data) // 8          # images are 8-byte padded: derive the choice from content
            poke = (hb % 4) if hb % 2 else None
            return obs_relr(open_elf(data).get_section(i), poke)
        impl = run_impl(impl_fn)
        runs.append({'p': 'C08', 'k': 'run_relr', 'hex': hx(data), 'le': le, 'cls': cls, 'machine': req['machine'],
                     'offset': img.offsets[i], 'size': len(table), 'entsize': entsize})
        wf = enc['wf'] and req['variant'] == 'ok'
        expect = {'offsets': {'ok': enc['expect']['offsets']}, 'num': {'ok': enc['expect']['num']}} if wf else None
        out.append({'impl': impl, 'expect': expect, 'wf': wf})
    models = ask_safe(ctx, runs)
    for o, m in zip(out, models):
        if 'fatal' in m:
            raise RuntimeError('driver: %s' % m['fatal'])
        o['model'] = m['model']
    return out


# --------------------------------------------------------------------------------------------- dyn stream
DT = {'NULL': 0, 'PLTRELSZ': 2, 'RELA': 7, 'RELASZ': 8, 'RELAENT': 9, 'REL': 17, 'RELSZ': 18, 'RELENT': 19,
      'PLTREL': 20, 'JMPREL': 23, 'RELRSZ': 35, 'RELR': 36, 'RELRENT': 37, 'NEEDED': 1, 'STRTAB': 5, 'SYMTAB': 6}


def gen_dyn(rng):
    mname = rng.choice(['x64', 'x86', 'arm', 'aarch64', 'mips', 'ppc64'])
    cls = rng.choice([32, 64])
    mips = mname == 'mips'
    req = {'le': rng.random() < 0.5, 'cls': cls, 'machine': EM[mname], 'tables': {}, 'base': rng.choice([0x1000, 0x400000, 0x10000]),
           'via': rng.choice(['section', 'section', 'segment']), 'variant': 'ok'}
    for nm in ('REL', 'RELA', 'RELR', 'JMPREL'):
        if rng.random() < 0.5:
            continue
        if nm == 'RELR':
            g = gen_relr(rng)
            req['tables'][nm] = {'words': [x % (1 << cls) for x in g['words']] if g['cls'] != cls else g['words']}
            if g['cls'] != cls:
                # regenerate for the right class
                g2 = gen_relr(rng)
                while g2['cls'] != cls:
                    g2 = gen_relr(rng)
                req['tables'][nm] = {'words': g2['words']}
        else:
            rela = {'REL': False, 'RELA': True, 'JMPREL': rng.random() < 0.5}[nm]
            n = rng.choice([0, 1, 2, 4])
            req['tables'][nm] = {'rela': rela, 'entries': [gen_entry(rng, cls, mips, rela) for _ in range(n)]}
    r = rng.random()
    if r < 0.05:
        req['variant'] = 'no-ent-tag'          # DT_RELENT / DT_RELAENT / DT_RELRENT missing → StopIteration
    elif r < 0.10:
        req['variant'] = 'bad-ent'             # DT_*ENT disagrees → ELFError
    elif r < 0.14:
        req['variant'] = 'unmapped'            # table address outside every PT_LOAD → offset None
    return req


def eval_dyn(ctx, reqs):
    # phase 1: encode every table with the spec encoders
    encq, where = [], []
    for qi, req in enumerate(reqs):
        for nm, t in req['tables'].items():
            if nm == 'RELR':
                encq.append({'p': 'C08', 'k': 'enc_relr', 'le': req['le'], 'cls': req['cls'], 'words': t['words']})
            else:
                encq.append({'p': 'C08', 'k': 'enc_rel', 'le': req['le'], 'cls': req['cls'], 'machine': req['machine'],
                             'rela': t['rela'], 'entries': t['entries']})
            where.append((qi, nm))
    encs = ask_safe(ctx, encq)
    per = [dict() for _ in reqs]
    for (qi, nm), e in zip(where, encs):
        if 'fatal' in e:
            raise RuntimeError('driver: %s' % e['fatal'])
        per[qi][nm] = e
    out, runs = [], []
    for req, tabs in zip(reqs, per):
        cls, le = req['cls'], req['le']
        E = '<' if le else '>'
        w = cls // 8
        blob = bytearray(b'\xcc' * 8)
        addr = {}
        for nm in ('JMPREL', 'RELR', 'RELA', 'REL'):         # file order differs from dict order on purpose
            if nm in tabs:
                while len(blob) % 8:
                    blob.append(0xcc)
                addr[nm] = req['base'] + len(blob)
                blob += bytes.fromhex(tabs[nm]['bytes'])
        blob += b'\xcc' * 8
        tags = [(DT['NEEDED'], 1)]
        v = req['variant']
        for nm in ('REL', 'RELA', 'RELR', 'JMPREL'):
            if nm not in tabs:
                continue
            size = len(bytes.fromhex(tabs[nm]['bytes']))
            ent = tabs[nm]['entsize']
            a = addr[nm] if v != 'unmapped' else req['base'] + 0x100000
            if v == 'bad-ent':
                ent += w
            if nm == 'JMPREL':
                tags += [(DT['JMPREL'], a), (DT['PLTRELSZ'], size), (DT['PLTREL'], DT['RELA'] if req['tables'][nm]['rela'] else DT['REL'])]
            else:
                tags += [(DT[nm], a), (DT[nm + 'SZ'], size)]
                if v != 'no-ent-tag':
                    tags.append((DT[nm + 'ENT'], ent))
        tags.append((DT['NULL'], 0))
        dyn = b''.join(struct.pack(E + ('iI' if cls == 32 else 'qQ'), t, x) for t, x in tags)
        img = EB.ElfImage(cls=cls, le=le, e_type=EB.ET_DYN, e_machine=req['machine'])
        idata = img.add_section('.data.rel', EB.SHT_PROGBITS, data=bytes(blob), flags=EB.SHF_ALLOC, addr=req['base'], addralign=8)
        istr = img.add_section('.dynstr', EB.SHT_STRTAB, data=b'\0libx.so\0', flags=EB.SHF_ALLOC, addr=req['base'] + 0x8000)
        idyn = img.add_section('.dynamic', EB.SHT_DYNAMIC, data=dyn, flags=EB.SHF_ALLOC | EB.SHF_WRITE, addr=req['base'] + 0x9000,
                               link=istr, entsize=2 * w, addralign=8)
        img.add_segment(EB.PT_LOAD, section=idata)
        img.add_segment(EB.PT_DYNAMIC, section=idyn)
        data = img.build()

        def impl_fn(data=data, idyn=idyn, via=req['via']):
            ef = open_elf(data)
            if via == 'section':
                d = ef.get_section(idyn)
            else:
                d = [s for s in ef.iter_segments() if s['p_type'] == 'PT_DYNAMIC'][0]
            res = d.get_relocation_tables()
            o = []
            for nm, t in res.items():
                o.append([nm, obs_relr(t, 0 if (sum(data[-64:]) + len(data) // 8) % 2 else None) if nm == 'RELR' else obs_table(t)])
            return o
        impl = run_impl(impl_fn)
        runs.append({'p': 'C08', 'k': 'run_dyn', 'hex': hx(data), 'le': le, 'cls': cls, 'machine': req['machine'],
                     'dyn_offset': img.offsets[idyn], 'empty': False,
                     'loads': [[req['base'], len(blob), img.offsets[idata]]]})
        wf = v == 'ok' and all(t['wf'] for t in tabs.values())
        expect = None
        if wf:
            expect = []
            for nm in ('REL', 'RELA', 'RELR', 'JMPREL'):
                if nm not in tabs:
                    continue
                ex = tabs[nm]['expect']
                if nm == 'RELR':
                    expect.append([nm, {'offsets': {'ok': ex['offsets']}, 'num': {'ok': ex['num']}}])
                else:
                    expect.append([nm, {'num': {'ok': ex['num']}, 'is_rela': ex['is_rela'], 'entries': {'ok': ex['entries']}, 'get': []}])
        out.append({'impl': impl, 'expect': expect, 'wf': wf})
    models = ask_safe(ctx, runs)
    for o, m in zip(out, models):
        if 'fatal' in m:
            raise RuntimeError('driver: %s' % m['fatal'])
        o['model'] = m['model']
    return out


# --------------------------------------------------------------------------------------------- apply stream
def gen_apply(rng):
    r = rng.random()
    mname = rng.choice(LISTED) if r < 0.93 else rng.choice(['riscv', 'bpf', 'sparc', 'unknown'])
    if mname == 'mips':
        rela = rng.random() < 0.5
        cls = rng.choice([32, 64])
    else:
        rela = NATURAL_RELA.get(mname, True)
        if rng.random() < 0.15:
            rela = not rela
        cls = {'x86': 32, 'arm': 32, 'aarch64': 64, 'ppc64': 64}.get(mname, rng.choice([32, 64]))
    le = rng.random() < 0.5
    seclen = rng.choice([8, 9, 12, 16, 24, 40])
    pat = rng.random()
    if pat < 0.25:
        section = bytes([0xff]) * seclen
    elif pat < 0.4:
        section = bytes(seclen)
    else:
        section = rnd_bytes(rng, seclen)
    nsyms = rng.choice([1, 2, 3, 5])
    syms = [0] + [rnd_uint(rng, cls) for _ in range(nsyms - 1)]
    n = rng.choice([0, 1, 1, 1, 2, 3, 5])
    relocs = []
    for _ in range(n):
        t = rng.choice(TYPE_POOL)
        if rng.random() < 0.9:
            # bias towards the types that exist for this machine so most cases relocate something
            t = rng.choice({'x86': [0, 1, 2], 'x64': [0, 1, 2, 10, 11], 'arm': [2, 2, 28], 'aarch64': [257, 258, 261],
                            'mips': [0, 2, 18], 'ppc64': [1, 26, 38], 's390': [4, 5, 22],
                            'loongarch': [0, 1, 2, 47, 48, 50, 51, 52, 53, 55, 56, 99, 109]}.get(mname, TYPE_POOL))
        if cls == 32 and t > 255 and rng.random() < 0.9:
            t = t & 0xff
        q = rng.random()
        if q < 0.7:
            off = rng.randrange(0, seclen - 7)
        elif q < 0.9:
            off = seclen - rng.choice([1, 2, 4, 8])
        else:
            off = rng.choice([seclen, seclen + 1, rnd_uint(rng, cls)])
        sym = rng.randrange(0, nsyms) if rng.random() < 0.88 else rng.choice([nsyms, nsyms + 1, 0xffffff])
        e = {'offset': off, 'sym': sym, 'type': t}
        if rela:
            e['addend'] = clamp_s(sint(rng, cls), cls)
        if cls == 64 and mname == 'mips' and rng.random() < 0.15:
            e['type2'], e['type3'], e['ssym'] = rng.choice([0, 1]), rng.choice([0, 0, 7]), rng.choice([0, 0, 3])
        relocs.append(e)
    return {'p': 'C08', 'k': 'enc_apply', 'le': le, 'cls': cls, 'machine': EM[mname], 'rela': rela, 'section': hx(section),
            'syms': syms, 'relocs': relocs, 'relocate': rng.random() < 0.85, 'decoy': rng.random() < 0.5,
            'secname': rng.choice(['.debug_info', '.debug_info', '.debug_info', '.debug_line', '.debug_aranges'])}


def section_headers(ef):
    secs, symtabs = [], []
    for i in range(ef.num_sections()):
        h = ef._get_section_header(i)
        secs.append({'name': ef._get_section_name(h), 'sh_type': canon(h['sh_type']), 'sh_offset': h['sh_offset'],
                     'sh_size': h['sh_size'], 'sh_entsize': h['sh_entsize'], 'sh_link': h['sh_link']})
        if h['sh_type'] in ('SHT_SYMTAB', 'SHT_DYNSYM'):
            symtabs.append([i, h['sh_offset'], h['sh_size'], h['sh_entsize']])
    return secs, symtabs


SEC_ATTR = {'.debug_info': 'debug_info_sec', '.debug_line': 'debug_line_sec', '.debug_aranges': 'debug_aranges_sec'}


def eval_apply(ctx, reqs):
    encs = ask_safe(ctx, [{k: v for k, v in r.items() if k not in ('relocate', 'decoy', 'secname')} for r in reqs])
    out, runs = [], []
    for req, enc in zip(reqs, encs):
        if 'fatal' in enc:
            raise RuntimeError('driver: %s on %r' % (enc['fatal'], req))
        cls, le, rela = req['cls'], req['le'], req['rela']
        section = bytes.fromhex(req['section'])
        img = EB.ElfImage(cls=cls, le=le, e_type=EB.ET_REL, e_machine=req['machine'])
        istr = img.add_section('.strtab', EB.SHT_STRTAB, data=b'\0')
        isym = img.add_section('.symtab', EB.SHT_SYMTAB, data=bytes.fromhex(enc['symbytes']), link=istr,
                               entsize=enc['symentsize'], addralign=8)
        if req['decoy']:
            # a relocation section for another section, listed first: must not be picked
            itxt = img.add_section('.text', EB.SHT_PROGBITS, data=bytes(16), flags=6)
            img.add_section(('.rela' if rela else '.rel') + '.text', EB.SHT_RELA if rela else EB.SHT_REL,
                            data=bytes(enc['relentsize']), link=isym, info=itxt, entsize=enc['relentsize'], addralign=8)
        idbg = img.add_section(req['secname'], EB.SHT_PROGBITS, data=section)
        if req['secname'] != '.debug_info':
            img.add_section('.debug_info', EB.SHT_PROGBITS, data=b'')
        img.add_section(('.rela' if rela else '.rel') + req['secname'], EB.SHT_RELA if rela else EB.SHT_REL,
                        data=bytes.fromhex(enc['relbytes']), link=isym, info=idbg, entsize=enc['relentsize'], addralign=8)
        data = img.build()

        def impl_fn(data=data, relocate=req['relocate'], attr=SEC_ATTR[req['secname']]):
            ef = open_elf(data)
            di = ef.get_dwarf_info(relocate_dwarf_sections=relocate, follow_links=False)
            return canon(getattr(di, attr).stream.getvalue())
        impl = run_impl(impl_fn)
        secs, symtabs = section_headers(open_elf(data))
        runs.append({'p': 'C08', 'k': 'run_apply', 'hex': hx(data), 'le': le, 'cls': cls, 'machine': req['machine'], 'secs': secs,
                     'symtabs': symtabs, 'name': req['secname'], 'section': req['section'], 'relocate': req['relocate']})
        if not req['relocate']:
            wf, expect = True, enc['expect_norelocate'] if 'expect_norelocate' in enc else {'ok': {'b': req['section']}}
        else:
            wf, expect = enc['wf'], enc['expect']
        out.append({'impl': impl, 'expect': expect if wf else None, 'wf': wf})
    models = ask_safe(ctx, runs)
    for o, m in zip(out, models):
        if 'fatal' in m:
            raise RuntimeError('driver: %s' % m['fatal'])
        o['model'] = m['model']
    return out


# --------------------------------------------------------------------------------------------- judging
def prop_holds(stream, req, o):
    """impl agrees with what the property prescribes (only called when wf)"""
    impl, ex = o['impl'], o['expect']
    if stream == 'apply':
        return impl == ex
    got = impl.get('ok')
    if got is None:
        return False
    if stream == 'rel':
        return all(got.get(k) == v for k, v in ex.items()) and check_rel_gets(req, o)
    if stream == 'relr':
        return got == ex
    if stream == 'dyn':
        return got == ex
    raise KeyError(stream)


EVAL = {'rel': eval_rel, 'relr': eval_relr, 'dyn': eval_dyn, 'apply': eval_apply}
GEN = {'rel': gen_rel, 'relr': gen_relr, 'dyn': gen_dyn, 'apply': gen_apply}


def hist_key(stream, req, o):
    if stream == 'rel':
        return 'rel:%s:%d:%s:%s' % ('rela' if req['rela'] else 'rel', req['cls'],
                                    'mips' if req['machine'] == 8 else 'std', req['variant'])
    if stream == 'relr':
        return 'relr:%d:%s%s' % (req['cls'], req['variant'], '' if o['wf'] or req['variant'] != 'ok' else ':bitmap-first')
    if stream == 'dyn':
        return 'dyn:%s:%s:%s' % (req['via'], req['variant'], '+'.join(sorted(req['tables'])) or 'none')
    m = {v: k for k, v in EM.items()}[req['machine']]
    res = 'norelocate' if not req['relocate'] else ('notwf' if not o['wf'] else ('rejected' if 'err' in o['expect'] else 'relocated'))
    return 'apply:%s:%s:%s' % (m, 'rela' if req['rela'] else 'rel', res)


def run_stream(ctx, stream, n):
    rng = ctx.rng(stream)
    reqs = [GEN[stream](rng) for _ in range(n)]
    B = 400
    for s in range(0, len(reqs), B):
        chunk = reqs[s:s + B]
        res = EVAL[stream](ctx, chunk)
        for req, o in zip(chunk, res):
            case = {'req': req}
            ctx.out.case(case)
            ctx.out.count(hist_key(stream, req, o))
            if not o['wf']:
                ctx.out.count(stream + ':outside-domain')
            if o['wf'] and not prop_holds(stream, req, o):
                ctx.out.violation('property', stream, case, expect=o['expect'], got=o['impl'], model=o['model'])
            elif o['impl'] != o['model']:
                ctx.out.violation('correspondence', stream, case, got=o['impl'], model=o['model'])
        if ctx.time_left() < 5:
            ctx.out.notes.append('%s: stopped early at %d/%d (time budget)' % (stream, s + len(chunk), len(reqs)))
            break


def run(ctx):
    run_stream(ctx, 'rel', ctx.budget(900, 30000))
    run_stream(ctx, 'relr', ctx.budget(700, 25000))
    run_stream(ctx, 'dyn', ctx.budget(400, 12000))
    run_stream(ctx, 'apply', ctx.budget(2500, 80000))


def replay(ctx, payload):
    v = payload['violation']
    stream, req = v['stream'], v['case']['req']
    o = EVAL[stream](ctx, [req])[0]
    fails_prop = bool(o['wf'] and not prop_holds(stream, req, o))
    fails_corr = o['impl'] != o['model']
    return {'stream': stream, 'case': v['case'], 'impl': o['impl'], 'expect': o['expect'], 'model': o['model'],
            'wf': o['wf'], 'fails': fails_prop or fails_corr, 'kind': 'property' if fails_prop else ('correspondence' if fails_corr else None)}


FINDINGS = {}
