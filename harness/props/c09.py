"""C09 — dynamic linking information is exact, with or without section headers.

Streams
  ast : random abstract dynamic descriptions (class × byte order × machine class × OS ABI; any tag sequence incl.
        machine/OS-specific and unknown codes, duplicates, entries after the terminator; string table, dynamic symbols,
        SysV / GNU hash tables, REL/RELA/RELR/JMPREL tables; any PT_LOAD layout incl. vaddr 0, decoy segments; `.dynamic`
        section at the segment's offset or at a second copy) → two images from the Lean assembler
        (Spec.Dynamic.DynDesc.assemble: with section headers / e_shoff = 0) → real ELFFile: DynamicSection and
        DynamicSegment of the full image, DynamicSegment of the stripped image; each compared with the Spec's
        observation (property) and with the Lean model of dynamic.py run on the same bytes (correspondence)
  ext : descriptions outside `DynDesc.wf` (fifth wave): DT_STRTAB removed or pointing outside every PT_LOAD (string table
        through the section called `.dynstr`, or none: ELFError), hash tags removed or unmapped (the symbol-count
        fallback: nearest entry value above DT_SYMTAB / end of the covering segment, DT_SYMENT check), DT_SYMTAB
        unmapped, DT_SYMENT wrong, a table without DT_NULL that is the last thing in the image (ELFParseError) → the
        same three objects; the parts of the observation a theorem of Props/C09.lean covers (`ext.expect_seg` of the
        driver's reply) are compared with the real library (property), everything with the model (correspondence).
        The `ext` comparison is also applied to every `ast` case.
  raw : mutated images (truncation, byte substitutions in the dynamic table / program headers / hash tables / string
        table) → model vs real, errors included
"""
import io
from common import run_impl, canon, hx, rnd_uint, rnd_bytes
from props.c01 import CLASS_MACHINES, SPECIAL, machine_choices, R

RULE = ('ast: DynDesc drawn type-directed: cls∈{32,64} × LSB/MSB × 8 machine classes × Solaris/other; tag list = required '
        'pointer tags + 0..4 NEEDED + SONAME/RPATH/RUNPATH(/SUNW_FILTER) + machine/OS-specific/unknown/negative codes + '
        'duplicates, shuffled, terminator, 0..3 trailing entries; string offsets incl. suffixes, 63/64/65-byte strings, '
        'non-UTF-8 library names; 1..8 symbols with duplicate names; hash ∈ {SysV, GNU, both, none}; reloc tables of 0..3 '
        'entries; blobs placed in random order with random gaps, grouped into 1..3 PT_LOADs (one may sit at vaddr 0) plus '
        'decoy segments; `.dynamic` section at the segment offset or at a second copy; 0..2 decoy sections. '
        'ext: the same descriptions with one of: DT_STRTAB removed / unmapped; hash tags removed / unmapped (count '
        'fallback, DT_STRSZ planted at the true end in half of them); DT_SYMTAB unmapped; DT_SYMENT ± 1; no DT_NULL with the '
        'table moved to the end of the image. '
        'raw: truncations and byte substitutions of those images. Non-trivial = distinct image (every image has ≥ 2 tags).')
ASSUMPTIONS = ['io.BytesIO semantics', 'str.decode("utf-8", errors="replace") (names are compared after that decoding)',
               'dynamic symbol names are valid UTF-8 (lookup by name is keyed on decoded strings)',
               'container accessors of ELFFile (segments, sections) as modelled for C01']

TAG = dict(DT_NULL=0, DT_NEEDED=1, DT_PLTRELSZ=2, DT_PLTGOT=3, DT_HASH=4, DT_STRTAB=5, DT_SYMTAB=6, DT_RELA=7, DT_RELASZ=8,
           DT_RELAENT=9, DT_STRSZ=10, DT_SYMENT=11, DT_INIT=12, DT_FINI=13, DT_SONAME=14, DT_RPATH=15, DT_REL=17,
           DT_RELSZ=18, DT_RELENT=19, DT_PLTREL=20, DT_JMPREL=23, DT_RUNPATH=29, DT_RELRSZ=35, DT_RELR=36, DT_RELRENT=37,
           DT_GNU_HASH=0x6ffffef5, DT_SUNW_FILTER=0x6000000f)
QUERY_TAGS = ['DT_NULL', 'DT_NEEDED', 'DT_PLTRELSZ', 'DT_HASH', 'DT_STRTAB', 'DT_SYMTAB', 'DT_RELA', 'DT_RELASZ', 'DT_RELAENT',
              'DT_SYMENT', 'DT_SONAME', 'DT_RPATH', 'DT_REL', 'DT_RELSZ', 'DT_RELENT', 'DT_PLTREL', 'DT_JMPREL', 'DT_RUNPATH',
              'DT_RELRSZ', 'DT_RELR', 'DT_RELRENT', 'DT_GNU_HASH', 'DT_PLTGOT', 'DT_INIT', 'DT_FINI']
# codes that do not steer the reader: generic, OS-specific, processor-specific, unknown, negative
OTHER_TAGS = [3, 12, 13, 21, 22, 24, 25, 27, 30, 32, 0x6ffffffb, 0x6ffffffe, 0x6fffffff, 0x6ffffff0, 0x6ffffef9, 0x6000000d,
              0x6000000e, 0x60000010, 0x60000011, 0x70000001, 0x70000003, 0x70000005, 0x70000016, 0x70000035, 0x7ffffffd,
              0x7fffffff, 0x12345, 38, 39, 0x6ffffdf5, -1, -0x80000000, 0x6fffffff]
LIBS = [b'libc.so.6', b'libfoo.so', b'', b'x' * 63, b'y' * 64, b'z' * 65, 'libüñï.so'.encode('utf-8'),
        b'$ORIGIN/../lib:/opt/lib', b'lib\xff.so', b'\xc3(', b'libm.so.6', b'a']
SYMS = [b'', b'printf', b'malloc', b'_init', b'foo', b'foo', b'x' * 70, 'sým'.encode('utf-8'), b'bar', b'_ZN3fooC1Ev']


def gen_desc(rng):
    M = machine_choices()
    cls = rng.choice([32, 64])
    le = rng.random() < 0.5
    mclass = rng.choice(['default', 'default', 'EM_SPARC', 'EM_MIPS', 'EM_MIPS_RS3_LE', 'EM_ARM', 'EM_X86_64', 'EM_AARCH64', 'EM_RISCV'])
    if mclass == 'default':
        e_machine = M[rng.choice([k for k in M if k not in SPECIAL])] if rng.random() < 0.8 else 0x9999
    else:
        e_machine = M[rng.choice(CLASS_MACHINES[mclass])]
    solaris = rng.random() < 0.25
    osabi = 6 if solaris else rng.choice([0, 0, 3, 9, 97])
    sunw = solaris and mclass not in ('EM_MIPS', 'EM_MIPS_RS3_LE', 'EM_AARCH64')
    w = cls // 8
    mips64 = cls == 64 and mclass == 'EM_MIPS'
    dynsz, symsz, relsz, relasz = 2 * w, (16 if cls == 32 else 24), 2 * w, 3 * w
    shsz, phsz, ehsize = (40, 32, 52) if cls == 32 else (64, 56, 64)
    wmask = (1 << cls) - 1

    # ---- string table ----------------------------------------------------------------------------------------
    tab = bytearray(b'\0')
    off_of = {}

    def add(s):
        if s not in off_of:
            if s == b'' and rng.random() < 0.7:
                off_of[s] = rng.choice([0, len(tab) - 1])
            else:
                off_of[s] = len(tab)
                tab.extend(s + b'\0')
        o = off_of[s]
        if len(s) > 2 and rng.random() < 0.15:       # a suffix of a stored string is a string too
            k = rng.randrange(1, len(s))
            # stay on a character boundary so that the suffix is the same text in both decodings
            while k < len(s) and (s[k] & 0xC0) == 0x80:
                k += 1
            return o + k
        return o

    nneeded = rng.choice([0, 1, 1, 2, 4])
    str_tags = [(TAG['DT_NEEDED'], add(rng.choice(LIBS))) for _ in range(nneeded)]
    for nm in ('DT_SONAME', 'DT_RPATH', 'DT_RUNPATH'):
        if rng.random() < 0.4:
            str_tags.append((TAG[nm], add(rng.choice(LIBS))))
    if rng.random() < (0.5 if sunw else 0.1):
        # under a non-Solaris tag set this code is just a number and its value anything
        str_tags.append((TAG['DT_SUNW_FILTER'], add(rng.choice(LIBS)) if sunw else rnd_uint(rng, cls)))
    # ---- symbols ---------------------------------------------------------------------------------------------
    nsyms = rng.choice([1, 1, 2, 3, 5, 8])
    syms = []
    for i in range(nsyms):
        name = b'' if i == 0 else rng.choice(SYMS)
        f = dict(st_name=add(name) if i else 0, st_value=rnd_uint(rng, cls) if i else 0, st_size=rnd_uint(rng, cls) if i else 0,
                 st_info=R(bind=rng.randrange(16), type=rng.randrange(16)) if i else R(bind=0, type=0),
                 st_other=R(local=rng.randrange(8), visibility=rng.randrange(8)) if i else R(local=0, visibility=0),
                 st_shndx=rng.choice([0, 1, 5, 0xfff1, 0xfff2, 0xffff, 0xff00, rng.randrange(0x10000)]) if i else 0)
        syms.append((name, f))
    if rng.random() < 0.3:
        tab.extend(rnd_bytes(rng, rng.choice([1, 3])).replace(b'\0', b'q'))      # unterminated tail, never referenced
    strtab = bytes(tab)
    # ---- hash tables -----------------------------------------------------------------------------------------
    hk = rng.choice(['sysv', 'gnu', 'gnu', 'both', 'none'])
    sysv = gnu = None
    if hk in ('sysv', 'both'):
        nb = rng.choice([0, 1, 3])
        sysv = dict(buckets=[rng.randrange(nsyms) for _ in range(nb)], chains=[rng.randrange(nsyms) for _ in range(nsyms)])
    if hk in ('gnu', 'both'):
        symoffset = rng.randrange(1, nsyms + 1)
        hashed = nsyms - symoffset
        nb = rng.choice([1, 1, 2, 4])
        cuts = sorted(rng.randrange(hashed + 1) for _ in range(nb - 1))
        sizes = [b - a for a, b in zip([0] + cuts, cuts + [hashed])]
        gnu = dict(symoffset=symoffset, bloom=[rnd_uint(rng, cls) for _ in range(rng.choice([0, 1, 2]))], shift=rng.randrange(32),
                   buckets=[[rnd_uint(rng, 32) for _ in range(n)] for n in sizes])
    # ---- relocation tables -----------------------------------------------------------------------------------
    def rel_entry(rela):
        if mips64:
            e = dict(r_offset=rnd_uint(rng, 64), r_sym=rnd_uint(rng, 32), r_ssym=rng.randrange(256), r_type3=rng.randrange(256),
                     r_type2=rng.randrange(256), r_type=rng.randrange(256))
        else:
            e = dict(r_offset=rnd_uint(rng, cls), r_info=rnd_uint(rng, cls))
        if rela:
            v = rnd_uint(rng, cls)
            e['r_addend'] = v - (1 << cls) if v >> (cls - 1) else v
        return R(**e)
    rel = [rel_entry(False) for _ in range(rng.choice([0, 1, 3]))] if rng.random() < 0.4 else None
    rela = [rel_entry(True) for _ in range(rng.choice([0, 1, 3]))] if rng.random() < 0.4 else None
    jmp_rela = rng.random() < 0.5
    jmprel = [rel_entry(jmp_rela) for _ in range(rng.choice([0, 1, 2]))] if rng.random() < 0.4 else None
    relr = [rnd_uint(rng, cls) for _ in range(rng.choice([0, 1, 3]))] if rng.random() < 0.3 else None
    # ---- tags (addresses filled in after layout) -------------------------------------------------------------
    ptr_tags = [('DT_STRTAB', 'str'), ('DT_SYMTAB', 'sym')]
    if sysv is not None: ptr_tags.append(('DT_HASH', 'sysv'))
    if gnu is not None: ptr_tags.append(('DT_GNU_HASH', 'gnu'))
    val_tags = [(TAG['DT_STRSZ'], len(strtab)), (TAG['DT_SYMENT'], symsz if rng.random() < 0.9 else symsz + 1)]
    if rel is not None:
        ptr_tags.append(('DT_REL', 'rel'))
        val_tags += [(TAG['DT_RELSZ'], len(rel) * relsz), (TAG['DT_RELENT'], relsz)]
    if rela is not None:
        ptr_tags.append(('DT_RELA', 'rela'))
        val_tags += [(TAG['DT_RELASZ'], len(rela) * relasz), (TAG['DT_RELAENT'], relasz)]
    if relr is not None:
        ptr_tags.append(('DT_RELR', 'relr'))
        val_tags += [(TAG['DT_RELRSZ'], len(relr) * w), (TAG['DT_RELRENT'], w)]
    if jmprel is not None:
        ptr_tags.append(('DT_JMPREL', 'jmprel'))
        val_tags += [(TAG['DT_PLTRELSZ'], len(jmprel) * (relasz if jmp_rela else relsz)), (TAG['DT_PLTREL'], 7 if jmp_rela else 17)]
    others = []
    for _ in range(rng.choice([0, 1, 3, 6])):
        t = rng.choice(OTHER_TAGS)
        if cls == 32 and not (-(1 << 31) <= t < (1 << 31)):
            continue
        others.append((t, rnd_uint(rng, cls)))
    live = [('P', n, k) for n, k in ptr_tags] + [('V', t, v) for t, v in val_tags + str_tags + others]
    rng.shuffle(live)
    # duplicates of steering tags AFTER their first occurrence (first one wins) and of string tags anywhere
    for _ in range(rng.choice([0, 0, 1, 2])):
        which = rng.choice(live)
        if which[0] == 'P':
            live.append(('V', TAG[which[1]], rnd_uint(rng, cls)))
        elif which[1] in (TAG['DT_NEEDED'], TAG['DT_SONAME'], TAG['DT_RPATH'], TAG['DT_RUNPATH']) or which[1] in OTHER_TAGS:
            live.insert(rng.randrange(len(live) + 1), which)
        else:
            live.append(('V', which[1], rnd_uint(rng, cls)))
    trailing = []
    for _ in range(rng.choice([0, 0, 1, 3])):
        trailing.append((rng.choice([0, 1, 5, 6, 14, 4, 0x6ffffef5, 17, 0x12345]), rnd_uint(rng, cls)))
    ntags = len(live) + 1 + len(trailing)
    # ---- layout ----------------------------------------------------------------------------------------------
    decoys = rng.choice([0, 0, 1, 2])
    nsec = decoys + 5
    sec_copy = rng.random() < 0.25
    blobs = {'dyn': ntags * dynsz, 'str': len(strtab), 'sym': nsyms * symsz}
    if sysv is not None: blobs['sysv'] = 8 + 4 * (len(sysv['buckets']) + len(sysv['chains']))
    if gnu is not None: blobs['gnu'] = 16 + w * len(gnu['bloom']) + 4 * len(gnu['buckets']) + 4 * sum(len(b) for b in gnu['buckets'])
    if rel is not None: blobs['rel'] = len(rel) * relsz
    if rela is not None: blobs['rela'] = len(rela) * relasz
    if jmprel is not None: blobs['jmprel'] = len(jmprel) * (relasz if jmp_rela else relsz)
    if relr is not None: blobs['relr'] = len(relr) * w
    # decoy segments
    ndecoy_seg = rng.choice([0, 1, 2, 3])
    phentsize = phsz + rng.choice([0, 0, 8])
    shentsize = shsz + rng.choice([0, 0, 8])
    loadable = list(blobs)
    rng.shuffle(loadable)
    nload = rng.choice([1, 1, 2, 3])
    groups = [[] for _ in range(nload)]
    for i, b in enumerate(loadable):
        groups[min(nload - 1, i * nload // max(1, len(loadable)))].append(b)
    groups = [g for g in groups if g]
    pos = ehsize + rng.choice([0, 0, 4])
    off = {}
    extents = []
    meta_regions = ['ph', 'sh', 'shstr'] + (['copy'] if sec_copy else [])
    rng.shuffle(meta_regions)
    # metadata regions go before, between or after the load groups
    slots = [[] for _ in range(len(groups) + 1)]
    for m in meta_regions:
        slots[rng.randrange(len(slots))].append(m)

    def place_meta(m):
        nonlocal pos
        pos += rng.choice([0, 0, 1, 3, 8])
        off[m] = pos
        pos += {'ph': 0, 'sh': shentsize * nsec, 'shstr': 48, 'copy': ntags * dynsz}[m]

    nseg_total = [0]
    for gi, g in enumerate(groups):
        for m in slots[gi]:
            if m == 'ph':
                pos += rng.choice([0, 0, 1, 3, 8]); off['ph'] = pos; pos += phentsize * 12       # room for ≤ 12 program headers
            else:
                place_meta(m)
        lo = pos + rng.choice([0, 0, 2, 16])
        pos = lo
        for b in g:
            pos += rng.choice([0, 0, 0, 1, 4, 9])
            off[b] = pos
            pos += blobs[b]
        hi = pos + rng.choice([0, 0, 5])
        pos = hi
        extents.append((lo, hi))
    for m in slots[len(groups)]:
        if m == 'ph':
            pos += rng.choice([0, 0, 1, 3, 8]); off['ph'] = pos; pos += phentsize * 12
        else:
            place_meta(m)
    # addresses: group k is mapped at file offset + delta_k; the first group may be mapped at vaddr 0
    deltas = []
    zero_based = rng.random() < 0.25
    for k, (lo, hi) in enumerate(extents):
        if k == 0 and zero_based:
            first_blob_off = min(off[b] for b in groups[0])
            deltas.append(-first_blob_off)          # the group's first table sits at address 0
        else:
            deltas.append((k + 1) * 0x100000 + rng.choice([0, 0x1000, 0x234]))
    addr = {}
    for k, g in enumerate(groups):
        for b in g:
            addr[b] = off[b] + deltas[k]
    loads = []
    for k, (lo, hi) in enumerate(extents):
        if k == 0 and zero_based:
            lo = min(off[b] for b in groups[0])
        fsz = hi - lo
        loads.append(dict(p_type=1, p_offset=lo, p_vaddr=lo + deltas[k], p_paddr=rnd_uint(rng, cls), p_filesz=fsz,
                          p_memsz=fsz + rng.choice([0, 0, 0x100]), p_flags=rng.choice([4, 5, 6]), p_align=rng.choice([1, 0x1000])))
    if rng.random() < 0.2:
        loads.append(dict(loads[rng.randrange(len(loads))]))        # an identical duplicate: same mapping, still unambiguous
    segs = list(loads)
    for _ in range(ndecoy_seg):
        src = rng.choice(loads)
        kind = rng.choice(['note', 'stack', 'empty_load', 'relro', 'interp'])
        p = dict(src)
        if kind == 'empty_load':
            p['p_filesz'] = 0           # a PT_LOAD without file contents (bss) over the same addresses maps nothing
            p['p_memsz'] = src['p_filesz']
            p['p_offset'] = rnd_uint(rng, 16)
        else:
            # not loadable: covers the same addresses with a different offset, must be ignored
            p['p_type'] = {'note': 4, 'stack': 0x6474e551, 'relro': 0x6474e552, 'interp': 3}[kind]
            p['p_offset'] = (src['p_offset'] + 7) & wmask
        segs.append(p)
    rng.shuffle(segs)
    dynseg = dict(p_type=2, p_offset=off['dyn'], p_vaddr=addr['dyn'] & wmask, p_paddr=0, p_filesz=ntags * dynsz,
                  p_memsz=ntags * dynsz, p_flags=6, p_align=w)
    segs.insert(rng.randrange(len(segs) + 1), dynseg)
    segs = segs[:12]
    if dynseg not in segs:
        segs[0] = dynseg

    def phdr(p):
        p = {k: v & wmask for k, v in p.items()}
        if cls == 32:
            return R(p_type=p['p_type'], p_offset=p['p_offset'], p_vaddr=p['p_vaddr'], p_paddr=p['p_paddr'], p_filesz=p['p_filesz'],
                     p_memsz=p['p_memsz'], p_flags=p['p_flags'], p_align=p['p_align'])
        return R(p_type=p['p_type'], p_flags=p['p_flags'], p_offset=p['p_offset'], p_vaddr=p['p_vaddr'], p_paddr=p['p_paddr'],
                 p_filesz=p['p_filesz'], p_memsz=p['p_memsz'], p_align=p['p_align'])

    tags = []
    for e in live:
        if e[0] == 'P':
            tags.append([TAG[e[1]], addr[e[2]]])
        else:
            tags.append([e[1], e[2]])
    tags.append([0, rng.choice([0, 0, rnd_uint(rng, cls)])])
    tags += [[t, v] for t, v in trailing]

    def placed(x, key, **kw):
        if x is None:
            return None
        d = dict(kw)
        d['off'] = off[key]
        return d
    ast = {
        'cls': cls, 'le': le, 'mclass': mclass, 'solaris': solaris,
        'ehdr': R(EI_VERSION=1, EI_OSABI=osabi, EI_ABIVERSION=0, e_type=rng.choice([2, 3]), e_machine=e_machine, e_version=1,
                  e_entry=rnd_uint(rng, cls), e_flags=rnd_uint(rng, 32), e_ehsize=ehsize),
        'tags': tags, 'dynOff': off['dyn'], 'secDynOff': off['copy'] if sec_copy else None,
        'strtab': hx(strtab), 'strOff': off['str'],
        'syms': [R(**f) for _, f in syms], 'symOff': off['sym'],
        'sysv': placed(sysv, 'sysv', **(sysv or {})), 'gnu': placed(gnu, 'gnu', **(gnu or {})),
        'rel': placed(rel, 'rel', entries=rel), 'rela': placed(rela, 'rela', entries=rela),
        'jmprel': placed(jmprel, 'jmprel', entries=jmprel, rela=jmp_rela), 'relr': placed(relr, 'relr', words=relr),
        'segments': [phdr(p) for p in segs], 'phoff': off['ph'], 'shoff': off['sh'], 'phentsize': phentsize, 'shentsize': shentsize,
        'decoys': decoys, 'shstrOff': off['shstr'],
    }
    names = sorted({n for n, _ in syms} | {b'nonexistent', b'fo', b'foo'})
    tagq = rng.sample(QUERY_TAGS, 6) + ['DT_STRTAB', 'DT_SYMTAB']
    meta = {'cls': cls, 'mclass': mclass, 'hash': hk, 'copy': sec_copy, 'zero': zero_based, 'ntags': ntags, 'nsyms': nsyms,
            'solaris': solaris}
    return ast, [hx(n) for n in names], tagq, meta


# --------------------------------------------------------------------------------------------------------------- impl
def S(s):
    return {'s': s.encode('utf-8').hex()}


ATTRS = ('needed', 'rpath', 'runpath', 'soname', 'sunw_filter')


def tag_obs(t):
    attr = None
    for a in ATTRS:
        if hasattr(t, a):
            attr = [a, S(getattr(t, a))]
    return [canon(t.entry), attr]


def sym_obs(s):
    return [S(s.name), canon(s.entry)]


def tags_part(dyn, fresh=None):
    def tags():
        by_iter = [tag_obs(t) for t in dyn.iter_tags()]
        by_index = [tag_obs(dyn.get_tag(i)) for i in range(len(by_iter))]
        if by_iter != by_index:
            raise AssertionError('iter_tags disagrees with get_tag')
        if fresh is not None and by_iter:
            # random access FIRST, on an object that has walked nothing yet, in descending / middle-out order, then the
            # walk and the count on that same object: answers must not depend on the order of the queries (a seeded
            # per-object list of parsed entries filed entry k at the next free position was missed while get_tag was
            # only called in ascending order after a full walk)
            d = fresh()
            n = len(by_iter)
            order = list(range(n - 1, -1, -1)) if n % 2 else [n // 2] + [i for i in range(n - 1, -1, -1) if i != n // 2]
            for i in order:
                if tag_obs(d.get_tag(i)) != by_iter[i]:
                    raise AssertionError('get_tag(%d) asked out of order on a fresh object disagrees with iter_tags' % i)
            if [tag_obs(t) for t in d.iter_tags()] != by_iter or d.num_tags() != dyn.num_tags():
                raise AssertionError('iter_tags / num_tags after out-of-order get_tag calls disagree with a fresh walk')
        return by_iter
    return {'tags': run_impl(tags), 'num_tags': run_impl(lambda: dyn.num_tags())}


def relocs_obs(dyn):
    out = []
    for name, t in dyn.get_relocation_tables().items():
        if name == 'RELR':
            out.append([name, {'relr': [t._offset, t._size, t._entrysize]}])
        else:
            entries = [canon(r.entry) for r in t.iter_relocations()]
            if len(entries) != t.num_relocations():
                raise AssertionError('num_relocations disagrees with iter_relocations')
            out.append([name, {'rela': bool(t.is_RELA()), 'entries': entries}])
    return out


MAX_SYMS = 3000


def impl_observe(data, names, tagq):
    from elftools.elf.elffile import ELFFile
    from elftools.elf.dynamic import DynamicSection, DynamicSegment
    f = ELFFile(io.BytesIO(data))

    def sec_view():
        for i, s in enumerate(f.iter_sections()):
            if isinstance(s, DynamicSection):
                return tags_part(s, fresh=lambda: f.get_section(i))
        return None

    def seg_view():
        for idx, s in enumerate(f.iter_segments()):
            if isinstance(s, DynamicSegment):
                d = tags_part(s, fresh=lambda: f.get_segment(idx))
                d['num_symbols'] = run_impl(lambda: s.num_symbols())
                # an abandoned partial walk on the same object first (callers break out of iter_symbols()); the
                # number of items taken is derived from the content so that the case replays identically
                try:
                    it = s.iter_symbols()
                    for _ in range((sum(data[-48:]) + len(data) // 8) % 3):
                        next(it, None)
                    del it
                except Exception:       # noqa: BLE001
                    pass
                d['symbols'] = run_impl(lambda: [sym_obs(x) for x in s.iter_symbols()])

                def by_name(q):
                    # a fresh object per query: a failed first call leaves a partial name map behind (history: C10)
                    r = f.get_segment(idx).get_symbol_by_name(bytes.fromhex(q).decode('utf-8'))
                    return None if r is None else [sym_obs(x) for x in r]

                def by_name_same(q):
                    # … and on the walked object itself for every second query (its name map is built from
                    # iter_symbols(), after the abandoned walk above)
                    r = s.get_symbol_by_name(bytes.fromhex(q).decode('utf-8'))
                    return None if r is None else [sym_obs(x) for x in r]
                d['by_name'] = [run_impl(lambda q=q, k=k: by_name_same(q) if k % 2 else by_name(q)) for k, q in enumerate(names)]
                d['relocs'] = run_impl(lambda: relocs_obs(s))
                d['table_offsets'] = [run_impl(lambda t=t: list(s.get_table_offset(t))) for t in tagq]
                return d
        return None
    return {'sec': run_impl(sec_view), 'seg': run_impl(seg_view)}


def norm(j):
    """names: bytes → what UTF-8 decoding with replacement shows (both sides are compared as such)"""
    if isinstance(j, dict):
        if set(j) == {'s'}:
            return {'s': bytes.fromhex(j['s']).decode('utf-8', 'replace').encode('utf-8').hex()}
        return {k: norm(v) for k, v in j.items()}
    if isinstance(j, list):
        return [norm(x) for x in j]
    return j


SYMKEYS = ('num_symbols', 'symbols', 'by_name')


def drop_sym(o):
    """an observation without the parts that depend on the recovered symbol count"""
    try:
        seg = o['ok']['seg']['ok']
        if seg is None:
            return o
        o2 = {'ok': {'sec': o['ok']['sec'], 'seg': {'ok': {k: v for k, v in seg.items() if k not in SYMKEYS}}}}
        return o2
    except (KeyError, TypeError):
        return o


def dynsym_section_symbols(data):
    """the dynamic symbols as the section view of the full image shows them"""
    from elftools.elf.elffile import ELFFile
    f = ELFFile(io.BytesIO(data))
    s = f.get_section_by_name('.dynsym')
    return [sym_obs(x) for x in s.iter_symbols()]


def check_image(ctx, stream, case, which, r):
    data = bytes.fromhex(r['bytes'])
    names, tagq = case['names'], case['tagq']
    impl = norm(run_impl(lambda: impl_observe(data, names, tagq)))
    model = norm(r['model'])
    expect = norm(r['expect'])
    c = dict(case)
    c['layout'] = which
    bad = False
    if r['wf']:
        if r.get('wf_c01'):
            # in the domain of the Lean theorem segment_view_eq_section_view (DynDesc.WF, per layout)
            ctx.out.count('%s:%s:WF-theorem-domain' % (stream, which))
        a, b = (impl, expect) if r['wf_count'] else (drop_sym(impl), drop_sym(expect))
        if a != b:
            ctx.out.violation('property', stream, c, expect=b, got=a, model=model)
            bad = True
        elif which == 'full':
            # the dynamic symbols of the section view are the described ones as well
            ds = norm(run_impl(lambda: dynsym_section_symbols(data)))
            if ds != expect['ok']['seg']['ok']['symbols']:
                ctx.out.violation('property', stream, c, expect=expect['ok']['seg']['ok']['symbols'], got=ds, note='.dynsym section')
                bad = True
    else:
        ctx.out.count('%s:not-wf' % stream)
    if not bad:
        bad = check_ext(ctx, stream, case, which, r, impl)
    if not bad and impl != model:
        ctx.out.violation('correspondence', stream, c, got=impl, model=model)
    return data



# ---------------------------------------------------------------------------------------------------------------- ext
EXT_VARIANTS = ['strtab-removed', 'strtab-removed', 'strtab-unmapped', 'nohash', 'nohash-planted', 'nohash-planted',
                'nohash-segend', 'nohash-segend', 'hash-unmapped', 'symtab-unmapped', 'syment-wrong', 'trunc', 'trunc']
# tags whose value the reader follows or interprets (left alone when values are neutralised)
STEERING = {1, 14, 15, 29, 0x6000000f, 5, 6, 7, 17, 23, 36, 2, 8, 9, 18, 19, 20, 35, 37, 11}


PROPERTY_DOMS = ('tags:route=', 'syms:hash', 'syms:fallback:exact')


def _live_len(tags):
    for i, (t, _) in enumerate(tags):
        if t == 0:
            return i
    return len(tags)


def _mapped(ast, a):
    for p in ast['segments']:
        f = dict(p['r'])
        if f['p_type'] == 1 and f['p_vaddr'] <= a < f['p_vaddr'] + f['p_filesz']:
            return True
    return False


def _unmapped_addr(rng, ast):
    cls = ast['cls']
    loads = [dict(p['r']) for p in ast['segments'] if dict(p['r'])['p_type'] == 1 and dict(p['r'])['p_filesz']]
    cands = [0x7f000000 + rng.randrange(0x1000), (1 << cls) - 1 - rng.randrange(16), rng.randrange(0x40)]
    for f in loads:
        cands += [f['p_vaddr'] + f['p_filesz'], f['p_vaddr'] + f['p_filesz'] + rng.randrange(1, 9)]      # one past the end
        if f['p_vaddr']:
            cands.append(f['p_vaddr'] - 1)
    rng.shuffle(cands)
    for a in cands:
        if 0 <= a < (1 << cls) and not _mapped(ast, a):
            return a
    return None


def _drop_hash(ast):
    n = _live_len(ast['tags'])
    for e in ast['tags'][:n]:
        if e[0] in (TAG['DT_HASH'], TAG['DT_GNU_HASH']):
            e[0] = 0x12345          # the slot stays (the table keeps its size); the code steers nothing
    ast['sysv'] = ast['gnu'] = None


def gen_ext(rng):
    """a description of `gen_desc` pushed out of `DynDesc.wf` in one named way"""
    variant = rng.choice(EXT_VARIANTS)
    for _ in range(40):
        ast, names, tagq, meta = gen_desc(rng)
        # the `.dynstr`-by-name route needs a `.dynamic` section that is NOT at the segment's offset
        if variant in ('strtab-removed', 'strtab-unmapped') and not meta['copy'] and rng.random() < 0.7:
            continue
        break
    tags = ast['tags']
    n = _live_len(tags)
    cls = ast['cls']
    symsz = 16 if cls == 32 else 24
    first = {}
    for i, (t, v) in enumerate(tags[:n]):
        first.setdefault(t, i)
    if variant == 'strtab-removed':
        for e in tags[:n]:
            if e[0] == TAG['DT_STRTAB']:
                e[0] = 0x12345
    elif variant == 'strtab-unmapped':
        a = _unmapped_addr(rng, ast)
        if a is not None and TAG['DT_STRTAB'] in first:
            tags[first[TAG['DT_STRTAB']]][1] = a
    elif variant in ('nohash', 'nohash-planted'):
        _drop_hash(ast)
        if variant == 'nohash-planted' and TAG['DT_SYMTAB'] in first:
            # DT_STRSZ (never read) carries a value in [true end, true end + one record): the fallback is exact unless
            # another entry's value lies strictly inside the table's address range
            a = tags[first[TAG['DT_SYMTAB']]][1]
            end = a + len(ast['syms']) * symsz + rng.randrange(symsz)
            if end < (1 << cls):
                for e in tags[:n]:
                    if e[0] == TAG['DT_STRSZ']:
                        e[1] = end
                    elif a < e[1] < end and e[0] not in (TAG['DT_NEEDED'], TAG['DT_SONAME'], TAG['DT_RPATH'], TAG['DT_RUNPATH'],
                                                           TAG['DT_SUNW_FILTER'], TAG['DT_STRTAB'], TAG['DT_SYMTAB']):
                        e[1] = rng.choice([0, a])
    elif variant == 'nohash-segend':
        # nothing in the table points above the symbol table (as far as the steering tags allow): the end of the
        # covering program header decides; a decoy header that ENDS at the table's address, or an empty PT_LOAD that
        # starts there, competes (any type counts, end included, last one wins)
        _drop_hash(ast)
        if TAG['DT_SYMTAB'] in first:
            a = tags[first[TAG['DT_SYMTAB']]][1]
            for e in tags[:n]:
                if e[1] > a and e[0] in (7, 17, 23, 36):
                    e[0] = 0x12345          # the relocation tables go out of sight (their pointers lie above)
                if e[1] > a and e[0] not in STEERING:
                    e[1] = rng.choice([0, a])
            decoys = [p for p in ast['segments']
                      if dict(p['r'])['p_type'] not in (1, 2) or (dict(p['r'])['p_type'] == 1 and dict(p['r'])['p_filesz'] == 0)]
            if decoys and rng.random() < 0.7:
                p = rng.choice(decoys)
                f = p['r']
                k = 0 if dict(f)['p_type'] == 1 else rng.choice([0, 1, 8, 0x40])
                if k <= a:
                    for kv in f:
                        if kv[0] == 'p_vaddr':
                            kv[1] = a - k
                        elif kv[0] == 'p_filesz':
                            kv[1] = k
                    if rng.random() < 0.7:          # … behind the real one, so that it is the last to match
                        ast['segments'].remove(p)
                        ast['segments'].append(p)
    elif variant == 'hash-unmapped':
        for t in (TAG['DT_HASH'], TAG['DT_GNU_HASH']):
            if t in first:
                a = _unmapped_addr(rng, ast)
                if a is not None:
                    tags[first[t]][1] = a
    elif variant == 'symtab-unmapped':
        if rng.random() < 0.7:
            _drop_hash(ast)
        a = _unmapped_addr(rng, ast)
        if a is not None and TAG['DT_SYMTAB'] in first:
            if rng.random() < 0.8:
                tags[first[TAG['DT_SYMTAB']]][1] = a
            else:
                tags[first[TAG['DT_SYMTAB']]][0] = 0x12345
    elif variant == 'syment-wrong':
        if rng.random() < 0.8:
            _drop_hash(ast)
        for e in tags[:n]:
            if e[0] == TAG['DT_SYMENT']:
                e[1] = symsz + rng.choice([1, -1, 8])
    elif variant == 'trunc':
        # no terminator, nothing after it either: the table becomes the last thing in the image (placed by `finish_trunc`
        # once the length of the images is known)
        del tags[n:]
        ast['secDynOff'] = None
        meta = dict(meta, copy=False)
    meta = dict(meta, variant=variant)
    return ast, names, tagq, meta


def finish_trunc(ast, length, rng):
    """move the (unterminated) table behind everything else: `length` = size of the larger image"""
    dynsz = 2 * ast['cls'] // 8
    off = length + rng.choice([0, 0, 1, 8])
    ast['dynOff'] = off
    for p in ast['segments']:
        f = p['r']
        if dict(f)['p_type'] == 2:
            for kv in f:
                if kv[0] == 'p_offset':
                    kv[1] = off
                elif kv[0] in ('p_filesz', 'p_memsz'):
                    kv[1] = len(ast['tags']) * dynsz + rng.choice([0, 0, dynsz, 3])


def check_ext(ctx, stream, case, which, r, impl):
    """the parts of the segment view a theorem covers outside `DynDesc.wf` (and inside it: same answer)"""
    ext = r.get('ext')
    if not ext:
        return False
    for dlabel in ext['dom']:
        ctx.out.count('%s:%s:%s' % (stream, which, dlabel))
    exps = norm(ext.get('expect_sec') or {})
    if exps:
        # the `DynamicSection` view: the section link serves the strings whatever the table says about DT_STRTAB
        ctx.out.count('%s:%s:sec:tags' % (stream, which))
        try:
            sec = impl['ok']['sec']['ok']
        except (KeyError, TypeError):
            sec = None
        gots = {k: (sec.get(k) if isinstance(sec, dict) else None) for k in exps}
        if gots != exps:
            c = dict(case)
            c['layout'] = which
            ctx.out.violation('property', stream, c, expect=exps, got=gots, note='ext: DynamicSection')
            return True
    exp = norm(ext['expect_seg'])
    if not exp:
        return False
    try:
        seg = impl['ok']['seg']['ok']
    except (KeyError, TypeError):
        seg = None
    got = {k: (seg.get(k) if isinstance(seg, dict) else None) for k in exp}
    if got != exp:
        c = dict(case)
        c['layout'] = which
        # what the property itself states (entries and strings, symbols and count — the described truth) counts as a
        # property violation; estimates and exception classes are statements about the code as it is (theorems about
        # the model): there a difference is a model / library disagreement
        stated = all(d.startswith(PROPERTY_DOMS) for d in ext['dom'])
        ctx.out.violation('property' if stated else 'correspondence', stream, c, expect=exp, got=got,
                          note='ext: ' + ','.join(ext['dom']))
        return True
    return False


def run_ast(ctx):
    rng = ctx.rng('ast')
    n = ctx.budget(450, 9000)
    cases = [gen_desc(rng) for _ in range(n)]
    reqs = [{'p': 'C09', 'k': 'ast', 'ast': a, 'names': nm, 'tagq': tq} for a, nm, tq, _ in cases]
    seeds = []
    B = 150
    for i in range(0, len(reqs), B):
        if ctx.time_left() < 15:
            ctx.out.notes.append('ast: stopped at %d/%d for time' % (i, len(reqs)))
            break
        replies = ctx.driver.ask_many(reqs[i:i + B])
        for (a, nm, tq, meta), rq, r in zip(cases[i:i + B], reqs[i:i + B], replies):
            if 'fatal' in r:
                raise RuntimeError('driver: %s' % r['fatal'])
            case = {'ast': a, 'names': nm, 'tagq': tq}
            for which in ('full', 'stripped'):
                rr = r[which]
                if 'bytes' not in rr:
                    ctx.out.count('ast:not-encodable')
                    continue
                data = check_image(ctx, 'ast', case, which, rr)
                ctx.out.case({'sha': hx(data[:96]), 'n': len(data), 'which': which, 'tags': a['tags']})
                if len(seeds) < 400:
                    seeds.append((a, nm, tq, data))
            if len(ctx.out.samples) and 'sha' in ctx.out.samples[-1]:
                ctx.out.samples[-1] = {'ast': a}
            ctx.out.count('ast:hash=' + meta['hash'])
            ctx.out.count('ast:mclass=' + meta['mclass'])
            ctx.out.count('ast:cls=%d' % meta['cls'])
            if meta['copy']: ctx.out.count('ast:section-at-other-offset')
            if meta['zero']: ctx.out.count('ast:load-at-vaddr-0')
            if meta['solaris']: ctx.out.count('ast:solaris')
    return seeds



def run_ext(ctx):
    rng = ctx.rng('ext')
    n = ctx.budget(130, 1800)
    cases = [gen_ext(rng) for _ in range(n)]
    # trunc: the table goes behind everything else; the image lengths come from the assembler
    tr = [c for c in cases if c[3]['variant'] == 'trunc']
    B = 150
    for i in range(0, len(tr), B):
        replies = ctx.driver.ask_many([{'p': 'C09', 'k': 'len', 'ast': a} for a, _, _, _ in tr[i:i + B]])
        for (a, _, _, meta), r in zip(tr[i:i + B], replies):
            if 'fatal' in r:
                raise RuntimeError('driver: %s' % r['fatal'])
            if r.get('full') is None or r.get('stripped') is None:
                meta['variant'] = 'trunc-unplaced'
                continue
            finish_trunc(a, max(r['full'], r['stripped']), rng)
    reqs = [{'p': 'C09', 'k': 'ast', 'ast': a, 'names': nm, 'tagq': tq} for a, nm, tq, _ in cases]
    for i in range(0, len(reqs), B):
        if ctx.time_left() < 12:
            ctx.out.notes.append('ext: stopped at %d/%d for time' % (i, len(reqs)))
            break
        replies = ctx.driver.ask_many(reqs[i:i + B])
        for (a, nm, tq, meta), r in zip(cases[i:i + B], replies):
            if 'fatal' in r:
                raise RuntimeError('driver: %s' % r['fatal'])
            case = {'ast': a, 'names': nm, 'tagq': tq}
            for which in ('full', 'stripped'):
                rr = r[which]
                if 'bytes' not in rr:
                    ctx.out.count('ext:not-encodable')
                    continue
                data = check_image(ctx, 'ext', case, which, rr)
                ctx.out.case({'sha': hx(data[:96]), 'n': len(data), 'which': which, 'tags': a['tags'], 'v': meta['variant']})
                if not rr['ext']['dom']:
                    ctx.out.count('ext:%s:%s:no-theorem-domain' % (meta['variant'], which))
            ctx.out.count('ext:variant=' + meta['variant'])


def too_big(data):
    """corrupt counts make `iter_symbols` enumerate up to 2^64 entries: C19's subject, not enumerable here"""
    from elftools.elf.elffile import ELFFile
    from elftools.elf.dynamic import DynamicSegment
    try:
        f = ELFFile(io.BytesIO(data))
        if f.num_sections() > 200 or f.num_segments() > 200:
            return True
        for s in f.iter_segments():
            if isinstance(s, DynamicSegment):
                for t in ('DT_RELSZ', 'DT_RELASZ', 'DT_PLTRELSZ'):
                    for tag in s.iter_tags(t):
                        if tag['d_val'] > 100000:
                            return True
                return s.num_symbols() > MAX_SYMS
    except Exception:
        return False
    return False


def run_raw(ctx, seeds):
    rng = ctx.rng('raw')
    n = ctx.budget(350, 8000)
    reqs = []
    for _ in range(n):
        a, nm, tq, data0 = rng.choice(seeds)
        data = bytearray(data0)
        mode = rng.choice(['trunc', 'sub', 'sub', 'sub3'])
        regions = [(a['dynOff'], len(a['tags']) * 2 * a['cls'] // 8), (a['phoff'], a['phentsize'] * len(a['segments'])),
                   (a['strOff'], len(a['strtab']) // 2), (a['symOff'], 24 * len(a['syms']))]
        for k in ('sysv', 'gnu'):
            if a[k]:
                regions.append((a[k]['off'], 40))
        if mode == 'trunc':
            lo, ln = rng.choice(regions)
            cut = rng.choice([rng.randrange(0, len(data) + 1), lo, lo + 1, lo + ln, lo + ln - 1, lo + ln // 2])
            data = data[:max(0, min(cut, len(data)))]
        else:
            for _ in range(1 if mode == 'sub' else 3):
                lo, ln = rng.choice(regions)
                pos = lo + rng.randrange(0, max(1, ln))
                if pos < len(data):
                    data[pos] = rng.choice([0, 0xff, (data[pos] + 1) & 0xff, data[pos] ^ 0x80, rng.randrange(256)])
        data = bytes(data)
        if too_big(data):
            ctx.out.count('raw:skipped-huge-count')
            continue
        reqs.append({'p': 'C09', 'k': 'raw', 'hex': hx(data), 'names': nm, 'tagq': tq})
    B = 150
    for i in range(0, len(reqs), B):
        if ctx.time_left() < 5:
            ctx.out.notes.append('raw: stopped at %d/%d for time' % (i, len(reqs)))
            break
        replies = ctx.driver.ask_many(reqs[i:i + B])
        for rq, r in zip(reqs[i:i + B], replies):
            if 'fatal' in r:
                raise RuntimeError('driver: %s' % r['fatal'])
            data = bytes.fromhex(rq['hex'])
            impl = norm(run_impl(lambda: impl_observe(data, rq['names'], rq['tagq'])))
            model = norm(r['model'])
            ctx.out.count('raw:' + ('ok' if 'ok' in impl else impl['err']))
            ctx.out.case({'raw_sha': hx(data[:64]), 'n': len(data), 'h': hash(rq['hex']) & 0xffffffff})
            if impl != model:
                if _non_utf8_symbol_names(impl, model):
                    ctx.out.count('raw:skipped-non-utf8-symbol-name')
                    continue
                ctx.out.violation('correspondence', 'raw', {'hex': rq['hex'], 'names': rq['names'], 'tagq': rq['tagq']}, got=impl, model=model)


def _non_utf8_symbol_names(impl, model):
    """lookup by name is keyed on decoded strings; distinct non-UTF-8 byte names can collide after decoding (outside the model)"""
    try:
        a, b = impl['ok']['seg']['ok'], model['ok']['seg']['ok']
        if {k: v for k, v in a.items() if k != 'by_name'} != {k: v for k, v in b.items() if k != 'by_name'}:
            return False
        repl = '�'.encode('utf-8').hex()
        return any(repl in s[0]['s'] for s in a['symbols'].get('ok', []))
    except Exception:
        return False


def run(ctx):
    seeds = run_ast(ctx)
    run_ext(ctx)
    if seeds:
        run_raw(ctx, seeds)


def replay(ctx, payload):
    v = payload['violation']
    case = v['case']
    if v['stream'] in ('ast', 'ext'):
        r = ctx.driver.ask({'p': 'C09', 'k': 'ast', 'ast': case['ast'], 'names': case['names'], 'tagq': case['tagq']})
        out = {'stream': v['stream'], 'fails': False}
        for which in ('full', 'stripped'):
            rr = r[which]
            if 'bytes' not in rr:
                continue
            data = bytes.fromhex(rr['bytes'])
            impl = norm(run_impl(lambda: impl_observe(data, case['names'], case['tagq'])))
            model, expect = norm(rr['model']), norm(rr['expect'])
            a, b = (impl, expect) if rr['wf_count'] else (drop_sym(impl), drop_sym(expect))
            fails = (rr['wf'] and a != b) or impl != model
            if rr['wf'] and which == 'full' and not fails:
                ds = norm(run_impl(lambda: dynsym_section_symbols(data)))
                fails = ds != expect['ok']['seg']['ok']['symbols']
            exps = norm(rr.get('ext', {}).get('expect_sec') or {})
            if exps and not fails:
                try:
                    sec = impl['ok']['sec']['ok']
                except (KeyError, TypeError):
                    sec = None
                fails = {k: (sec.get(k) if isinstance(sec, dict) else None) for k in exps} != exps
            exp = norm(rr.get('ext', {}).get('expect_seg') or {})
            if exp and not fails:
                try:
                    seg = impl['ok']['seg']['ok']
                except (KeyError, TypeError):
                    seg = None
                fails = {k: (seg.get(k) if isinstance(seg, dict) else None) for k in exp} != exp
            out[which] = {'bytes': rr['bytes'], 'wf': rr['wf'], 'impl': impl, 'expect': expect, 'model': model, 'fails': fails}
            out['fails'] = out['fails'] or fails
        return out
    data = bytes.fromhex(case['hex'])
    impl = norm(run_impl(lambda: impl_observe(data, case['names'], case['tagq'])))
    r = ctx.driver.ask({'p': 'C09', 'k': 'raw', 'hex': case['hex'], 'names': case['names'], 'tagq': case['tagq']})
    model = norm(r['model'])
    return {'stream': 'raw', 'impl': impl, 'model': model, 'fails': impl != model}


FINDINGS = {}
