"""C20 — ARM/RISC-V build attributes and ARM unwind tables.  Streams:

  attr      : abstract attributes section (1..n vendor subsections x 1..m file/section/symbol sub-subsections x
              attribute lists over the ARM / RISC-V tag tables, padded ULEB128s, both byte orders, both classes)
              -> Lean *Spec encoder* -> wrapped in an ELF container -> real library through the public API
              (ELFFile -> get_section_by_name -> iter_subsections -> iter_subsubsections -> iter_attributes),
              compared with what the property prescribes (Spec observation) and with the model.
              Two more observation patterns of the same API on the same input (subsections first, then their
              sub-subsections, then their attributes; and num_subsections / subsections / num_subsubsections)
              must give the same tree.
  attr_raw  : mutated / truncated / random section contents -> real library vs model, errors included
  exidx     : abstract index table (every entry kind, prel31 displacement classes, byte-code over the whole opcode
              space) -> Spec encoder -> ELF container with .ARM.exidx/.ARM.extab -> get_ehabi_infos -> get_entry ->
              fields + mnmemonic_array(); vs Spec observation, vs the EHABI reference decoder, vs model
  exidx_raw : random index/table words -> real library vs model vs reference decoder
  bc        : byte-code arrays: exhaustive to length 2 (quick) / 3 over well-formed prefixes (thorough), random to
              length 40 -> EHABIBytecodeDecoder vs `ehabiStd` vs model (IndexError on truncated operands is out of
              the property's domain: compared with the model only)
  prel31    : arm_expand_prel31 on boundary words/places vs the standard formula vs the T3 translation
"""
import io, itertools, struct
from common import run_impl, canon, hx, rnd_uint, rnd_bytes, BOUNDARY, classify_exception
import elfbuild as EB

RULE = ('attr: sections with 1..4 vendor subsections x 1..4 sub-subsections (file/section/symbol, number lists 0..4) x '
        '0..8 attributes drawn over the whole ARM/RISC-V tag tables (uleb values from boundary pools, NTBS incl. empty and '
        'multi-byte UTF-8, compatibility, nested also-compatible-with), every ULEB128 padded by 0..3 bytes, equal-length '
        'neighbours forced in 30% of cases, byte order x class x arch; attr_raw: byte flips, length-field edits, truncations '
        'and random tails of valid sections; exidx: 1..6 entries of every kind, displacements from '
        '{0, +-1, +-small, +-2^26 neighbourhood, +-(2^30-1), -2^30}, byte-code from the full opcode space; exidx_raw: random '
        'words with forced bit patterns; bc: exhaustive short arrays + random to 40 bytes with long ULEB128 operands. '
        'Non-trivial = distinct (stream, bytes, configuration); every case decodes at least one structure.')
ASSUMPTIONS = ['io.BytesIO read/seek/tell semantics (seek >= 2^63 raises OverflowError)',
               'ELF container parsing (ELFFile section lookup) is exercised but not modelled: the model is run on the '
               'file image with the sh_offset/sh_size the container was built with',
               'CPython recursion limit not reached (< 300 nested TAG_ALSO_COMPATIBLE_WITH)',
               'str is compared through its UTF-8 bytes']


class Fuel(Exception):
    pass


def ask(ctx, reqs, limit=40000):
    """ctx.driver.ask_many in groups whose request text stays below the pipe buffer (the shared Driver writes a
    whole batch before reading any reply; a batch larger than the 64 KiB pipe can deadlock against the replies)."""
    import json
    out, group, size = [], [], 0
    for r in reqs:
        n = len(json.dumps(r, separators=(',', ':'))) + 16
        if group and size + n > limit:
            out += ctx.driver.ask_many(group)
            group, size = [], 0
        group.append(r)
        size += n
    if group:
        out += ctx.driver.ask_many(group)
    return out


def run_obs(fn):
    try:
        return {'ok': fn()}
    except Fuel:
        return {'err': 'outOfFuel'}
    except RecursionError:
        return {'err': 'outOfFuel'}
    except Exception as e:      # noqa: BLE001
        return {'err': classify_exception(e)}


def capped(gen, cap):
    for i, x in enumerate(gen):
        if i >= cap:
            raise Fuel()
        yield x


# ----------------------------------------------------------------------------- attributes: observation
def cv(v):
    from elftools.elf.sections import Attribute
    if v is None or isinstance(v, bool):
        return v
    if isinstance(v, int):
        return v
    if isinstance(v, str):
        return {'b': v.encode('utf-8').hex()}
    if isinstance(v, (bytes, bytearray)):
        return {'b': bytes(v).hex(), 'raw': True}
    if isinstance(v, list):
        return [cv(x) for x in v]
    if isinstance(v, Attribute):
        return c_attr(v)
    raise TypeError(type(v))


def c_tag(t):
    return t if isinstance(t, str) else cv(t)


def c_attr(a):
    return {'r': [['tag', c_tag(a.tag)], ['value', cv(a.value)], ['extra', cv(a.extra)]]}


def c_subsub(sss, attrs):
    h = sss.header
    return {'r': [['tag', c_tag(h.tag)], ['value', cv(h.value)], ['extra', cv(h.extra)], ['attributes', attrs]]}


def c_subsec(ss, subs):
    return {'r': [['length', ss.header['length']], ['vendor_name', cv(ss.header['vendor_name'])], ['subsubsections', subs]]}


SECNAME = {'arm': '.ARM.attributes', 'riscv': '.riscv.attributes'}


def open_section(image, arch):
    from elftools.elf.elffile import ELFFile
    f = ELFFile(io.BytesIO(image))
    return f.get_section_by_name(SECNAME[arch])


def observe_nested(image, arch, cap):
    """The observation the property names: nested iteration in generator order."""
    s = open_section(image, arch)
    out = []
    for ss in capped(s.iter_subsections(), cap):
        subs = []
        for sss in capped(ss.iter_subsubsections(), cap):
            attrs = [c_attr(a) for a in capped(sss.iter_attributes(), cap)]
            subs.append(c_subsub(sss, attrs))
        out.append(c_subsec(ss, subs))
    return out


def observe_levelwise(image, arch, cap):
    """Same API, other order: all subsections first, then all their sub-subsections, then the attributes."""
    s = open_section(image, arch)
    sss_of = []
    secs = list(capped(s.iter_subsections(), cap))
    for ss in secs:
        sss_of.append(list(capped(ss.iter_subsubsections(), cap)))
    out = []
    for ss, ssss in zip(secs, sss_of):
        subs = []
        for sss in ssss:
            attrs = [c_attr(a) for a in capped(sss.iter_attributes(), cap)]
            subs.append(c_subsub(sss, attrs))
        out.append(c_subsec(ss, subs))
    return out


def observe_counts(image, arch):
    """num_subsections / subsections / num_subsubsections / num_attributes"""
    s = open_section(image, arch)
    n = s.num_subsections
    out = []
    for ss in s.subsections:
        m = ss.num_subsubsections
        out.append([m, [x.num_attributes - 1 for x in ss.subsubsections]])
    return [n, out]


def counts_of(tree):
    return [len(tree), [[len(dict(ss['r'])['subsubsections']), [len(dict(x['r'])['attributes']) for x in dict(ss['r'])['subsubsections']]]
                        for ss in tree]]


def wrap_attr(arch, le, cls, content):
    mach = EB.EM_ARM if arch == 'arm' else EB.EM_RISCV
    img = EB.ElfImage(cls=cls, le=le, e_type=EB.ET_EXEC, e_machine=mach)
    img.add_section('.text', EB.SHT_PROGBITS, data=b'\x00' * 5, flags=6, addr=0x1000)
    i = img.add_section(SECNAME[arch], EB.SHT_ARM_ATTRIBUTES, data=content)
    img.add_section('.comment', EB.SHT_PROGBITS, data=b'tail\x00')
    data = img.build()
    return data, img.offsets[i], len(content)


# ----------------------------------------------------------------------------- attributes: generators
ARM_TAGS = dict(FILE=1, SECTION=2, SYMBOL=3)
ARM_ALL = [4, 5, 6, 7, 8, 9, 10, 11, 12, 13, 14, 15, 16, 17, 18, 19, 20, 21, 22, 23, 24, 25, 26, 27, 28, 29, 30, 31, 32, 34, 36, 38,
           42, 44, 46, 48, 50, 52, 64, 65, 66, 67, 68, 70, 72, 74, 76]
ARM_NTBS = {4, 5, 67}
RISCV_ALL = [4, 5, 6, 8, 10, 12, 14, 16]
RISCV_NTBS = {5}
STRS = [b'', b'A', b'aeabi', b'ARM v7', b'Cortex-A9', 'héllo'.encode(), '€\U0001f600'.encode(), b'2.09', b'rv64i2p0_m2p0_a2p0',
        b'x' * 63, b'y' * 64, b'z' * 130]


def gU(rng, v):
    minlen = max(1, (v.bit_length() + 6) // 7)
    return [v, minlen + rng.choice([0, 0, 0, 0, 1, 2, 3])]


def g_uval(rng):
    return rnd_uint(rng, rng.choice([3, 7, 8, 14, 32, 64]))


def g_simple(rng, is_str):
    if is_str:
        return {'s': hx(rng.choice(STRS))}
    return {'i': gU(rng, g_uval(rng))}


def g_attr(rng, arch):
    if arch == 'arm':
        t = rng.choice(ARM_ALL) if rng.random() < 0.8 else rng.choice([4, 5, 32, 65, 67, 64, 6])
        if t == 32:
            v = {'c': [gU(rng, g_uval(rng)), hx(rng.choice(STRS))]}
        elif t == 65:
            inner = rng.choice([x for x in ARM_ALL if x not in (32, 65)])
            v = {'a': [gU(rng, inner), g_simple(rng, inner in ARM_NTBS)]}
        else:
            v = g_simple(rng, t in ARM_NTBS)
    else:
        t = rng.choice(RISCV_ALL)
        v = g_simple(rng, t in RISCV_NTBS)
    return {'t': gU(rng, t), 'v': v}


def g_subsub(rng, arch, nattrs=None):
    scope = rng.choice([1, 1, 2, 3])
    nums = [] if scope == 1 else [gU(rng, max(1, rnd_uint(rng, rng.choice([4, 8, 16, 32])))) for _ in range(rng.choice([0, 1, 1, 2, 4]))]
    n = rng.choice([0, 1, 2, 3, 5, 8]) if nattrs is None else nattrs
    return {'t': gU(rng, scope), 'nums': nums, 'attrs': [g_attr(rng, arch) for _ in range(n)]}


def g_section(rng, arch):
    nsub = rng.choice([1, 1, 2, 2, 3, 4])
    sec = []
    for _ in range(nsub):
        vendor = rng.choice([b'aeabi', b'riscv', b'gnu', b'', b'ARM', b'vendorX', 'fü'.encode()])
        subs = [g_subsub(rng, arch) for _ in range(rng.choice([1, 1, 2, 3, 4]))]
        sec.append({'vendor': hx(vendor), 'subs': subs})
    r = rng.random()
    if r < 0.3 and len(sec) >= 2:
        # equal-length neighbours: duplicate a subsection / a sub-subsection (same encoded length)
        i = rng.randrange(len(sec) - 1)
        sec[i + 1] = {'vendor': sec[i]['vendor'], 'subs': [dict(s) for s in sec[i]['subs']]}
    if r > 0.6:
        s = rng.choice(sec)
        j = rng.randrange(len(s['subs']))
        s['subs'].insert(j, dict(s['subs'][j]))
    return sec


def attr_check(ctx, stream, case, image, arch, off, size, expect, model):
    out = ctx.out
    cap = len(image) + 2
    impl = run_obs(lambda: observe_nested(image, arch, cap))
    out.case(case)
    if expect is not None:
        if impl != {'ok': expect}:
            out.violation('property', stream, case, expect=expect, got=impl, model=model)
            return
        # the same API observed in other orders must give the same tree (well-formed inputs only)
        lv = run_obs(lambda: observe_levelwise(image, arch, cap))
        if lv != {'ok': expect}:
            out.violation('property', stream, dict(case, pattern='levelwise'), expect=expect, got=lv, model=model)
            return
        cn = run_obs(lambda: observe_counts(image, arch))
        if cn != {'ok': counts_of(expect)}:
            out.violation('property', stream, dict(case, pattern='counts'), expect=counts_of(expect), got=cn, model=model)
            return
    if impl != model:
        out.violation('correspondence', stream, case, got=impl, model=model)


def run_attr(ctx):
    rng = ctx.rng('attr')
    n = ctx.budget(700, 20000)
    cfgs, reqs = [], []
    for _ in range(n):
        arch = rng.choice(['arm', 'arm', 'riscv'])
        le = rng.random() < 0.6
        cls = rng.choice([32, 64]) if arch == 'riscv' else rng.choice([32, 32, 64])
        sec = g_section(rng, arch)
        cfgs.append((arch, le, cls))
        reqs.append({'p': 'C20', 'k': 'attr_enc', 'arch': arch, 'le': le, 'sec': sec})
    encs = ask(ctx, reqs)
    raws, keep = [], []
    for (arch, le, cls), rq, r in zip(cfgs, reqs, encs):
        if 'fatal' in r:
            raise RuntimeError('driver: %s on %r' % (r['fatal'], rq))
        content = bytes.fromhex(r['bytes'])
        image, off, size = wrap_attr(arch, le, cls, content)
        raws.append({'p': 'C20', 'k': 'attr_raw', 'arch': arch, 'le': le, 'cls': cls, 'hex': hx(image), 'off': off, 'size': size})
        keep.append((arch, le, cls, rq, r, image, off, size))
    models = ask(ctx, raws)
    for (arch, le, cls, rq, r, image, off, size), m in zip(keep, models):
        if 'fatal' in m:
            raise RuntimeError('driver: %s' % m['fatal'])
        if not m.get('utf8', False):
            raise RuntimeError('generated fact attrNtbsUtf8 is false: the attribute code no longer decodes NTBS as UTF-8')
        case = {'arch': arch, 'le': le, 'cls': cls, 'sec': rq['sec'], 'content': r['bytes']}
        nsub = len(rq['sec'])
        ctx.out.count('attr:%s:%s:%d:subsecs=%d' % (arch, 'le' if le else 'be', cls, min(nsub, 3)))
        if not r['wf']:
            ctx.out.count('attr:not-wf')
            attr_check(ctx, 'attr', case, image, arch, off, size, None, m['model'])
        else:
            attr_check(ctx, 'attr', case, image, arch, off, size, r['expect'], m['model'])
    return [(k[0], k[1], k[2], bytes.fromhex(k[4]['bytes'])) for k in keep]


def mutate(rng, content):
    b = bytearray(content)
    r = rng.random()
    if r < 0.25 and b:
        for _ in range(rng.choice([1, 1, 2, 3])):
            b[rng.randrange(len(b))] = rng.choice([0, 1, 2, 3, 4, 5, 32, 65, 67, 0x41, 0x7f, 0x80, 0xff, rng.randrange(256)])
    elif r < 0.45 and b:
        del b[rng.randrange(len(b)):]
    elif r < 0.6 and len(b) > 5:
        # edit a 4-byte length field candidate
        i = rng.choice([1, rng.randrange(1, len(b) - 3)])
        v = rng.choice([0, 1, 4, 5, 6, 0xffffffff, len(b), len(b) - 1, len(b) + 1, rng.randrange(0, 64)])
        b[i:i + 4] = struct.pack('<I', v)
    elif r < 0.75:
        b += rnd_bytes(rng, rng.choice([1, 2, 5, 9]))
    elif r < 0.9:
        b = bytearray(b'A') + bytearray(rnd_bytes(rng, rng.choice([0, 1, 4, 5, 8, 12, 20, 40])))
    else:
        k = rng.randrange(0, len(b) + 1)
        b[k:k] = bytes([rng.choice([65, 65, 32, 4, 1, 2, 3, 0x80])]) * rng.choice([1, 2, 7, 30])
    return bytes(b[:220])


def run_attr_raw(ctx, seeds):
    rng = ctx.rng('attr_raw')
    n = ctx.budget(900, 30000)
    items = []
    for _ in range(n):
        arch, le, cls, content = rng.choice(seeds)
        items.append((arch, le, cls, mutate(rng, content)))
    reqs, imgs = [], []
    for arch, le, cls, content in items:
        image, off, size = wrap_attr(arch, le, cls, content)
        reqs.append({'p': 'C20', 'k': 'attr_raw', 'arch': arch, 'le': le, 'cls': cls, 'hex': hx(image), 'off': off, 'size': size})
        imgs.append(image)
    models = ask(ctx, reqs)
    for (arch, le, cls, content), image, rq, m in zip(items, imgs, reqs, models):
        if 'fatal' in m:
            raise RuntimeError('driver: %s' % m['fatal'])
        case = {'arch': arch, 'le': le, 'cls': cls, 'content': hx(content)}
        mm = m['model']
        ctx.out.count('attr_raw:' + ('ok' if 'ok' in mm else mm['err']))
        attr_check(ctx, 'attr_raw', case, image, arch, rq['off'], rq['size'], None, mm)


# ----------------------------------------------------------------------------- EHABI
DISPS = [0, 1, -1, 4, -4, 0x100, -0x100, 0x1234, -0x5678, 0x03ffffff, 0x04000000, 0x04000001, -0x04000000, -0x04000001,
         -0x03ffffff, 0x07ffffff, 0x08000000, -0x08000000, 0x20000000, -0x20000000, 0x30000000, -0x30000000, 0x3ffffffe,
         0x3fffffff, -0x3fffffff, -0x40000000]


def g_disp(rng):
    r = rng.random()
    if r < 0.5:
        return rng.choice(DISPS)
    if r < 0.7:
        return rng.randrange(-0x40000000, 0x40000000)
    return rng.randrange(-0x2000, 0x2000)


OPC_POOL = list(range(256))


def g_code(rng, n, wellformed=True):
    """n bytes of byte-code; well-formed: no instruction is cut by the end"""
    for _ in range(50):
        b = bytearray()
        while len(b) < n:
            r = rng.random()
            op = rng.choice(OPC_POOL) if r < 0.7 else rng.choice([0xb2, 0xb1, 0xb3, 0x80, 0x8f, 0xc6, 0xc7, 0xc8, 0xc9, 0xb0, 0x9d, 0x9f])
            b.append(op)
            if 0x80 <= op <= 0x8f or op in (0xb1, 0xb3, 0xc6, 0xc7, 0xc8, 0xc9):
                b.append(rng.choice([0, 1, 0x0f, 0x10, 0xf0, 0xff, rng.randrange(256)]))
            elif op == 0xb2:
                k = rng.choice([1, 1, 2, 3, 5])
                for i in range(k):
                    x = rng.randrange(128)
                    b.append(x | (0x80 if i < k - 1 else 0))
        if len(b) == n or not wellformed:
            return bytes(b[:n])
    return bytes([0xb0] * n)


def g_entry(rng):
    k = rng.choice(['cant', 'inline', 'inline', 'generic', 'su16', 'long', 'long'])
    e = {'k': k, 'fn': g_disp(rng)}
    wf = rng.random() < 0.9
    if k in ('inline', 'su16'):
        e['b'] = hx(g_code(rng, 3, wf))
    elif k == 'generic':
        e['pers'] = g_disp(rng)
    elif k == 'long':
        nw = rng.choice([0, 1, 1, 2, 3, 9])
        code = g_code(rng, 2 + 4 * nw, wf)
        e.update(idx=rng.choice([1, 2]), b=hx(code[:2]), more=[hx(code[2 + 4 * i: 6 + 4 * i]) for i in range(nw)])
    return e


def entry_words(e):
    if e['k'] == 'generic' or e['k'] == 'su16':
        return 1
    if e['k'] == 'long':
        return 1 + len(e['more'])
    return 0


def wrap_ehabi(le, exidx, extab, pad):
    img = EB.ElfImage(cls=32, le=le, e_type=EB.ET_DYN, e_machine=EB.EM_ARM)
    img.add_section('.text', EB.SHT_PROGBITS, data=b'\x00' * pad, flags=6, addr=0x1000)
    a = img.add_section('.ARM.extab', EB.SHT_PROGBITS, data=extab, flags=2, addralign=4)
    b = img.add_section('.ARM.exidx', EB.SHT_ARM_EXIDX, data=exidx, flags=2, addralign=4, link=1)
    data = img.build()
    return data, img.offsets[b], img.offsets[a]


def c_entry(e):
    return {'r': [['function_offset', e.function_offset], ['personality', e.personality],
                  ['bytecode_array', None if e.bytecode_array is None else [int(x) for x in e.bytecode_array]],
                  ['eh_table_offset', e.eh_table_offset], ['unwindable', bool(e.unwindable)], ['corrupt', bool(e.corrupt)]]}


def c_mn(m):
    return None if m is None else [[hx(bytes(x.bytecode)), x.mnemonic] for x in m]


def observe_entries(image, ns):
    from elftools.elf.elffile import ELFFile
    f = ELFFile(io.BytesIO(image))
    infos = f.get_ehabi_infos()
    assert infos is not None and len(infos) == 1
    info = infos[0]
    out = []
    for n in ns:
        def one():
            e = info.get_entry(n)
            return {'entry': c_entry(e), 'mn': c_mn(e.mnmemonic_array())}
        out.append(run_obs(one))
    return info.num_entry(), out


def run_exidx(ctx):
    rng = ctx.rng('exidx')
    n = ctx.budget(500, 12000)
    cases = []
    for _ in range(n):
        le = rng.random() < 0.6
        es = [g_entry(rng) for _ in range(rng.choice([1, 2, 3, 4, 6]))]
        pad = rng.choice([0, 1, 4, 60, 300, 5000])
        nwords = sum(entry_words(e) for e in es)
        _, exoff, taboff = wrap_ehabi(le, bytes(8 * len(es)), bytes(4 * nwords), pad)
        cases.append((le, es, pad, exoff, taboff))
    encs = ask(ctx, [{'p': 'C20', 'k': 'ehabi_enc', 'le': le, 'entries': es, 'exidx_off': exoff, 'tab0': taboff}
                                for le, es, pad, exoff, taboff in cases])
    raws, keep = [], []
    for (le, es, pad, exoff, taboff), r in zip(cases, encs):
        if 'fatal' in r:
            raise RuntimeError('driver: %s' % r['fatal'])
        exidx, extab = bytes.fromhex(r['exidx']), bytes.fromhex(r['extab'])
        image, exoff2, taboff2 = wrap_ehabi(le, exidx, extab, pad)
        assert (exoff2, taboff2) == (exoff, taboff) and len(exidx) == 8 * len(es)
        raws.append({'p': 'C20', 'k': 'ehabi_raw', 'le': le, 'hex': hx(image), 'off': exoff, 'size': len(exidx),
                     'ns': list(range(len(es) + 1))})
        keep.append((le, es, pad, r, image, exoff))
    models = ask(ctx, raws)
    for (le, es, pad, r, image, exoff), m in zip(keep, models):
        if 'fatal' in m:
            raise RuntimeError('driver: %s' % m['fatal'])
        num, impl = observe_entries(image, list(range(len(es) + 1)))
        for i in range(len(es) + 1):
            case = {'le': le, 'entries': es, 'pad': pad, 'i': i, 'image': hx(image), 'off': exoff, 'size': 8 * len(es)}
            ctx.out.case({'le': le, 'e': es[i] if i < len(es) else None, 'pad': pad, 'i': i, 'place': exoff + 8 * i})
            mi = m['model'][i]
            if i < len(es):
                ex = r['expect'][i]
                ctx.out.count('exidx:%s:%s' % (es[i]['k'], 'wf' if ex['wf'] else 'not-wf'))
                if ex['wf']:
                    want = {'entry': ex['entry'], 'mn': ex['mn']}
                    if impl[i] != {'ok': want} or num != len(es):
                        ctx.out.violation('property', 'exidx', case, expect=want, got=impl[i], model=mi)
                        continue
                    # the reference decoder (theorem getEntry_eq_std) read directly off the words
                    if m['std'][i] != ex['entry']:
                        ctx.out.violation('property', 'exidx', dict(case, what='reference decoder vs abstract entry'),
                                          expect=ex['entry'], got=m['std'][i], model=mi)
                        continue
            if impl[i] != mi:
                ctx.out.violation('correspondence', 'exidx', case, got=impl[i], model=mi)


def run_exidx_raw(ctx):
    rng = ctx.rng('exidx_raw')
    n = ctx.budget(600, 20000)
    items = []
    for _ in range(n):
        le = rng.random() < 0.5
        k = rng.choice([1, 2, 3])
        nt = rng.choice([1, 2, 4, 8])
        pad = rng.choice([0, 4, 64])
        _, exoff, taboff = wrap_ehabi(le, bytes(8 * k), bytes(4 * nt), pad)
        tab = bytearray()
        for _ in range(nt):
            r = rng.random()
            if r < 0.3:
                w = rng.randrange(1 << 32)
            elif r < 0.7:
                w = 0x80000000 | (rng.choice([0, 0, 1, 2, 3, 15]) << 24) | (rng.choice([0, 1, 2, 3, 255]) << 16) | rng.randrange(1 << 16)
                if rng.random() < 0.15:
                    w |= rng.choice([1, 2, 4]) << 28
            else:
                w = rng.choice(DISPS) & 0x7fffffff
            tab += struct.pack('<I' if le else '>I', w)
        ex = bytearray()
        for i in range(k):
            place = exoff + 8 * i
            w0 = (g_disp(rng) & 0x7fffffff) | (0x80000000 if rng.random() < 0.1 else 0)
            r = rng.random()
            if r < 0.15:
                w1 = 1
            elif r < 0.4:
                w1 = 0x80000000 | rng.randrange(1 << 24) | (rng.choice([0, 0, 0, 1, 0x7f]) << 24)
            elif r < 0.85:
                # table reference: mostly into the table, sometimes beyond / before the file
                tgt = taboff + 4 * rng.randrange(0, nt + 2) + rng.choice([0, 0, 0, 1, 2])
                if rng.random() < 0.15:
                    tgt = rng.choice([0, 1, place, len(tab) + taboff + 400, -4, -0x1000, 0x3fffffff])
                w1 = (tgt - (place + 4)) & 0x7fffffff
            else:
                w1 = rng.randrange(1 << 32)
            ex += struct.pack('<II' if le else '>II', w0, w1)
        if rng.random() < 0.1:
            ex = ex[:rng.choice([len(ex) - 1, len(ex) - 4, len(ex) - 5])]
        items.append((le, bytes(ex), bytes(tab), pad))
    reqs, imgs = [], []
    for le, ex, tab, pad in items:
        image, exoff, taboff = wrap_ehabi(le, ex, tab, pad)
        if rng.random() < 0.2:
            image = image[:exoff + len(ex) - rng.choice([0, 1, 4, 5])] if exoff > taboff else image
        k = len(ex) // 8
        reqs.append({'p': 'C20', 'k': 'ehabi_raw', 'le': le, 'hex': hx(image), 'off': exoff, 'size': len(ex), 'ns': list(range(k + 1))})
        imgs.append(image)
    models = ask(ctx, reqs)
    for (le, ex, tab, pad), image, rq, m in zip(items, imgs, reqs, models):
        if 'fatal' in m:
            raise RuntimeError('driver: %s' % m['fatal'])
        try:
            num, impl = observe_entries(image, rq['ns'])
        except Exception as e:   # container no longer parseable after truncation: not this property's business
            ctx.out.count('exidx_raw:container-unreadable')
            continue
        for i, n_ in enumerate(rq['ns']):
            case = {'le': le, 'image': rq['hex'], 'off': rq['off'], 'size': rq['size'], 'i': n_}
            ctx.out.case({'le': le, 'ex': hx(ex), 'tab': hx(tab), 'pad': pad, 'i': n_, 'len': len(image)})
            mi = m['model'][i]
            key = 'ok' if 'ok' in mi else mi['err']
            ctx.out.count('exidx_raw:' + key)
            # entry classification against the EHABI reference decoder: whenever the library returns an entry
            # for an in-range index, it must be the one the reference decoder reads off the words
            std = m['std'][i]
            if 'ok' in impl[i] and std is not None and impl[i]['ok']['entry'] != std:
                ctx.out.violation('property', 'exidx_raw', dict(case, what='classification'), expect=std, got=impl[i], model=mi)
                continue
            if impl[i] != mi:
                ctx.out.violation('correspondence', 'exidx_raw', case, got=impl[i], model=mi)


REP = [0x00, 0x01, 0x0f, 0x10, 0x3f, 0x40, 0x7f, 0x80, 0x81, 0x9d, 0xa3, 0xb0, 0xb1, 0xb2, 0xc7, 0xff]


def short_arrays(ctx, rng):
    """every 1-byte array; every 2-byte array (quick: second byte in steps of 5 plus the representatives);
    3-byte arrays: every first opcode x representative second x representative third (quick: a sample)"""
    out = [bytes([a]) for a in range(256)]
    seconds = range(256) if ctx.tier == 'thorough' else sorted(set(range(0, 256, 5)) | set(REP))
    out += [bytes([a, b]) for a in range(256) for b in seconds]
    threes = [bytes([a, b, c]) for a in range(256) for b in REP for c in REP]
    if ctx.tier != 'thorough':
        threes = rng.sample(threes, 4000)
    return out + threes


def impl_bc(code):
    from elftools.ehabi.decoder import EHABIBytecodeDecoder
    return c_mn(EHABIBytecodeDecoder(list(code)).mnemonic_array)


def run_bc(ctx):
    rng = ctx.rng('bc')
    arrays = short_arrays(ctx, rng)
    for _ in range(ctx.budget(1500, 60000)):
        n = rng.choice([3, 4, 5, 8, 13, 21, 40])
        arrays.append(g_code(rng, n, rng.random() < 0.8))
    arrays = sorted(set(arrays))
    replies = ask(ctx, [{'p': 'C20', 'k': 'bc', 'hex': hx(a)} for a in arrays])
    for a, r in zip(arrays, replies):
        if 'fatal' in r:
            raise RuntimeError('driver: %s' % r['fatal'])
        impl = run_obs(lambda: impl_bc(a))
        case = {'hex': hx(a)}
        ctx.out.case(case, nontrivial=len(a) > 0)
        if r['std'] is not None:
            ctx.out.count('bc:wf:len=%s' % (len(a) if len(a) < 4 else '4+'))
            if impl != {'ok': r['std']}:
                ctx.out.violation('property', 'bc', case, expect=r['std'], got=impl, model=r['model'])
                continue
        else:
            ctx.out.count('bc:truncated-operand')
        if impl != r['model']:
            ctx.out.violation('correspondence', 'bc', case, got=impl, model=r['model'])


def run_prel31(ctx):
    from elftools.ehabi.ehabiinfo import arm_expand_prel31
    rng = ctx.rng('prel31')
    ws = [d & 0x7fffffff for d in DISPS] + [(d & 0x7fffffff) | 0x80000000 for d in DISPS[:8]] + [0x7fffffff, 0x40000000, 0x3fffffff, 0xffffffff]
    places = [0, 4, 8, 0x34, 0x1000, 0x3fffffff, 0x40000000, 0x7ffffffc, 0xfffffffc, 0x100000000, (1 << 63) - 8, (1 << 64) - 4]
    pairs = [(w, p) for w in ws for p in places]
    for _ in range(ctx.budget(1500, 40000)):
        pairs.append((rnd_uint(rng, 32), rnd_uint(rng, rng.choice([16, 32, 33, 64]))))
    replies = ask(ctx, [{'p': 'C20', 'k': 'prel31', 'w': w, 'place': p} for w, p in pairs])
    for (w, p), r in zip(pairs, replies):
        if 'fatal' in r:
            raise RuntimeError('driver: %s' % r['fatal'])
        got = arm_expand_prel31(w, p)
        case = {'w': w, 'place': p}
        ctx.out.case(case)
        ctx.out.count('prel31:bit30=%d:bit26=%d' % ((w >> 30) & 1, (w >> 26) & 1))
        if got != r['std']:
            ctx.out.violation('property', 'prel31', case, expect=r['std'], got=got, model=r['model'])
        elif got != r['model']:
            ctx.out.violation('correspondence', 'prel31', case, got=got, model=r['model'])


def run(ctx):
    seeds = run_attr(ctx)
    run_attr_raw(ctx, seeds)
    run_exidx(ctx)
    run_exidx_raw(ctx)
    run_bc(ctx)
    run_prel31(ctx)


# ----------------------------------------------------------------------------- replay
def replay(ctx, payload):
    v = payload['violation']
    case, stream = v['case'], v['stream']
    res = {'stream': stream, 'case': case}
    if stream in ('attr', 'attr_raw'):
        arch, le, cls = case['arch'], case['le'], case['cls']
        expect = None
        if stream == 'attr':
            r = ctx.driver.ask({'p': 'C20', 'k': 'attr_enc', 'arch': arch, 'le': le, 'sec': case['sec']})
            content = bytes.fromhex(r['bytes'])
            expect = r['expect'] if r['wf'] else None
        else:
            content = bytes.fromhex(case['content'])
        image, off, size = wrap_attr(arch, le, cls, content)
        m = ctx.driver.ask({'p': 'C20', 'k': 'attr_raw', 'arch': arch, 'le': le, 'cls': cls, 'hex': hx(image), 'off': off, 'size': size})
        cap = len(image) + 2
        pat = case.get('pattern', 'nested')
        if pat == 'levelwise':
            impl = run_obs(lambda: observe_levelwise(image, arch, cap))
        elif pat == 'counts':
            impl = run_obs(lambda: observe_counts(image, arch))
            expect = counts_of(expect) if expect is not None else None
        else:
            impl = run_obs(lambda: observe_nested(image, arch, cap))
        fails = (impl != {'ok': expect}) if expect is not None else (impl != m['model'])
        res.update(impl=impl, expect=expect, model=m['model'], fails=fails)
    elif stream in ('exidx', 'exidx_raw'):
        image = bytes.fromhex(case['image'])
        i = case['i']
        m = ctx.driver.ask({'p': 'C20', 'k': 'ehabi_raw', 'le': case['le'], 'hex': case['image'], 'off': case['off'], 'size': case['size'], 'ns': [i]})
        num, impl = observe_entries(image, [i])
        expect = v.get('expect')
        if expect is not None and stream == 'exidx' and 'what' not in case:
            fails = impl[0] != {'ok': expect}
        elif expect is not None:
            fails = not ('ok' in impl[0] and impl[0]['ok']['entry'] == m['std'][0])
        else:
            fails = impl[0] != m['model'][0]
        res.update(impl=impl[0], expect=expect, model=m['model'][0], std=m['std'][0], fails=fails)
    elif stream == 'bc':
        a = bytes.fromhex(case['hex'])
        r = ctx.driver.ask({'p': 'C20', 'k': 'bc', 'hex': case['hex']})
        impl = run_obs(lambda: impl_bc(a))
        fails = (impl != {'ok': r['std']}) if r['std'] is not None else (impl != r['model'])
        res.update(impl=impl, expect=r['std'], model=r['model'], fails=fails)
    else:
        from elftools.ehabi.ehabiinfo import arm_expand_prel31
        r = ctx.driver.ask({'p': 'C20', 'k': 'prel31', 'w': case['w'], 'place': case['place']})
        got = arm_expand_prel31(case['w'], case['place'])
        res.update(impl=got, expect=r['std'], model=r['model'], fails=(got != r['std'] or got != r['model']))
    return res


FINDINGS = {}
