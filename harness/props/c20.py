"""C20 — ARM/RISC-V build attributes and ARM unwind tables.  Streams:

  attr      : abstract attributes section (1..n vendor subsections x 1..m file/section/symbol sub-subsections x
              attribute lists over the ARM / RISC-V tag tables, padded ULEB128s, both byte orders, both classes)
              -> Lean *Spec encoder* -> wrapped in an ELF container -> real library through the public API
              (ELFFile -> get_section_by_name -> iter_subsections -> iter_subsubsections -> iter_attributes),
              compared with what the property prescribes (Spec observation) and with the model.
              Two more observation patterns of the same API on the same input (subsections first, then their
              sub-subsections, then their attributes; and num_subsections / subsections / num_subsubsections)
              must give the same tree.
  attr_raw  : mutated / truncated / random section contents -> real library vs model, errors included
  exidx     : abstract index table (every entry kind, prel31 displacement classes, byte-code over the whole opcode
              space) -> Spec encoder -> ELF container with .ARM.exidx/.ARM.extab -> get_ehabi_infos -> get_entry ->
              fields + mnmemonic_array(); vs Spec observation, vs the EHABI reference decoder, vs model
  exidx_raw : random index/table words -> real library vs model vs reference decoder
  bc        : byte-code arrays: exhaustive to length 2 (quick) / 3 over well-formed prefixes (thorough), random to
              length 40 -> EHABIBytecodeDecoder vs `ehabiStd` vs model (IndexError on truncated operands is out of
              the property's domain: compared with the model only)
  prel31    : arm_expand_prel31 on boundary words/places vs the standard formula vs the T3 translation
  file_attr : (fifth wave) abstract ELF DESCRIPTIONS (C01's ElfDesc: any section order / gaps / table placement, both
              classes and byte orders, ARM / RISC-V / foreign machines, duplicate names, compressed flag) one or two of
              whose sections are Spec-encoded attribute sections -> bytes by the Lean Spec ASSEMBLER -> real library:
              ELFFile(BytesIO(bytes)).get_section(i) and .get_section_by_name(name): class of the object + the tree;
              vs the whole-file theorems' statement (inside their decided domain) and vs the file-level model
  file_ehabi: descriptions with an SHT_ARM_EXIDX section and its handler table in another section (before or after it,
              at an inner offset), a second index section, ET_REL -> assembler -> EHABIInfo(get_section(i), le) and
              get_ehabi_infos(): num_entry, get_entry(n) for all n and one past, mnmemonic_array(); vs theorem, vs model
  hist      : call HISTORIES on the attribute API of one file with two attribute sections: section constructors,
              iter_subsections / iter_subsubsections / iter_attributes generators created, advanced one step at a time in
              random interleavings, abandoned, list-style properties, explicit seeks and other readers of the file
              stream in between; after every call the answer AND the position of the shared stream are compared with the
              machine of Model/AttrHistory.lean; every yielded item is compared with the Spec tree at its path
"""
import io, itertools, struct
from common import run_impl, canon, hx, rnd_uint, rnd_bytes, BOUNDARY, classify_exception
import elfbuild as EB

RULE = ('attr: sections with 1..4 vendor subsections x 1..4 sub-subsections (file/section/symbol, number lists 0..4) x '
        '0..8 attributes drawn over the whole ARM/RISC-V tag tables (uleb values from boundary pools, NTBS incl. empty and '
        'multi-byte UTF-8, compatibility, nested also-compatible-with), every ULEB128 padded by 0..3 bytes, equal-length '
        'neighbours forced in 30% of cases, byte order x class x arch; attr_raw: byte flips, length-field edits, truncations '
        'and random tails of valid sections; exidx: 1..6 entries of every kind, displacements from '
        '{0, +-1, +-small, +-2^26 neighbourhood, +-(2^30-1), -2^30}, byte-code from the full opcode space; exidx_raw: random '
        'words with forced bit patterns; bc: exhaustive short arrays + random to 40 bytes with long ULEB128 operands. '
        'attr: in 10% of the cases an attribute with a tag number outside the table is inserted at a random place '
        '(theorem attrs_unknown_tag: ELFParseError); file_attr: 30% malformed modes — file cut inside the section at a '
        'random byte / sh_size beyond the end of the file / unknown tag — compared with the malformed-input theorems; '
        'file_attr / file_ehabi: whole descriptions with shuffled regions, random gaps, optional extra section-header entry '
        'size, 0..2 filler sections, section order and handler-table placement (before / after / inner offset) random, '
        'e_type in {EXEC, DYN, REL}, machines ARM / RISCV / X86_64; hist: 25..70 calls per history drawn from '
        '{open, iter, next (60%), list, seek, poke}, two sections per file, well-formed and mutated contents. '
        'Non-trivial = distinct (stream, bytes, configuration); every case decodes at least one structure.')
ASSUMPTIONS = ['io.BytesIO read/seek/tell semantics (seek >= 2^63 raises OverflowError)',
               'section-level streams: the model is run on the file image with the sh_offset/sh_size the container was '
               'built with; file_* streams: the container is modelled too (C01 mirror of elffile.py)',
               'hist: the position of the stream after a call that raised is not compared (wherever construct stopped '
               'reading); it is compared again after the next call that positions the stream absolutely',
               'hist, attr_raw (malformed contents only): on a section carrying a ten-byte ULEB128 length the generators\' bare stream.seek(offset >= 2^63) is '
               'CPython\'s OverflowError where the model reports the following short read (ELFParseError); that outcome pair '
               'alone is set aside and counted (…:set-aside:bare-seek-beyond-2^63)',
               'CPython recursion limit not reached (< 300 nested TAG_ALSO_COMPATIBLE_WITH)',
               'str is compared through its UTF-8 bytes']


class Fuel(Exception):
    pass


def ask(ctx, reqs, limit=40000):
    """ctx.driver.ask_many in groups whose request text stays below the pipe buffer (the shared Driver writes a
    whole batch before reading any reply; a batch larger than the 64 KiB pipe can deadlock against the replies)."""
    import json
    out, group, size = [], [], 0
    for r in reqs:
        n = len(json.dumps(r, separators=(',', ':'))) + 16
        if group and size + n > limit:
            out += ctx.driver.ask_many(group)
            group, size = [], 0
        group.append(r)
        size += n
    if group:
        out += ctx.driver.ask_many(group)
    return out


def run_obs(fn):
    try:
        return {'ok': fn()}
    except Fuel:
        return {'err': 'outOfFuel'}
    except RecursionError:
        return {'err': 'outOfFuel'}
    except Exception as e:      # noqa: BLE001
        return {'err': classify_exception(e)}


def capped(gen, cap):
    for i, x in enumerate(gen):
        if i >= cap:
            raise Fuel()
        yield x


# ----------------------------------------------------------------------------- attributes: observation
def cv(v):
    from elftools.elf.sections import Attribute
    if v is None or isinstance(v, bool):
        return v
    if isinstance(v, int):
        return v
    if isinstance(v, str):
        return {'b': v.encode('utf-8').hex()}
    if isinstance(v, (bytes, bytearray)):
        return {'b': bytes(v).hex(), 'raw': True}
    if isinstance(v, list):
        return [cv(x) for x in v]
    if isinstance(v, Attribute):
        return c_attr(v)
    raise TypeError(type(v))


def c_tag(t):
    return t if isinstance(t, str) else cv(t)


def c_attr(a):
    return {'r': [['tag', c_tag(a.tag)], ['value', cv(a.value)], ['extra', cv(a.extra)]]}


def c_subsub(sss, attrs):
    h = sss.header
    return {'r': [['tag', c_tag(h.tag)], ['value', cv(h.value)], ['extra', cv(h.extra)], ['attributes', attrs]]}


def c_subsec(ss, subs):
    return {'r': [['length', ss.header['length']], ['vendor_name', cv(ss.header['vendor_name'])], ['subsubsections', subs]]}


SECNAME = {'arm': '.ARM.attributes', 'riscv': '.riscv.attributes'}


def open_section(image, arch):
    from elftools.elf.elffile import ELFFile
    f = ELFFile(io.BytesIO(image))
    return f.get_section_by_name(SECNAME[arch])


def tree_of(s, cap):
    """nested iteration over a section object, in generator order"""
    out = []
    for ss in capped(s.iter_subsections(), cap):
        subs = []
        for sss in capped(ss.iter_subsubsections(), cap):
            attrs = [c_attr(a) for a in capped(sss.iter_attributes(), cap)]
            subs.append(c_subsub(sss, attrs))
        out.append(c_subsec(ss, subs))
    return out


def observe_nested(image, arch, cap):
    """The observation the property names: nested iteration in generator order."""
    s = open_section(image, arch)
    out = []
    for ss in capped(s.iter_subsections(), cap):
        subs = []
        for sss in capped(ss.iter_subsubsections(), cap):
            attrs = [c_attr(a) for a in capped(sss.iter_attributes(), cap)]
            subs.append(c_subsub(sss, attrs))
        out.append(c_subsec(ss, subs))
    return out


def observe_levelwise(image, arch, cap):
    """Same API, other order: all subsections first, then all their sub-subsections, then the attributes."""
    s = open_section(image, arch)
    sss_of = []
    secs = list(capped(s.iter_subsections(), cap))
    for ss in secs:
        sss_of.append(list(capped(ss.iter_subsubsections(), cap)))
    out = []
    for ss, ssss in zip(secs, sss_of):
        subs = []
        for sss in ssss:
            attrs = [c_attr(a) for a in capped(sss.iter_attributes(), cap)]
            subs.append(c_subsub(sss, attrs))
        out.append(c_subsec(ss, subs))
    return out


def observe_counts(image, arch):
    """num_subsections / subsections / num_subsubsections / num_attributes"""
    s = open_section(image, arch)
    n = s.num_subsections
    out = []
    for ss in s.subsections:
        m = ss.num_subsubsections
        out.append([m, [x.num_attributes - 1 for x in ss.subsubsections]])
    return [n, out]


def counts_of(tree):
    return [len(tree), [[len(dict(ss['r'])['subsubsections']), [len(dict(x['r'])['attributes']) for x in dict(ss['r'])['subsubsections']]]
                        for ss in tree]]


def wrap_attr(arch, le, cls, content):
    mach = EB.EM_ARM if arch == 'arm' else EB.EM_RISCV
    img = EB.ElfImage(cls=cls, le=le, e_type=EB.ET_EXEC, e_machine=mach)
    img.add_section('.text', EB.SHT_PROGBITS, data=b'\x00' * 5, flags=6, addr=0x1000)
    i = img.add_section(SECNAME[arch], EB.SHT_ARM_ATTRIBUTES, data=content)
    img.add_section('.comment', EB.SHT_PROGBITS, data=b'tail\x00')
    data = img.build()
    return data, img.offsets[i], len(content)


# ----------------------------------------------------------------------------- attributes: generators
ARM_TAGS = dict(FILE=1, SECTION=2, SYMBOL=3)
ARM_ALL = [4, 5, 6, 7, 8, 9, 10, 11, 12, 13, 14, 15, 16, 17, 18, 19, 20, 21, 22, 23, 24, 25, 26, 27, 28, 29, 30, 31, 32, 34, 36, 38,
           42, 44, 46, 48, 50, 52, 64, 65, 66, 67, 68, 70, 72, 74, 76]
ARM_NTBS = {4, 5, 67}
RISCV_ALL = [4, 5, 6, 8, 10, 12, 14, 16]
RISCV_NTBS = {5}
STRS = [b'', b'A', b'aeabi', b'ARM v7', b'Cortex-A9', 'héllo'.encode(), '€\U0001f600'.encode(), b'2.09', b'rv64i2p0_m2p0_a2p0',
        b'x' * 63, b'y' * 64, b'z' * 130]


def gU(rng, v):
    minlen = max(1, (v.bit_length() + 6) // 7)
    return [v, minlen + rng.choice([0, 0, 0, 0, 1, 2, 3])]


def g_uval(rng):
    return rnd_uint(rng, rng.choice([3, 7, 8, 14, 32, 64]))


def g_simple(rng, is_str):
    if is_str:
        return {'s': hx(rng.choice(STRS))}
    return {'i': gU(rng, g_uval(rng))}


def g_attr(rng, arch):
    if arch == 'arm':
        t = rng.choice(ARM_ALL) if rng.random() < 0.8 else rng.choice([4, 5, 32, 65, 67, 64, 6])
        if t == 32:
            v = {'c': [gU(rng, g_uval(rng)), hx(rng.choice(STRS))]}
        elif t == 65:
            inner = rng.choice([x for x in ARM_ALL if x not in (32, 65)])
            v = {'a': [gU(rng, inner), g_simple(rng, inner in ARM_NTBS)]}
        else:
            v = g_simple(rng, t in ARM_NTBS)
    else:
        t = rng.choice(RISCV_ALL)
        v = g_simple(rng, t in RISCV_NTBS)
    return {'t': gU(rng, t), 'v': v}


def g_subsub(rng, arch, nattrs=None):
    scope = rng.choice([1, 1, 2, 3])
    nums = [] if scope == 1 else [gU(rng, max(1, rnd_uint(rng, rng.choice([4, 8, 16, 32])))) for _ in range(rng.choice([0, 1, 1, 2, 4]))]
    n = rng.choice([0, 1, 2, 3, 5, 8]) if nattrs is None else nattrs
    return {'t': gU(rng, scope), 'nums': nums, 'attrs': [g_attr(rng, arch) for _ in range(n)]}


def g_section(rng, arch):
    nsub = rng.choice([1, 1, 2, 2, 3, 4])
    sec = []
    for _ in range(nsub):
        vendor = rng.choice([b'aeabi', b'riscv', b'gnu', b'', b'ARM', b'vendorX', 'fü'.encode()])
        subs = [g_subsub(rng, arch) for _ in range(rng.choice([1, 1, 2, 3, 4]))]
        sec.append({'vendor': hx(vendor), 'subs': subs})
    r = rng.random()
    if r < 0.3 and len(sec) >= 2:
        # equal-length neighbours: duplicate a subsection / a sub-subsection (same encoded length)
        i = rng.randrange(len(sec) - 1)
        sec[i + 1] = {'vendor': sec[i]['vendor'], 'subs': [dict(s) for s in sec[i]['subs']]}
    if r > 0.6:
        s = rng.choice(sec)
        j = rng.randrange(len(s['subs']))
        s['subs'].insert(j, dict(s['subs'][j]))
    return sec


ARM_UNKNOWN = [0, 33, 35, 37, 39, 40, 41, 43, 45, 47, 49, 51, 53, 63, 69, 71, 73, 75, 77, 78, 127, 128, 300, 1 << 32]
RISCV_UNKNOWN = [0, 7, 9, 11, 13, 15, 17, 18, 64, 128, 300, 1 << 32]


def inject_unknown(rng, arch, sec):
    """a copy of `sec` with an attribute whose tag number is not in the architecture's table inserted at a random
    place (everything before it stays well formed; what follows is whatever was there)"""
    import copy
    sec = copy.deepcopy(sec)
    ss = rng.choice(sec)
    sss = rng.choice(ss['subs'])
    t = rng.choice(ARM_UNKNOWN if arch == 'arm' else RISCV_UNKNOWN)
    sss['attrs'].insert(rng.randrange(len(sss['attrs']) + 1), {'t': gU(rng, t), 'v': g_simple(rng, rng.random() < 0.3)})
    return sec


def attr_check(ctx, stream, case, image, arch, off, size, expect, model, lv_model=None):
    out = ctx.out
    cap = len(image) + 2
    impl = run_obs(lambda: observe_nested(image, arch, cap))
    out.case(case)
    if lv_model is not None and expect is None:
        # malformed / out-of-domain contents: the levelwise observation against the levelwise model
        lv = run_obs(lambda: observe_levelwise(image, arch, cap))
        out.count('levelwise:' + ('ok' if 'ok' in lv_model else lv_model['err']))
        if lv != lv_model and bare_seek_beyond((None, None, lv, lv_model), image, b''):
            out.count(stream + ':set-aside:bare-seek-beyond-2^63')
        elif lv != lv_model:
            out.violation('correspondence', stream, dict(case, pattern='levelwise'), got=lv, model=lv_model)
            return
    if expect is not None:
        if impl != {'ok': expect}:
            out.violation('property', stream, case, expect=expect, got=impl, model=model)
            return
        # the same API observed in other orders must give the same tree (well-formed inputs only)
        lv = run_obs(lambda: observe_levelwise(image, arch, cap))
        if lv != {'ok': expect}:
            out.violation('property', stream, dict(case, pattern='levelwise'), expect=expect, got=lv, model=model)
            return
        if lv_model is not None and lv != lv_model:
            out.violation('correspondence', stream, dict(case, pattern='levelwise'), got=lv, model=lv_model)
            return
        cn = run_obs(lambda: observe_counts(image, arch))
        if cn != {'ok': counts_of(expect)}:
            out.violation('property', stream, dict(case, pattern='counts'), expect=counts_of(expect), got=cn, model=model)
            return
    if impl != model and expect is None and bare_seek_beyond((None, None, impl, model), image, b''):
        out.count(stream + ':set-aside:bare-seek-beyond-2^63')
        return
    if impl != model:
        out.violation('correspondence', stream, case, got=impl, model=model)


def run_attr(ctx):
    rng = ctx.rng('attr')
    n = ctx.budget(700, 20000)
    cfgs, reqs = [], []
    for _ in range(n):
        arch = rng.choice(['arm', 'arm', 'riscv'])
        le = rng.random() < 0.6
        cls = rng.choice([32, 64]) if arch == 'riscv' else rng.choice([32, 32, 64])
        sec = g_section(rng, arch)
        if rng.random() < 0.1:
            sec = inject_unknown(rng, arch, sec)
        cfgs.append((arch, le, cls))
        reqs.append({'p': 'C20', 'k': 'attr_enc', 'arch': arch, 'le': le, 'sec': sec})
    encs = ask(ctx, reqs)
    raws, keep = [], []
    for (arch, le, cls), rq, r in zip(cfgs, reqs, encs):
        if 'fatal' in r:
            raise RuntimeError('driver: %s on %r' % (r['fatal'], rq))
        content = bytes.fromhex(r['bytes'])
        image, off, size = wrap_attr(arch, le, cls, content)
        raws.append({'p': 'C20', 'k': 'attr_raw', 'arch': arch, 'le': le, 'cls': cls, 'hex': hx(image), 'off': off, 'size': size})
        keep.append((arch, le, cls, rq, r, image, off, size))
    models = ask(ctx, raws)
    for (arch, le, cls, rq, r, image, off, size), m in zip(keep, models):
        if 'fatal' in m:
            raise RuntimeError('driver: %s' % m['fatal'])
        if not m.get('utf8', False):
            raise RuntimeError('generated fact attrNtbsUtf8 is false: the attribute code no longer decodes NTBS as UTF-8')
        case = {'arch': arch, 'le': le, 'cls': cls, 'sec': rq['sec'], 'content': r['bytes']}
        nsub = len(rq['sec'])
        ctx.out.count('attr:%s:%s:%d:subsecs=%d' % (arch, 'le' if le else 'be', cls, min(nsub, 3)))
        if r.get('bad'):
            # the first malformation is an unknown tag (theorem attrs_unknown_tag): ELFParseError, nothing else
            ctx.out.count('attr:unknown-tag')
            impl = run_obs(lambda: observe_nested(image, arch, len(image) + 2))
            ctx.out.case(case)
            if impl != {'err': 'elfParseError'}:
                ctx.out.violation('property', 'attr', dict(case, pattern='unknown-tag'), expect={'err': 'elfParseError'}, got=impl, model=m['model'])
            elif impl != m['model']:
                ctx.out.violation('correspondence', 'attr', case, got=impl, model=m['model'])
        elif not r['wf']:
            ctx.out.count('attr:not-wf')
            attr_check(ctx, 'attr', case, image, arch, off, size, None, m['model'], m.get('levelwise'))
        else:
            attr_check(ctx, 'attr', case, image, arch, off, size, r['expect'], m['model'], m.get('levelwise'))
    ctx.c20_wf = [(k[0], k[1], k[2], k[3]['sec'], bytes.fromhex(k[4]['bytes']), k[4]['expect']) for k in keep if k[4]['wf']]
    return [(k[0], k[1], k[2], bytes.fromhex(k[4]['bytes'])) for k in keep]


def mutate(rng, content):
    b = bytearray(content)
    r = rng.random()
    if r < 0.25 and b:
        for _ in range(rng.choice([1, 1, 2, 3])):
            b[rng.randrange(len(b))] = rng.choice([0, 1, 2, 3, 4, 5, 32, 65, 67, 0x41, 0x7f, 0x80, 0xff, rng.randrange(256)])
    elif r < 0.45 and b:
        del b[rng.randrange(len(b)):]
    elif r < 0.6 and len(b) > 5:
        # edit a 4-byte length field candidate
        i = rng.choice([1, rng.randrange(1, len(b) - 3)])
        v = rng.choice([0, 1, 4, 5, 6, 0xffffffff, len(b), len(b) - 1, len(b) + 1, rng.randrange(0, 64)])
        b[i:i + 4] = struct.pack('<I', v)
    elif r < 0.75:
        b += rnd_bytes(rng, rng.choice([1, 2, 5, 9]))
    elif r < 0.9:
        b = bytearray(b'A') + bytearray(rnd_bytes(rng, rng.choice([0, 1, 4, 5, 8, 12, 20, 40])))
    else:
        k = rng.randrange(0, len(b) + 1)
        b[k:k] = bytes([rng.choice([65, 65, 32, 4, 1, 2, 3, 0x80])]) * rng.choice([1, 2, 7, 30])
    return bytes(b[:220])


def run_attr_raw(ctx, seeds):
    rng = ctx.rng('attr_raw')
    n = ctx.budget(900, 30000)
    items = []
    for _ in range(n):
        arch, le, cls, content = rng.choice(seeds)
        items.append((arch, le, cls, mutate(rng, content)))
    reqs, imgs = [], []
    for arch, le, cls, content in items:
        image, off, size = wrap_attr(arch, le, cls, content)
        reqs.append({'p': 'C20', 'k': 'attr_raw', 'arch': arch, 'le': le, 'cls': cls, 'hex': hx(image), 'off': off, 'size': size})
        imgs.append(image)
    models = ask(ctx, reqs)
    for (arch, le, cls, content), image, rq, m in zip(items, imgs, reqs, models):
        if 'fatal' in m:
            raise RuntimeError('driver: %s' % m['fatal'])
        case = {'arch': arch, 'le': le, 'cls': cls, 'content': hx(content)}
        mm = m['model']
        ctx.out.count('attr_raw:' + ('ok' if 'ok' in mm else mm['err']))
        attr_check(ctx, 'attr_raw', case, image, arch, rq['off'], rq['size'], None, mm, m.get('levelwise'))


# ----------------------------------------------------------------------------- EHABI
DISPS = [0, 1, -1, 4, -4, 0x100, -0x100, 0x1234, -0x5678, 0x03ffffff, 0x04000000, 0x04000001, -0x04000000, -0x04000001,
         -0x03ffffff, 0x07ffffff, 0x08000000, -0x08000000, 0x20000000, -0x20000000, 0x30000000, -0x30000000, 0x3ffffffe,
         0x3fffffff, -0x3fffffff, -0x40000000]


def g_disp(rng):
    r = rng.random()
    if r < 0.5:
        return rng.choice(DISPS)
    if r < 0.7:
        return rng.randrange(-0x40000000, 0x40000000)
    return rng.randrange(-0x2000, 0x2000)


OPC_POOL = list(range(256))


def g_code(rng, n, wellformed=True):
    """n bytes of byte-code; well-formed: no instruction is cut by the end"""
    for _ in range(50):
        b = bytearray()
        while len(b) < n:
            r = rng.random()
            op = rng.choice(OPC_POOL) if r < 0.7 else rng.choice([0xb2, 0xb1, 0xb3, 0x80, 0x8f, 0xc6, 0xc7, 0xc8, 0xc9, 0xb0, 0x9d, 0x9f])
            b.append(op)
            if 0x80 <= op <= 0x8f or op in (0xb1, 0xb3, 0xc6, 0xc7, 0xc8, 0xc9):
                b.append(rng.choice([0, 1, 0x0f, 0x10, 0xf0, 0xff, rng.randrange(256)]))
            elif op == 0xb2:
                k = rng.choice([1, 1, 2, 3, 5])
                for i in range(k):
                    x = rng.randrange(128)
                    b.append(x | (0x80 if i < k - 1 else 0))
        if len(b) == n or not wellformed:
            return bytes(b[:n])
    return bytes([0xb0] * n)


def g_entry(rng):
    k = rng.choice(['cant', 'inline', 'inline', 'generic', 'su16', 'long', 'long'])
    e = {'k': k, 'fn': g_disp(rng)}
    wf = rng.random() < 0.9
    if k in ('inline', 'su16'):
        e['b'] = hx(g_code(rng, 3, wf))
    elif k == 'generic':
        e['pers'] = g_disp(rng)
    elif k == 'long':
        nw = rng.choice([0, 1, 1, 2, 3, 9])
        code = g_code(rng, 2 + 4 * nw, wf)
        e.update(idx=rng.choice([1, 2]), b=hx(code[:2]), more=[hx(code[2 + 4 * i: 6 + 4 * i]) for i in range(nw)])
    return e


def entry_words(e):
    if e['k'] == 'generic' or e['k'] == 'su16':
        return 1
    if e['k'] == 'long':
        return 1 + len(e['more'])
    return 0


def wrap_ehabi(le, exidx, extab, pad):
    img = EB.ElfImage(cls=32, le=le, e_type=EB.ET_DYN, e_machine=EB.EM_ARM)
    img.add_section('.text', EB.SHT_PROGBITS, data=b'\x00' * pad, flags=6, addr=0x1000)
    a = img.add_section('.ARM.extab', EB.SHT_PROGBITS, data=extab, flags=2, addralign=4)
    b = img.add_section('.ARM.exidx', EB.SHT_ARM_EXIDX, data=exidx, flags=2, addralign=4, link=1)
    data = img.build()
    return data, img.offsets[b], img.offsets[a]


def c_entry(e):
    return {'r': [['function_offset', e.function_offset], ['personality', e.personality],
                  ['bytecode_array', None if e.bytecode_array is None else [int(x) for x in e.bytecode_array]],
                  ['eh_table_offset', e.eh_table_offset], ['unwindable', bool(e.unwindable)], ['corrupt', bool(e.corrupt)]]}


def c_mn(m):
    return None if m is None else [[hx(bytes(x.bytecode)), x.mnemonic] for x in m]


def observe_entries(image, ns):
    from elftools.elf.elffile import ELFFile
    f = ELFFile(io.BytesIO(image))
    infos = f.get_ehabi_infos()
    assert infos is not None and len(infos) == 1
    info = infos[0]
    out = []
    for n in ns:
        def one():
            e = info.get_entry(n)
            return {'entry': c_entry(e), 'mn': c_mn(e.mnmemonic_array())}
        out.append(run_obs(one))
    return info.num_entry(), out


def run_exidx(ctx):
    rng = ctx.rng('exidx')
    n = ctx.budget(500, 12000)
    cases = []
    for _ in range(n):
        le = rng.random() < 0.6
        es = [g_entry(rng) for _ in range(rng.choice([1, 2, 3, 4, 6]))]
        pad = rng.choice([0, 1, 4, 60, 300, 5000])
        nwords = sum(entry_words(e) for e in es)
        _, exoff, taboff = wrap_ehabi(le, bytes(8 * len(es)), bytes(4 * nwords), pad)
        cases.append((le, es, pad, exoff, taboff))
    encs = ask(ctx, [{'p': 'C20', 'k': 'ehabi_enc', 'le': le, 'entries': es, 'exidx_off': exoff, 'tab0': taboff}
                                for le, es, pad, exoff, taboff in cases])
    raws, keep = [], []
    for (le, es, pad, exoff, taboff), r in zip(cases, encs):
        if 'fatal' in r:
            raise RuntimeError('driver: %s' % r['fatal'])
        exidx, extab = bytes.fromhex(r['exidx']), bytes.fromhex(r['extab'])
        image, exoff2, taboff2 = wrap_ehabi(le, exidx, extab, pad)
        assert (exoff2, taboff2) == (exoff, taboff) and len(exidx) == 8 * len(es)
        raws.append({'p': 'C20', 'k': 'ehabi_raw', 'le': le, 'hex': hx(image), 'off': exoff, 'size': len(exidx),
                     'ns': list(range(len(es) + 1))})
        keep.append((le, es, pad, r, image, exoff))
    models = ask(ctx, raws)
    for (le, es, pad, r, image, exoff), m in zip(keep, models):
        if 'fatal' in m:
            raise RuntimeError('driver: %s' % m['fatal'])
        num, impl = observe_entries(image, list(range(len(es) + 1)))
        for i in range(len(es) + 1):
            case = {'le': le, 'entries': es, 'pad': pad, 'i': i, 'image': hx(image), 'off': exoff, 'size': 8 * len(es)}
            ctx.out.case({'le': le, 'e': es[i] if i < len(es) else None, 'pad': pad, 'i': i, 'place': exoff + 8 * i})
            mi = m['model'][i]
            if i < len(es):
                ex = r['expect'][i]
                ctx.out.count('exidx:%s:%s' % (es[i]['k'], 'wf' if ex['wf'] else 'not-wf'))
                if ex['wf']:
                    want = {'entry': ex['entry'], 'mn': ex['mn']}
                    if impl[i] != {'ok': want} or num != len(es):
                        ctx.out.violation('property', 'exidx', case, expect=want, got=impl[i], model=mi)
                        continue
                    # the reference decoder (theorem getEntry_eq_std) read directly off the words
                    if m['std'][i] != ex['entry']:
                        ctx.out.violation('property', 'exidx', dict(case, what='reference decoder vs abstract entry'),
                                          expect=ex['entry'], got=m['std'][i], model=mi)
                        continue
            if impl[i] != mi:
                ctx.out.violation('correspondence', 'exidx', case, got=impl[i], model=mi)


def run_exidx_raw(ctx):
    rng = ctx.rng('exidx_raw')
    n = ctx.budget(600, 20000)
    items = []
    for _ in range(n):
        le = rng.random() < 0.5
        k = rng.choice([1, 2, 3])
        nt = rng.choice([1, 2, 4, 8])
        pad = rng.choice([0, 4, 64])
        _, exoff, taboff = wrap_ehabi(le, bytes(8 * k), bytes(4 * nt), pad)
        tab = bytearray()
        for _ in range(nt):
            r = rng.random()
            if r < 0.3:
                w = rng.randrange(1 << 32)
            elif r < 0.7:
                w = 0x80000000 | (rng.choice([0, 0, 1, 2, 3, 15]) << 24) | (rng.choice([0, 1, 2, 3, 255]) << 16) | rng.randrange(1 << 16)
                if rng.random() < 0.15:
                    w |= rng.choice([1, 2, 4]) << 28
            else:
                w = rng.choice(DISPS) & 0x7fffffff
            tab += struct.pack('<I' if le else '>I', w)
        ex = bytearray()
        for i in range(k):
            place = exoff + 8 * i
            w0 = (g_disp(rng) & 0x7fffffff) | (0x80000000 if rng.random() < 0.1 else 0)
            r = rng.random()
            if r < 0.15:
                w1 = 1
            elif r < 0.4:
                w1 = 0x80000000 | rng.randrange(1 << 24) | (rng.choice([0, 0, 0, 1, 0x7f]) << 24)
            elif r < 0.85:
                # table reference: mostly into the table, sometimes beyond / before the file
                tgt = taboff + 4 * rng.randrange(0, nt + 2) + rng.choice([0, 0, 0, 1, 2])
                if rng.random() < 0.15:
                    tgt = rng.choice([0, 1, place, len(tab) + taboff + 400, -4, -0x1000, 0x3fffffff])
                w1 = (tgt - (place + 4)) & 0x7fffffff
            else:
                w1 = rng.randrange(1 << 32)
            ex += struct.pack('<II' if le else '>II', w0, w1)
        if rng.random() < 0.1:
            ex = ex[:rng.choice([len(ex) - 1, len(ex) - 4, len(ex) - 5])]
        items.append((le, bytes(ex), bytes(tab), pad))
    reqs, imgs = [], []
    for le, ex, tab, pad in items:
        image, exoff, taboff = wrap_ehabi(le, ex, tab, pad)
        if rng.random() < 0.2:
            image = image[:exoff + len(ex) - rng.choice([0, 1, 4, 5])] if exoff > taboff else image
        k = len(ex) // 8
        reqs.append({'p': 'C20', 'k': 'ehabi_raw', 'le': le, 'hex': hx(image), 'off': exoff, 'size': len(ex), 'ns': list(range(k + 1))})
        imgs.append(image)
    models = ask(ctx, reqs)
    for (le, ex, tab, pad), image, rq, m in zip(items, imgs, reqs, models):
        if 'fatal' in m:
            raise RuntimeError('driver: %s' % m['fatal'])
        try:
            num, impl = observe_entries(image, rq['ns'])
        except Exception as e:   # container no longer parseable after truncation: not this property's business
            ctx.out.count('exidx_raw:container-unreadable')
            continue
        for i, n_ in enumerate(rq['ns']):
            case = {'le': le, 'image': rq['hex'], 'off': rq['off'], 'size': rq['size'], 'i': n_}
            ctx.out.case({'le': le, 'ex': hx(ex), 'tab': hx(tab), 'pad': pad, 'i': n_, 'len': len(image)})
            mi = m['model'][i]
            key = 'ok' if 'ok' in mi else mi['err']
            ctx.out.count('exidx_raw:' + key)
            # entry classification against the EHABI reference decoder: whenever the library returns an entry
            # for an in-range index, it must be the one the reference decoder reads off the words
            std = m['std'][i]
            if 'ok' in impl[i] and std is not None and impl[i]['ok']['entry'] != std:
                ctx.out.violation('property', 'exidx_raw', dict(case, what='classification'), expect=std, got=impl[i], model=mi)
                continue
            if impl[i] != mi:
                ctx.out.violation('correspondence', 'exidx_raw', case, got=impl[i], model=mi)


REP = [0x00, 0x01, 0x0f, 0x10, 0x3f, 0x40, 0x7f, 0x80, 0x81, 0x9d, 0xa3, 0xb0, 0xb1, 0xb2, 0xc7, 0xff]


def short_arrays(ctx, rng):
    """every 1-byte array; every 2-byte array (quick: second byte in steps of 5 plus the representatives);
    3-byte arrays: every first opcode x representative second x representative third (quick: a sample)"""
    out = [bytes([a]) for a in range(256)]
    seconds = range(256) if ctx.tier == 'thorough' else sorted(set(range(0, 256, 5)) | set(REP))
    out += [bytes([a, b]) for a in range(256) for b in seconds]
    threes = [bytes([a, b, c]) for a in range(256) for b in REP for c in REP]
    if ctx.tier != 'thorough':
        threes = rng.sample(threes, 4000)
    return out + threes


def impl_bc(code):
    from elftools.ehabi.decoder import EHABIBytecodeDecoder
    return c_mn(EHABIBytecodeDecoder(list(code)).mnemonic_array)


def run_bc(ctx):
    rng = ctx.rng('bc')
    arrays = short_arrays(ctx, rng)
    for _ in range(ctx.budget(1500, 60000)):
        n = rng.choice([3, 4, 5, 8, 13, 21, 40])
        arrays.append(g_code(rng, n, rng.random() < 0.8))
    arrays = sorted(set(arrays))
    replies = ask(ctx, [{'p': 'C20', 'k': 'bc', 'hex': hx(a)} for a in arrays])
    for a, r in zip(arrays, replies):
        if 'fatal' in r:
            raise RuntimeError('driver: %s' % r['fatal'])
        impl = run_obs(lambda: impl_bc(a))
        case = {'hex': hx(a)}
        ctx.out.case(case, nontrivial=len(a) > 0)
        if r['std'] is not None:
            ctx.out.count('bc:wf:len=%s' % (len(a) if len(a) < 4 else '4+'))
            if impl != {'ok': r['std']}:
                ctx.out.violation('property', 'bc', case, expect=r['std'], got=impl, model=r['model'])
                continue
        else:
            ctx.out.count('bc:truncated-operand')
        if impl != r['model']:
            ctx.out.violation('correspondence', 'bc', case, got=impl, model=r['model'])


def run_prel31(ctx):
    from elftools.ehabi.ehabiinfo import arm_expand_prel31
    rng = ctx.rng('prel31')
    ws = [d & 0x7fffffff for d in DISPS] + [(d & 0x7fffffff) | 0x80000000 for d in DISPS[:8]] + [0x7fffffff, 0x40000000, 0x3fffffff, 0xffffffff]
    places = [0, 4, 8, 0x34, 0x1000, 0x3fffffff, 0x40000000, 0x7ffffffc, 0xfffffffc, 0x100000000, (1 << 63) - 8, (1 << 64) - 4]
    pairs = [(w, p) for w in ws for p in places]
    for _ in range(ctx.budget(1500, 40000)):
        pairs.append((rnd_uint(rng, 32), rnd_uint(rng, rng.choice([16, 32, 33, 64]))))
    replies = ask(ctx, [{'p': 'C20', 'k': 'prel31', 'w': w, 'place': p} for w, p in pairs])
    for (w, p), r in zip(pairs, replies):
        if 'fatal' in r:
            raise RuntimeError('driver: %s' % r['fatal'])
        got = arm_expand_prel31(w, p)
        case = {'w': w, 'place': p}
        ctx.out.case(case)
        ctx.out.count('prel31:bit30=%d:bit26=%d' % ((w >> 30) & 1, (w >> 26) & 1))
        if got != r['std']:
            ctx.out.violation('property', 'prel31', case, expect=r['std'], got=got, model=r['model'])
        elif got != r['model']:
            ctx.out.violation('correspondence', 'prel31', case, got=got, model=r['model'])


# ----------------------------------------------------------------------------- whole files (fifth wave)
import random as _random

SHT_ATTR, SHT_EXIDX = 0x70000003, 0x70000001
MACH = {'arm': (EB.EM_ARM, 'EM_ARM'), 'riscv': (EB.EM_RISCV, 'EM_RISCV'), 'x86': (EB.EM_X86_64, 'EM_X86_64')}


def Rec(**kw):
    return {'r': [[k, v] for k, v in kw.items()]}


def make_desc(seed, cls, le, mach, e_type, secs, last=None):
    """An `ElfDesc` (JSON form of Driver/C01.lean).  secs: dicts name(bytes) type body(bytes) [flags] [size] [link] [align]
    in section-table order; a null section and a `.shstrtab` (anywhere in the table) are added.  Every layout decision
    (region order, gaps, entry size, string-table position) is drawn from `seed` alone, so the same seed with bodies of
    the same lengths gives the same offsets.  Returns (ast, idx, off): idx[k] / off[k] = table index / sh_offset of secs[k]."""
    rng = _random.Random(seed)
    shsz, ehsize = (40, 52) if cls == 32 else (64, 64)
    allsecs = [dict(name=b'', type=0, body=None, size=0, align=0, flags=0)]
    strpos = rng.randrange(1, len(secs) + 2)
    idx = {}
    for k, sc in enumerate(secs):
        if len(allsecs) == strpos:
            allsecs.append(dict(name=b'.shstrtab', type=3, body=None, align=1, flags=0))
        idx[k] = len(allsecs)
        allsecs.append(dict(sc))
    if not any(x['name'] == b'.shstrtab' for x in allsecs):
        strpos = len(allsecs)
        allsecs.append(dict(name=b'.shstrtab', type=3, body=None, align=1, flags=0))
    tab = bytearray(b'\0')
    name_off = {b'': 0}
    for sc in allsecs:
        if sc['name'] not in name_off:
            name_off[sc['name']] = len(tab)
            tab += sc['name'] + b'\0'
    allsecs[strpos]['body'] = bytes(tab)
    shentsize = shsz + rng.choice([0, 0, 8])
    regions = [('body', i) for i in range(1, len(allsecs))] + [('sh', None)]
    rng.shuffle(regions)
    if last is not None:                       # the body of secs[last] is the last region of the file
        regions.remove(('body', idx[last]))
        regions.append(('body', idx[last]))
    pos = ehsize + rng.choice([0, 0, 4, 12])
    shoff = 0
    for kind, i in regions:
        pos += rng.choice([0, 0, 0, 1, 3, 4, 8, 17])
        if kind == 'sh':
            shoff = pos
            pos += shentsize * len(allsecs)
        else:
            allsecs[i]['offset'] = pos
            pos += len(allsecs[i]['body'] or b'')
    sections = []
    for sc in allsecs:
        body = sc.get('body')
        size = sc['size'] if sc.get('size') is not None else len(body or b'')
        flags = sc['flags'] if sc.get('flags') is not None else rng.choice([0, 2, 3, 0x30])
        sections.append({'name': hx(sc['name']), 'nameOff': name_off[sc['name']],
                         'hdr': Rec(sh_type=sc['type'], sh_flags=flags, sh_addr=rng.choice([0, 0x1000, 0x8000]),
                                    sh_offset=sc.get('offset', 0), sh_size=size, sh_link=sc.get('link', 0), sh_info=0,
                                    sh_addralign=sc['align'] if sc.get('align') is not None else rng.choice([0, 1, 4, 8]), sh_entsize=0),
                         'body': hx(body) if body is not None else None})
    ast = {'cls': cls, 'le': le, 'mclass': MACH[mach][1], 'solaris': False, 'core': False,
           'ehdr': Rec(EI_VERSION=1, EI_OSABI=0, EI_ABIVERSION=0, e_type=e_type, e_machine=MACH[mach][0], e_version=1,
                       e_entry=0, e_flags=0, e_ehsize=ehsize),
           'shoff': shoff, 'phoff': 0, 'shentsize': shentsize, 'phentsize': 0,
           'sections': sections, 'segments': [], 'shstrndx': strpos}
    return ast, idx, {k: allsecs[idx[k]]['offset'] for k in idx}


def ask_files(ctx, reqs, limit=30000):
    """batches small enough never to fill both pipes (requests and replies carry whole file images)"""
    import json
    out, group, size = [], [], 0
    for r in reqs:
        n = 2 * len(json.dumps(r, separators=(',', ':'))) + 4000
        if group and size + n > limit:
            out += ctx.driver.ask_many(group)
            group, size = [], 0
        group.append(r)
        size += n
    if group:
        out += ctx.driver.ask_many(group)
    return out


def fillers(rng):
    return [dict(name=rng.choice([b'.text', b'.data', b'.fill']), type=1, body=rnd_bytes(rng, rng.choice([1, 5, 16, 33])))
            for _ in range(rng.choice([0, 1, 1, 2]))]


# ----------------------------------------------------------------------------- file_attr
def impl_file_attr(data, q):
    """ELFFile(BytesIO(data)).get_section(i) / .get_section_by_name(name): [class name, tree] (None: no such name)"""
    from elftools.elf.elffile import ELFFile

    def f():
        ef = ELFFile(io.BytesIO(data))
        if 'name' in q:
            sec = ef.get_section_by_name(bytes.fromhex(q['name']).decode('utf-8'))
            if sec is None:
                return None
        else:
            sec = ef.get_section(q['i'])
        return [type(sec).__name__, tree_of(sec, len(data) + 2)]
    return run_obs(f)


def run_file_attr(ctx):
    rng = ctx.rng('file_attr')
    n = ctx.budget(200, 8000)
    pool = ctx.c20_wf
    groups = {}
    for x in pool:
        groups.setdefault((x[0], x[1]), []).append(x)
    # plan; the sections with an injected unknown tag need the Spec encoder first
    plans, encreqs = [], []
    for _ in range(n):
        arch, le, _cls, sec, content, _exp = rng.choice(pool)
        mode = rng.choice(['plain'] * 7 + ['trunc', 'overrun', 'unknown'])
        pl = {'arch': arch, 'le': le, 'sec': sec, 'content': content, 'mode': mode}
        if mode == 'unknown':
            pl['sec'] = inject_unknown(rng, arch, sec)
            pl['enc'] = len(encreqs)
            encreqs.append({'p': 'C20', 'k': 'attr_enc', 'arch': arch, 'le': le, 'sec': pl['sec']})
        plans.append(pl)
    encs = ask(ctx, encreqs)
    reqs, metas = [], []
    for pl in plans:
        arch, le, sec, content, mode = pl['arch'], pl['le'], pl['sec'], pl['content'], pl['mode']
        if mode == 'unknown':
            content = bytes.fromhex(encs[pl['enc']]['bytes'])
        cls = rng.choice([32, 64])
        mach = arch if rng.random() < 0.88 else 'x86'      # foreign machine: 0x70000003 is an ordinary section there
        name1 = SECNAME[arch].encode()
        secs = fillers(rng)
        flags = 0 if rng.random() < 0.9 else 0x800          # SHF_COMPRESSED: outside the theorems' domain
        main = dict(name=name1, type=SHT_ATTR, body=content, flags=flags, sec=sec)
        cut = None
        if mode == 'trunc':                                 # the file ends `cut` bytes into the section
            cut = rng.choice([1, 2, 5, len(content) - 1, rng.randrange(1, len(content)), rng.randrange(1, len(content))])
            cut = max(1, min(cut, len(content) - 1))
            main.update(body=content[:cut], size=len(content))
        elif mode == 'overrun':                             # the file ends with the section, sh_size claims more
            main.update(size=len(content) + rng.choice([1, 2, 4, 5, 100, 0xffff]))
        attrs = [main]
        if rng.random() < 0.45:
            _, _, _, sec2, content2, _ = rng.choice(groups[(arch, le)])
            attrs.insert(0, dict(name=rng.choice([name1, b'.attrs2']), type=SHT_ATTR, body=content2, flags=0, sec=sec2))
        for a in attrs:
            secs.insert(rng.randrange(len(secs) + 1), a)
        at = [next(i for i, sc in enumerate(secs) if sc is a) for a in attrs]
        if rng.random() < 0.3:
            secs.append(dict(name=b'.bss', type=8, body=None, size=rng.choice([0, 16, 4096])))
        last = at[-1] if mode in ('trunc', 'overrun') and rng.random() < 0.9 else None
        ast, idx, off = make_desc(rng.getrandbits(48), cls, le, mach, rng.choice([EB.ET_EXEC, EB.ET_DYN, EB.ET_REL]),
                                  [{k: v for k, v in sc.items() if k != 'sec'} for sc in secs], last=last)
        qs = []
        for k, a in zip(at, attrs):
            if a is main and mode != 'plain':
                q = {'t': mode, 'arch': arch, 'i': idx[k], 'sec': a['sec']}
                if cut is not None:
                    q['cut'] = cut
                qs.append(q)
                continue
            qs.append({'t': 'sec', 'arch': arch, 'i': idx[k], 'sec': a['sec']})
            lastname = max(idx[k2] for k2, a2 in zip(at, attrs) if a2['name'] == a['name'])
            if lastname == idx[k]:
                qs.append({'t': 'name', 'arch': arch, 'i': idx[k], 'name': hx(a['name']), 'sec': a['sec']})
        r = rng.random()
        nsec = len(ast['sections'])
        if r < 0.3:
            qs.append({'t': 'any', 'i': rng.choice([0, ast['shstrndx'], nsec - 1, nsec, nsec + 3])})
        elif r < 0.45:
            qs.append({'t': 'any', 'name': hx(rng.choice([b'.nosuch', b'.shstrtab', b'.text', b'']))})
        reqs.append({'p': 'C20', 'k': 'file_attr', 'ast': ast, 'tail': 0 if last is not None else rng.choice([0, 0, 7]), 'q': qs})
        metas.append({'arch': arch, 'mach': mach, 'le': le, 'cls': cls, 'nattr': len(attrs), 'flags': flags, 'mode': mode,
                      'dup': len(attrs) == 2 and attrs[0]['name'] == attrs[1]['name']})
    replies = ask_files(ctx, reqs)
    for rq, r, m in zip(reqs, replies, metas):
        if 'fatal' in r:
            raise RuntimeError('driver: %s' % r['fatal'])
        if 'bytes' not in r:
            ctx.out.count('file_attr:not-encodable')
            continue
        data = bytes.fromhex(r['bytes'])
        ctx.out.case({'m': m, 'n': len(data), 'sha': hx(data[-40:]), 'q': len(rq['q'])})
        ctx.out.count('file_attr:%s/%s:%s:%d:%s' % (m['arch'], m['mach'], 'le' if m['le'] else 'be', m['cls'], 'wfZ' if r['wf'] else 'not-wf'))
        ctx.out.count('file_attr:sections=%d%s%s:%s' % (m['nattr'], '/dup-name' if m['dup'] else '', '/compressed' if m['flags'] else '', m['mode']))
        for qi, (q, a) in enumerate(zip(rq['q'], r['q'])):
            impl = impl_file_attr(data, q)
            dom = bool(r['wf'] and a['dom'])
            ctx.out.count('file_attr:%s:%s' % (q['t'], 'theorem-domain' if dom else 'model-only'))
            if q['t'] == 'any':
                ctx.out.count('file_attr:any:' + ('ok' if 'ok' in impl else impl['err']))
            full = {'req': rq, 'qi': qi, 'file': r['bytes']}
            want = a['expect_res'] if 'expect_res' in a else {'ok': a.get('expect')}
            if dom and impl != want:
                ctx.out.violation('property', 'file_attr', full, view=q['t'], expect=want, got=impl, model=a['model'])
            elif impl != a['model']:
                ctx.out.violation('correspondence', 'file_attr', full, view=q['t'], got=impl, model=a['model'])


# ----------------------------------------------------------------------------- file_ehabi
def impl_file_ehabi(data, i, ns, k):
    """EHABIInfo(get_section(i), little_endian) and get_ehabi_infos()[k]: num_entry, get_entry(n) (+ mnemonics)"""
    from elftools.elf.elffile import ELFFile
    from elftools.ehabi.ehabiinfo import EHABIInfo
    out = {}
    ef = ELFFile(io.BytesIO(data))

    def entries(info):
        res = []
        for n in ns:
            def one():
                e = info.get_entry(n)
                return {'entry': c_entry(e), 'mn': c_mn(e.mnmemonic_array())}
            res.append({'full': run_obs(one), 'entry': run_obs(lambda: c_entry(info.get_entry(n)))})
        return res
    direct = run_obs(lambda: EHABIInfo(ef.get_section(i), ef.little_endian))
    if 'ok' in direct:
        info = direct['ok']
        out['num'] = run_obs(info.num_entry)
        out['direct'] = entries(info)
    else:
        out['num'] = direct
        out['direct'] = [{'full': direct, 'entry': direct} for _ in ns]

    def infos_summary():
        infos = ef.get_ehabi_infos()
        return None if infos is None else [[hx(x.section_name().encode('utf-8')), x.section_offset(), x.num_entry()] for x in infos]
    out['infos'] = run_obs(infos_summary)
    if k is not None:
        got = run_obs(lambda: ef.get_ehabi_infos()[k])
        out['via_infos'] = entries(got['ok']) if 'ok' in got else [{'full': got, 'entry': got} for _ in ns]

    def oob():
        infos = ef.get_ehabi_infos()
        e = infos[len(infos) if infos is not None else 0].get_entry(0)
        return {'entry': c_entry(e), 'mn': c_mn(e.mnmemonic_array())}
    out['oob'] = run_obs(oob)
    return out


def ehabi_secs(c, exidx, extab):
    secs = [dict(s) for s in c['fill']]
    ex = dict(name=b'.ARM.exidx', type=SHT_EXIDX, body=exidx, flags=0x82, align=4)
    xt = dict(name=b'.ARM.extab', type=1, body=c['xprebytes'] + extab + c['xpostbytes'], flags=2, align=4)
    order = [ex, xt] if c['exfirst'] else [xt, ex]
    if c['second'] is not None:
        order.insert(c['secondpos'], dict(name=b'.ARM.exidx.text.f', type=SHT_EXIDX, body=c['second'], flags=0x82, align=4))
    at = min(c['at'], len(secs))
    secs[at:at] = order
    return secs, next(i for i, sc in enumerate(secs) if sc is ex), next(i for i, sc in enumerate(secs) if sc is xt)


def run_file_ehabi(ctx):
    rng = ctx.rng('file_ehabi')
    n = ctx.budget(180, 7000)
    cases = []
    for _ in range(n):
        le = rng.random() < 0.6
        es = [g_entry(rng) for _ in range(rng.choice([1, 2, 3, 4, 6]))]
        second = None
        if rng.random() < 0.35:
            second = b''.join(struct.pack('<II' if le else '>II', g_disp(rng) & 0x7fffffff, 1) for _ in range(rng.choice([0, 1, 2])))
        c = {'le': le, 'cls': rng.choice([32, 32, 32, 64]), 'mach': 'arm' if rng.random() < 0.92 else 'x86',
             'e_type': rng.choice([EB.ET_EXEC, EB.ET_DYN, EB.ET_DYN, EB.ET_DYN, EB.ET_REL]), 'es': es,
             'xprebytes': rnd_bytes(rng, rng.choice([0, 0, 4, 8, 3])), 'xpostbytes': rnd_bytes(rng, rng.choice([0, 0, 4, 5])),
             'fill': fillers(rng), 'exfirst': rng.random() < 0.5, 'second': second, 'secondpos': rng.randrange(3),
             'at': rng.randrange(3), 'seed': rng.getrandbits(48), 'tail': rng.choice([0, 0, 7])}
        nwords = sum(entry_words(e) for e in es)
        secs, ei, xi = ehabi_secs(c, bytes(8 * len(es)), bytes(4 * nwords))
        _, idx, off = make_desc(c['seed'], c['cls'], le, c['mach'], c['e_type'], secs)
        c.update(exoff=off[ei], taboff=off[xi] + len(c['xprebytes']), i=idx[ei], x=idx[xi])
        cases.append(c)
    encs = ask(ctx, [{'p': 'C20', 'k': 'ehabi_enc', 'le': c['le'], 'entries': c['es'], 'exidx_off': c['exoff'], 'tab0': c['taboff']}
                     for c in cases])
    reqs = []
    for c, r in zip(cases, encs):
        if 'fatal' in r:
            raise RuntimeError('driver: %s' % r['fatal'])
        secs, ei, xi = ehabi_secs(c, bytes.fromhex(r['exidx']), bytes.fromhex(r['extab']))
        ast, idx, off = make_desc(c['seed'], c['cls'], c['le'], c['mach'], c['e_type'], secs)
        assert (off[ei], off[xi] + len(c['xprebytes']), idx[ei], idx[xi]) == (c['exoff'], c['taboff'], c['i'], c['x'])
        reqs.append({'p': 'C20', 'k': 'file_ehabi', 'ast': ast, 'tail': c['tail'], 'i': c['i'], 'x': c['x'],
                     'xpre': len(c['xprebytes']), 'entries': c['es'], 'ns': list(range(len(c['es']) + 1))})
    replies = ask_files(ctx, reqs)
    for c, rq, r in zip(cases, reqs, replies):
        if 'fatal' in r:
            raise RuntimeError('driver: %s' % r['fatal'])
        if 'bytes' not in r:
            ctx.out.count('file_ehabi:not-encodable')
            continue
        judge_file_ehabi(ctx, c, rq, r)


def judge_file_ehabi(ctx, c, rq, r):
    data = bytes.fromhex(r['bytes'])
    es, ns = rq['entries'], rq['ns']
    impl = impl_file_ehabi(data, rq['i'], ns, r['k'])
    dom = bool(r['wf'] and r['dom'])
    ctx.out.count('file_ehabi:%s:%s:%d:%s:%s' % (c['mach'], 'le' if c['le'] else 'be', c['cls'], 'wfZ' if r['wf'] else 'not-wf',
                                                 'theorem-domain' if dom else 'model-only'))
    ctx.out.count('file_ehabi:extab-%s:xpre=%d' % ('after' if c['taboff'] > c['exoff'] else 'before', len(c['xprebytes'])))
    ctx.out.count('file_ehabi:infos=%d:%s' % (r['nidx'], 'ET_REL' if c['e_type'] == EB.ET_REL else 'exec/dyn'))
    full = {'req': rq, 'file': r['bytes'], 'k': r['k']}
    bad = []
    if dom and impl['num'] != {'ok': len(es)}:
        bad.append(('property', 'num_entry', {'ok': len(es)}, impl['num'], r['num']))
    if impl['num'] != r['num']:
        bad.append(('correspondence', 'num_entry', None, impl['num'], r['num']))
    routes = [('direct', impl['direct'], r['model'])]
    if r['k'] is not None:
        routes.append(('via_infos', impl['via_infos'], r['model_infos']))
    for route, got, model in routes:
        indom = dom and (route == 'direct' or r['notrel'])
        for i, n_ in enumerate(ns):
            ctx.out.case({'le': c['le'], 'e': es[i] if i < len(es) else None, 'route': route, 'place': c['exoff'] + 8 * i, 'tab': c['taboff'],
                          'cls': c['cls']})
            if i < len(es):
                ex = r['expect'][i]
                ctx.out.count('file_ehabi:%s:%s' % (es[i]['k'], 'theorem-domain' if indom else 'model-only'))
                if indom:
                    if got[i]['entry'] != {'ok': ex['entry']}:
                        bad.append(('property', '%s get_entry(%d)' % (route, n_), ex['entry'], got[i]['entry'], model[i]))
                        continue
                    if ex['codeok'] and got[i]['full'] != {'ok': {'entry': ex['entry'], 'mn': ex['mn']}}:
                        bad.append(('property', '%s get_entry(%d) + mnemonics' % (route, n_), ex['mn'], got[i]['full'], model[i]))
                        continue
            elif indom and got[i]['entry'] != {'err': 'indexError'}:
                bad.append(('property', '%s get_entry(len)' % route, {'err': 'indexError'}, got[i]['entry'], model[i]))
                continue
            if got[i]['full'] != model[i]:
                bad.append(('correspondence', '%s get_entry(%d)' % (route, n_), None, got[i]['full'], model[i]))
    if dom and r['notrel'] and r['k'] is not None:
        want = [hx(b'.ARM.exidx'), c['exoff'], len(es)]
        if 'ok' not in impl['infos'] or impl['infos']['ok'] is None or impl['infos']['ok'][r['k']] != want:
            bad.append(('property', 'get_ehabi_infos', want, impl['infos'], r['infos']))
    if impl['infos'] != r['infos']:
        bad.append(('correspondence', 'get_ehabi_infos', None, impl['infos'], r['infos']))
    if impl['oob'] != r['model_infos_oob']:
        bad.append(('correspondence', 'get_ehabi_infos()[len]', None, impl['oob'], r['model_infos_oob']))
    for kind, what, expect, got, model in bad[:1]:
        ctx.out.violation(kind, 'file_ehabi', full, what=what, expect=expect, got=got, model=model)
    return bad


# ----------------------------------------------------------------------------- hist
def c_item(x):
    from elftools.elf.sections import Attribute, AttributesSubsection, AttributesSubsubsection
    if isinstance(x, AttributesSubsection):
        return {'subsec': [x.offset, x.header['length'], cv(x.header['vendor_name']), x.subsubsec_start]}
    if isinstance(x, AttributesSubsubsection):
        return {'subsub': [x.offset, c_attr(x.header), x.attr_start]}
    if isinstance(x, Attribute):
        return {'attr': c_attr(x)}
    raise TypeError(type(x))


def children_iter(obj):
    from elftools.elf.sections import AttributesSection, AttributesSubsection
    if isinstance(obj, AttributesSection):
        return obj.iter_subsections()
    if isinstance(obj, AttributesSubsection):
        return obj.iter_subsubsections()
    return obj.iter_attributes()


def expected_at(tree, path):
    """the Spec's children of the object at `path` ((), (i,), (i, j)) of a section's tree, in wire form
    (offsets are not part of the Spec observation: None)"""
    if len(path) == 0:
        return [('subsec', dict(ss['r'])['length'], dict(ss['r'])['vendor_name']) for ss in tree]
    subs = dict(tree[path[0]]['r'])['subsubsections']
    if len(path) == 1:
        return [('subsub', {'r': [[k, v] for k, v in x['r'] if k != 'attributes']}) for x in subs]
    return [('attr', a) for a in dict(subs[path[1]]['r'])['attributes']]


def item_matches(want, got):
    if want[0] == 'subsec':
        return 'subsec' in got and got['subsec'][1] == want[1] and got['subsec'][2] == want[2]
    if want[0] == 'subsub':
        return 'subsub' in got and got['subsub'][1] == want[1]
    return got == {'attr': want[1]}


def run_hist_case(c, steps_model=None):
    """Runs the history `c['ops']` (or, when it is None, draws one while running) on the real library.
    Returns (ops, answers, positions, property problems)."""
    from elftools.elf.elffile import ELFFile
    arch = c['arch']
    mach = EB.EM_ARM if arch == 'arm' else EB.EM_RISCV
    img = EB.ElfImage(cls=c['cls'], le=c['le'], e_type=EB.ET_EXEC, e_machine=mach)
    t = img.add_section('.text', EB.SHT_PROGBITS, data=b'\x00' * c['pad'], flags=6, addr=0x1000)
    ia = img.add_section(SECNAME[arch], EB.SHT_ARM_ATTRIBUTES, data=c['a'])
    img.add_section('.data', EB.SHT_PROGBITS, data=b'\x01' * 9, flags=3)
    ib = img.add_section('.attrs2', EB.SHT_ARM_ATTRIBUTES, data=c['b'])
    ic = img.add_section('.comment', EB.SHT_PROGBITS, data=b'tail\x00')
    data = img.build()
    secinfo = {'A': (ia, img.offsets[ia], len(c['a']), c.get('ta')), 'B': (ib, img.offsets[ib], len(c['b']), c.get('tb'))}
    f = ELFFile(io.BytesIO(data))
    stream = f.stream
    cap = len(data) + 2
    rng = c.get('rng')
    fixed = c.get('ops')
    ops, answers, poss, problems = [], [], [], []
    handed = []          # per op: the objects the answer handed out [(object, tree, path)]
    gens = []            # [generator, tree, path of the parent, items yielded so far, live]
    pos0 = stream.tell()
    nsteps = len(fixed) if fixed is not None else c['len']
    for step in range(nsteps):
        if fixed is not None:
            op = fixed[step]
        else:
            objs = [(j, k) for j, h in enumerate(handed) for k in range(len(h))]
            live = [g for g in range(len(gens)) if gens[g][4]]
            r = rng.random()
            if not objs or r < 0.08:
                which = rng.choice('AB')
                op = {'o': 'open', 'arch': arch, 'off': secinfo[which][1], 'size': secinfo[which][2], 'which': which}
            elif r < 0.22:
                op = {'o': 'iter', 'ref': list(rng.choice(objs))}
            elif r < 0.78 and gens:
                # mostly live generators; sometimes one that is exhausted / raised
                op = {'o': 'next', 'g': rng.choice(live) if live and rng.random() < 0.93 else rng.randrange(len(gens))}
            elif r < 0.84:
                op = {'o': 'list', 'ref': list(rng.choice(objs))}
            elif r < 0.92:
                op = {'o': 'seek', 'n': rng.choice([0, 1, secinfo['A'][1], secinfo['B'][1] + 3, len(data), len(data) + 9, rng.randrange(len(data))])}
            else:
                op = {'o': 'poke', 'sec': rng.choice([t, ic, len(img.sections)])}
        out_objs = []
        if op['o'] == 'open':
            which = op['which']
            res = run_obs(lambda: f.get_section(secinfo[which][0]))
            if 'ok' in res:
                s = res['ok']
                out_objs.append((s, secinfo[which][3], ()))
                ans = {'sec': [s['sh_offset'], s.data_size, s.subsec_start]}
            else:
                ans = res
        elif op['o'] == 'iter':
            obj, tree, path = handed[op['ref'][0]][op['ref'][1]]
            gens.append([children_iter(obj), tree, path, 0, True])
            ans = {'gen': len(gens) - 1}
        elif op['o'] == 'next':
            g = gens[op['g']]
            try:
                x = next(g[0])
                ans = c_item(x)
                want = expected_at(g[1], g[2]) if g[1] is not None else None
                if want is not None and (g[3] >= len(want) or not item_matches(want[g[3]], ans)):
                    problems.append((step, want[g[3]] if g[3] < len(want) else 'stop', ans))
                if 'attr' not in ans:
                    out_objs.append((x, g[1], g[2] + (g[3],)))
                g[3] += 1
            except StopIteration:
                ans = 'stop'
                if g[4] and g[1] is not None and g[3] != len(expected_at(g[1], g[2])):
                    want = expected_at(g[1], g[2])
                    problems.append((step, want[g[3]] if g[3] < len(want) else 'stopped earlier', ans))
                g[4] = False
            except RecursionError:
                ans, g[4] = {'err': 'outOfFuel'}, False
            except Exception as e:      # noqa: BLE001
                ans, g[4] = {'err': classify_exception(e)}, False
                if g[1] is not None:
                    problems.append((step, 'no exception', ans))
        elif op['o'] == 'list':
            obj, tree, path = handed[op['ref'][0]][op['ref'][1]]
            res = run_obs(lambda: [x for x in capped(children_iter(obj), cap)])
            if 'ok' in res:
                ans = {'items': [c_item(x) for x in res['ok']]}
                for k, x in enumerate(res['ok']):
                    if 'attr' not in ans['items'][k]:
                        out_objs.append((x, tree, path + (k,)))
                if tree is not None:
                    want = expected_at(tree, path)
                    if len(want) != len(ans['items']) or not all(item_matches(w, a) for w, a in zip(want, ans['items'])):
                        problems.append((step, want, ans))
            else:
                ans = res
                if tree is not None:
                    problems.append((step, 'no exception', ans))
        elif op['o'] == 'seek':
            stream.seek(op['n'])
            ans = None
        else:
            # any other reader of the file's stream: on the wire it is the seek to wherever it left the stream
            try:
                f.get_section(op['sec']).data()
            except Exception:           # noqa: BLE001
                pass
            op = {'o': 'seek', 'n': stream.tell(), 'poke': True}
            ans = None
        ops.append(op)
        answers.append(ans)
        poss.append(stream.tell())
        handed.append(out_objs)
    return data, pos0, ops, answers, poss, problems


def hist_req(c, data, pos0, ops):
    return {'p': 'C20', 'k': 'hist', 'arch': c['arch'], 'le': c['le'], 'cls': c['cls'], 'hex': hx(data), 'pos': pos0,
            'ops': [{k: v for k, v in op.items() if k not in ('which', 'poke')} for op in ops]}


def hist_compare(ops, answers, poss, steps):
    """first step at which the library and the machine differ: (step, what, got, model)"""
    for j, (op, a, p, m) in enumerate(zip(ops, answers, poss, steps)):
        if m.get('badref'):
            return (j, 'the model never handed out the object this call refers to', a, m)
        if a != m['a']:
            return (j, 'answer', a, m['a'])
        if m['known'] and p != m['pos']:
            return (j, 'stream position', p, m['pos'])
    return None


def bare_seek_beyond(d, a, b):
    """A boundary of the history model, stated as an ASSUMPTION: a mutated section whose length / size field decodes to
    >= 2^63 makes the sub-subsection and attribute generators `stream.seek(offset)` (a BARE seek) beyond PY_SSIZE_T_MAX,
    which is CPython's OverflowError, where the model reports the short read that would follow (ELFParseError).  Such a
    difference is set aside — only this pair of outcomes, and only when the input really carries a ULEB128 value of
    ten bytes (nine continuation bytes in a row); everything else about the case is compared as usual."""
    got, model = d[2], d[3]
    if not (isinstance(got, dict) and isinstance(model, dict) and got.get('err') == 'overflowError' and model.get('err') == 'elfParseError'):
        return False
    for data in (a, b):
        run = 0
        for x in data:
            run = run + 1 if x & 0x80 else 0
            if run >= 9:
                return True
    return False


def run_hist(ctx):
    rng = ctx.rng('hist')
    n = ctx.budget(150, 6000)
    pool = ctx.c20_wf
    groups = {}
    for x in pool:
        groups.setdefault((x[0], x[1]), []).append(x)
    cases, reqs, runs = [], [], []
    for _ in range(n):
        arch, le, _cls, _sec, a, ta = rng.choice(pool)
        _, _, _, _, b, tb = rng.choice(groups[(arch, le)])
        if rng.random() < 0.12:
            a, ta = mutate(rng, a), None
        if rng.random() < 0.3:
            b, tb = mutate(rng, b), None
        c = {'arch': arch, 'le': le, 'cls': rng.choice([32, 64]) if arch == 'riscv' else rng.choice([32, 32, 64]),
             'pad': rng.choice([0, 1, 5, 64]), 'a': a, 'b': b, 'ta': ta, 'tb': tb, 'len': rng.choice([25, 40, 70]),
             'rng': _random.Random(rng.getrandbits(48))}
        data, pos0, ops, answers, poss, problems = run_hist_case(c)
        cases.append(c)
        runs.append((data, pos0, ops, answers, poss, problems))
        reqs.append(hist_req(c, data, pos0, ops))
    replies = ask_files(ctx, reqs)
    for c, (data, pos0, ops, answers, poss, problems), rq, r in zip(cases, runs, reqs, replies):
        if 'fatal' in r:
            raise RuntimeError('driver: %s' % r['fatal'])
        case = {'arch': c['arch'], 'le': c['le'], 'cls': c['cls'], 'pad': c['pad'], 'a': hx(c['a']), 'b': hx(c['b']),
                'ta': c['ta'], 'tb': c['tb'], 'ops': ops}
        ctx.out.case({k: v for k, v in case.items() if k not in ('ta', 'tb')})
        ngen = sum(1 for o in ops if o['o'] == 'iter')
        # interleaving: a `next` on a generator other than the one advanced by the previous `next`
        nexts = [o['g'] for o in ops if o['o'] == 'next']
        switches = sum(1 for x, y in zip(nexts, nexts[1:]) if x != y)
        ctx.out.count('hist:len=%d:generators=%s:switches=%s' % (c['len'], min(ngen, 6) if ngen < 6 else '6+',
                                                                 '0' if not switches else '1-5' if switches < 6 else '6+'))
        ctx.out.count('hist:contents=%s/%s' % ('wf' if c['ta'] is not None else 'mutated', 'wf' if c['tb'] is not None else 'mutated'))
        for o, a in zip(ops, answers):
            kind = 'poke' if o.get('poke') else o['o']
            res = 'stop' if a == 'stop' else 'err' if isinstance(a, dict) and 'err' in a else 'ok'
            ctx.out.count('hist:op:%s:%s' % (kind, res))
        if problems:
            step, want, got = problems[0]
            ctx.out.violation('property', 'hist', case, step=step, expect=want, got=got, model=r['steps'][step])
            continue
        d = hist_compare(ops, answers, poss, r['steps'])
        if d is not None and bare_seek_beyond(d, c['a'], c['b']):
            ctx.out.count('hist:set-aside:bare-seek-beyond-2^63')
            continue
        if d is not None:
            ctx.out.violation('correspondence', 'hist', case, step=d[0], what=d[1], got=d[2], model=d[3])


def run(ctx):
    seeds = run_attr(ctx)
    run_attr_raw(ctx, seeds)
    run_exidx(ctx)
    run_exidx_raw(ctx)
    run_bc(ctx)
    run_prel31(ctx)
    run_file_attr(ctx)
    run_file_ehabi(ctx)
    run_hist(ctx)


# ----------------------------------------------------------------------------- replay
def replay(ctx, payload):
    v = payload['violation']
    case, stream = v['case'], v['stream']
    res = {'stream': stream, 'case': case}
    if stream in ('attr', 'attr_raw'):
        arch, le, cls = case['arch'], case['le'], case['cls']
        expect = None
        if stream == 'attr':
            r = ctx.driver.ask({'p': 'C20', 'k': 'attr_enc', 'arch': arch, 'le': le, 'sec': case['sec']})
            content = bytes.fromhex(r['bytes'])
            expect = r['expect'] if r['wf'] else None
            if case.get('pattern') == 'unknown-tag':
                image, off, size = wrap_attr(arch, le, cls, content)
                impl = run_obs(lambda: observe_nested(image, arch, len(image) + 2))
                res.update(impl=impl, expect={'err': 'elfParseError'}, fails=not (r['bad'] and impl == {'err': 'elfParseError'}))
                return res
        else:
            content = bytes.fromhex(case['content'])
        image, off, size = wrap_attr(arch, le, cls, content)
        m = ctx.driver.ask({'p': 'C20', 'k': 'attr_raw', 'arch': arch, 'le': le, 'cls': cls, 'hex': hx(image), 'off': off, 'size': size})
        cap = len(image) + 2
        pat = case.get('pattern', 'nested')
        if pat == 'levelwise':
            impl = run_obs(lambda: observe_levelwise(image, arch, cap))
        elif pat == 'counts':
            impl = run_obs(lambda: observe_counts(image, arch))
            expect = counts_of(expect) if expect is not None else None
        else:
            impl = run_obs(lambda: observe_nested(image, arch, cap))
        model = m['levelwise'] if pat == 'levelwise' and v.get('kind') == 'correspondence' else m['model']
        fails = (impl != {'ok': expect}) if expect is not None and v.get('kind') != 'correspondence' else (impl != model)
        if fails and expect is None and bare_seek_beyond((None, None, impl, model), image, b''):
            fails = False           # the counted boundary of the correspondence (ASSUMPTIONS)
        res.update(impl=impl, expect=expect, model=model, fails=fails)
    elif stream in ('exidx', 'exidx_raw'):
        image = bytes.fromhex(case['image'])
        i = case['i']
        m = ctx.driver.ask({'p': 'C20', 'k': 'ehabi_raw', 'le': case['le'], 'hex': case['image'], 'off': case['off'], 'size': case['size'], 'ns': [i]})
        num, impl = observe_entries(image, [i])
        expect = v.get('expect')
        if expect is not None and stream == 'exidx' and 'what' not in case:
            fails = impl[0] != {'ok': expect}
        elif expect is not None:
            fails = not ('ok' in impl[0] and impl[0]['ok']['entry'] == m['std'][0])
        else:
            fails = impl[0] != m['model'][0]
        res.update(impl=impl[0], expect=expect, model=m['model'][0], std=m['std'][0], fails=fails)
    elif stream == 'file_attr':
        rq = case['req']
        r = ctx.driver.ask(rq)
        q, a = rq['q'][case['qi']], r['q'][case['qi']]
        data = bytes.fromhex(r['bytes'])
        impl = impl_file_attr(data, q)
        dom = bool(r['wf'] and a['dom'])
        want = a['expect_res'] if 'expect_res' in a else {'ok': a.get('expect')}
        fails = r['bytes'] != case['file'] or (impl != want if dom else impl != a['model'])
        res.update(impl=impl, expect=want if dom else None, model=a['model'], fails=fails)
    elif stream == 'file_ehabi':
        rq = case['req']
        r = ctx.driver.ask(rq)

        class _Null:
            def __getattr__(self, k):
                return lambda *a, **kw: None

        class _Ctx:
            out = _Null()
        hoff = lambda k: dict(rq['ast']['sections'][k]['hdr']['r'])['sh_offset']
        c = {'le': rq['ast']['le'], 'cls': rq['ast']['cls'], 'mach': '?', 'e_type': 0, 'xprebytes': bytes(rq['xpre']),
             'exoff': hoff(rq['i']), 'taboff': hoff(rq['x']) + rq['xpre']}
        bad = judge_file_ehabi(_Ctx(), c, rq, r)
        res.update(problems=[(k, w) for k, w, _, _, _ in bad], impl=bad[0][3] if bad else None, expect=bad[0][2] if bad else None,
                   model=bad[0][4] if bad else None, fails=bool(bad) or r['bytes'] != case['file'])
    elif stream == 'hist':
        c = dict(case, a=bytes.fromhex(case['a']), b=bytes.fromhex(case['b']))
        data, pos0, ops, answers, poss, problems = run_hist_case(c)
        r = ctx.driver.ask(hist_req(c, data, pos0, ops))
        d = hist_compare(ops, answers, poss, r['steps'])
        if d is not None and bare_seek_beyond(d, c['a'], c['b']):
            d = None
        res.update(problems=problems[:1], diff=d, impl=answers[d[0]] if d else None, fails=bool(problems) or d is not None)
    elif stream == 'bc':
        a = bytes.fromhex(case['hex'])
        r = ctx.driver.ask({'p': 'C20', 'k': 'bc', 'hex': case['hex']})
        impl = run_obs(lambda: impl_bc(a))
        fails = (impl != {'ok': r['std']}) if r['std'] is not None else (impl != r['model'])
        res.update(impl=impl, expect=r['std'], model=r['model'], fails=fails)
    else:
        from elftools.ehabi.ehabiinfo import arm_expand_prel31
        r = ctx.driver.ask({'p': 'C20', 'k': 'prel31', 'w': case['w'], 'place': case['place']})
        got = arm_expand_prel31(case['w'], case['place'])
        res.update(impl=got, expect=r['std'], model=r['model'], fails=(got != r['std'] or got != r['model']))
    return res


FINDINGS = {}
