"""C17 — symbolic names and numeric codes follow the ELF and DWARF registries.  Streams:

  registry : the Lean registry the theorems speak about (driver dump of Spec/Registry.lean) == registry/*.tsv
             (names, Nat keys, accepted values); literal Nat keys in Lean sources == keys of the names beside them
  regen    : the tables the theorems walk (driver dump of Gen.tableIndex / Gen.tables) == the live Python tables,
             enumerated here independently of tools/gen
  direct   : THE PROPERTY ON THE REAL CODE — every (name, value) of every live table against the TSVs, and for every
             ENUM_* dictionary the reverse dictionary construct's Enum builds (last name wins)
  parse    : synthesised ELF headers / section, program, symbol, dynamic, compression headers, DWARF abbreviation
             declarations and DIEs, location expressions and CFA opcodes carrying every code of the table, of the
             registry family and boundary/random codes, parsed by the real library (ELFFile, DWARFInfo,
             DWARFExprParser, instruction_name, describe_reloc_type): the reported name vs the registry (property)
             and vs the model `decodeIn` on the regenerated table (correspondence)
"""
import io, os, inspect, struct, collections
from common import run_impl, hx, BOUNDARY, VERIF
import elfbuild

RULE = ('direct: exhaustive over all live (table, name, value) pairs and all reverse dictionaries; parse: for each decoded '
        'field (e_type, e_machine, EI_OSABI, sh_type, p_type, st_info bind/type, st_other visibility, st_shndx, d_tag, '
        'ch_type, reloc type per arch, DW_TAG, DW_AT, DW_FORM, DW_CHILDREN, DW_OP, DW_CFA) under every machine / OS ABI '
        'configuration that changes the table: every code of the live table, every registry value of the same name family, '
        'boundary pool and uniform random codes of the field width; both classes and byte orders. Non-trivial = distinct '
        '(stream, field, configuration, code) or (table, name, value).')
ASSUMPTIONS = ['registry/*.tsv are a faithful extraction of glibc elf.h and LLVM 14 ELF.h/ELFRelocs/DynamicTags.def/Dwarf.def '
               '(extract_registry.py: values printed by the C/C++ compiler of the image; run once, vendored)',
               'construct Enum decoding is dict((v,k) for k,v in mapping.items()) (modelled by decodeIn, checked by the parse stream)',
               'which names are range markers (bounds of reserved ranges, masks, counts) is RANGE_MARKER: a naming convention '
               '(gABI LOOS/HIOS/LOPROC/HIPROC/LORESERVE..., DWARF lo_user/hi_user, *NUM); the same classification is '
               'Spec.isRangeMarker in Lean and tools/gen/extra_c17.py, tied three ways by the regen and selfcheck streams']
FINDINGS = {}

TSVS = ['elf_glibc.tsv', 'elf_llvm.tsv', 'dwarf_llvm.tsv', 'extra_specs.tsv']


def name_key(s):
    return int.from_bytes(s.encode('utf-8'), 'big')


def load_tsv():
    reg = collections.OrderedDict()
    src = collections.defaultdict(list)
    for f in TSVS:
        for line in open(os.path.join(VERIF, 'registry', f)):
            if line.startswith('#') or not line.strip():
                continue
            n, v, s = line.rstrip('\n').split('\t')
            reg.setdefault(n, [])
            if int(v) not in reg[n]:
                reg[n].append(int(v))
            src[n].append('%s=%s' % (s.split(':')[0], v))
    return reg, src


def live_tables():
    """[(id, [(name, value)], is_enum)] straight from the imported library modules (dict order)."""
    from elftools.elf import enums as EE, constants as EC
    from elftools.dwarf import enums as DE, constants as DC, dwarf_expr as DX, callframe as CF
    out = []
    for mod in (EE, DE):
        for k, v in vars(mod).items():
            if k.startswith('ENUM') and isinstance(v, dict):
                if v and all(isinstance(x, dict) for x in v.values()):
                    for kk, vv in v.items():
                        out.append(('%s.%s' % (k, kk), vv, True))
                else:
                    out.append((k, v, True))
    res = []
    for tid, d, e in out:
        items = [(a, b) for a, b in d.items() if a != '_default_']
        if all(isinstance(a, str) and isinstance(b, int) and not isinstance(b, bool) for a, b in items):
            res.append((tid, items, True))
    for k, v in vars(EC).items():
        if inspect.isclass(v):
            items = [(a, b) for a, b in vars(v).items() if not a.startswith('_') and isinstance(b, int) and not isinstance(b, bool)]
            if items:
                res.append(('EC.' + k, items, False))
    res.append(('DC', [(a, b) for a, b in vars(DC).items() if a.startswith('DW_') and isinstance(b, int) and not isinstance(b, bool)], False))
    res.append(('DW_FORM_raw2name', [(v, k) for k, v in DE.DW_FORM_raw2name.items() if v != '_default_'], False))
    res.append(('DW_OP_name2opcode', list(DX.DW_OP_name2opcode.items()), False))
    res.append(('DW_OP_opcode2name', [(v, k) for k, v in DX.DW_OP_opcode2name.items()], False))
    res.append(('CFA_OPCODE_NAME_MAP', [(v, k) for k, v in CF._OPCODE_NAME_MAP.items()], False))
    return res


# ----------------------------------------------------------------------------- registry / regeneration ties
def run_ties(ctx):
    reg, _ = load_tsv()
    r = ctx.driver.ask({'p': 'C17', 'k': 'registry'})
    if 'fatal' in r:
        raise RuntimeError(r['fatal'])
    lean = {n: (k, vs) for n, k, vs in r['entries']}
    case = {'what': 'Spec/Registry.lean == registry/*.tsv', 'names': len(reg)}
    ctx.out.case(case)
    bad = []
    if not r['ordered'] or r['size'] != len(reg) or len(lean) != len(r['entries']):
        bad.append('shape')
    for n, vs in reg.items():
        if n not in lean or lean[n][0] != name_key(n) or lean[n][1] != vs:
            bad.append(n)
    bad += [n for n in lean if n not in reg]
    if bad:
        ctx.out.violation('correspondence', 'registry', case, got=bad[:10], model='registry/*.tsv')
    sc = ctx.driver.ask({'p': 'C17', 'k': 'selfcheck'})
    case = {'what': 'literal Nat keys are the keys of their names'}
    ctx.out.case(case)
    if not all(sc.get(k) for k in ('aliases', 'index_keys', 'registry_keys', 'key_tables', 'markers')):
        ctx.out.violation('correspondence', 'registry', case, got=sc, model='all true')
    # regenerated tables == live tables
    t = ctx.driver.ask({'p': 'C17', 'k': 'tables'})
    gen = {x['id']: [tuple(i) for i in x['items']] for x in t['tables']}
    idx = {x['id']: x for x in t['index']}
    live = live_tables()
    for tid, items, is_enum in live:
        case = {'what': 'regenerated table == live table', 'table': tid, 'n': len(items)}
        ctx.out.case(case)
        g = gen.get(tid)
        ix = idx.get(tid)
        if g != items or ix is None or ix['enum'] != is_enum or [tuple(i) for i in ix['keys']] != [(name_key(a), b) for a, b in items]:
            ctx.out.violation('correspondence', 'regen', case, got=items[:5], model=(g or [])[:5])
        # the marker flags the range-marker theorems walk are this module's RANGE_MARKER on the live names
        flags = [bool(RANGE_MARKER.search(a)) for a, b in items]
        if ix is not None and ix.get('markers') != flags:
            bad = [a for (a, b), f, m in zip(items, flags, ix.get('markers') or []) if f != m]
            ctx.out.violation('correspondence', 'regen', dict(case, what='regenerated marker flags == RANGE_MARKER on live names'),
                              got=bad[:5] or 'length', model=flags[:5])
    missing = [tid for tid in gen if tid not in {x[0] for x in live} and '+' not in tid and not tid.startswith('SYNTH_')]
    if missing or not t['index_complete']:
        ctx.out.violation('correspondence', 'regen', {'what': 'tables only the generator sees'}, got=missing, model=[])
    return gen


# ----------------------------------------------------------------------------- direct
import re as _re
# names that denote a RANGE of codes, a mask or a count — never the name of one code (gABI / DWARF "lo/hi" conventions)
RANGE_MARKER = _re.compile(r'(_LO(OS|PROC|USER|RESERVE|SUNW)?$|_HI(OS|PROC|USER|RESERVE|SUNW)?$|_LO_|_HI_|_lo_user$|_hi_user$|NUM$)')


def marker_shadow(items, v, reported):
    """the standard names a range marker hides: non-empty when `reported` is a range marker although the table also
    knows a real (non-marker) name for the same code"""
    if not RANGE_MARKER.search(reported):
        return []
    return [n for n, x in items if x == v and not RANGE_MARKER.search(n)]


def check_pair(reg, tid, name, value):
    """None when (name, value) is fine or not judged, else the registry's values."""
    vs = reg.get(name)
    if vs is None or value in vs:
        return None
    return vs


def run_direct(ctx, legacy):
    reg, src = load_tsv()
    for tid, items, is_enum in live_tables():
        fam = 'dwarf' if (tid.startswith('ENUM_DW') or tid.startswith('DW') or tid in ('DC', 'CFA_OPCODE_NAME_MAP')) else 'elf'
        for name, value in items:
            case = {'table': tid, 'name': name, 'value': value}
            judged = name in reg
            ctx.out.case(case, nontrivial=judged)
            ctx.out.count('direct:%s:%s' % (fam, 'judged' if judged else 'unmatched'))
            vs = check_pair(reg, tid, name, value)
            if vs is not None:
                ctx.out.violation('property', 'direct', case, expect={'registry_values': vs, 'sources': src[name]}, got=value)
        if not is_enum:
            continue
        # reverse dictionary exactly as construct's Enum builds it
        rev = dict((v, k) for k, v in items)
        for v, k2 in rev.items():
            std = [n for n, x in items if x == v and n in reg and v in reg[n]]
            known = [n for n, x in items if x == v and n in reg]
            case = {'table': tid, 'code': v, 'reported': k2}
            ctx.out.case(case, nontrivial=bool(known))
            ctx.out.count('direct:decode')
            if known and k2 not in std and [k2, v] not in legacy:
                ctx.out.violation('property', 'direct-decode', case, expect={'standard_names': std}, got=k2)
            # a code that has a real standard name must not be reported under a range marker sharing its value
            # (DT_FILTER vs DT_HIPROC = 0x7fffffff, SHT_* vs SHT_LOPROC ...): the marker is not "its standard name"
            hidden = marker_shadow(items, v, k2)
            if hidden:
                ctx.out.violation('property', 'direct-marker', case, expect={'standard_names': hidden}, got=k2)


# reverse maps the library decodes with (code -> name), each with the forward table it must mirror; the Lean theorems
# `…_consistent` state the same relation over the regenerated tables — this is the search for the concrete failing code
REVERSE_OF = [('DW_FORM_raw2name', 'ENUM_DW_FORM'), ('DW_OP_opcode2name', 'DW_OP_name2opcode'), ('CFA_OPCODE_NAME_MAP', 'DC')]


def run_reverse(ctx):
    reg, _ = load_tsv()
    tabs = {tid: items for tid, items, _ in live_tables()}
    for rid, fid in REVERSE_OF:
        rev, fwd = tabs.get(rid), tabs.get(fid)
        if rev is None or fwd is None:
            ctx.out.violation('correspondence', 'direct-reverse', {'reverse': rid, 'forward': fid}, got='table missing')
            continue
        if rid == 'CFA_OPCODE_NAME_MAP':
            # the forward table is the whole constants module: only its DW_CFA_* names are opcode names
            fwd = [(a, b) for a, b in fwd if a.startswith('DW_CFA_')]
        fset = set(fwd)
        by_code = {}
        for n, v in rev:
            by_code.setdefault(v, []).append(n)
        # (a) every reported pair is a pair of the forward table
        for n, v in rev:
            case = {'reverse': rid, 'forward': fid, 'code': v, 'reported': n}
            ctx.out.case(case)
            ctx.out.count('direct:reverse')
            if (n, v) not in fset:
                ctx.out.violation('property', 'direct-reverse', case, expect={'forward_names': [a for a, b in fwd if b == v]}, got=n)
        # (c) decode direction: a code that has a registry name in the forward table is reported under such a name, not
        #     under another constant that merely shares the value
        for n, v in rev:
            std = [a for a, b in fwd if b == v and a in reg and v in reg[a]]
            if std and n not in std:
                case = {'reverse': rid, 'forward': fid, 'code': v, 'reported': n}
                ctx.out.violation('property', 'direct-reverse', case, expect={'standard_names': std}, got=n)
        # (b) every code of the forward table is reported under some name (a code found in a file must be named)
        for n, v in fwd:
            if v not in by_code:
                case = {'reverse': rid, 'forward': fid, 'code': v, 'reported': None}
                ctx.out.case(case, nontrivial=n in reg)
                ctx.out.violation('property', 'direct-reverse', case, expect={'forward_names': [a for a, b in fwd if b == v]}, got=None)


# ----------------------------------------------------------------------------- parse
MACHINES = [('x64', 62), ('ARM', 40), ('AArch64', 183), ('MIPS', 8), ('RISC-V', 243), ('x86', 3), ('PPC64', 21)]


def mk_elf(cls, le, machine, osabi=0, e_type=2):
    from elftools.elf.elffile import ELFFile
    img = elfbuild.ElfImage(cls=cls, le=le, e_type=e_type, e_machine=machine, osabi=osabi)
    data = img.build()
    return ELFFile(io.BytesIO(data)), data


def enum_fields(con, path=()):
    """(path, adapter) for every Enum (MappingAdapter with an `encoding`) inside a construct."""
    out = []
    enc = getattr(con, 'encoding', None)
    if isinstance(enc, dict) and getattr(con, 'decoding', None) is not None:
        out.append((path + (con.name,), con))
        return out
    for sub in getattr(con, 'subcons', ()) or ():
        out += enum_fields(sub, path + ((con.name,) if con.name and getattr(con, 'nested', True) and False else ()))
    sc = getattr(con, 'subcon', None)
    if sc is not None:
        out += enum_fields(sc, path)
    return out


def table_id_of(gen, adapter):
    items = [(k, v) for k, v in adapter.encoding.items() if k != '_default_']
    for tid, its in gen.items():
        if its == items:
            return tid
    return None


def get_path(v, name):
    """find field `name` anywhere in a parsed Container tree (names are unique in the structs used)."""
    from elftools.construct.lib.container import Container
    if isinstance(v, (Container, dict)):
        if name in v:
            return v[name]
        for x in v.values():
            r = get_path(x, name)
            if r is not None:
                return r
    return None


def fam_prefixes(items):
    ps = set()
    for n, _ in items:
        parts = n.split('_')
        ps.add('_'.join(parts[:2]) + '_' if parts[0] in ('R', 'DW') and len(parts) > 2 else parts[0] + '_')
    return ps


def code_pool(rng, items, reg, bits, extra=40):
    codes = {v for _, v in items}
    ps = fam_prefixes(items)
    for n, vs in reg.items():
        if any(n.startswith(p) for p in ps):
            codes.update(vs)
    codes.update(b for b in BOUNDARY)
    codes.update(rng.randrange(0, 1 << bits) for _ in range(extra))
    return sorted(c for c in codes if 0 <= c < (1 << bits))


def judge(ctx, stream, case, tid, v, impl, rep):
    """rep: driver 'decode' reply for (tid, v); impl: {'ok': name-or-int} / {'err': ...}"""
    model = {'ok': rep['model']}
    if 'err' in impl:
        # the synthesised container itself was rejected: outside C17 (no name was reported); kept visible in the histogram
        ctx.out.count('parse:impl-error:%s:%s' % (case['stream'], impl['err']))
        return
    ctx.out.case(case)
    if 'ok' in impl and isinstance(impl['ok'], str):
        n = impl['ok']
        if rep['std_names']:
            if n not in rep['std_names'] and n not in rep['legacy']:
                ctx.out.violation('property', stream, case, expect={'standard_names': rep['std_names']}, got=impl, model=model)
                return
        elif rep.get('verdict_known') and not rep.get('verdict_ok'):
            ctx.out.violation('property', stream, case, expect={'registry_values': rep.get('verdict_values')}, got=impl, model=model)
            return
    elif 'ok' in impl and rep['std_names']:
        ctx.out.violation('property', stream, case, expect={'standard_names': rep['std_names']}, got=impl, model=model)
        return
    if impl != model:
        ctx.out.violation('correspondence', stream, case, got=impl, model=model)


def ask_decodes(ctx, reqs):
    """reqs: [(tid, v)] → replies with the registry verdict on the model's name folded in."""
    reps = ctx.driver.ask_many([{'p': 'C17', 'k': 'decode', 'table': t, 'v': v} for t, v in reqs])
    for r in reps:
        if 'fatal' in r:
            raise RuntimeError(r['fatal'])
    return reps


ELF_FIELD_LAYOUT = {
    # struct: (size32, size64, {field: (off32, off64, nbytes32, nbytes64, kind)})
    'Elf_Shdr': (40, 64, {'sh_type': (4, 4, 4, 4, 'u')}),
    'Elf_Phdr': (32, 56, {'p_type': (0, 0, 4, 4, 'u')}),
    'Elf_Dyn': (8, 16, {'d_tag': (0, 0, 4, 8, 's')}),
    'Elf_Chdr': (12, 24, {'ch_type': (0, 0, 4, 4, 'u')}),
    'Elf_Sym': (16, 24, {'bind': (12, 4, 1, 1, 'hi4'), 'type': (12, 4, 1, 1, 'lo4'), 'visibility': (13, 5, 1, 1, 'lo3'),
                         'local': (13, 5, 1, 1, 'hi3'), 'st_shndx': (14, 6, 2, 2, 'u')}),
}


def put_field(size, off, nbytes, kind, le, code, filler):
    b = bytearray(filler[:size].ljust(size, b'\0'))
    if kind == 'u' or kind == 's':
        b[off:off + nbytes] = (code & ((1 << (8 * nbytes)) - 1)).to_bytes(nbytes, 'little' if le else 'big')
    elif kind == 'hi4':
        b[off] = ((code & 15) << 4) | (b[off] & 15)
    elif kind == 'lo4':
        b[off] = (b[off] & 0xf0) | (code & 15)
    elif kind == 'lo3':
        b[off] = (b[off] & 0xf8) | (code & 7)
    elif kind == 'hi3':
        b[off] = (b[off] & 0x1f) | ((code & 7) << 5)
    return bytes(b)


def field_bits(nbytes, kind):
    return {'hi4': 4, 'lo4': 4, 'lo3': 3, 'hi3': 3}.get(kind, 8 * nbytes)


def signed_of(code, nbytes):
    return code - (1 << (8 * nbytes)) if code >= 1 << (8 * nbytes - 1) else code


def elf_struct_case(c):
    """replayable: parse one struct with the real library; returns {'ok': name|int}"""
    from elftools.common.utils import struct_parse
    elf, _ = mk_elf(c['cls'], c['le'], c['machine'], c['osabi'])
    size32, size64, fields = ELF_FIELD_LAYOUT[c['struct']]
    off32, off64, n32, n64, kind = fields[c['field']]
    size, off, nb = (size32, off32, n32) if c['cls'] == 32 else (size64, off64, n64)
    data = put_field(size, off, nb, kind, c['le'], c['code'], bytes.fromhex(c['filler']))
    con = getattr(elf.structs, c['struct'])
    return run_impl(lambda: get_path(struct_parse(con, io.BytesIO(data), 0), c['field']))


def ehdr_case(c):
    """replayable: a whole ELF file through ELFFile; the header field as reported"""
    def f():
        kw = dict(cls=c['cls'], le=c['le'], e_type=2, machine=62, osabi=0)
        kw[{'e_type': 'e_type', 'e_machine': 'machine', 'EI_OSABI': 'osabi'}[c['field']]] = c['code']
        elf, _ = mk_elf(kw['cls'], kw['le'], kw['machine'], kw['osabi'], kw['e_type'])
        return elf.header['e_ident']['EI_OSABI'] if c['field'] == 'EI_OSABI' else elf.header[c['field']]
    return run_impl(f)


def reloc_case(c):
    """replayable: describe_reloc_type on a synthesised ELF of the architecture"""
    from elftools.elf.descriptions import describe_reloc_type
    elf, _ = mk_elf(c['cls'], c['le'], c['machine'])
    r = run_impl(lambda: describe_reloc_type(c['code'], elf))
    if r.get('ok') in ('<unknown>',) or (isinstance(r.get('ok'), str) and r['ok'].startswith('unrecognized')):
        return {'ok': c['code']}
    return r


def dwarf_case(c):
    """replayable: abbreviation table + CU with one DIE through DWARFInfo"""
    from common import uleb
    from elftools.dwarf.dwarfinfo import DWARFInfo, DwarfConfig, DebugSectionDescriptor

    def f():
        le = c['le']
        tag, at, form, ch = 0x11, 0x03, 0x0b, 0
        if c['field'] == 'tag': tag = c['code']
        if c['field'] == 'name': at = c['code']
        if c['field'] == 'form': form = c['code']
        if c['field'] == 'children_flag': ch = c['code']
        abbrev = uleb(1) + uleb(tag) + bytes([ch & 0xff]) + uleb(at) + uleb(form) + (b'\x2a' if form == 0x21 else b'') + b'\0\0' + b'\0'
        body = struct.pack('<H' if le else '>H', 4) + struct.pack('<I' if le else '>I', 0) + bytes([8]) + uleb(1) + b'\x2a' + b'\0'
        info = struct.pack('<I' if le else '>I', len(body)) + body

        def sec(name, data):
            return DebugSectionDescriptor(stream=io.BytesIO(data), name=name, global_offset=0, size=len(data), address=0)
        nil = None
        di = DWARFInfo(config=DwarfConfig(little_endian=le, machine_arch='x64', default_address_size=8),
                       debug_info_sec=sec('.debug_info', info), debug_aranges_sec=nil, debug_abbrev_sec=sec('.debug_abbrev', abbrev),
                       debug_frame_sec=nil, eh_frame_sec=nil, debug_str_sec=nil, debug_loc_sec=nil, debug_ranges_sec=nil,
                       debug_line_sec=nil, debug_pubtypes_sec=nil, debug_pubnames_sec=nil, debug_addr_sec=nil,
                       debug_str_offsets_sec=nil, debug_line_str_sec=nil, debug_loclists_sec=nil, debug_rnglists_sec=nil,
                       debug_sup_sec=nil, gnu_debugaltlink_sec=nil, debug_types_sec=nil)
        cu = next(di.iter_CUs())
        if c['field'] == 'tag' and c.get('via') == 'die':
            return cu.get_top_DIE().tag
        decl = cu.get_abbrev_table().get_abbrev(1).decl
        if c['field'] in ('tag', 'children_flag'):
            return decl[c['field']]
        return decl['attr_spec'][0][c['field']]
    return run_impl(f)


def op_case(c):
    from elftools.dwarf.dwarf_expr import DWARFExprParser
    from elftools.dwarf.structs import DWARFStructs

    def f():
        st = DWARFStructs(little_endian=c['le'], dwarf_format=32, address_size=8, dwarf_version=5)
        ops = DWARFExprParser(st).parse_expr(list(bytes([c['code']]) + b'\x30' * 80))   # operands and trailing ops: DW_OP_lit0
        n = ops[0].op_name
        return c['code'] if n.startswith('OP:0x') else n
    return run_impl(f)


def cfa_case(c):
    from elftools.dwarf.callframe import instruction_name
    r = run_impl(lambda: instruction_name(c['code']))
    return {'ok': c['code']} if r.get('err') == 'keyError' else r


RUNNERS = {'elf-struct': elf_struct_case, 'ehdr': ehdr_case, 'reloc': reloc_case, 'dwarf': dwarf_case, 'op': op_case, 'cfa': cfa_case}


def table_for_case(gen, c):
    """the table id governing a parse case (found from the live construct, not assumed)"""
    if c['stream'] == 'elf-struct':
        elf, _ = mk_elf(c['cls'], c['le'], c['machine'], c['osabi'])
        for path, ad in enum_fields(getattr(elf.structs, c['struct'])):
            if path[-1] == c['field']:
                return table_id_of(gen, ad)
        return None
    if c['stream'] == 'ehdr':
        return {'e_type': 'ENUM_E_TYPE', 'e_machine': 'ENUM_E_MACHINE', 'EI_OSABI': 'ENUM_EI_OSABI'}[c['field']]
    if c['stream'] == 'reloc':
        return c['table']
    if c['stream'] == 'dwarf':
        return {'tag': 'ENUM_DW_TAG', 'name': 'ENUM_DW_AT', 'form': 'ENUM_DW_FORM', 'children_flag': 'ENUM_DW_CHILDREN'}[c['field']]
    if c['stream'] == 'op':
        return 'DW_OP_opcode2name'
    if c['stream'] == 'cfa':
        return 'CFA_OPCODE_NAME_MAP'


def model_code(c):
    """the integer the decoded field holds for this case (what the table is asked about)"""
    if c['stream'] == 'elf-struct':
        _, _, fields = ELF_FIELD_LAYOUT[c['struct']]
        off32, off64, n32, n64, kind = fields[c['field']]
        nb = n32 if c['cls'] == 32 else n64
        code = c['code'] & ((1 << field_bits(nb, kind)) - 1)
        return signed_of(code, nb) if kind == 's' else code
    if c['stream'] == 'ehdr':
        return c['code'] & (0xff if c['field'] == 'EI_OSABI' else 0xffff)
    if c['stream'] == 'cfa':
        return (c['code'] & 0xc0) if c['code'] & 0xc0 else c['code']
    return c['code']


def gen_parse_cases(ctx, gen):
    rng = ctx.rng('parse')
    reg, _ = load_tsv()
    cases = []
    few = ctx.tier == 'quick'
    # ELF header through whole files
    for fld, tid, bits in (('e_type', 'ENUM_E_TYPE', 16), ('e_machine', 'ENUM_E_MACHINE', 16), ('EI_OSABI', 'ENUM_EI_OSABI', 8)):
        for code in code_pool(rng, gen[tid], reg, bits, 30 if few else 400):
            cases.append({'stream': 'ehdr', 'field': fld, 'code': code, 'cls': rng.choice([32, 64]), 'le': rng.random() < 0.5})
    # struct-level fields under every configuration that changes the table
    cfgs = [(m, 0) for _, m in MACHINES] + [(62, 6), (0xfe01, 0)]        # + Solaris, + an unnamed machine
    for machine, osabi in cfgs:
        for sname, (s32, s64, fields) in ELF_FIELD_LAYOUT.items():
            for fld, (o32, o64, n32, n64, kind) in fields.items():
                if (sname, fld) not in (('Elf_Shdr', 'sh_type'), ('Elf_Phdr', 'p_type'), ('Elf_Dyn', 'd_tag')) and (machine, osabi) != (62, 0):
                    continue            # machine-independent tables: once
                for cls in (32, 64):
                    probe = {'stream': 'elf-struct', 'struct': sname, 'field': fld, 'cls': cls, 'le': True, 'machine': machine, 'osabi': osabi}
                    tid = table_for_case(gen, probe)
                    if tid is None:
                        ctx.out.count('parse:no-table:%s.%s' % (sname, fld))
                        continue
                    nb = n32 if cls == 32 else n64
                    bits = field_bits(nb, kind)
                    pool = code_pool(rng, gen[tid], reg, min(bits, 32), 12 if few else 200)
                    if kind == 's':
                        pool = sorted(set(pool) | {(1 << (8 * nb)) - 1, 1 << (8 * nb - 1)})
                    for code in pool:
                        cases.append(dict(probe, code=code, le=rng.random() < 0.5, tid=tid,
                                          filler=hx(bytes(rng.randrange(256) for _ in range(s64))) if rng.random() < 0.5 else ''))
    # relocation type names per architecture
    for arch, machine, cls, tid in (('ARM', 40, 32, 'ENUM_RELOC_TYPE_ARM'), ('AArch64', 183, 64, 'ENUM_RELOC_TYPE_AARCH64'),
                                    ('x64', 62, 64, 'ENUM_RELOC_TYPE_x64'), ('x86', 3, 32, 'ENUM_RELOC_TYPE_i386'),
                                    ('MIPS', 8, 32, 'ENUM_RELOC_TYPE_MIPS'), ('PPC64', 21, 64, 'ENUM_RELOC_TYPE_PPC64'),
                                    ('PPC', 20, 32, 'ENUM_RELOC_TYPE_PPC'), ('S390', 22, 64, 'ENUM_RELOC_TYPE_S390X'),
                                    ('LoongArch', 258, 64, 'ENUM_RELOC_TYPE_LOONGARCH')):
        for code in code_pool(rng, gen[tid], reg, 32, 10 if few else 200):
            cases.append({'stream': 'reloc', 'table': tid, 'machine': machine, 'cls': cls, 'le': machine not in (21, 20, 22), 'code': code})
    # DWARF abbreviation declarations / DIEs
    for fld, tid, bits in (('tag', 'ENUM_DW_TAG', 16), ('name', 'ENUM_DW_AT', 16), ('form', 'ENUM_DW_FORM', 16), ('children_flag', 'ENUM_DW_CHILDREN', 8)):
        for code in code_pool(rng, gen[tid], reg, bits, 20 if few else 300):
            if code == 0 and fld in ('tag', 'name', 'form'):
                continue        # 0 terminates the declaration / attribute list
            cases.append({'stream': 'dwarf', 'field': fld, 'code': code, 'le': rng.random() < 0.5})
            if fld == 'tag':
                cases.append({'stream': 'dwarf', 'field': fld, 'code': code, 'le': rng.random() < 0.5, 'via': 'die'})
    for code in range(256):
        cases.append({'stream': 'op', 'code': code, 'le': True})
        cases.append({'stream': 'cfa', 'code': code})
    return cases


def run_case(ctx, gen, c, rep=None):
    tid = c.get('tid') or table_for_case(gen, c)
    v = model_code(c)
    if rep is None:
        rep = ask_decodes(ctx, [(tid, v)])[0]
    impl = RUNNERS[c['stream']](c)
    if 'ok' in impl and isinstance(impl['ok'], str) and not rep['std_names']:
        vd = ctx.driver.ask({'p': 'C17', 'k': 'verdict', 'name': impl['ok'], 'v': v})
        rep = dict(rep, verdict_known=vd['known'], verdict_ok=vd['ok'], verdict_values=vd['values'])
    return tid, v, impl, rep


def run_parse(ctx, gen):
    cases = gen_parse_cases(ctx, gen)
    tids = [c.get('tid') or table_for_case(gen, c) for c in cases]
    reps = ask_decodes(ctx, [(t, model_code(c)) for t, c in zip(tids, cases)])
    for c, tid, rep in zip(cases, tids, reps):
        c = dict(c, tid=tid)
        _, v, impl, rep = run_case(ctx, gen, c, rep)
        key = c['stream'] + (':' + c.get('struct', '') + '.' + c['field'] if 'field' in c else '')
        ctx.out.count('parse:' + key)
        judge(ctx, 'parse', c, tid, v, impl, rep)


def run(ctx):
    gen = run_ties(ctx)
    sc = [[n, v] for n, v in _legacy(ctx)]
    run_direct(ctx, sc)
    run_reverse(ctx)
    run_parse(ctx, gen)


def _legacy(ctx):
    """the legacy-alias decisions, read from the Lean side through the decode handler's own list"""
    # (names, codes) as listed in Spec/RegistryDecisions.lean; selfcheck ties them to the Nat-key list the theorems use
    path = os.path.join(VERIF, 'lean', 'PyElf', 'Spec', 'RegistryDecisions.lean')
    import re
    txt = open(path).read()
    blk = txt[txt.index('def legacyAliasNames'):]
    return [(m.group(1), int(m.group(2))) for m in re.finditer(r'\("([^"]+)", (\d+)\)', blk)]


def replay(ctx, payload):
    v = payload['violation']
    case, stream = v['case'], v['stream']
    res = {'stream': stream, 'case': case}
    if stream == 'direct':
        reg, src = load_tsv()
        live = {t: dict(i) for t, i, _ in live_tables()}
        val = live.get(case['table'], {}).get(case['name'])
        vs = reg.get(case['name'])
        res.update(impl=val, expect={'registry_values': vs, 'sources': src.get(case['name'])},
                   fails=(val is not None and vs is not None and val not in vs))
    elif stream == 'direct-decode':
        reg, _ = load_tsv()
        items = {t: i for t, i, _ in live_tables()}.get(case['table'], [])
        rev = dict((x, k) for k, x in items)
        k2 = rev.get(case['code'])
        std = [n for n, x in items if x == case['code'] and n in reg and case['code'] in reg[n]]
        known = [n for n, x in items if x == case['code'] and n in reg]
        res.update(impl=k2, expect={'standard_names': std},
                   fails=bool(known) and k2 not in std and (k2, case['code']) not in _legacy(ctx))
    elif stream == 'direct-marker':
        items = {t: i for t, i, _ in live_tables()}.get(case['table'], [])
        rev = dict((x, k) for k, x in items)
        k2 = rev.get(case['code'])
        hidden = marker_shadow(items, case['code'], k2) if k2 is not None else []
        res.update(impl=k2, expect={'standard_names': hidden}, fails=bool(hidden))
    elif stream == 'direct-reverse':
        tabs = {t: i for t, i, _ in live_tables()}
        rev, fwd = tabs.get(case['reverse'], []), tabs.get(case['forward'], [])
        names = [n for n, x in rev if x == case['code']]
        fnames = [n for n, x in fwd if x == case['code']]
        res.update(impl=names, expect={'forward_names': fnames},
                   fails=(bool(fnames) and not names) or any(n not in fnames for n in names))
    elif stream == 'parse':
        t = ctx.driver.ask({'p': 'C17', 'k': 'tables'})
        gen = {x['id']: [tuple(i) for i in x['items']] for x in t['tables']}
        tid, code, impl, rep = run_case(ctx, gen, case)
        fails = False
        if 'ok' in impl and isinstance(impl['ok'], str):
            if rep['std_names']:
                fails = impl['ok'] not in rep['std_names'] and impl['ok'] not in rep['legacy']
            else:
                fails = bool(rep.get('verdict_known')) and not rep.get('verdict_ok')
        elif 'ok' in impl and rep['std_names']:
            fails = True
        res.update(table=tid, code=code, impl=impl, model={'ok': rep['model']}, expect={'standard_names': rep['std_names'],
                   'registry_values_of_reported_name': rep.get('verdict_values')}, fails=fails or (v['kind'] == 'correspondence' and impl != {'ok': rep['model']}))
    else:
        # tie streams: re-run them
        ctx2 = ctx
        n0 = len(ctx2.out.violations)
        run_ties(ctx2)
        res.update(fails=len(ctx2.out.violations) > n0, violations=ctx2.out.violations[n0:][:3])
    return res
